//go:build verif

package object

// C29 "Every object RPC checks authenticity and access before any effect".
//
// Every RPC of the object service (enumerated by reflection) is called with requests whose
// authenticity / token / ACL status is decided by the tape; the oracle is a small model of who
// may do what (written from the statement and the NeoFS ACL rules), never the server's verdict.

import (
	"bytes"
	"context"
	"fmt"
	"sort"
	"strings"
	"time"

	"github.com/google/uuid"
	"github.com/nspcc-dev/neofs-node/pkg/network/peerauth"
	"github.com/nspcc-dev/neofs-sdk-go/bearer"
	"github.com/nspcc-dev/neofs-sdk-go/container/acl"
	cid "github.com/nspcc-dev/neofs-sdk-go/container/id"
	neofscrypto "github.com/nspcc-dev/neofs-sdk-go/crypto"
	"github.com/nspcc-dev/neofs-sdk-go/eacl"
	"github.com/nspcc-dev/neofs-sdk-go/object"
	oid "github.com/nspcc-dev/neofs-sdk-go/object/id"
	protoacl "github.com/nspcc-dev/neofs-sdk-go/proto/acl"
	protoobject "github.com/nspcc-dev/neofs-sdk-go/proto/object"
	"github.com/nspcc-dev/neofs-sdk-go/proto/refs"
	protosession "github.com/nspcc-dev/neofs-sdk-go/proto/session"
	"github.com/nspcc-dev/neofs-sdk-go/session"
	sessionv2 "github.com/nspcc-dev/neofs-sdk-go/session/v2"
	"github.com/nspcc-dev/neofs-sdk-go/version"
	grpccodes "google.golang.org/grpc/codes"
	"google.golang.org/grpc/peer"
	grpcstatus "google.golang.org/grpc/status"
	"google.golang.org/protobuf/proto"

	"verif/simkit"
)

func propC29() *simkit.Property {
	return &simkit.Property{
		ID: "C29", Level: "exploration", Bubble: false, TapeLimit: 1200, PanicIsInfra: true,
		Rule: "each run = one server world (4 containers with tape-chosen eACL, local+remote objects, moving epoch) and a history of 6-12 object RPCs, " +
			"each with a tape-chosen handler (reflection-enumerated), sender, auth mode (plain/session/bearer) and one authenticity/token/ACL defect or none; " +
			"distinct = trace digest (ops, variants, statuses, effect kinds); non-trivial = at least one request that had to be refused was refused and " +
			"at least one permitted request produced its effect",
		Run: runC29,
		Assumptions: []string{
			"the SDK's signature, token and eACL-table primitives are trusted (requests/tokens are made with them)",
			"token check caches are reset on every epoch tick, as the node's epoch handler does",
			"a remote container node enforces ACL on requests forwarded to it unchanged (the fake remote node does not; header-time denial is therefore not demanded when the server is a pure proxy)",
			"Handlers.Put(ctx) (creation of an empty stream before the first message) is not an effect",
		},
		Components: map[string]string{
			"object.Server (all handlers, signature verification, meta header/token handling)": "real",
			"acl/v2.Service (request classification, session/bearer verification) + acl.Checker (basic ACL, eACL via SDK validator)": "real",
			"placement.Service (container node sets per epoch)":                                   "real",
			"getsvc.Service / putsvc.Service behind Handlers":                                      "real, entry recorded",
			"deletesvc":                                                                            "stub: recording",
			"local storage":                                                                        "real one-shard engine; blob storage behind a recording proxy; put-service object storage = recording fake",
			"other nodes":                                                                          "simulated: one in-memory gRPC node serving the run's remote objects, every dial/connection/RPC recorded",
			"FS chain (epochs, netmaps, containers, eACL, maintenance)":                            "simulated",
		},
	}
}

// ---------------------------------------------------------------------------------------------
// model of eACL rules (independent of the SDK validator)

type ruleKind int

const (
	rulePlain   ruleKind = iota // no filter
	ruleObjAttr                 // object attribute Tag == secret (needs the object's header)
	ruleObjID                   // object ID == a given object (known from the request address)
	ruleXHeader                 // request X-header x-deny == 1
)

type simRule struct {
	deny bool
	ops  map[acl.Op]bool
	kind ruleKind
	obj  oid.ID // for ruleObjID
}

func (x simRule) String() string {
	a := "ALLOW"
	if x.deny {
		a = "DENY"
	}
	var ops []string
	for op := range x.ops {
		ops = append(ops, op.String())
	}
	sort.Strings(ops)
	return fmt.Sprintf("%s[%s]%s", a, strings.Join(ops, ","), [...]string{"", "+objattr", "+objid", "+xheader"}[x.kind])
}

func eaclOp(op acl.Op) eacl.Operation {
	switch op {
	case acl.OpObjectGet:
		return eacl.OperationGet
	case acl.OpObjectHead:
		return eacl.OperationHead
	case acl.OpObjectPut:
		return eacl.OperationPut
	case acl.OpObjectDelete:
		return eacl.OperationDelete
	case acl.OpObjectSearch:
		return eacl.OperationSearch
	case acl.OpObjectRange:
		return eacl.OperationRange
	case acl.OpObjectHash:
		return eacl.OperationRangeHash
	}
	panic("unknown op")
}

func tableFromRules(cnr cid.ID, rules []simRule) eacl.Table {
	var recs []eacl.Record
	for _, ru := range rules {
		ops := make([]acl.Op, 0, len(ru.ops))
		for op := range ru.ops {
			ops = append(ops, op)
		}
		sort.Slice(ops, func(i, j int) bool { return ops[i] < ops[j] })
		for _, op := range ops {
			act := eacl.ActionAllow
			if ru.deny {
				act = eacl.ActionDeny
			}
			var fs []eacl.Filter
			switch ru.kind {
			case ruleObjAttr:
				fs = append(fs, eacl.NewObjectPropertyFilter(secretAttr, eacl.MatchStringEqual, secretVal))
			case ruleObjID:
				fs = append(fs, eacl.NewFilterObjectWithID(ru.obj))
			case ruleXHeader:
				fs = append(fs, eacl.NewRequestHeaderFilter("x-deny", eacl.MatchStringEqual, "1"))
			}
			recs = append(recs, eacl.ConstructRecord(act, eaclOp(op), []eacl.Target{eacl.NewTargetByRole(eacl.RoleOthers)}, fs...))
		}
	}
	// NOTE: records are grouped by rule then by op; a request has exactly one op, so the relative
	// order of the records that can apply to it equals the order of the rules.
	return eacl.NewTableForContainer(cnr, recs)
}

// verdict of the model for one request
type expectation int

const (
	expAny    expectation = iota // the statement fixes nothing (e.g. missing object)
	expOK                        // permitted and servable: must succeed and produce its effect
	expEarly                     // must be refused before any effect
	expHeader                    // must be refused once the header is known: nothing but an error reaches the client
)

func (e expectation) String() string { return [...]string{"any", "ok", "refuse-early", "refuse-at-header"}[e] }

// evalRules: first rule whose op, target (others) and filter match decides; default allow.
// headerDep reports that the decision could only be taken with the object's header.
func evalRules(rules []simRule, op acl.Op, secret, known bool, id oid.ID, xdeny bool) (deny, headerDep bool) {
	for _, ru := range rules {
		if !ru.ops[op] {
			continue
		}
		switch ru.kind {
		case rulePlain:
			return ru.deny, headerDep
		case ruleObjAttr:
			if op == acl.OpObjectGet || op == acl.OpObjectHead {
				headerDep = true
			}
			if known && secret {
				return ru.deny, headerDep
			}
		case ruleObjID:
			// $Object:objectID is a filter of the OBJECT header type: for GET/HEAD NeoFS evaluates
			// object-type filters against the object's header (complete header set), so the
			// decision may legitimately wait for the header even though the ID is in the address.
			if op == acl.OpObjectGet || op == acl.OpObjectHead {
				headerDep = true
			}
			if !id.IsZero() && id == ru.obj {
				return ru.deny, headerDep
			}
		case ruleXHeader:
			if xdeny {
				return ru.deny, headerDep
			}
		}
	}
	return false, headerDep
}

// ---------------------------------------------------------------------------------------------
// RPC registry: how to build a request for every handler the descriptor lists

type rpcSpec struct {
	op        acl.Op
	client    bool // a client object operation (else: node-to-node entry point, C31's subject)
	supported bool // false: the node answers Unimplemented whatever the request is
	addressed bool // request names one object
}

var rpcRegistry = map[string]rpcSpec{
	"Get":          {op: acl.OpObjectGet, client: true, supported: true, addressed: true},
	"Head":         {op: acl.OpObjectHead, client: true, supported: true, addressed: true},
	"GetRange":     {op: acl.OpObjectRange, client: true, supported: true, addressed: true},
	"GetRangeHash": {op: acl.OpObjectHash, client: true, supported: false, addressed: true},
	"Put":          {op: acl.OpObjectPut, client: true, supported: true},
	"Delete":       {op: acl.OpObjectDelete, client: true, supported: true, addressed: true},
	"Search":       {op: acl.OpObjectSearch, client: true, supported: false},
	"SearchV2":     {op: acl.OpObjectSearch, client: true, supported: true},
	"Replicate":    {client: false, supported: true},
}

func specOf(name string) rpcSpec {
	s, ok := rpcRegistry[name]
	if !ok {
		panic("objsvc harness: the service descriptor lists RPC " + name + " for which the harness has no request builder")
	}
	return s
}

// reqShape: everything the tape chose about one request.
type reqShape struct {
	rpc      string
	cnr      int
	obj      *simObject // nil: no such object / not addressed
	ghost    bool       // addressed object exists nowhere
	ttl      uint32
	ver      version.Version
	xdeny    bool
	rngMode  int // Get only: 0 whole, 1 Range, 2 ExtendedRange
	pldOnly  bool
	newObj   *object.Object // Put
	newSecret bool
	chunks   int
}

func addrMsg(c cid.ID, o oid.ID) *refs.Address {
	return &refs.Address{ContainerId: c.ProtoMessage(), ObjectId: o.ProtoMessage()}
}

func (w *objWorld) buildRequest(sh *reqShape, mh *protosession.RequestMetaHeader) any {
	c := w.cnrIDs[sh.cnr]
	var id oid.ID
	if sh.obj != nil {
		id = sh.obj.obj.GetID()
	} else {
		id = oid.ID(idFromSeed(w.seed, "ghost", sh.cnr))
	}
	switch sh.rpc {
	case "Get":
		b := &protoobject.GetRequest_Body{Address: addrMsg(c, id), PayloadOnly: sh.pldOnly}
		switch sh.rngMode {
		case 1:
			b.Range = &protoobject.Range{Offset: 1, Length: 3}
		case 2:
			f, l := uint64(1), uint64(3)
			b.ExtendedRange = &protoobject.ExtendedRange{FirstPos: &f, LastPos: &l}
		}
		return &protoobject.GetRequest{Body: b, MetaHeader: mh}
	case "Head":
		return &protoobject.HeadRequest{Body: &protoobject.HeadRequest_Body{Address: addrMsg(c, id)}, MetaHeader: mh}
	case "GetRange":
		return &protoobject.GetRangeRequest{Body: &protoobject.GetRangeRequest_Body{Address: addrMsg(c, id), Range: &protoobject.Range{Offset: 1, Length: 3}}, MetaHeader: mh}
	case "GetRangeHash":
		return &protoobject.GetRangeHashRequest{Body: &protoobject.GetRangeHashRequest_Body{Address: addrMsg(c, id),
			Ranges: []*protoobject.Range{{Offset: 0, Length: 1}}, Type: refs.ChecksumType_SHA256}, MetaHeader: mh}
	case "Delete":
		return &protoobject.DeleteRequest{Body: &protoobject.DeleteRequest_Body{Address: addrMsg(c, id)}, MetaHeader: mh}
	case "Search":
		return &protoobject.SearchRequest{Body: &protoobject.SearchRequest_Body{ContainerId: c.ProtoMessage(), Version: 1}, MetaHeader: mh}
	case "SearchV2":
		return &protoobject.SearchV2Request{Body: &protoobject.SearchV2Request_Body{ContainerId: c.ProtoMessage(), Version: 1, Count: 10}, MetaHeader: mh}
	case "Put":
		mo := sh.newObj.ProtoMessage()
		reqs := []*protoobject.PutRequest{{Body: &protoobject.PutRequest_Body{ObjectPart: &protoobject.PutRequest_Body_Init_{
			Init: &protoobject.PutRequest_Body_Init{ObjectId: mo.ObjectId, Signature: mo.Signature, Header: mo.Header}}}, MetaHeader: mh}}
		pl := sh.newObj.Payload()
		n := sh.chunks
		if n < 1 {
			n = 1
		}
		for i := 0; i < n; i++ {
			from, to := len(pl)*i/n, len(pl)*(i+1)/n
			reqs = append(reqs, &protoobject.PutRequest{Body: &protoobject.PutRequest_Body{ObjectPart: &protoobject.PutRequest_Body_Chunk{Chunk: pl[from:to]}},
				MetaHeader: proto.Clone(mh).(*protosession.RequestMetaHeader)})
		}
		return reqs
	}
	panic("objsvc harness: no request builder for RPC " + sh.rpc)
}

// tamperBody changes one field / one byte of an already signed request body.
func tamperBody(req any) {
	flip := func(a *refs.Address) { a.ObjectId.Value[len(a.ObjectId.Value)-1] ^= 1 }
	switch r := req.(type) {
	case *protoobject.GetRequest:
		flip(r.Body.Address)
	case *protoobject.HeadRequest:
		flip(r.Body.Address)
	case *protoobject.GetRangeRequest:
		r.Body.Range.Length++
	case *protoobject.GetRangeHashRequest:
		flip(r.Body.Address)
	case *protoobject.DeleteRequest:
		flip(r.Body.Address)
	case *protoobject.SearchRequest:
		r.Body.Version++
	case *protoobject.SearchV2Request:
		r.Body.Count++
	case *protoobject.PutRequest:
		switch p := r.Body.ObjectPart.(type) {
		case *protoobject.PutRequest_Body_Init_:
			p.Init.Header.CreationEpoch++
		case *protoobject.PutRequest_Body_Chunk:
			if len(p.Chunk) > 0 {
				p.Chunk = append([]byte(nil), p.Chunk...)
				p.Chunk[0] ^= 1
			} else {
				p.Chunk = []byte{1}
			}
		}
	default:
		panic(fmt.Sprintf("objsvc harness: no body mutator for %T", req))
	}
}

// signature defects
const (
	sigValid = iota
	sigUnsigned
	sigWrongKey
	sigBodyTamper
	sigMetaTamper
	sigCorrupt
	sigNoBodySig
	sigNoMetaSig
	sigStripLayer // old protocol version, two layers, origin layer removed
	sigDupLayer   // old protocol version, an extra verification layer without a meta layer
	sigCount
)

var sigNames = [...]string{"valid", "unsigned", "wrong-key", "body-tamper", "meta-tamper", "sig-corrupt", "no-body-sig", "no-meta-sig", "layer-stripped", "layer-duplicated"}

func mapSigs(vh *protosession.RequestVerificationHeader, f func(**refs.Signature)) {
	for ; vh != nil; vh = vh.Origin {
		f(&vh.BodySignature)
		f(&vh.MetaSignature)
		f(&vh.OriginSignature)
	}
}

// signWithDefect signs one request message as actor a and applies the defect.
func (w *objWorld) signWithDefect(req any, a *actor, scheme, defect int, pick uint32) {
	if defect == sigUnsigned {
		return
	}
	s := neofscrypto.Signer(a.signer(scheme))
	if defect == sigStripLayer || defect == sigDupLayer {
		// first hop signed by the sender, second hop by a container node, API < 2.25 (origin signatures)
		inner := getMetaHeader(req)
		setVerifyHeader(req, signRequest(s, req))
		outer := &protosession.RequestMetaHeader{Version: inner.Version, Ttl: inner.Ttl - 1, Origin: inner}
		setMetaHeader(req, outer)
		setVerifyHeader(req, signRequest(neofscrypto.Signer(w.nodes[1].signer(0)), req))
		vh := getVerifyHeader(req)
		if defect == sigStripLayer {
			vh.Origin = nil
		} else {
			cp := proto.Clone(vh).(*protosession.RequestVerificationHeader)
			cp.Origin = vh
			setVerifyHeader(req, cp)
		}
		return
	}
	setVerifyHeader(req, signRequest(s, req))
	vh := getVerifyHeader(req)
	switch defect {
	case sigWrongKey:
		mapSigs(vh, func(p **refs.Signature) {
			if *p != nil {
				(*p).Key = w.alien.pub
			}
		})
	case sigBodyTamper:
		tamperBody(req)
	case sigMetaTamper:
		mh := getMetaHeader(req)
		if pick%2 == 0 {
			mh.Ttl++
		} else {
			mh.XHeaders = append(mh.XHeaders, &protosession.XHeader{Key: "x-added", Value: "1"})
		}
	case sigCorrupt:
		sig := vh.BodySignature
		if pick%2 == 1 {
			sig = vh.MetaSignature
		}
		sig.Sign = append([]byte(nil), sig.Sign...)
		sig.Sign[int(pick/2)%len(sig.Sign)] ^= 0x40
	case sigNoBodySig:
		vh.BodySignature = nil
	case sigNoMetaSig:
		vh.MetaSignature = nil
	}
}

// token defects
const (
	tokNone = iota // no token
	tokValid
	tokBadSig
	tokForeignSigner // signed by a key that is not the issuer's
	tokExpired
	tokNotYet
	tokWrongVerb
	tokWrongCnr
	tokWrongObj
	tokCount
)

var tokNames = [...]string{"none", "valid", "bad-signature", "foreign-signer", "expired", "not-yet-valid", "wrong-verb", "wrong-container", "wrong-object"}

func sessionVerb(op acl.Op) session.ObjectVerb {
	switch op {
	case acl.OpObjectGet:
		return session.VerbObjectGet
	case acl.OpObjectHead:
		return session.VerbObjectHead
	case acl.OpObjectPut:
		return session.VerbObjectPut
	case acl.OpObjectDelete:
		return session.VerbObjectDelete
	case acl.OpObjectSearch:
		return session.VerbObjectSearch
	case acl.OpObjectRange:
		return session.VerbObjectRange
	case acl.OpObjectHash:
		return session.VerbObjectRangeHash
	}
	panic("unknown op")
}

func uuidFrom(seed uint32, n int) uuid.UUID {
	h := idFromSeed(seed, "uuid", n)
	var u uuid.UUID
	copy(u[:], h[:16])
	u[6] = (u[6] & 0x0f) | 0x40
	u[8] = (u[8] & 0x3f) | 0x80
	return u
}

// sessionToken builds a V1 object session token issued by the container owner to the key of
// `holder`, with the chosen defect.  Returns the message and whether the token is valid for the
// request at the current epoch according to the model.
func (w *objWorld) sessionToken(n int, holder *actor, op acl.Op, cnr int, obj oid.ID, defect int, life uint64) (*protosession.SessionToken, bool) {
	ep := w.epoch()
	var t session.Object
	t.SetID(uuidFrom(w.seed, n))
	t.SetAuthKey(holder.signer(0).Public())
	t.SetIat(ep - 1)
	t.SetNbf(ep - 1)
	t.SetExp(ep + life)
	verb := sessionVerb(op)
	c := w.cnrIDs[cnr]
	switch defect {
	case tokExpired:
		t.SetIat(ep - 3)
		t.SetNbf(ep - 3)
		t.SetExp(ep - 1)
	case tokNotYet:
		t.SetNbf(ep + 1)
		t.SetExp(ep + 3)
	case tokWrongVerb:
		// a verb no request of this kind accepts (acl/v2 accepts e.g. GET tokens for HEAD)
		if op == acl.OpObjectPut {
			verb = session.VerbObjectGet
		} else {
			verb = session.VerbObjectPut
		}
	case tokWrongCnr:
		c = w.cnrIDs[(cnr+1)%len(w.cnrIDs)]
	}
	t.ForVerb(verb)
	t.BindContainer(c)
	if defect == tokWrongObj {
		t.LimitByObjects(oid.ID(idFromSeed(w.seed, "otherobj", n)))
	} else if !obj.IsZero() && n%2 == 0 {
		t.LimitByObjects(obj)
	}
	signer := w.owner
	if defect == tokForeignSigner {
		t.SetIssuer(w.owner.id)
		if err := t.SetSignature(w.alien.signer(0)); err != nil {
			panic(err)
		}
	} else if err := t.Sign(signer.signer(0)); err != nil {
		panic(err)
	}
	m := t.ProtoMessage()
	if defect == tokBadSig {
		m.Signature.Sign = append([]byte(nil), m.Signature.Sign...)
		m.Signature.Sign[n%len(m.Signature.Sign)] ^= 0x10
	}
	return m, defect == tokValid
}

// bearer token: issued by the container owner (or not), carrying an eACL table for "others".
func (w *objWorld) bearerToken(n int, cnr int, rules []simRule, defect int, life uint64, forUser *actor) (*protoacl.BearerToken, bool) {
	ep := w.epoch()
	var t bearer.Token
	t.SetIat(ep - 1)
	t.SetNbf(ep - 1)
	t.SetExp(ep + life)
	c := w.cnrIDs[cnr]
	switch defect {
	case tokExpired:
		t.SetIat(ep - 3)
		t.SetNbf(ep - 3)
		t.SetExp(ep - 1)
	case tokNotYet:
		t.SetNbf(ep + 1)
		t.SetExp(ep + 3)
	case tokWrongCnr:
		c = w.cnrIDs[(cnr+1)%len(w.cnrIDs)]
	}
	t.SetEACLTable(tableFromRules(c, rules))
	if forUser != nil {
		t.ForUser(forUser.id)
	}
	if defect == tokWrongObj { // reused: token bound to another user
		t.ForUser(w.alien.id)
	}
	issuer := w.owner
	if defect == tokForeignSigner { // issued by somebody who does not own the container
		issuer = w.alien
	}
	if err := t.Sign(issuer.signer(0)); err != nil {
		panic(err)
	}
	m := t.ProtoMessage()
	if defect == tokBadSig {
		m.Signature.Sign = append([]byte(nil), m.Signature.Sign...)
		m.Signature.Sign[n%len(m.Signature.Sign)] ^= 0x10
	}
	return m, defect == tokValid
}

func sessionVerbV2(op acl.Op) sessionv2.Verb {
	switch op {
	case acl.OpObjectGet:
		return sessionv2.VerbObjectGet
	case acl.OpObjectHead:
		return sessionv2.VerbObjectHead
	case acl.OpObjectPut:
		return sessionv2.VerbObjectPut
	case acl.OpObjectDelete:
		return sessionv2.VerbObjectDelete
	case acl.OpObjectSearch:
		return sessionv2.VerbObjectSearch
	case acl.OpObjectRange:
		return sessionv2.VerbObjectRange
	case acl.OpObjectHash:
		return sessionv2.VerbObjectRangeHash
	}
	panic("unknown op")
}

// sessionTokenV2 builds a V2 session token issued by the container owner to `holder`; its
// lifetime is in chain time (the node compares it with its chain time provider).
func (w *objWorld) sessionTokenV2(n int, holder *actor, op acl.Op, cnr int, defect int, life uint64) (*protosession.SessionTokenV2, bool) {
	now := aclChain{c: w.chain}.Now()
	var t sessionv2.Token
	t.SetVersion(sessionv2.TokenCurrentVersion)
	t.SetIssuer(w.owner.id)
	if err := t.SetSubjects([]sessionv2.Target{sessionv2.NewTargetUser(holder.id)}); err != nil {
		panic(err)
	}
	t.SetIat(now.Add(-10 * time.Second))
	t.SetNbf(now.Add(-10 * time.Second))
	t.SetExp(now.Add(time.Duration(life)*240*time.Second + 100*time.Second))
	verb := sessionVerbV2(op)
	c := w.cnrIDs[cnr]
	switch defect {
	case tokExpired:
		t.SetIat(now.Add(-1000 * time.Second))
		t.SetNbf(now.Add(-1000 * time.Second))
		t.SetExp(now.Add(-5 * time.Second))
	case tokNotYet:
		t.SetNbf(now.Add(100 * time.Second))
		t.SetExp(now.Add(1000 * time.Second))
	case tokWrongVerb:
		if op == acl.OpObjectPut {
			verb = sessionv2.VerbObjectGet
		} else {
			verb = sessionv2.VerbObjectPut
		}
	case tokWrongCnr:
		c = w.cnrIDs[(cnr+1)%len(w.cnrIDs)]
	}
	ctx, err := sessionv2.NewContext(c, []sessionv2.Verb{verb})
	if err != nil {
		panic(err)
	}
	if err = t.SetContexts([]sessionv2.Context{ctx}); err != nil {
		panic(err)
	}
	signer := w.owner.signer(0)
	if defect == tokForeignSigner {
		signer = keyWithID(w.alien, w.owner) // claims to be the owner, signs with another key
	}
	if err = t.Sign(signer); err != nil {
		panic(err)
	}
	if defect == tokForeignSigner {
		t.SetIssuer(w.owner.id)
	}
	m := t.ProtoMessage()
	if defect == tokBadSig {
		m.Signature.Sign = append([]byte(nil), m.Signature.Sign...)
		m.Signature.Sign[n%len(m.Signature.Sign)] ^= 0x10
	}
	return m, defect == tokValid
}

// ---------------------------------------------------------------------------------------------
// the run

var c29Basic = []struct {
	name  string
	basic acl.Basic
}{
	{"eacl-public-rw", acl.PublicRWExtended},
	{"private", acl.Private},
	{"eacl-public-ro", acl.PublicROExtended},
	{"eacl-public-rw/server-outside", acl.PublicRWExtended},
	{"eacl-public-append", acl.PublicAppendExtended}, // others may write but not delete
}

// c29Members: which nodes carry each container's attribute (node 0 = the server).
var c29Members = map[int][]bool{0: {true, true, false, false, false}, 1: {true, true, false, false, false},
	2: {true, true, false, false, false}, 3: {false, true, true, false, false}, 4: {true, true, false, false, false}}

const c29OutsideCnr = 3 // the local node is not in this container: the server is a proxy

func allClientOps() map[acl.Op]bool {
	return map[acl.Op]bool{acl.OpObjectGet: true, acl.OpObjectHead: true, acl.OpObjectPut: true, acl.OpObjectDelete: true,
		acl.OpObjectSearch: true, acl.OpObjectRange: true, acl.OpObjectHash: true}
}

func runC29(r *simkit.R) {
	w := newObjWorld(r, worldCfg{epoch: uint64(10 + r.Intn(4)), withEngine: !r.Bool(20)})
	e0 := w.epoch()
	online := []bool{true, true, true, true, true}
	for e := e0 - 2; e <= e0+26; e++ { // (<= 12 steps, each may move the epoch by <= 2)
		w.chain.setEpochMembership(e, online, c29Members)
	}
	for i, b := range c29Basic {
		w.addContainer(i, b.basic)
	}
	withEngine := w.hasShard

	// objects: per container a public and a secret one, local and/or remote
	for ci := range c29Basic {
		for k := 0; k < 2; k++ {
			secret := k == 1
			tag := "public"
			if secret {
				tag = secretVal
			}
			local := withEngine && ci != c29OutsideCnr && r.Bool(50)
			pl := []byte(fmt.Sprintf("payload-of-cnr%d-%s-%08x", ci, tag, w.seed))
			so := &simObject{obj: w.newObject(ci, w.owner.signer(0), pl, [2]string{secretAttr, tag}), cnr: ci, local: local, secret: secret}
			w.seedObject(so)
		}
	}
	// late objects: stored nowhere yet; a replica may land in the local engine between the
	// server's access checks and the read (the header is then unknown at request time, local at read time)
	lateObjs := map[int]*simObject{}
	if withEngine {
		for ci := range c29Basic {
			if ci == c29OutsideCnr {
				continue
			}
			secret := !r.Bool(40)
			tag := "public"
			if secret {
				tag = secretVal
			}
			pl := []byte(fmt.Sprintf("late-payload-of-cnr%d-%s-%08x", ci, tag, w.seed))
			lateObjs[ci] = &simObject{obj: w.newObject(ci, w.owner.signer(0), pl, [2]string{secretAttr, tag}, [2]string{"Late", "1"}), cnr: ci, secret: secret, late: true}
		}
	}
	w.blobOn = true

	// eACL tables of the extendable containers
	rules := map[int][]simRule{}
	for _, ci := range []int{0, 2, 3, 4} {
		var rs []simRule
		if r.Bool(35) {
			rs = append(rs, simRule{deny: true, ops: allClientOps(), kind: ruleXHeader})
		}
		if r.Bool(60) {
			rs = append(rs, simRule{deny: true, ops: map[acl.Op]bool{acl.OpObjectGet: true, acl.OpObjectHead: true, acl.OpObjectPut: true}, kind: ruleObjAttr})
		}
		if r.Bool(35) {
			ops := map[acl.Op]bool{acl.OpObjectGet: true, acl.OpObjectHead: true, acl.OpObjectRange: true, acl.OpObjectDelete: true}
			rs = append(rs, simRule{deny: true, ops: ops, kind: ruleObjID, obj: w.objs[2*ci].obj.GetID()})
		}
		if r.Bool(35) {
			ops := map[acl.Op]bool{}
			all := []acl.Op{acl.OpObjectGet, acl.OpObjectHead, acl.OpObjectPut, acl.OpObjectDelete, acl.OpObjectSearch, acl.OpObjectRange}
			for _, op := range all {
				if r.Bool(35) {
					ops[op] = true
				}
			}
			if len(ops) > 0 {
				rs = append(rs, simRule{deny: true, ops: ops, kind: rulePlain})
			}
		}
		rules[ci] = rs
		if len(rs) > 0 || r.Bool(30) {
			w.chain.mu.Lock()
			w.chain.eacls[w.cnrIDs[ci]] = tableFromRules(w.cnrIDs[ci], rs)
			w.chain.mu.Unlock()
		}
		var ss []string
		for _, x := range rs {
			ss = append(ss, x.String())
		}
		r.Logf("cnr%d %s eacl: %s", ci, c29Basic[ci].name, strings.Join(ss, " ; "))
	}
	r.Logf("engine=%v epoch=%d rpcs=%d", withEngine, e0, len(w.rpcs))

	var clientRPCs []rpcInfo
	for _, i := range w.rpcs {
		if specOf(i.name).client {
			clientRPCs = append(clientRPCs, i)
		}
	}

	steps := 6 + r.Intn(7)
	refusedOK, servedOK := 0, 0
	for step := 0; step < steps && !r.Violated(); step++ {
		r.Step()
		if r.Bool(25) {
			d := uint64(1 + r.Intn(2))
			w.setEpoch(w.epoch() + d)
			r.Logf("epoch -> %d", w.epoch())
		}
		weights := make([]int, len(clientRPCs))
		for i, ci := range clientRPCs {
			weights[i] = 4
			if !specOf(ci.name).supported {
				weights[i] = 1 // answered Unimplemented whatever the request is: cheap, uninteresting
			}
		}
		info := clientRPCs[r.Weighted(weights...)]
		spec := specOf(info.name)
		sh := &reqShape{rpc: info.name, cnr: r.Intn(len(c29Basic)), ver: version.Current()}
		// directed scenario: a plain, correctly signed GET/HEAD by "others" of the secret object of a
		// container whose eACL has an object-header rule (the decision needs the header)
		directed := false
		if r.Bool(12) {
			var cand []int
			for _, ci := range []int{0, 2} {
				for _, ru := range rules[ci] {
					if ru.kind == ruleObjAttr || ru.kind == ruleObjID {
						cand = append(cand, ci)
						break
					}
				}
			}
			if len(cand) > 0 {
				directed = true
				sh.cnr = cand[r.Intn(len(cand))]
				info = w.rpc([]string{"Get", "Head"}[r.Intn(2)])
				spec = specOf(info.name)
				sh.rpc = info.name
			}
		}
		arriving := false // the addressed late object lands locally while this request is being served
		isRead := info.name == "Get" || info.name == "Head" || info.name == "GetRange"
		if directed {
			sh.obj = w.objs[2*sh.cnr+1]
			if lo := lateObjs[sh.cnr]; lo != nil && lo.late && lo.secret && r.Bool(50) {
				sh.obj, arriving = lo, true
			}
		} else if spec.addressed {
			switch r.Weighted(6, 6, 1) {
			case 0:
				sh.obj = w.objs[2*sh.cnr]
			case 1:
				sh.obj = w.objs[2*sh.cnr+1]
			default:
				sh.ghost = true
			}
			if lo := lateObjs[sh.cnr]; lo != nil && isRead && r.Bool(18) {
				sh.obj, sh.ghost = lo, false
				arriving = lo.late && !r.Bool(20)
			}
		}
		lateMissing := sh.obj != nil && sh.obj.late && !arriving // addressed object exists nowhere (yet)
		effLocal := sh.obj != nil && (sh.obj.local || arriving)
		sh.ttl = uint32(2 - r.Intn(2))
		if sh.obj != nil && !effLocal && r.Bool(80) {
			sh.ttl = 2 // a remote object can only be served with TTL > 1
		}
		sh.xdeny = r.Bool(20)
		if info.name == "Get" {
			sh.rngMode = r.Weighted(4, 2, 2)
			sh.pldOnly = r.Bool(30)
		}
		// sender and auth mode
		senderIdx := r.Weighted(5, 3, 2) // other, owner, container node 1
		sender := []*actor{w.other, w.owner, w.nodes[1]}[senderIdx]
		authMode := r.Weighted(6, 2, 2, 2) // plain, session V1, bearer, session V2
		defect := sigValid
		tokDefect := tokNone
		if r.Bool(45) {
			defect = 1 + r.Intn(sigCount-1)
		}
		if directed {
			senderIdx, sender, authMode, defect = 0, w.other, 0, sigValid
			sh.xdeny = false
		}
		if authMode != 0 {
			tokDefect = tokValid
			if defect == sigValid && r.Bool(55) {
				tokDefect = 2 + r.Intn(tokCount-2)
			}
			if tokDefect == tokWrongObj && authMode == 1 && !spec.addressed && info.name != "Put" {
				tokDefect = tokValid // a request that names no object cannot be outside the token's object list
			}
			if tokDefect == tokWrongObj && authMode == 3 {
				tokDefect = tokValid // V2 session tokens have no object list
			}
		}
		session := authMode == 1 || authMode == 3
		if defect == sigStripLayer || defect == sigDupLayer {
			sh.ver = version.New(2, 18)
			sh.ttl = 2
		} else if r.Bool(15) {
			sh.ver = version.New(2, 17) // signed responses
		}
		if info.name == "Put" {
			sh.newSecret = r.Bool(40)
			tag := "public"
			if sh.newSecret {
				tag = secretVal
			}
			objOwner := sender
			if session {
				objOwner = w.owner
			}
			pl := []byte(fmt.Sprintf("put-%d-%08x", step, w.seed))
			sh.newObj = w.newObject(sh.cnr, objOwner.signer(0), pl, [2]string{secretAttr, tag}, [2]string{"Step", fmt.Sprint(step)})
			sh.chunks = 1 + r.Intn(2)
		}

		mh := &protosession.RequestMetaHeader{Version: sh.ver.ProtoMessage(), Ttl: sh.ttl}
		if sh.xdeny {
			mh.XHeaders = append(mh.XHeaders, &protosession.XHeader{Key: "x-deny", Value: "1"})
		}
		var objID oid.ID
		if sh.obj != nil {
			objID = sh.obj.obj.GetID()
		} else if sh.newObj != nil {
			objID = sh.newObj.GetID()
		} else if sh.ghost {
			objID = oid.ID(idFromSeed(w.seed, "ghost", sh.cnr))
		}
		life := uint64(r.Intn(3))
		tokenValid := true
		var bearerRules []simRule
		bearerUsed := false
		switch authMode {
		case 1: // session token of the owner held by the sender
			if sender == w.owner {
				sender = w.other
				senderIdx = 0
			}
			var m *protosession.SessionToken
			m, tokenValid = w.sessionToken(step, sender, spec.op, sh.cnr, objID, tokDefect, life)
			mh.SessionToken = m
		case 2: // bearer token
			if r.Bool(50) {
				bearerRules = nil // empty table: everything follows the basic ACL
			} else {
				bearerRules = []simRule{{deny: true, ops: allClientOps(), kind: rulePlain}}
			}
			var forUser *actor
			if r.Bool(40) {
				forUser = sender
			}
			d := tokDefect
			if d == tokWrongVerb {
				d = tokValid // bearer tokens have no verb
				tokDefect = tokValid
			}
			var m *protoacl.BearerToken
			m, tokenValid = w.bearerToken(step, sh.cnr, bearerRules, d, life, forUser)
			mh.BearerToken = m
			bearerUsed = true
		case 3: // V2 session token of the owner for the sender
			if sender == w.owner {
				sender = w.other
				senderIdx = 0
			}
			mh.SessionTokenV2, tokenValid = w.sessionTokenV2(step, sender, spec.op, sh.cnr, tokDefect, life)
		}

		// ---- the model's verdict --------------------------------------------------------
		exp := expOK
		why := "permitted"
		basic := c29Basic[sh.cnr].basic
		role := acl.RoleOthers
		switch {
		case session: // session: the request acts as the token issuer (the owner)
			role = acl.RoleOwner
		case sender == w.owner:
			role = acl.RoleOwner
		case sender == w.nodes[1]:
			role = acl.RoleContainer
		}
		switch {
		case defect != sigValid:
			exp, why = expEarly, "signature:"+sigNames[defect]
		case !tokenValid:
			exp, why = expEarly, "token:"+tokNames[tokDefect]
		case !basic.IsOpAllowed(spec.op, role):
			exp, why = expEarly, "basic-acl"
		case basic.Extendable() && role == acl.RoleOthers:
			rs := rules[sh.cnr]
			if bearerUsed && basic.AllowedBearerRules(spec.op) {
				rs = bearerRules
			}
			secret, known := false, false
			if sh.obj != nil {
				secret, known = sh.obj.secret, true
			} else if sh.newObj != nil {
				secret, known = sh.newSecret, true
			}
			deny, hdrDep := evalRules(rs, spec.op, secret, known, objID, sh.xdeny)
			switch {
			case deny && !hdrDep:
				exp, why = expEarly, "eacl"
			case deny && sh.cnr == c29OutsideCnr:
				exp, why = expAny, "eacl-on-header/proxy"
			case deny:
				exp, why = expHeader, "eacl-on-header"
			}
		}
		if exp == expOK {
			switch {
			case !spec.supported:
				exp, why = expAny, "unsupported-rpc"
			case sh.ghost || lateMissing:
				exp, why = expAny, "no-such-object"
			case sh.obj != nil && !effLocal && sh.ttl == 1:
				exp, why = expAny, "remote-object-ttl1"
			case sh.obj != nil && !effLocal && session:
				exp, why = expAny, "remote-object-session" // the node has no private session key to act on behalf
			case sh.cnr == c29OutsideCnr && sh.ttl == 1:
				exp, why = expAny, "proxy-ttl1"
			}
		}
		if exp == expHeader && (sh.ghost || lateMissing) {
			exp, why = expAny, "no-such-object"
		}
		if exp == expHeader && arriving {
			why = "eacl-on-header/late-local"
		}
		// (a DELETE-verb token limited to other objects is invalid for an addressed Delete as well: only
		// the upload of a tombstone, whose ID the issuer cannot know, is exempt from the object list)

		// ---- build, sign, send ------------------------------------------------------------
		req := w.buildRequest(sh, mh)
		scheme := r.Intn(3)
		pick := r.U32()
		if reqs, ok := req.([]*protoobject.PutRequest); ok {
			bad := 0
			if defect != sigValid {
				bad = r.Intn(len(reqs))
			}
			for i, m := range reqs {
				d := sigValid
				if i == bad {
					d = defect
				}
				w.signWithDefect(m, sender, scheme, d, pick)
			}
		} else {
			w.signWithDefect(req, sender, scheme, defect, pick)
		}
		ctx := context.Background()
		trusted := false
		if defect != sigValid && r.Bool(35) {
			// a request over a mutually authenticated connection: acceptable without a verification
			// header only with TTL 1; a verification header that IS attached must verify whoever sends it
			ctx = peer.NewContext(ctx, &peer.Peer{AuthInfo: peerauth.AuthInfo{PublicKey: w.nodes[1].key.PublicKey()}})
			trusted = true
			if defect == sigUnsigned && sh.ttl == 1 {
				exp, why = expAny, "trusted-peer-ttl1"
			} else if defect != sigUnsigned {
				r.Probe("wrongly signed request over a mutually authenticated connection")
			}
		}

		target := "-"
		if sh.obj != nil {
			target = map[bool]string{true: "local", false: "remote"}[sh.obj.local]
			if sh.obj.late {
				target = "late(arriving=" + fmt.Sprint(arriving) + ")"
			}
			target += map[bool]string{true: "/secret", false: "/public"}[sh.obj.secret]
		} else if sh.ghost {
			target = "ghost"
		} else if sh.newObj != nil {
			target = "new" + map[bool]string{true: "/secret", false: "/public"}[sh.newSecret]
		}
		r.Op("%s cnr%d obj=%s ttl=%d v=%s sender=%s auth=%s/%s sig=%s xdeny=%v rng=%d/%v trusted=%v expect=%s(%s)",
			info.name, sh.cnr, target, sh.ttl, sh.ver.String(), sender.name, [...]string{"plain", "session", "bearer", "session-v2"}[authMode], tokNames[tokDefect],
			sigNames[defect], sh.xdeny, sh.rngMode, sh.pldOnly, trusted, exp, why)

		if arriving {
			so := sh.obj
			w.handlers.onRead = func() { w.arriveLocally(so); r.Probe("late-object-arrived-between-checks-and-read") }
		}
		mark := w.rec.mark()
		storedBefore := w.objStore.count()
		out := callRPC(ctx, info, req)
		w.handlers.onRead = nil
		effs := w.rec.since(mark)
		data := dataEffects(effs)
		r.Logf("  -> %s %s effects: %s", out, codeName(out.code), compact(effs))

		sig := info.name + "/" + why
		switch exp {
		case expEarly:
			r.Fired(why)
			if !out.failed() {
				r.Failf("accepted-bad-request", sig, "%s: request that must be refused (%s) got status OK; effects: %s", info.name, why, compact(effs))
			}
			if len(data) > 0 {
				r.Failf("effect-before-check", sig, "%s: request that must be refused (%s, answered %s) caused effects: %s", info.name, why, out, compact(data))
			}
			if out.hdrMsgs > 0 || out.pldBytes > 0 {
				r.Failf("data-to-refused-client", sig, "%s: refused request (%s) still delivered %d header message(s) and %d payload byte(s)", info.name, why, out.hdrMsgs, out.pldBytes)
			}
			if w.objStore.count() != storedBefore {
				r.Failf("effect-before-check", sig, "%s: refused request (%s) stored an object", info.name, why)
			}
			refusedOK++
		case expHeader:
			r.Fired(why)
			r.Probe("header-time-eacl/" + info.name)
			if !out.failed() {
				r.Failf("accepted-bad-request", sig, "%s: request denied by an eACL rule on the object's header got status OK", info.name)
			}
			if out.hdrMsgs > 0 || out.pldBytes > 0 {
				r.Failf("data-before-eacl", sig, "%s: request denied by an eACL rule on the object's header delivered %d header message(s) and %d payload byte(s) to the client",
					info.name, out.hdrMsgs, out.pldBytes)
			}
			for _, k := range data {
				if strings.HasPrefix(k, "store:") || strings.HasPrefix(k, effBlobWrite) || k == effReplicate {
					r.Failf("effect-before-check", sig, "%s: request denied on header caused a write effect %s", info.name, k)
				}
			}
			if len(data) == 0 {
				r.Probe("header-time-eacl-decided-without-effects")
			}
			for _, k := range data {
				if strings.HasPrefix(k, effBlobRead) {
					r.Probe("eacl-read-local-header")
				}
				if strings.HasPrefix(k, effRemote) {
					r.Probe("eacl-header-from-remote")
				}
			}
			refusedOK++
		case expOK:
			if out.failed() {
				r.Failf("refused-good-request", sig, "%s: permitted, servable request was refused: %s %q; effects: %s", info.name, out, out.msg, compact(effs))
			}
			c29CheckServed(r, w, info, sh, out, data, storedBefore)
			r.Probe("served/" + info.name)
			servedOK++
		case expAny:
			r.Probe("no-expectation/" + why)
			if !spec.supported {
				if out.rpcErr == nil || grpcstatus.Code(out.rpcErr) != grpccodes.Unimplemented || len(data) > 0 {
					// the RPC became supported: it needs a real builder and expectations
					panic(fmt.Sprintf("objsvc harness: RPC %s is registered as unsupported but answered %s with effects %s", info.name, out, compact(data)))
				}
			}
		}
	}
	if refusedOK > 0 && servedOK > 0 {
		r.Nontrivial()
	}
}

// c29CheckServed: a permitted request must have produced its effect and the right data.
func c29CheckServed(r *simkit.R, w *objWorld, info rpcInfo, sh *reqShape, out rpcOutcome, data []string, storedBefore int) {
	has := func(prefix string) bool {
		for _, k := range data {
			if strings.HasPrefix(k, prefix) {
				return true
			}
		}
		return false
	}
	sig := info.name + "/served"
	switch info.name {
	case "Get":
		if !has(effHandler + "get") {
			r.Failf("dead-harness", sig, "Get served without entering the get service")
		}
		want := sh.obj.obj.Payload()
		if sh.rngMode != 0 {
			want = want[1:4]
		}
		if !bytes.Equal(out.payload, want) {
			signed := sh.ver.Major() == 2 && sh.ver.Minor() <= 17 // the node signs responses for old clients
			r.Failf("wrong-data", fmt.Sprintf("Get/payload range=%v signed-response=%v with-header=%v local=%v", sh.rngMode != 0, signed, !sh.pldOnly, sh.obj.local),
				"Get (range mode %d, payload-only %v, API %s, object local=%v) returned payload %q, want %q", sh.rngMode, sh.pldOnly, sh.ver.String(), sh.obj.local, out.payload, want)
		}
		if !sh.pldOnly && out.hdrMsgs != 1 {
			r.Failf("wrong-data", sig, "Get returned %d header messages", out.hdrMsgs)
		}
		if sh.obj.local && !has(effBlobRead) || !sh.obj.local && !has(effRemote) {
			r.Failf("dead-harness", sig, "Get of a %v object recorded effects %s", sh.obj.local, compact(data))
		}
	case "Head":
		if !has(effHandler+"head") || out.hdrMsgs != 1 {
			r.Failf("dead-harness", sig, "Head served without header/handler: %s %s", out, compact(data))
		}
	case "GetRange":
		if !has(effHandler+"range") || !bytes.Equal(out.payload, sh.obj.obj.Payload()[1:4]) {
			r.Failf("wrong-data", sig, "GetRange returned %q effects %s", out.payload, compact(data))
		}
	case "Delete":
		if !has(effHandler + "delete") {
			r.Failf("dead-harness", sig, "Delete served without entering the delete service")
		}
	case "SearchV2":
		if !has(effSearchLocal) && !has(effRemote) {
			r.Failf("dead-harness", sig, "SearchV2 served without any search: %s", compact(data))
		}
	case "Put":
		if !(w.objStore.count() > storedBefore || has(effReplicate) || has(effRemote+"Put")) {
			r.Failf("dead-harness", sig, "Put acknowledged but nothing was stored or sent: %s", compact(data))
		}
	default:
		panic("objsvc harness: no served-check for RPC " + info.name)
	}
}
