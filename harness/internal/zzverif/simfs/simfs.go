// Package simfs is the simulated disk seam: the FSTree writers' raw syscalls are redirected
// here by build-time rewriting (rules/fs.json).  With no simulation installed every function
// is a plain pass-through.  With a simulation installed each call parks at a kernel gate
// until the scheduler grants it, optionally with a fault verdict.
package simfs

import (
	"fmt"
	"io/fs"
	"os"
	"path/filepath"
	"strings"
	"sync"
	"syscall"
	"time"

	"github.com/nspcc-dev/neofs-node/pkg/util"
	"golang.org/x/sys/unix"
	"verif/simkit"
)

// Verdicts chosen by the scheduler when it grants a syscall ticket.
const (
	VOK      = 0
	VENOSPC  = 1
	VEIO     = 2
	VEMFILE  = 3
	VEEXIST  = 4
	VShort   = 5 // short write: only a prefix is written, no error
	VEACCES  = 6
	VEINTRok = 7 // reserved
)

func errOf(v int) error {
	switch v {
	case VENOSPC:
		return unix.ENOSPC
	case VEIO:
		return unix.EIO
	case VEMFILE:
		return unix.EMFILE
	case VEEXIST:
		return unix.EEXIST
	case VEACCES:
		return unix.EACCES
	}
	return nil
}

// Call describes one intercepted call.
type Call struct {
	Seq  int
	Kind string // open, write, writev, linkat, fdatasync, close, openfile, fwrite, fclose, rename, remove, removeall, mkdirall
	Arg  string // path relative to root, or virtual fd
}

// FS is an installed simulation.
type FS struct {
	K    *simkit.Kernel
	Root string

	mu    sync.Mutex
	seq   int
	vfd   map[int]int
	nextV int
	Calls []Call
	// NoTmpfile makes the O_TMPFILE probe of the linux writer fail, selecting the generic writer.
	NoTmpfile bool
	// LockWaits counts lock acquisition retries (contention observed).
	LockWaits   int
	unlockEpoch int
}

var (
	hookMu sync.RWMutex
	hook   *FS
)

// Install activates fs (nil deactivates).  One simulation at a time per process.
func Install(f *FS) { hookMu.Lock(); hook = f; hookMu.Unlock() }

func cur() *FS { hookMu.RLock(); defer hookMu.RUnlock(); return hook }

func (f *FS) rel(p string) string {
	if r, err := filepath.Rel(f.Root, p); err == nil && !strings.HasPrefix(r, "..") {
		return r
	}
	return p
}

func (f *FS) fdName(fd int) string {
	f.mu.Lock()
	defer f.mu.Unlock()
	if v, ok := f.vfd[fd]; ok {
		return fmt.Sprintf("fd%d", v)
	}
	return "fd?"
}

func (f *FS) gate(kind, arg string) int {
	v := f.K.Gate("sys:" + kind + ":" + arg)
	f.mu.Lock()
	f.seq++
	f.Calls = append(f.Calls, Call{Seq: f.seq, Kind: kind, Arg: arg})
	f.mu.Unlock()
	return v
}

// OpenFDs returns the number of descriptors opened through Open and not closed yet.
func (f *FS) OpenFDs() int { f.mu.Lock(); defer f.mu.Unlock(); return len(f.vfd) }

// Count returns the number of calls executed so far.
func (f *FS) Count() int { f.mu.Lock(); defer f.mu.Unlock(); return f.seq }

// Open replaces unix.Open.
func Open(path string, flags int, perm uint32) (int, error) {
	f := cur()
	if f == nil {
		return unix.Open(path, flags, perm)
	}
	if flags&unix.O_TMPFILE == unix.O_TMPFILE && f.NoTmpfile {
		return -1, unix.EOPNOTSUPP
	}
	v := f.gate("open", f.rel(path))
	if e := errOf(v); e != nil {
		return -1, e
	}
	fd, err := unix.Open(path, flags, perm)
	if err == nil {
		f.mu.Lock()
		if f.vfd == nil {
			f.vfd = map[int]int{}
		}
		f.nextV++
		f.vfd[fd] = f.nextV
		f.mu.Unlock()
	}
	return fd, err
}

// Write replaces unix.Write.
func Write(fd int, p []byte) (int, error) {
	f := cur()
	if f == nil {
		return unix.Write(fd, p)
	}
	v := f.gate("write", f.fdName(fd))
	if e := errOf(v); e != nil {
		return 0, e
	}
	if v == VShort && len(p) > 1 {
		return unix.Write(fd, p[:len(p)/2])
	}
	return unix.Write(fd, p)
}

// Writev replaces unix.Writev.
func Writev(fd int, iovs [][]byte) (int, error) {
	f := cur()
	if f == nil {
		return unix.Writev(fd, iovs)
	}
	v := f.gate("writev", f.fdName(fd))
	if e := errOf(v); e != nil {
		return 0, e
	}
	if v == VShort {
		total := 0
		for _, b := range iovs {
			total += len(b)
		}
		if total > 1 {
			flat := make([]byte, 0, total)
			for _, b := range iovs {
				flat = append(flat, b...)
			}
			return unix.Write(fd, flat[:total/2])
		}
	}
	return unix.Writev(fd, iovs)
}

// Linkat replaces unix.Linkat.
func Linkat(olddirfd int, oldpath string, newdirfd int, newpath string, flags int) error {
	f := cur()
	if f == nil {
		return unix.Linkat(olddirfd, oldpath, newdirfd, newpath, flags)
	}
	v := f.gate("linkat", f.rel(newpath))
	if e := errOf(v); e != nil {
		return e
	}
	return unix.Linkat(olddirfd, oldpath, newdirfd, newpath, flags)
}

// Fdatasync replaces unix.Fdatasync.
func Fdatasync(fd int) error {
	f := cur()
	if f == nil {
		return unix.Fdatasync(fd)
	}
	v := f.gate("fdatasync", f.fdName(fd))
	if e := errOf(v); e != nil {
		return e
	}
	return unix.Fdatasync(fd)
}

// Close replaces unix.Close.  A faulted close still releases the descriptor.
func Close(fd int) error {
	f := cur()
	if f == nil {
		return unix.Close(fd)
	}
	v := f.gate("close", f.fdName(fd))
	err := unix.Close(fd)
	f.mu.Lock()
	delete(f.vfd, fd)
	f.mu.Unlock()
	if e := errOf(v); e != nil {
		return e
	}
	return err
}

// File wraps *os.File for the generic writer.
type File struct {
	f    *os.File
	name string
}

// OpenFile replaces os.OpenFile in the generic writer.
func OpenFile(name string, flag int, perm fs.FileMode) (*File, error) {
	f := cur()
	if f == nil {
		of, err := os.OpenFile(name, flag, perm)
		return &File{f: of}, err
	}
	v := f.gate("openfile", f.rel(name))
	if e := errOf(v); e != nil {
		return nil, &fs.PathError{Op: "open", Path: name, Err: e.(syscall.Errno)}
	}
	of, err := os.OpenFile(name, flag, perm)
	return &File{f: of, name: f.rel(name)}, err
}

// Write of the generic writer's file.
func (x *File) Write(p []byte) (int, error) {
	f := cur()
	if f == nil {
		return x.f.Write(p)
	}
	v := f.gate("fwrite", x.name)
	if e := errOf(v); e != nil {
		return 0, &fs.PathError{Op: "write", Path: x.name, Err: e.(syscall.Errno)}
	}
	if v == VShort && len(p) > 1 {
		n, _ := x.f.Write(p[:len(p)/2])
		return n, &fs.PathError{Op: "write", Path: x.name, Err: syscall.ENOSPC}
	}
	return x.f.Write(p)
}

// Close of the generic writer's file.
func (x *File) Close() error {
	f := cur()
	if f == nil {
		return x.f.Close()
	}
	v := f.gate("fclose", x.name)
	err := x.f.Close()
	if e := errOf(v); e != nil {
		return &fs.PathError{Op: "close", Path: x.name, Err: e.(syscall.Errno)}
	}
	return err
}

// Rename replaces os.Rename.
func Rename(oldp, newp string) error {
	f := cur()
	if f == nil {
		return os.Rename(oldp, newp)
	}
	v := f.gate("rename", f.rel(newp))
	if e := errOf(v); e != nil {
		return &os.LinkError{Op: "rename", Old: oldp, New: newp, Err: e}
	}
	return os.Rename(oldp, newp)
}

// Remove replaces os.Remove.
func Remove(p string) error {
	f := cur()
	if f == nil {
		return os.Remove(p)
	}
	v := f.gate("remove", f.rel(p))
	if e := errOf(v); e != nil {
		return &fs.PathError{Op: "remove", Path: p, Err: e.(syscall.Errno)}
	}
	return os.Remove(p)
}

// RemoveAll replaces os.RemoveAll.
func RemoveAll(p string) error {
	f := cur()
	if f == nil {
		return os.RemoveAll(p)
	}
	f.gate("removeall", f.rel(p))
	return os.RemoveAll(p)
}

// MkdirAllX replaces util.MkdirAllX.
func MkdirAllX(path string, perm os.FileMode) error {
	f := cur()
	if f == nil {
		return util.MkdirAllX(path, perm)
	}
	v := f.gate("mkdirall", f.rel(path))
	if e := errOf(v); e != nil {
		return &fs.PathError{Op: "mkdir", Path: path, Err: e.(syscall.Errno)}
	}
	return util.MkdirAllX(path, perm)
}

// Lock replaces X.Lock() in the writers: a goroutine waiting for a mutex polls on the
// simulated clock instead of blocking in the runtime, so the bubble stays quiescent-
// detectable and a leaked lock shows up as "no progress" instead of a real hang.
func Lock(try func() bool, lock func(), site string) {
	f := cur()
	if f == nil {
		lock()
		return
	}
	for !try() {
		f.mu.Lock()
		f.LockWaits++
		ep := f.unlockEpoch
		f.mu.Unlock()
		if f.K.Passing() {
			// setup / teardown / exclusive sections: poll on the simulated clock
			time.Sleep(time.Millisecond)
			continue
		}
		// park as a ticket; the scheduler offers it again only after some unlock happened
		// (the epoch is part of the key), so lock hand-off order is a scheduler choice
		f.K.Gate(fmt.Sprintf("lock:%s@%d", site, ep))
	}
}

// Unlock replaces X.Unlock() in the writers: it counts unlock events so that the scheduler
// knows when a goroutine waiting for a mutex may make progress.
func Unlock(unlock func()) {
	unlock()
	if f := cur(); f != nil {
		f.mu.Lock()
		f.unlockEpoch++
		f.mu.Unlock()
	}
}

// UnlockEpoch returns the number of unlock events so far.
func (f *FS) UnlockEpoch() int { f.mu.Lock(); defer f.mu.Unlock(); return f.unlockEpoch }

// Ordered replaces `range m` over a map in code whose effects depend on the iteration
// order: keys are visited in a deterministic order (sorted by their string form).
func Ordered[K comparable, V any](m map[K]V) func(yield func(K, V) bool) {
	type kv struct {
		s string
		k K
	}
	ks := make([]kv, 0, len(m))
	for k := range m {
		ks = append(ks, kv{fmt.Sprint(k), k})
	}
	for i := 1; i < len(ks); i++ {
		for j := i; j > 0 && ks[j].s < ks[j-1].s; j-- {
			ks[j], ks[j-1] = ks[j-1], ks[j]
		}
	}
	return func(yield func(K, V) bool) {
		for _, e := range ks {
			if !yield(e.k, m[e.k]) {
				return
			}
		}
	}
}
