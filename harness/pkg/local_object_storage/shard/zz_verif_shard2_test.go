package shard

import (
	"bytes"
	"fmt"
	"os"
	"sort"
	"strings"
	"time"

	meta "github.com/nspcc-dev/neofs-node/pkg/local_object_storage/metabase"
	"github.com/nspcc-dev/neofs-node/pkg/local_object_storage/shard/mode"
	"verif/simkit"
)

// ---------------------------------------------------------------------------------------
// C16: objects written through the write-cache stay readable through every flush

func propC16() *simkit.Property {
	return &simkit.Property{
		ID: "C16", Level: "exploration", Bubble: true, TapeLimit: 5000,
		Rule: "each run = one shard with write-cache (1-4 flush workers, batch count/size/threshold and cache size drawn so that single and batched flushes, out-of-space fallbacks and retries occur) and 15-45 operations over 3-6 immutable objects by 1-4 concurrent tasks: put, Get / GetBytes (metadata-less) / GetBytesWithMetadataLookup / GetStream / Head, garbage mark (= delete), explicit flush, mode round-trips (read-only, degraded) and clean reopen; background flush scheduler and workers run on the simulated clock and park at the blob-storage proxy (after reading from the cache, before the blob put, before the cache delete) where the seeded scheduler interleaves readers; blob puts fail (no space / I/O) at a drawn rate. The recorded history is checked per address with porcupine against a register (absent / present / deleted-any); after faults stop and the cache drains every present object must be in blob storage with identical bytes. distinct = trace digest; non-trivial = >=1 read overlapped a flush of the same object or >=1 flush failed",
		Run:  runC16,
		Assumptions: []string{"register model: a failed put or a delete leaves the address unconstrained until the next acknowledged put", "porcupine; Unknown is not reported"},
		Components:  shardComponents,
		DeadlockClass: "hang",
	}
}

func runC16(r *simkit.R) {
	cfg := drawShCfg(r, 1)
	nreg := 3 + r.Intn(4)
	w := newShWorld(r, cfg, nreg)
	sizes := []int{0, 60, 250, 280, 320, 1100, 1300, 2900, 5000}
	w.layoutSimple(nreg, 0, 0, func() int { return sizes[r.Intn(len(sizes))] })
	for id := 0; id < nreg; id++ {
		w.u.Specs[id].Exp = -1
	}
	w.open(w.dir)
	r.OnCleanup(func() { w.close() })
	faultPct := []int{0, 0, 10, 30}[r.Intn(4)]
	r.Logf("config %s faultPct=%d", cfg, faultPct)
	nops := 15 + r.Intn(31)
	var ops []*shOp
	for i := 0; i < nops; i++ {
		id := r.Intn(nreg)
		switch r.Weighted(30, 10, 10, 8, 8, 8, 6, 5, 3, 2, 2) {
		case 0:
			ops = append(ops, &shOp{kind: "put", id: id})
		case 1:
			ops = append(ops, &shOp{kind: "get", id: id})
		case 2:
			ops = append(ops, &shOp{kind: "getbytes", id: id})
		case 3:
			ops = append(ops, &shOp{kind: "getmeta", id: id})
		case 4:
			ops = append(ops, &shOp{kind: "getstream", id: id})
		case 5:
			ops = append(ops, &shOp{kind: "head", id: id})
		case 6:
			ops = append(ops, &shOp{kind: "mark", id: id})
		case 7:
			ops = append(ops, &shOp{kind: "flush"})
		case 8:
			ops = append(ops, &shOp{kind: "x:mode-ro"})
		case 9:
			ops = append(ops, &shOp{kind: "x:mode-degraded"})
		case 10:
			ops = append(ops, &shOp{kind: "x:reopen"})
		}
	}
	byTask := map[*simkit.Task]*shOp{}
	var fin []*shOp
	next := 0
	flushFailed, overlap := false, false
	inflightRead := map[string]int{} // short addr -> live reads
	res := w.sched(shHooks{
		maxConc: 1 + r.Intn(4),
		next: func() (string, func(*simkit.Task)) {
			if next >= len(ops) {
				return "", nil
			}
			op := ops[next]
			next++
			if strings.HasPrefix(op.kind, "x:") {
				return op.kind, func(*simkit.Task) {
					op.call = w.k.Seq()
					switch op.kind {
					case "x:mode-ro":
						op.err = w.sh.SetMode(mode.ReadOnly)
						if e := w.sh.SetMode(mode.ReadWrite); e != nil {
							op.err = e
						}
					case "x:mode-degraded":
						op.err = w.sh.SetMode(mode.Degraded)
						if e := w.sh.SetMode(mode.ReadWrite); e != nil {
							op.err = e
						}
					case "x:reopen":
						_ = w.sh.Close()
						s := w.mkShard(w.dir)
						if op.err = s.Open(); op.err == nil {
							op.err = s.Init()
						}
						w.sh = s
					}
					op.ret = w.k.Seq()
					op.done = true
					fin = append(fin, op)
				}
			}
			return op.kind, func(t *simkit.Task) { byTask[t] = op; w.exec(op) }
		},
		done: func(t *simkit.Task) {
			op := byTask[t]
			if op == nil {
				return
			}
			op.call, op.ret, op.done = t.Call, t.Ret, true
			fin = append(fin, op)
		},
		boundary: func(key string) {
			// a flush worker about to touch the blob storage while a read of that address is live
			if strings.HasPrefix(key, "blob:put") {
				for _, t := range w.k.Parked() {
					if strings.HasPrefix(t.Key, "wc:get") || strings.HasPrefix(t.Key, "blob:get") {
						overlap = true
					}
				}
			}
			_ = inflightRead
		},
		verdict: func(key string) int {
			if faultPct > 0 && (strings.HasPrefix(key, "blob:put")) && r.Bool(faultPct) {
				flushFailed = true
				r.Fired("blob storage put fails (" + []string{"", "no space", "I/O error"}[1+r.Intn(2)] + ")")
				return 1 + r.Intn(2)
			}
			return 0
		},
	})
	if res == "hang" || res == "steps" {
		r.Failf("hang", "shard operations did not finish ("+res+")", "operations did not finish (%s)", res)
	}
	if res != "" {
		return
	}
	// history check
	var hist []simkit.LinOp
	for _, op := range fin {
		r.Op("[%d,%d] %s -> %v", op.call, op.ret, op, errS(op.err))
		if strings.HasPrefix(op.kind, "x:") {
			if op.err != nil {
				r.Failf("mode", "mode round-trip or reopen failed", "%s: %v", op.kind, op.err)
			}
			continue
		}
		key := fmt.Sprint(op.id)
		switch op.kind {
		case "put":
			out := 0
			if op.err != nil {
				out = 1
			}
			hist = append(hist, simkit.LinOp{Key: key, In: 1, Out: out, Call: op.call, Ret: op.ret})
		case "mark":
			hist = append(hist, simkit.LinOp{Key: key, In: 2, Out: 0, Call: op.call, Ret: op.ret})
		case "flush":
		default:
			out := 0 // found with identical bytes
			switch {
			case op.err != nil && isNF(op.err):
				out = 1
			case op.err != nil:
				out = 3 // other error
			case op.kind != "head" && !bytes.Equal(op.val, w.bin(op.id)):
				out = 2
			}
			if out == 2 {
				r.Failf("wc-read", "read returned wrong bytes", "%s returned %d bytes that differ from the stored object", op, len(op.val))
			}
			hist = append(hist, simkit.LinOp{Key: key, In: 3, Out: out, Call: op.call, Ret: op.ret})
		}
	}
	bad, _ := simkit.CheckLinearizable(hist, func(string) any { return 0 }, func(st, in, out any) (bool, any) {
		s, i, o := st.(int), in.(int), out.(int)
		switch i {
		case 1: // put
			if o == 0 {
				return true, 1
			}
			return true, 2 // failed put: unconstrained
		case 2: // delete
			return true, 2
		default: // read
			switch s {
			case 0:
				return o == 1, s
			case 1:
				return o == 0, s
			default:
				return true, s
			}
		}
	}, 20*time.Second)
	if bad != "" {
		var lines []string
		for _, op := range fin {
			if fmt.Sprint(op.id) == bad && !strings.HasPrefix(op.kind, "x:") && op.kind != "flush" {
				lines = append(lines, fmt.Sprintf("[%d,%d] %s -> %v", op.call, op.ret, op.kind, errS(op.err)))
			}
		}
		r.Failf("wc-read", "an acknowledged object was not readable (history not linearizable)"+pendingMarkTag(fin, bad), "object o%s: between the acknowledged put and its deletion a read failed; operations on it:\n  %s", bad, strings.Join(lines, "\n  "))
	}
	// faults stop; let the cache drain, then every present object must be in blob storage
	w.settle(60 * time.Second)
	state := map[int]int{}
	for _, op := range fin {
		switch {
		case op.kind == "put" && op.err == nil:
			state[op.id] = 1
		case op.kind == "put" || op.kind == "mark":
			state[op.id] = 2
		}
	}
	// (overlapping puts/marks: only judge addresses whose last acknowledged write op is a put
	// that started after every other write op on it returned)
	for id, st := range state {
		if st != 1 {
			continue
		}
		var last *shOp
		ok := true
		for _, op := range fin {
			if op.id == id && (op.kind == "put" || op.kind == "mark") && !strings.HasPrefix(op.kind, "x:") {
				if last == nil || op.call > last.call {
					last = op
				}
			}
		}
		for _, op := range fin {
			if op != last && op.id == id && (op.kind == "put" || op.kind == "mark") && op.ret > last.call {
				ok = false
			}
		}
		if !ok || last.kind != "put" || last.err != nil {
			continue
		}
		var msg string
		w.exclusive("final-read", func() {
			if b, err := w.sh.GetBytesWithMetadataLookup(w.addr(id)); err != nil || !bytes.Equal(b, w.bin(id)) {
				msg = fmt.Sprintf("after the cache drained, o%d (acknowledged, never deleted) is not readable: %v", id, err)
				return
			}
			inB, inW := w.physical(id)
			if !inW {
				if !inB {
					msg = fmt.Sprintf("o%d is neither in the write-cache nor in blob storage", id)
					return
				}
				sp := w.sh.blobStor.(*storProxy)
				if b, err := sp.Storage.GetBytes(w.addr(id)); err != nil || !bytes.Equal(b, w.bin(id)) {
					msg = fmt.Sprintf("after the flush blob storage holds different bytes for o%d: %v", id, err)
				}
			}
		})
		if msg != "" {
			r.Failf("wc-read", "acknowledged object lost or altered after flush"+pendingMarkTag(fin, fmt.Sprint(id)), "%s", msg)
		}
	}
	if overlap || flushFailed {
		r.Nontrivial()
	}
}

// pendingMarkTag: a garbage mark of the address was acknowledged before a later put of it.
func pendingMarkTag(fin []*shOp, key string) string {
	for _, m := range fin {
		if m.kind != "mark" || fmt.Sprint(m.id) != key || m.err != nil {
			continue
		}
		for _, p := range fin {
			if p.kind == "put" && fmt.Sprint(p.id) == key && p.ret > m.call {
				return " [put accepted on an address with a pending garbage mark]"
			}
		}
	}
	return ""
}

// eventsSince summarises which kinds of events happened after index from.
func eventsSince(ev []string, from int) string {
	seen := map[string]bool{}
	var out []string
	for i := from; i < len(ev); i++ {
		if !seen[ev[i]] {
			seen[ev[i]] = true
			out = append(out, ev[i])
		}
	}
	if len(out) == 0 {
		return "nothing"
	}
	sort.Strings(out)
	return strings.Join(out, "+")
}

var errNotReadable =fmt.Errorf("not readable through the metadata path")

func errS(err error) string {
	if err == nil {
		return "ok"
	}
	s := err.Error()
	if len(s) > 70 {
		s = s[:70]
	}
	return "ERR(" + s + ")"
}

// ---------------------------------------------------------------------------------------
// C09: a removed object never becomes readable again without a new upload

func propC09() *simkit.Property {
	return &simkit.Property{
		ID: "C09", Level: "exploration", Bubble: true, TapeLimit: 5000,
		Rule: "each run = one shard (with/without write-cache) and a history of 10-40 operations over 3-5 objects by 1-3 concurrent tasks: put, tombstone (with expiration), lock, garbage mark, drop, reads, explicit flush, epoch ticks (tombstone/lock expiry), GC passes on the simulated clock, metadata resync from blob storage (blob order permuted), clean restart, and crash-restart from a snapshot taken at a gate boundary (e.g. between the metadata and blob steps of a deletion, or while a flush worker holds an object it read from the cache); flush workers are suspended at the blob-storage proxy while deletions run to completion and vice versa. Oracle (history): once an address whose removal was acknowledged (tombstone, mark or drop) has been observed physically gone (not in blob storage, not in the cache, not available in metadata) and no later put of it was invoked, no read path may return it, now or after any later flush, GC, resync or restart. distinct = trace digest; non-trivial = >=1 address observed collected and >=1 of resync/restart/crash/flush happened afterwards",
		Run:  runC09,
		Assumptions: []string{"'removed from a node' = removal acknowledged and the object's bytes observed absent from blob storage and write-cache at a quiescent point", "bbolt atomicity; crash image = byte copy at quiescence"},
		Components:  shardComponents,
		DeadlockClass: "hang",
	}
}

func runC09(r *simkit.R) {
	cfg := drawShCfg(r, 2)
	cfg.gcInterval = []time.Duration{1300 * time.Millisecond, 3700 * time.Millisecond}[r.Intn(2)]
	nreg := 3 + r.Intn(3)
	w := newShWorld(r, cfg, nreg+4)
	w.layoutSimple(nreg, 3, 1, func() int { return []int{10, 250, 700, 2500}[r.Intn(4)] })
	w.iterPerm = func(n int) []int { return r.Perm(n) }
	w.open(w.dir)
	r.OnCleanup(func() { w.close() })
	r.Logf("config %s", cfg)
	for id := range w.u.IDs {
		r.Logf("  spec %s", w.u.Specs[id])
	}
	nops := 10 + r.Intn(31)
	var ops []*shOp
	for i := 0; i < nops; i++ {
		id := r.Intn(nreg)
		switch r.Weighted(25, 12, 3, 8, 6, 6, 5, 5, 8, 6, 5, 4, 4) {
		case 0:
			ops = append(ops, &shOp{kind: "put", id: id})
		case 1:
			ops = append(ops, &shOp{kind: "tomb", id: nreg + r.Intn(3)})
		case 2:
			ops = append(ops, &shOp{kind: "lock", id: nreg + 3})
		case 3:
			ops = append(ops, &shOp{kind: "mark", id: id})
		case 4:
			ops = append(ops, &shOp{kind: "drop", id: id})
		case 5:
			ops = append(ops, &shOp{kind: "get", id: id})
		case 6:
			ops = append(ops, &shOp{kind: "getbytes", id: id})
		case 7:
			ops = append(ops, &shOp{kind: "flush"})
		case 8:
			ops = append(ops, &shOp{kind: "x:gc"})
		case 9:
			ops = append(ops, &shOp{kind: "epoch"})
		case 10:
			ops = append(ops, &shOp{kind: "x:resync"})
		case 11:
			ops = append(ops, &shOp{kind: "x:restart"})
		case 12:
			ops = append(ops, &shOp{kind: "x:observe"})
		}
	}
	removalAcked := map[int]bool{}  // removal of id acknowledged, no put invoked since
	collected := map[int]string{}   // id -> where it was observed gone
	risky := 0
	nCollected := 0
	byTask := map[*simkit.Task]*shOp{}
	next := 0
	crashArmed := r.Bool(40)
	crashAt := 1 + r.Intn(60)
	boundaries := 0

	putsInFlight := map[int]int{}
	var events []string // flush-put, resync, restart, crash: what happened, in order
	collectedAt := map[int]int{}
	collectedSeq := map[int]uint64{}
	flushSeen, flushStart, blobDeleted := map[string]uint64{}, map[string]uint64{}, map[string]uint64{}
	putRet := map[int]uint64{}        // return stamp of the latest finished upload per object
	lockedAfter := map[int]bool{}     // a lock of the object was acknowledged after its removal
	removalSeq := map[string]uint64{} // invocation stamp of the latest acknowledged removal per address
	observe := func(where string) {
		if strings.HasPrefix(where, "x:") || where == "crash-restart" || strings.HasPrefix(where, "final ") {
			events = append(events, strings.TrimPrefix(strings.TrimPrefix(where, "x:"), "final "))
		}
		for id := 0; id < nreg; id++ {
			a := w.addr(id)
			inB, inW := w.physical(id)
			// metadata-path readability without going through the gated proxies
			var gerr error = errNotReadable
			metaAvail := false
			if ok, err := w.sh.metaBase.Exists(a, false); err == nil && ok {
				metaAvail = true
				if inB || inW {
					gerr = nil
				}
			}
			if os.Getenv("VERIF_DEBUG") != "" {
				ex, exErr := w.sh.metaBase.Exists(a, false)
				fmt.Printf("DEBUG observe@%s o%d: blob=%v wc=%v exists=%v/%v acked=%v collected=%q putsInFlight=%d\n", where, id, inB, inW, ex, exErr, removalAcked[id], collected[id], putsInFlight[id])
			}
			if putsInFlight[id] > 0 {
				continue
			}
			if why, was := collected[id]; was {
				var how string
				switch {
				case gerr == nil && lockedAfter[id] && inB && !inW:
					// the bytes are an orphan blob; the metadata record was only garbage-marked and
					// a lock acknowledged after the mark overrides it
					how = "bytes are back in blob storage (Get succeeds: a lock acknowledged after the garbage mark overrides it)"
				case gerr == nil:
					how = "Get succeeds"
				case inB && inW:
					how = "bytes are back in blob storage and write-cache"
				case inB:
					how = "bytes are back in blob storage"
				case inW:
					how = "bytes are back in the write-cache"
				}
				if how != "" {
					kind := where
					if strings.HasPrefix(where, "a quiescent point") {
						kind = "peek"
					}
					sig := fmt.Sprintf("removed object is back: %s [observed at %s; since it was seen gone: %s]", how, kind, eventsSince(events, collectedAt[id]))
					if sa := short(a); blobDeleted[sa] > removalSeq[sa] && removalSeq[sa] > 0 && flushStart[sa] > blobDeleted[sa] {
						sig = "removed object is back (a flush of it began after its blob had been deleted): " + how
					}
					w.r.Failf("resurrection", sig, "o%d was removed (%s) and not stored anew, but at %s %s", id, why, where, how)
				}
				continue
			}
			// gone = removal acknowledged, the metadata no longer lists it as available, no bytes anywhere
			if removalAcked[id] && !inB && !inW && !metaAvail {
				collected[id] = "removal acknowledged; observed gone at " + where
				collectedAt[id] = len(events)
				collectedSeq[id] = w.k.Seq()
				nCollected++
			}
		}
	}
	res := w.sched(shHooks{
		maxConc: 1 + r.Intn(3),
		next: func() (string, func(*simkit.Task)) {
			if next >= len(ops) {
				return "", nil
			}
			op := ops[next]
			next++
			if op.kind == "put" {
				// a new upload is invoked: the address may legitimately come back
				delete(removalAcked, op.id)
				delete(collected, op.id)
				putsInFlight[op.id]++
				delete(blobDeleted, short(w.addr(op.id)))
				delete(flushStart, short(w.addr(op.id)))
				delete(removalSeq, short(w.addr(op.id)))
				delete(lockedAfter, op.id)
			}
			if strings.HasPrefix(op.kind, "x:") {
				return op.kind, func(*simkit.Task) {
					switch op.kind {
					case "x:gc":
						// (runs on a task goroutine with gates passing through: sleeping here lets
						// the GC ticker fire and the pass run to completion)
						time.Sleep(cfg.gcInterval + 100*time.Millisecond)
						time.Sleep(cfg.gcInterval + 100*time.Millisecond)
					case "x:resync":
						op.err = w.sh.metaBase.ResyncFromBlobstor(w.sh.blobStor, nil)
						if len(collected) > 0 {
							risky++
						}
					case "x:restart":
						_ = w.sh.Close()
						s := w.mkShard(w.dir)
						if op.err = s.Open(); op.err == nil {
							op.err = s.Init()
						}
						w.sh = s
						if len(collected) > 0 {
							risky++
						}
					}
					observe(op.kind)
					r.Op("%s -> %v (collected so far: %d)", op.kind, errS(op.err), len(collected))
				}
			}
			return op.kind, func(t *simkit.Task) { byTask[t] = op; w.exec(op) }
		},
		done: func(t *simkit.Task) {
			op := byTask[t]
			if op == nil {
				return
			}
			r.Op("%s -> %v", op, errS(op.err))
			if op.kind == "put" {
				putsInFlight[op.id]--
				putRet[op.id] = t.Ret
				// only blob deletions after the latest upload matter for the flush-order diagnosis
				delete(blobDeleted, short(w.addr(op.id)))
			}
			if op.err == nil {
				// a removal that overlapped an upload of the same object may linearize before it:
				// only removals invoked after every upload had returned count
				rm := -1
				switch op.kind {
				case "tomb":
					rm = w.u.Specs[op.id].Target
				case "mark", "drop":
					rm = op.id
				}
				if rm >= 0 && (putsInFlight[rm] > 0 || putRet[rm] > t.Call) {
					r.Probe("removal overlapping an upload of the same object (not judged)")
					return
				}
				switch op.kind {
				case "tomb":
					removalAcked[rm] = true
					removalSeq[short(w.addr(rm))] = t.Call
				case "lock":
					if tg := w.u.Specs[op.id].Target; tg >= 0 && tg < nreg && removalAcked[tg] {
						lockedAfter[tg] = true
					}
				case "mark", "drop":
					removalAcked[op.id] = true
					removalSeq[short(w.addr(op.id))] = t.Call
				case "get", "getbytes":
					// (a read invoked before the address was seen gone may linearize before the removal)
					if why, was := collected[op.id]; was && t.Call > collectedSeq[op.id] {
						how := "Get succeeds"
						if lockedAfter[op.id] {
							how = "bytes are back in blob storage (Get succeeds: a lock acknowledged after the garbage mark overrides it)"
						}
						if op.kind == "getbytes" {
							how = "bytes are back in blob storage (metadata-less read succeeds)"
						}
						r.Failf("resurrection", fmt.Sprintf("removed object is back: %s [observed at %s; since it was seen gone: %s]", how, op.kind, eventsSince(events, collectedAt[op.id])), "o%d was removed (%s) and not stored anew, but %s returned it", op.id, why, op.kind)
					}
				case "flush":
					if len(collected) > 0 {
						risky++
					}
				}
			}
		},
		peek: func() { observe("a quiescent point of the schedule") },
		boundary: func(key string) {
			boundaries++
			if strings.HasPrefix(key, "blob:put") {
				events = append(events, "blob-put")
			}
			// when did a flush of an address start (its blob put first seen parked), and when was
			// the blob of an address deleted: a flush that starts AFTER the blob deletion of a
			// removed object cannot be the worker-holds-bytes race (F18)
			now := w.k.Seq()
			parkedNow := map[string]bool{}
			for _, t := range w.k.Parked() {
				if strings.HasPrefix(t.Key, "blob:put:") || strings.HasPrefix(t.Key, "blob:putbatch:") {
					for _, sa := range strings.Split(t.Key[strings.LastIndexByte(t.Key, ':')+1:], ",") {
						parkedNow[sa] = true
						if _, ok := flushSeen[sa]; !ok {
							flushSeen[sa] = now
						}
					}
				}
			}
			if strings.HasPrefix(key, "blob:put") {
				for _, sa := range strings.Split(key[strings.LastIndexByte(key, ':')+1:], ",") {
					// (several flushes of one address may be parked together: all of them count
					// as begun when the first was seen)
					if seen, ok := flushSeen[sa]; ok {
						flushStart[sa] = seen
					} else {
						flushStart[sa] = now
					}
				}
			}
			for sa := range flushSeen {
				if !parkedNow[sa] {
					delete(flushSeen, sa)
				}
			}
			if strings.HasPrefix(key, "blob:delete:") {
				blobDeleted[key[len("blob:delete:"):]] = now
			}
			if crashArmed && boundaries == crashAt {
				crashArmed = false
				// crash: what the disk holds now survives; the running instance is abandoned
				img := w.snapshot("crash")
				r.Fired("crash-restart at " + crashSite("before "+key))
				old := w.sh
				if !w.k.Drain(5 * time.Minute) {
					return
				}
				w.k.SetPass(true)
				w.exclusive("abandon", func() { _ = old.Close() })
				// operations of the dead process never completed from the client's view; their
				// effects on the abandoned directory are irrelevant
				w.open(img)
				w.k.SetPass(false)
				if len(collected) > 0 {
					risky++
				}
				w.exclusive("observe-after-crash", func() { observe("crash-restart") })
			}
		},
	})
	if res == "hang" || res == "steps" {
		r.Failf("hang", "shard operations did not finish ("+res+")", "operations did not finish (%s)", res)
	}
	if res != "" {
		return
	}
	// epilogue: let flushes and GC finish, resync and restart once more, observe
	w.settle(30 * time.Second)
	w.exclusive("final", func() {
		observe("quiescence")
		_ = w.sh.metaBase.ResyncFromBlobstor(w.sh.blobStor, nil)
		observe("final resync")
		_ = w.sh.Close()
		s := w.mkShard(w.dir)
		if err := s.Open(); err == nil {
			_ = s.Init()
		}
		w.sh = s
		observe("final restart")
	})
	if nCollected > 0 && risky > 0 {
		r.Nontrivial()
	}
	_ = meta.GarbageMarkDefault
}
