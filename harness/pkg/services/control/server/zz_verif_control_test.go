package control

// C32: control-plane requests run only when signed by an authorised key.
//
// Both control servers (storage node: this package; inner ring: pkg/services/control/ir/server,
// through its exported API) are driven through their generated gRPC service descriptors.  The
// set of methods is taken by reflection from the ControlServiceServer interfaces and
// cross-checked with the descriptors; requests are built by reflection over the request types.
// The storage node's server works on a real two-shard storage engine, a real placement
// service and a real replicator whose remote side is a recording client constructor, and on
// recording NodeState / HealthChecker; the inner ring's server on a recording NotaryManager.

import (
	"context"
	"crypto/ecdsa"
	"crypto/sha256"
	"errors"
	"fmt"
	"os"
	"path/filepath"
	"reflect"
	"sort"
	"strings"
	"testing"
	"time"

	"github.com/nspcc-dev/bbolt"
	"github.com/nspcc-dev/neo-go/pkg/crypto/keys"
	neoutil "github.com/nspcc-dev/neo-go/pkg/util"
	zz "github.com/nspcc-dev/neofs-node/internal/zzverif"
	clientcore "github.com/nspcc-dev/neofs-node/pkg/core/client"
	"github.com/nspcc-dev/neofs-node/pkg/local_object_storage/blobstor/common"
	"github.com/nspcc-dev/neofs-node/pkg/local_object_storage/blobstor/fstree"
	"github.com/nspcc-dev/neofs-node/pkg/local_object_storage/engine"
	meta "github.com/nspcc-dev/neofs-node/pkg/local_object_storage/metabase"
	"github.com/nspcc-dev/neofs-node/pkg/local_object_storage/shard"
	"github.com/nspcc-dev/neofs-node/pkg/local_object_storage/shard/mode"
	"github.com/nspcc-dev/neofs-node/pkg/services/control"
	irctl "github.com/nspcc-dev/neofs-node/pkg/services/control/ir"
	irsrv "github.com/nspcc-dev/neofs-node/pkg/services/control/ir/server"
	"github.com/nspcc-dev/neofs-node/pkg/services/object/placement"
	putsvc "github.com/nspcc-dev/neofs-node/pkg/services/object/put"
	objutil "github.com/nspcc-dev/neofs-node/pkg/services/object/util"
	"github.com/nspcc-dev/neofs-node/pkg/services/replicator"
	"github.com/nspcc-dev/neofs-sdk-go/container"
	cid "github.com/nspcc-dev/neofs-sdk-go/container/id"
	"github.com/nspcc-dev/neofs-sdk-go/netmap"
	oid "github.com/nspcc-dev/neofs-sdk-go/object/id"
	"go.uber.org/zap"
	"google.golang.org/grpc"
	"google.golang.org/grpc/codes"
	"google.golang.org/grpc/metadata"
	"google.golang.org/grpc/status"
	"google.golang.org/protobuf/reflect/protoreflect"
	"verif/simkit"
)

func TestVerif(t *testing.T) {
	simkit.Main(t, &simkit.Property{
		ID: "C32", Level: "exploration", Bubble: false, TapeLimit: 4000,
		Rule: "each run = the storage node's control server (over a real engine with two shards holding 4 objects, real placement service and replicator, recording node state / health checker / remote client constructor) and the inner ring's control server (recording notary manager), each configured with 0-3 administrator keys, and a history of 8-30 calls; every method of both ControlServiceServer interfaces is taken by reflection (a method without descriptor or a request field the generic builder cannot fill fails the run as infrastructure error) and is called through its generated gRPC handler with a request built by reflection and signed with the package's SignMessage; per call the tape picks: correct signature by an authorised key, no signature, signature by a key that is not (or no longer) authorised, the server's own key, body changed after signing (one field), one signature byte flipped, empty signature, empty key, key field replaced by an authorised key, key truncated or extended, signature made over another (empty) body; valid calls change the state between the invalid ones; the server is restarted with another key list and (node) serves before being marked ready. After every call the engine state (shard modes, error counters, per-object per-shard status), the dump files and all recorders are compared with the state before: a call that is not correctly signed by a currently authorised key must return an error and change nothing and send nothing; a correctly signed call must never be answered with a permission error; an epilogue of correctly signed SetNetmapStatus / SetShardMode / DropObjects / EvacuateShard / DumpShard / NotaryRequest / NotarySign calls must show their effects. distinct = trace digest; non-trivial = at least one invalid call of a state-changing method after a valid call has changed the state",
		Run:  runC32,
		Assumptions: []string{
			"the inner ring server documents that its own key is always authorised; the storage node's own key is authorised only if listed",
			"neither server can reload its key list; a change of the list is a restart (new server object over the same engine and recorders)",
			"requests carry no nonce: replaying a correctly signed request is a valid call (outside the statement)",
			"reading the health status before the signature check would not count as a side effect; only state-changing dependencies are recorded as effects",
		},
		Components: map[string]string{
			"control/server.Server: all handlers, isValidRequest, SignMessage":                         "real",
			"control/ir/server.Server: all handlers, isValidRequest, SignMessage (exported API only)": "real",
			"generated gRPC service descriptors / handlers (dispatch, request allocation)":            "real",
			"storage engine (2 shards: metabase + FSTree, no write-cache), placement service, replicator, put RemoteSender": "real (GC interval one hour: no timer fires inside a run)",
			"NodeState, HealthChecker, NotaryManager, remote client constructor, container and netmap sources": "simulated: recording fakes",
			"gRPC transport, TLS, listeners": "not executed (handlers are called directly; the streaming method gets a recording stream)",
		},
	})
}

// ---------------------------------------------------------------------------------------
// recording dependencies

type c32NodeState struct{ log []string }

func (s *c32NodeState) SetNetmapStatus(st control.NetmapStatus) error {
	s.log = append(s.log, "netmap-status:"+st.String())
	return nil
}
func (s *c32NodeState) IsLocalNodePublicKey([]byte) bool { return false }

type c32Health struct{ reads int }

func (h *c32Health) NetmapStatus() control.NetmapStatus { h.reads++; return control.NetmapStatus_ONLINE }
func (h *c32Health) HealthStatus() control.HealthStatus { h.reads++; return control.HealthStatus_READY }

type c32IRHealth struct{ reads int }

func (h *c32IRHealth) HealthStatus() irctl.HealthStatus { h.reads++; return irctl.HealthStatus_READY }

type c32Clients struct{ log []string }

func (c *c32Clients) Get(context.Context, netmap.NodeInfo) (clientcore.MultiAddressClient, error) {
	c.log = append(c.log, "remote-connect")
	return nil, errors.New("sim: remote node is unreachable")
}

type c32Notary struct {
	log   []string
	reads int
}

func (n *c32Notary) ListNotaryRequests() ([]neoutil.Uint256, error) {
	n.reads++
	return []neoutil.Uint256{{1}, {2}}, nil
}
func (n *c32Notary) RequestNotary(method string, args ...[]byte) (neoutil.Uint256, error) {
	n.log = append(n.log, fmt.Sprintf("notary-request:%s:%x", method, args))
	return neoutil.Uint256(sha256.Sum256([]byte(method))), nil
}
func (n *c32Notary) SignNotary(h neoutil.Uint256) error {
	n.log = append(n.log, "notary-sign:"+h.StringBE()[:8])
	return nil
}

type c32Epoch struct{}

func (c32Epoch) CurrentEpoch() uint64 { return 10 }

type c32Payments struct{}

func (c32Payments) PaymentsDisabled() bool             { return true }
func (c32Payments) UnpaidSince(cid.ID) (int64, error) { return -1, nil }

type c32MetaContainers struct{}

func (c32MetaContainers) Exists(cid.ID) (bool, error) { return true, nil }

// pins the shard ID (production draws a random UUID at first init)
type c32IDStor struct {
	common.Storage
	id common.ID
}

func (s *c32IDStor) Init(common.ID) error { return s.Storage.Init(s.id) }

type c32Net struct {
	nm  netmap.NetMap
	pol netmap.PlacementPolicy
}

func (n *c32Net) GetNetMapByEpoch(uint64) (*netmap.NetMap, error) { return &n.nm, nil }
func (n *c32Net) NetMap() (*netmap.NetMap, error)                 { return &n.nm, nil }
func (n *c32Net) Epoch() (uint64, error)                          { return 10, nil }
func (n *c32Net) Get(cid.ID) (container.Container, error) {
	var c container.Container
	c.Init()
	c.SetPlacementPolicy(n.pol)
	return c, nil
}

// recording server stream for the streaming method(s)
type c32Stream struct {
	fill func(any) error
	sent int
}

func (s *c32Stream) SetHeader(metadata.MD) error  { return nil }
func (s *c32Stream) SendHeader(metadata.MD) error { return nil }
func (s *c32Stream) SetTrailer(metadata.MD)       {}
func (s *c32Stream) Context() context.Context     { return context.Background() }
func (s *c32Stream) SendMsg(any) error            { s.sent++; return nil }
func (s *c32Stream) RecvMsg(m any) error          { return s.fill(m) }

// ---------------------------------------------------------------------------------------
// world

type c32Key struct {
	name string
	priv *ecdsa.PrivateKey
	pub  []byte
}

func c32NewKey(name string, salt uint32) *c32Key {
	h := sha256.Sum256([]byte(fmt.Sprintf("c32-key-%s-%d", name, salt)))
	k, err := keys.NewPrivateKeyFromBytes(h[:])
	if err != nil {
		panic(err)
	}
	return &c32Key{name: name, priv: &k.PrivateKey, pub: k.PublicKey().Bytes()}
}

type c32Method struct {
	name   string
	unary  *grpc.MethodDesc
	stream *grpc.StreamDesc
}

type c32Svc struct {
	name    string
	srv     any
	own     *c32Key
	ownAuth bool // the server's own key is implicitly authorised
	admins  []*c32Key
	methods []c32Method
	sign    func(*ecdsa.PrivateKey, any) error
	ready   bool
}

type c32World struct {
	r       *simkit.R
	salt    uint32
	u       *zz.Universe
	eng     *engine.StorageEngine
	shards  []common.ID
	pl      *placement.Service
	repl    *replicator.Replicator
	ns      *c32NodeState
	hc      *c32Health
	cc      *c32Clients
	notary  *c32Notary
	irhc    *c32IRHealth
	dumpDir string

	last      string    // digest after the latest call
	engPart   string    // its engine-and-files part
	pool      []*c32Key // candidate administrators
	strangers []*c32Key
	node, ir  *c32Svc
}

func (w *c32World) strip(s string) string {
	s = strings.ReplaceAll(s, w.r.Dir, "$DIR")
	for i, id := range w.shards {
		s = strings.ReplaceAll(s, id.String(), fmt.Sprintf("s%d", i))
	}
	if len(s) > 90 {
		s = s[:90]
	}
	return s
}

func (w *c32World) addr(i int) oid.Address { return w.u.Addr(w.u.Specs[i].Cnr, i) }

func (w *c32World) startEngine() {
	r := w.r
	w.eng = engine.New(engine.WithLogger(zap.NewNop()))
	for i := 0; i < 2; i++ {
		dir := filepath.Join(r.Dir, fmt.Sprintf("s%d", i))
		h := sha256.Sum256([]byte(fmt.Sprintf("c32-shard-%d-%d", w.salt, i)))
		id, _ := common.NewIDFromBytes(h[:common.IDSize])
		fst := fstree.New(fstree.WithPath(filepath.Join(dir, "blob")), fstree.WithDepth(1), fstree.WithPerm(0o700),
			fstree.WithCombinedCountLimit(1), fstree.WithNoSync(true))
		got, err := w.eng.AddShard(
			shard.WithLogger(zap.NewNop()),
			shard.WithBlobstor(&c32IDStor{Storage: fst, id: id}),
			shard.WithMetaBaseOptions(meta.WithPath(filepath.Join(dir, "meta.db")), meta.WithEpochState(c32Epoch{}), meta.WithContainers(c32MetaContainers{}),
				meta.WithLogger(zap.NewNop()),
				meta.WithBoltDBOptions(&bbolt.Options{NoSync: true, Timeout: time.Second}), meta.WithMaxBatchSize(1), meta.WithMaxBatchDelay(time.Millisecond)),
			shard.WithGCRemoverSleepInterval(time.Hour),
			shard.WithContainerPayments(c32Payments{}),
		)
		if err != nil {
			r.Failf("infra", "add shard", "%v", err)
		}
		w.shards = append(w.shards, got)
	}
	if err := w.eng.Init(); err != nil {
		r.Failf("infra", "engine init", "%v", err)
	}
	r.OnCleanup(func() { _ = w.eng.Close() })
	sort.Slice(w.shards, func(a, b int) bool { return w.shards[a].String() < w.shards[b].String() })
	for i := 0; i < 4; i++ {
		w.u.Specs[i] = &zz.Spec{ID: i, Cnr: i % 2, Kind: zz.KReg, Parent: -1, First: -1, Split: -1, Exp: -1, Size: 40 + 30*i, Target: -1, ECRule: -1}
		if err := w.eng.Put(context.Background(), w.u.Build(w.u.Specs[i]), nil); err != nil {
			r.Failf("infra", "engine put", "%v", err)
		}
	}
}

// digest of everything a control call could change (compared, never logged: it holds paths)
func (w *c32World) digest() string { return w.digestParts(true) }

// digestParts re-reads the engine and the dump directory only when asked to: the inner ring's
// server holds no reference to them.
func (w *c32World) digestParts(engineToo bool) string {
	if engineToo || w.engPart == "" {
		w.engPart = w.engineDigest()
	}
	return w.engPart + fmt.Sprintf("node-state %v\nremote %v\nnotary %v\n", w.ns.log, w.cc.log, w.notary.log)
}

func (w *c32World) engineDigest() string {
	var b strings.Builder
	info := w.eng.DumpInfo()
	sort.Slice(info.Shards, func(i, j int) bool { return info.Shards[i].ID.String() < info.Shards[j].ID.String() })
	for _, s := range info.Shards {
		fmt.Fprintf(&b, "shard %s mode=%v errors=%d\n", s.ID, s.Mode, s.ErrorCount)
	}
	for i := 0; i < len(w.u.IDs); i++ {
		st, err := w.eng.ObjectStatus(context.Background(), w.addr(i))
		fmt.Fprintf(&b, "o%d err=%v", i, err)
		sort.Slice(st.Shards, func(x, y int) bool { return st.Shards[x].ID < st.Shards[y].ID })
		for _, s := range st.Shards {
			fmt.Fprintf(&b, " [%s blob=%q meta=%v idx=%d]", s.ID, s.Shard.Blob.Type, s.Shard.Metabase.State, len(s.Shard.Metabase.HeaderIndex))
		}
		b.WriteString("\n")
	}
	ents, _ := os.ReadDir(w.dumpDir)
	for _, e := range ents {
		fi, err := e.Info()
		if err == nil {
			fmt.Fprintf(&b, "file %s %d\n", e.Name(), fi.Size())
		}
	}
	return b.String()
}

// what differs between two digests, with run-specific strings removed (for messages)
func (w *c32World) diff(a, b string) string {
	la, lb := strings.Split(a, "\n"), strings.Split(b, "\n")
	var out []string
	for i := 0; i < len(la) || i < len(lb); i++ {
		x, y := "", ""
		if i < len(la) {
			x = la[i]
		}
		if i < len(lb) {
			y = lb[i]
		}
		if x != y {
			out = append(out, w.strip(x)+" => "+w.strip(y))
		}
	}
	return strings.Join(out, "; ")
}

// ---------------------------------------------------------------------------------------
// enumeration of the service methods

func c32Enumerate(r *simkit.R, svc string, iface reflect.Type, srv any, desc *grpc.ServiceDesc) []c32Method {
	if !reflect.TypeOf(srv).Implements(iface) {
		r.Failf("infra", svc+": server type does not implement the service interface", "%T", srv)
	}
	var out []c32Method
	seen := map[string]bool{}
	for i := 0; i < iface.NumMethod(); i++ {
		m := iface.Method(i)
		if !m.IsExported() {
			continue
		}
		cm := c32Method{name: m.Name}
		for j := range desc.Methods {
			if desc.Methods[j].MethodName == m.Name {
				cm.unary = &desc.Methods[j]
			}
		}
		for j := range desc.Streams {
			if desc.Streams[j].StreamName == m.Name {
				cm.stream = &desc.Streams[j]
			}
		}
		if cm.unary == nil && cm.stream == nil {
			r.Failf("infra", svc+": interface method without a gRPC descriptor", "%s.%s", svc, m.Name)
		}
		if cm.stream != nil && cm.stream.ClientStreams {
			r.Failf("infra", svc+": client-streaming method has no request builder", "%s.%s", svc, m.Name)
		}
		seen[m.Name] = true
		out = append(out, cm)
	}
	for _, d := range desc.Methods {
		if !seen[d.MethodName] {
			r.Failf("infra", svc+": descriptor method missing from the server interface", "%s.%s", svc, d.MethodName)
		}
	}
	for _, d := range desc.Streams {
		if !seen[d.StreamName] {
			r.Failf("infra", svc+": descriptor stream missing from the server interface", "%s.%s", svc, d.StreamName)
		}
	}
	sort.Slice(out, func(a, b int) bool { return out[a].name < out[b].name })
	return out
}

// ---------------------------------------------------------------------------------------
// generic request builder

type c32Filler struct {
	w      *c32World
	method string
	over   map[string]any // directed values by field name
	desc   []string
}

func (f *c32Filler) shardList() [][]byte {
	r := f.w.r
	if (f.method == "SetShardMode" || f.method == "FlushCache") && r.Bool(15) {
		f.desc = append(f.desc, "shards=all")
		return nil
	}
	var out [][]byte
	var names []string
	first := r.Intn(len(f.w.shards))
	out = append(out, f.w.shards[first].Bytes())
	names = append(names, fmt.Sprintf("s%d", first))
	if r.Bool(25) {
		o := (first + 1) % len(f.w.shards)
		out = append(out, f.w.shards[o].Bytes())
		names = append(names, fmt.Sprintf("s%d", o))
	}
	f.desc = append(f.desc, "shards="+strings.Join(names, ","))
	return out
}

func (f *c32Filler) objAddr() string {
	i := f.w.r.Intn(len(f.w.u.IDs))
	f.desc = append(f.desc, fmt.Sprintf("object=o%d", i))
	return f.w.addr(i).EncodeToString()
}

func (f *c32Filler) fillStruct(v reflect.Value) {
	r := f.w.r
	t := v.Type()
	for i := 0; i < t.NumField(); i++ {
		sf := t.Field(i)
		if !sf.IsExported() {
			continue
		}
		fv := v.Field(i)
		if ov, ok := f.over[sf.Name]; ok {
			fv.Set(reflect.ValueOf(ov).Convert(fv.Type()))
			if fv.Kind() == reflect.Slice {
				f.desc = append(f.desc, sf.Name+"=(probe)")
			} else {
				f.desc = append(f.desc, fmt.Sprintf("%s=%v", sf.Name, filepath.Base(fmt.Sprint(fv.Interface()))))
			}
			continue
		}
		isBytes := fv.Kind() == reflect.Slice && fv.Type().Elem().Kind() == reflect.Uint8
		isBytesList := fv.Kind() == reflect.Slice && fv.Type().Elem().Kind() == reflect.Slice && fv.Type().Elem().Elem().Kind() == reflect.Uint8
		lname := strings.ToLower(sf.Name)
		switch {
		case strings.Contains(lname, "shard") && isBytesList:
			fv.Set(reflect.ValueOf(f.shardList()))
		case strings.Contains(lname, "shard") && isBytes:
			i := r.Intn(len(f.w.shards))
			f.desc = append(f.desc, fmt.Sprintf("shard=s%d", i))
			fv.SetBytes(f.w.shards[i].Bytes())
		case strings.Contains(lname, "address") && isBytesList:
			n := 1 + r.Intn(2)
			var l [][]byte
			for k := 0; k < n; k++ {
				l = append(l, []byte(f.objAddr()))
			}
			fv.Set(reflect.ValueOf(l))
		case strings.Contains(lname, "address") && isBytes:
			fv.SetBytes([]byte(f.objAddr()))
		case strings.Contains(lname, "address") && fv.Kind() == reflect.String:
			fv.SetString(f.objAddr())
		case strings.Contains(lname, "path") && fv.Kind() == reflect.String:
			n := r.Intn(3)
			f.desc = append(f.desc, fmt.Sprintf("file=dump%d", n))
			fv.SetString(filepath.Join(f.w.dumpDir, fmt.Sprintf("dump%d", n)))
		case strings.Contains(lname, "hash") && isBytes:
			h := sha256.Sum256([]byte{byte(r.Intn(3))})
			f.desc = append(f.desc, fmt.Sprintf("hash=%x", h[:2]))
			fv.SetBytes(h[:])
		case fv.Kind() == reflect.Bool:
			b := r.Bool(40)
			f.desc = append(f.desc, fmt.Sprintf("%s=%v", sf.Name, b))
			fv.SetBool(b)
		case fv.Kind() == reflect.Int32 && fv.CanInterface() && c32IsEnum(fv):
			vals := fv.Interface().(protoreflect.Enum).Descriptor().Values()
			k := vals.Get(r.Intn(vals.Len()))
			f.desc = append(f.desc, fmt.Sprintf("%s=%s", sf.Name, k.Name()))
			fv.SetInt(int64(k.Number()))
		case fv.Kind() == reflect.String:
			s := []string{"vote", "setConfig", "x"}[r.Intn(3)]
			f.desc = append(f.desc, fmt.Sprintf("%s=%s", sf.Name, s))
			fv.SetString(s)
		case isBytes:
			fv.SetBytes([]byte{1, 2, byte(r.Intn(4))})
		case isBytesList:
			fv.Set(reflect.ValueOf([][]byte{{byte(r.Intn(4))}}))
		case fv.Kind() == reflect.Int32 || fv.Kind() == reflect.Int64:
			fv.SetInt(int64(r.Intn(4)))
		case fv.Kind() == reflect.Uint32 || fv.Kind() == reflect.Uint64:
			fv.SetUint(uint64(r.Intn(4)))
		case fv.Kind() == reflect.Ptr && fv.Type().Elem().Kind() == reflect.Struct:
			fv.Set(reflect.New(fv.Type().Elem()))
			f.fillStruct(fv.Elem())
		default:
			r.Failf("infra", "no request builder for a body field", "%s: field %s of type %s", f.method, sf.Name, fv.Type())
		}
	}
}

func c32IsEnum(v reflect.Value) bool {
	_, ok := v.Interface().(protoreflect.Enum)
	return ok
}

// changes one field of the body so that its value differs; reports which
func c32Corrupt(r *simkit.R, body reflect.Value) (string, bool) {
	t := body.Type()
	var idx []int
	for i := 0; i < t.NumField(); i++ {
		if t.Field(i).IsExported() {
			idx = append(idx, i)
		}
	}
	if len(idx) == 0 {
		return "", false
	}
	i := idx[r.Intn(len(idx))]
	fv := body.Field(i)
	switch {
	case fv.Kind() == reflect.Bool:
		fv.SetBool(!fv.Bool())
	case fv.Kind() == reflect.Int32 && c32IsEnum(fv):
		vals := fv.Interface().(protoreflect.Enum).Descriptor().Values()
		cur := 0
		for k := 0; k < vals.Len(); k++ {
			if int64(vals.Get(k).Number()) == fv.Int() {
				cur = k
			}
		}
		fv.SetInt(int64(vals.Get((cur + 1) % vals.Len()).Number()))
	case fv.Kind() == reflect.Int32 || fv.Kind() == reflect.Int64:
		fv.SetInt(fv.Int() + 1)
	case fv.Kind() == reflect.Uint32 || fv.Kind() == reflect.Uint64:
		fv.SetUint(fv.Uint() + 1)
	case fv.Kind() == reflect.String:
		fv.SetString(fv.String() + "x")
	case fv.Kind() == reflect.Slice && fv.Type().Elem().Kind() == reflect.Uint8:
		b := append([]byte{}, fv.Bytes()...)
		if len(b) > 0 {
			b[len(b)-1] ^= 1
		} else {
			b = []byte{1}
		}
		fv.SetBytes(b)
	case fv.Kind() == reflect.Slice && fv.Type().Elem().Kind() == reflect.Slice:
		l := fv.Interface().([][]byte)
		l = append([][]byte{}, l...)
		if len(l) > 0 && r.Bool(50) {
			e := append([]byte{}, l[len(l)-1]...)
			if len(e) > 0 {
				e[len(e)-1] ^= 1
			} else {
				e = []byte{1}
			}
			l[len(l)-1] = e
		} else {
			l = append(l, []byte{7})
		}
		fv.Set(reflect.ValueOf(l))
	default:
		return "", false
	}
	return t.Field(i).Name, true
}

// ---------------------------------------------------------------------------------------
// one call

const (
	cValid = iota
	cNoSig
	cWrongKey
	cBodyCorrupt
	cSigCorrupt
	cEmptySign
	cEmptyKey
	cKeySwap
	cKeyCut
	cKeyExt
	cOtherBody
	cOwnKey
	c32Cases
)

var c32CaseName = []string{"valid", "no signature", "key not authorised", "body changed after signing", "signature byte flipped", "empty signature",
	"empty key", "key field replaced by an authorised key", "key truncated", "key extended", "signature made over an empty body", "server's own key"}

type c32Signed interface {
	ReadSignedData([]byte) ([]byte, error)
}

type c32Outcome struct {
	err      error
	gotResp  bool
	sent     int
	valid    bool
	desc     string
	caseName string
	changed  bool
	diff     string
}

func (s *c32Svc) authorised(k *c32Key) bool {
	if s.ownAuth && k == s.own {
		return true
	}
	for _, a := range s.admins {
		if a == k {
			return true
		}
	}
	return false
}

func (w *c32World) call(s *c32Svc, m c32Method, cs int, over map[string]any) c32Outcome {
	r := w.r
	var out c32Outcome
	f := &c32Filler{w: w, method: m.name, over: over}

	// who signs
	var auth, unauth []*c32Key
	for _, k := range append(append([]*c32Key{}, w.pool...), w.strangers...) {
		if s.authorised(k) {
			auth = append(auth, k)
		} else {
			unauth = append(unauth, k)
		}
	}
	if s.ownAuth {
		auth = append(auth, s.own)
	}
	pickAuth := func() *c32Key { return auth[r.Intn(len(auth))] }
	pickUnauth := func() *c32Key { return unauth[r.Intn(len(unauth))] }
	if len(auth) == 0 {
		switch cs {
		case cValid, cBodyCorrupt, cSigCorrupt, cEmptySign, cEmptyKey, cKeySwap, cKeyCut, cKeyExt, cOtherBody:
			cs = cWrongKey // nobody is authorised at the moment
		}
	}
	if cs == cOwnKey && s.ownAuth {
		cs = cValid
	}

	fill := func(in any) error {
		v := reflect.ValueOf(in)
		if v.Kind() != reflect.Ptr || v.Elem().Kind() != reflect.Struct {
			r.Failf("infra", "request is not a pointer to a struct", "%s.%s: %T", s.name, m.name, in)
		}
		bf := v.Elem().FieldByName("Body")
		sf := v.Elem().FieldByName("Signature")
		if !bf.IsValid() || bf.Kind() != reflect.Ptr || !sf.IsValid() || sf.Kind() != reflect.Ptr {
			r.Failf("infra", "request type without Body/Signature fields", "%s.%s: %T", s.name, m.name, in)
		}
		sd, ok := in.(c32Signed)
		if !ok {
			r.Failf("infra", "request type without ReadSignedData", "%s.%s: %T", s.name, m.name, in)
		}
		bf.Set(reflect.New(bf.Type().Elem()))
		f.fillStruct(bf.Elem())
		signed := func() []byte { b, _ := sd.ReadSignedData(nil); return append([]byte{}, b...) }
		sigBytes := func(name string) reflect.Value { return sf.Elem().FieldByName(name) }
		signer := s.own
		var what string
		switch cs {
		case cNoSig:
			out.caseName = c32CaseName[cs]
			out.valid = false
			out.desc = strings.Join(f.desc, " ")
			return nil
		case cWrongKey, cKeySwap:
			signer = pickUnauth()
		case cOwnKey:
			signer = s.own
		default:
			signer = pickAuth()
		}
		if cs == cOtherBody {
			// sign the request with an empty body, then put the real body back
			full := bf.Interface()
			bf.Set(reflect.New(bf.Type().Elem()))
			if err := s.sign(signer.priv, in); err != nil {
				r.Failf("infra", "SignMessage failed", "%v", err)
			}
			empty := signed()
			bf.Set(reflect.ValueOf(full))
			if string(empty) == string(signed()) {
				// a body without content is its own empty twin: this is an ordinary signed request
				cs = cValid
				out.valid = s.authorised(signer)
			}
		} else {
			if err := s.sign(signer.priv, in); err != nil {
				r.Failf("infra", "SignMessage failed", "%v", err)
			}
			out.valid = s.authorised(signer)
		}
		switch cs {
		case cBodyCorrupt:
			before := signed()
			name, ok := c32Corrupt(r, bf.Elem())
			if !ok {
				// nothing to change in this body: flip a signature byte instead
				cs = cSigCorrupt
				b := append([]byte{}, sigBytes("Sign").Bytes()...)
				b[len(b)/2] ^= 0x20
				sigBytes("Sign").SetBytes(b)
				out.valid = false
				break
			}
			what = " (" + name + ")"
			if string(before) == string(signed()) {
				r.Failf("unsigned-field", "a body field is not covered by the signed data", "%s.%s: changing field %s of the body does not change the signed data", s.name, m.name, name)
			}
			out.valid = false
		case cSigCorrupt:
			b := append([]byte{}, sigBytes("Sign").Bytes()...)
			b[len(b)/2] ^= 0x20
			sigBytes("Sign").SetBytes(b)
			out.valid = false
		case cEmptySign:
			sigBytes("Sign").SetBytes(nil)
			out.valid = false
		case cEmptyKey:
			sigBytes("Key").SetBytes(nil)
			out.valid = false
		case cKeySwap:
			sigBytes("Key").SetBytes(append([]byte{}, pickAuth().pub...))
			out.valid = false
		case cKeyCut:
			k := sigBytes("Key").Bytes()
			sigBytes("Key").SetBytes(append([]byte{}, k[:len(k)-1-r.Intn(3)]...))
			out.valid = false
		case cKeyExt:
			sigBytes("Key").SetBytes(append(append([]byte{}, sigBytes("Key").Bytes()...), 0))
			out.valid = false
		}
		out.caseName = c32CaseName[cs] + what
		out.desc = strings.Join(f.desc, " ") + " signer=" + signer.name
		return nil
	}

	before := w.last // nothing but control calls changes the state, so the previous "after" is still true
	if before == "" {
		before = w.digest()
	}
	if m.unary != nil {
		resp, err := m.unary.Handler(s.srv, context.Background(), fill, nil)
		out.err = err
		out.gotResp = resp != nil && !reflect.ValueOf(resp).IsNil()
	} else {
		st := &c32Stream{fill: fill}
		out.err = m.stream.Handler(s.srv, st)
		out.sent = st.sent
		out.gotResp = st.sent > 0
	}
	after := w.digestParts(s == w.node)
	w.last = after
	out.changed = before != after
	if out.changed {
		out.diff = w.diff(before, after)
	}
	return out
}

func c32Err(w *c32World, err error) string {
	if err == nil {
		return "ok"
	}
	if st, ok := status.FromError(err); ok {
		return fmt.Sprintf("%s(%s)", st.Code(), w.strip(st.Message()))
	}
	return "error(" + w.strip(err.Error()) + ")"
}

// judge applies the statement to one call.
func (w *c32World) judge(s *c32Svc, m c32Method, o c32Outcome) {
	r := w.r
	r.Op("%s.%s [%s] %s -> %s%s", s.name, m.name, o.caseName, o.desc, c32Err(w, o.err), map[bool]string{true: " state changed", false: ""}[o.changed])
	if !o.valid {
		if o.err == nil || o.gotResp {
			r.Failf("unauthorised-executed", fmt.Sprintf("%s.%s answered a request that is not correctly signed by an authorised key [%s]", s.name, m.name, c32Class(o.caseName)),
				"%s.%s with %s (%s) returned %s, responses sent: %d", s.name, m.name, o.caseName, o.desc, c32Err(w, o.err), o.sent)
		}
		if o.changed {
			r.Failf("unauthorised-effect", fmt.Sprintf("%s.%s changed state on a request that is not correctly signed by an authorised key [%s]", s.name, m.name, c32Class(o.caseName)),
				"%s.%s with %s (%s) returned %s but the state changed: %s", s.name, m.name, o.caseName, o.desc, c32Err(w, o.err), o.diff)
		}
		if st, ok := status.FromError(o.err); !ok || st.Code() != codes.PermissionDenied {
			r.Probe("rejected with a status other than PermissionDenied: " + s.name + "." + m.name)
		}
		r.Fired("invalid: " + c32Class(o.caseName))
		return
	}
	if st, ok := status.FromError(o.err); o.err != nil && ok && st.Code() == codes.PermissionDenied {
		r.Failf("authorised-denied", fmt.Sprintf("%s.%s denied a request correctly signed by an authorised key", s.name, m.name),
			"%s.%s with %s (%s) returned %s", s.name, m.name, o.caseName, o.desc, c32Err(w, o.err))
	}
	if o.changed {
		r.Probe("valid call changed the state: " + s.name + "." + m.name)
	}
}

func c32Class(caseName string) string {
	if i := strings.Index(caseName, " ("); i > 0 {
		return caseName[:i]
	}
	return caseName
}

// ---------------------------------------------------------------------------------------
// the run

func (w *c32World) restartNode(admins []*c32Key, ready bool) {
	var raw [][]byte
	for _, a := range admins {
		raw = append(raw, a.pub)
	}
	srv := New(w.node.own.priv, raw, w.hc, zap.NewNop())
	if ready {
		srv.MarkReady(w.eng, w.pl, w.repl, w.ns)
	}
	w.node.srv, w.node.admins, w.node.ready = srv, admins, ready
}

func (w *c32World) restartIR(admins []*c32Key) {
	var raw [][]byte
	for _, a := range admins {
		raw = append(raw, a.pub)
	}
	var prm irsrv.Prm
	k, err := keys.NewPrivateKeyFromBytes(w.ir.own.priv.D.FillBytes(make([]byte, 32)))
	if err != nil {
		w.r.Failf("infra", "ir key", "%v", err)
	}
	prm.SetPrivateKey(*k)
	prm.SetHealthChecker(w.irhc)
	prm.SetNetworkManager(w.notary)
	w.ir.srv, w.ir.admins, w.ir.ready = irsrv.New(prm, irsrv.WithAllowedKeys(raw)), admins, true
}

func (w *c32World) pickAdmins() []*c32Key {
	r := w.r
	n := []int{1, 2, 0, 3}[r.Weighted(45, 30, 10, 15)]
	p := r.Perm(len(w.pool))
	var out []*c32Key
	for i := 0; i < n; i++ {
		out = append(out, w.pool[p[i]])
	}
	sort.Slice(out, func(a, b int) bool { return out[a].name < out[b].name })
	return out
}

func c32Names(ks []*c32Key) string {
	var s []string
	for _, k := range ks {
		s = append(s, k.name)
	}
	return "[" + strings.Join(s, " ") + "]"
}

func (w *c32World) method(s *c32Svc, name string) c32Method {
	for _, m := range s.methods {
		if m.name == name {
			return m
		}
	}
	w.r.Failf("infra", "expected state-changing method is gone: "+s.name+"."+name, "the effect probe needs %s.%s", s.name, name)
	return c32Method{}
}

func runC32(r *simkit.R) {
	w := &c32World{r: r, salt: r.U32() % 1000, ns: &c32NodeState{}, hc: &c32Health{}, cc: &c32Clients{}, notary: &c32Notary{}, irhc: &c32IRHealth{}}
	w.u = zz.NewUniverse(w.salt, 2, 4)
	w.dumpDir = filepath.Join(r.Dir, "dumps")
	if err := os.MkdirAll(w.dumpDir, 0o700); err != nil {
		r.Failf("infra", "mkdir", "%v", err)
	}
	for i := 0; i < 3; i++ {
		w.pool = append(w.pool, c32NewKey(fmt.Sprintf("admin%d", i), w.salt))
	}
	for i := 0; i < 2; i++ {
		w.strangers = append(w.strangers, c32NewKey(fmt.Sprintf("stranger%d", i), w.salt))
	}
	w.startEngine()

	// placement and replication as in the node
	net := &c32Net{}
	if err := net.pol.DecodeString("REP 1"); err != nil {
		r.Failf("infra", "policy", "%v", err)
	}
	nodeKey := c32NewKey("node", w.salt)
	var nodes []netmap.NodeInfo
	for i, pub := range [][]byte{nodeKey.pub, c32NewKey("remote", w.salt).pub} {
		var ni netmap.NodeInfo
		ni.SetPublicKey(pub)
		ni.SetNetworkEndpoints(fmt.Sprintf("/ip4/10.0.0.%d/tcp/8080", i+1))
		nodes = append(nodes, ni)
	}
	net.nm.SetEpoch(10)
	net.nm.SetNodes(nodes)
	var err error
	if w.pl, err = placement.New(net, net); err != nil {
		r.Failf("infra", "placement", "%v", err)
	}
	w.repl = replicator.New(replicator.WithLogger(zap.NewNop()), replicator.WithPutTimeout(time.Second), replicator.WithLocalStorage(w.eng), replicator.WithLocalNodeKey(w.ns),
		replicator.WithRemoteSender(putsvc.NewRemoteSender(objutil.NewKeyStorage(nodeKey.priv, nil, c32Epoch{}), w.cc)))

	w.node = &c32Svc{name: "node", own: nodeKey, sign: func(k *ecdsa.PrivateKey, m any) error { return SignMessage(k, m.(SignedMessage)) }}
	w.ir = &c32Svc{name: "ir", own: c32NewKey("ir", w.salt), ownAuth: true, sign: func(k *ecdsa.PrivateKey, m any) error { return irsrv.SignMessage(k, m.(irsrv.SignedMessage)) }}
	startReady := !r.Bool(20)
	w.restartNode(w.pickAdmins(), startReady)
	w.restartIR(w.pickAdmins())
	w.node.methods = c32Enumerate(r, "node", reflect.TypeOf((*control.ControlServiceServer)(nil)).Elem(), w.node.srv, &control.ControlService_ServiceDesc)
	w.ir.methods = c32Enumerate(r, "ir", reflect.TypeOf((*irctl.ControlServiceServer)(nil)).Elem(), w.ir.srv, &irctl.ControlService_ServiceDesc)
	r.Logf("config node admins=%s ready=%v methods=%d; ir admins=%s (+own key) methods=%d", c32Names(w.node.admins), startReady, len(w.node.methods), c32Names(w.ir.admins), len(w.ir.methods))

	validPct := []int{35, 20, 50}[r.Intn(3)]
	stateChanged, nontrivial := false, false
	ncalls := 8 + r.Intn(23)
	for step := 0; step < ncalls; step++ {
		r.Step()
		// restarts with another key list; late MarkReady
		switch r.Weighted(86, 7, 7) {
		case 1:
			w.restartNode(w.pickAdmins(), w.node.ready || r.Bool(70))
			r.Fired("node restarted with another key list")
			r.Logf("  node restarted: admins=%s ready=%v", c32Names(w.node.admins), w.node.ready)
		case 2:
			w.restartIR(w.pickAdmins())
			r.Fired("ir restarted with another key list")
			r.Logf("  ir restarted: admins=%s", c32Names(w.ir.admins))
		}
		if !w.node.ready && r.Bool(30) {
			w.node.srv.(*Server).MarkReady(w.eng, w.pl, w.repl, w.ns)
			w.node.ready = true
			r.Logf("  node marked ready")
		}
		s := w.node
		if r.Bool(25) {
			s = w.ir
		}
		m := s.methods[r.Intn(len(s.methods))]
		cs := cValid
		if !r.Bool(validPct) {
			cs = 1 + r.Intn(c32Cases-1)
		}
		o := w.call(s, m, cs, nil)
		w.judge(s, m, o)
		if r.Violated() {
			return
		}
		if o.valid && o.changed {
			stateChanged = true
		}
		if !o.valid && stateChanged {
			nontrivial = true
		}
	}

	// ---- effect probes: the correctly signed calls must do their work, or nothing above means anything
	if len(w.node.admins) == 0 || !w.node.ready {
		w.restartNode(w.pool[:1], true)
		r.Logf("  node restarted for the effect probes: admins=%s", c32Names(w.node.admins))
	}
	must := func(s *c32Svc, name string, over map[string]any, want func(before, after string) bool, what string) {
		m := w.method(s, name)
		before := w.digest()
		o := w.call(s, m, cValid, over)
		w.judge(s, m, o)
		if r.Violated() {
			return
		}
		if o.err != nil || !want(before, w.digest()) {
			r.Failf("no-effect", fmt.Sprintf("correctly signed %s.%s had no effect", s.name, name), "%s.%s (%s) returned %s; expected: %s", s.name, name, o.desc, c32Err(w, o.err), what)
		}
	}
	both := [][]byte{w.shards[0].Bytes(), w.shards[1].Bytes()}
	must(w.node, "SetNetmapStatus", map[string]any{"Status": control.NetmapStatus_MAINTENANCE}, func(b, a string) bool {
		return a != b && len(w.ns.log) > 0 && strings.HasSuffix(w.ns.log[len(w.ns.log)-1], "MAINTENANCE")
	}, "the node state receives MAINTENANCE")
	if r.Violated() {
		return
	}
	must(w.node, "SetShardMode", map[string]any{"Shard_ID": both, "Mode": control.ShardMode_READ_WRITE, "ResetErrorCounter": false}, func(b, a string) bool {
		return w.modes() == fmt.Sprint([]mode.Mode{mode.ReadWrite, mode.ReadWrite})
	}, "both shards read-write")
	if r.Violated() {
		return
	}
	// make sure object 0 is there (restoring or reviving is not needed: put it again if it was dropped)
	_ = w.eng.Put(context.Background(), w.u.Build(w.u.Specs[0]), nil)
	w.last = ""
	must(w.node, "DropObjects", map[string]any{"AddressList": [][]byte{[]byte(w.addr(0).EncodeToString())}}, func(b, a string) bool {
		_, err := w.eng.Get(context.Background(), w.addr(0))
		return err != nil
	}, "object o0 is gone")
	if r.Violated() {
		return
	}
	must(w.node, "SetShardMode", map[string]any{"Shard_ID": [][]byte{w.shards[0].Bytes()}, "Mode": control.ShardMode_READ_ONLY, "ResetErrorCounter": false}, func(b, a string) bool {
		return w.modes() == fmt.Sprint([]mode.Mode{mode.ReadOnly, mode.ReadWrite})
	}, "shard s0 read-only")
	if r.Violated() {
		return
	}
	must(w.node, "DumpShard", map[string]any{"Shard_ID": w.shards[0].Bytes(), "Filepath": filepath.Join(w.dumpDir, "probe"), "IgnoreErrors": false}, func(b, a string) bool {
		fi, err := os.Stat(filepath.Join(w.dumpDir, "probe"))
		return err == nil && fi.Size() > 0
	}, "a dump file is written")
	if r.Violated() {
		return
	}
	must(w.node, "EvacuateShard", map[string]any{"Shard_ID": [][]byte{w.shards[0].Bytes()}, "IgnoreErrors": false}, func(b, a string) bool {
		// every object still held by s0 must now also be in s1
		for i := range w.u.IDs {
			st, err := w.eng.ObjectStatus(context.Background(), w.addr(i))
			if err != nil {
				return false
			}
			in := map[string]bool{}
			for _, s := range st.Shards {
				if s.Shard.Blob.Type != "" {
					in[s.ID] = true
				}
			}
			if in[w.shards[0].String()] && !in[w.shards[1].String()] {
				return false
			}
		}
		return true
	}, "objects of s0 are copied to s1")
	if r.Violated() {
		return
	}
	must(w.ir, "NotaryRequest", map[string]any{"Method": "probe"}, func(b, a string) bool {
		return len(w.notary.log) > 0 && strings.HasPrefix(w.notary.log[len(w.notary.log)-1], "notary-request:probe")
	}, "the notary manager receives the request")
	if r.Violated() {
		return
	}
	must(w.ir, "NotarySign", nil, func(b, a string) bool {
		return len(w.notary.log) > 0 && strings.HasPrefix(w.notary.log[len(w.notary.log)-1], "notary-sign:")
	}, "the notary manager signs")
	if nontrivial {
		r.Nontrivial()
	}
}

func (w *c32World) modes() string {
	info := w.eng.DumpInfo()
	sort.Slice(info.Shards, func(i, j int) bool { return info.Shards[i].ID.String() < info.Shards[j].ID.String() })
	var ms []mode.Mode
	for _, s := range info.Shards {
		ms = append(ms, s.Mode)
	}
	return fmt.Sprint(ms)
}
