//go:build verif

package replicator

// Seam for the policer world (C26, C27): the replicator's local storage is the concrete
// *engine.StorageEngine, so the two calls HandleTask makes on it are redirected (rules/policer.json)
// to the functions below.  A replicator whose engine pointer was registered with
// ZZVerifRegisterStorage reads and writes the simulated node's store instead; every other
// replicator (no registration) behaves exactly as before.

import (
	"context"
	"sync"

	"github.com/nspcc-dev/neofs-node/pkg/local_object_storage/engine"
	"github.com/nspcc-dev/neofs-sdk-go/object"
	oid "github.com/nspcc-dev/neofs-sdk-go/object/id"
)

// ZZVerifStorage is what HandleTask needs from the local storage.
type ZZVerifStorage interface {
	GetBytes(context.Context, oid.Address) ([]byte, error)
	Put(context.Context, *object.Object, []byte) error
}

var zzverifStores sync.Map // *engine.StorageEngine -> ZZVerifStorage

// ZZVerifRegisterStorage returns an engine handle (never called into) that stands for st;
// pass it to WithLocalStorage.  The returned function removes the registration.
func ZZVerifRegisterStorage(st ZZVerifStorage) (*engine.StorageEngine, func()) {
	e := new(engine.StorageEngine)
	zzverifStores.Store(e, st)
	return e, func() { zzverifStores.Delete(e) }
}

func zzverifGetBytes(e *engine.StorageEngine, ctx context.Context, addr oid.Address) ([]byte, error) {
	if st, ok := zzverifStores.Load(e); ok {
		return st.(ZZVerifStorage).GetBytes(ctx, addr)
	}
	return e.GetBytes(ctx, addr)
}

func zzverifPut(e *engine.StorageEngine, ctx context.Context, obj *object.Object, bin []byte) error {
	if st, ok := zzverifStores.Load(e); ok {
		return st.(ZZVerifStorage).Put(ctx, obj, bin)
	}
	return e.Put(ctx, obj, bin)
}

// ZZVerifTaskQuantity returns the number of copies the task asks for.
func ZZVerifTaskQuantity(t Task) uint32 { return t.quantity }

// ZZVerifTaskAddress returns the address of the object to replicate.
func ZZVerifTaskAddress(t Task) oid.Address { return t.addr }

// ZZVerifTaskObject returns the in-memory object of the task (nil = read it from the local storage).
func ZZVerifTaskObject(t Task) *object.Object { return t.obj }
