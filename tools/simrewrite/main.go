// simrewrite applies small syntactic rewrite rules to the *current* sources of /repo and
// writes the rewritten copies elsewhere; the copies are substituted at build time through
// `go build -overlay`, so /repo itself stays byte-identical.
package main

import (
	"encoding/json"
	"flag"
	"fmt"
	"os"
)

func main() {
	repo := flag.String("repo", "/repo", "repository root")
	out := flag.String("out", "", "output directory for rewritten files")
	report := flag.String("report", "", "report file")
	flag.Parse()
	rep, err := run(*repo, *out, flag.Args())
	if err != nil {
		fmt.Fprintln(os.Stderr, "simrewrite:", err)
		os.Exit(1)
	}
	b, _ := json.MarshalIndent(rep, "", " ")
	if err := os.WriteFile(*report, b, 0o644); err != nil {
		fmt.Fprintln(os.Stderr, "simrewrite:", err)
		os.Exit(1)
	}
}
