// Package simkit is the deterministic-simulation kernel used by every check in /verif.
//
// One integer (the run seed) decides everything: the Chooser turns it into a tape of
// 32-bit draws, every decision of a run (next operation, its arguments, which parked
// goroutine proceeds, clock steps, faults, crash points, iteration orders) is
// tape[i] % n.  A recorded tape replays the run exactly; an exhausted tape yields 0
// ("default / no fault / stop"), so shorter and smaller tapes are simpler runs, which is
// what the shrinker exploits.
package simkit

import (
	"math/rand/v2"
)

// Chooser is the single source of nondeterminism of a run.
type Chooser struct {
	rng    *rand.PCG // nil in replay mode
	tape   []uint32  // replay: input; generate: drawn so far
	mods   []uint32  // modulus used at each position (for normalisation)
	pos    int
	replay bool
	limit  int // max draws in generate mode; afterwards zeros
}

// NewChooser creates a generating chooser for the given run seed.
func NewChooser(seed uint64, limit int) *Chooser {
	return &Chooser{rng: rand.NewPCG(seed, seed^0x9e3779b97f4a7c15), limit: limit}
}

// NewReplayChooser replays a recorded tape; beyond its end every draw is 0.
func NewReplayChooser(tape []uint32) *Chooser {
	return &Chooser{tape: tape, replay: true}
}

// Tape returns the draws consumed so far (generate) or the normalised input (replay).
func (c *Chooser) Tape() []uint32 {
	out := make([]uint32, 0, c.pos)
	for i := 0; i < c.pos && i < len(c.tape); i++ {
		v := c.tape[i]
		if i < len(c.mods) && c.mods[i] > 0 {
			v %= c.mods[i]
		}
		out = append(out, v)
	}
	// trailing zeros are implicit
	for len(out) > 0 && out[len(out)-1] == 0 {
		out = out[:len(out)-1]
	}
	return out
}

// Draws reports how many draws were consumed.
func (c *Chooser) Draws() int { return c.pos }

func (c *Chooser) next(mod uint32) uint32 {
	var v uint32
	if c.replay {
		if c.pos < len(c.tape) {
			v = c.tape[c.pos]
		}
	} else {
		if c.pos < c.limit {
			v = uint32(c.rng.Uint64() >> 32)
		}
		c.tape = append(c.tape, v)
	}
	if c.pos < 1<<20 {
		for len(c.mods) <= c.pos {
			c.mods = append(c.mods, 0)
		}
		c.mods[c.pos] = mod
	}
	c.pos++
	return v
}

// Intn returns a value in [0,n).  n <= 1 consumes nothing.
func (c *Chooser) Intn(n int) int {
	if n <= 1 {
		return 0
	}
	return int(c.next(uint32(n)) % uint32(n))
}

// Range returns a value in [lo,hi] (inclusive).
func (c *Chooser) Range(lo, hi int) int {
	if hi <= lo {
		return lo
	}
	return lo + c.Intn(hi-lo+1)
}

// Bool is true with probability pct/100.  A zero draw is always false.
func (c *Chooser) Bool(pct int) bool {
	if pct <= 0 {
		return false
	}
	if pct >= 100 {
		return true
	}
	// 0 must mean "false" so that exhausted tapes take the default branch.
	return 100-c.Intn(100) <= pct
}

// Weighted picks an index proportionally to weights; zero draw picks the first index
// with a non-zero weight.
func (c *Chooser) Weighted(weights ...int) int {
	total := 0
	for _, w := range weights {
		if w > 0 {
			total += w
		}
	}
	if total == 0 {
		return 0
	}
	x := c.Intn(total)
	for i, w := range weights {
		if w <= 0 {
			continue
		}
		if x < w {
			return i
		}
		x -= w
	}
	return len(weights) - 1
}

// U32 returns a raw draw (used as a sub-seed for bulk data such as payload bytes).
func (c *Chooser) U32() uint32 { return c.next(0) }

// Bytes returns n pseudo-random bytes derived from a single draw.
func (c *Chooser) Bytes(n int) []byte {
	s := uint64(c.U32())
	g := rand.NewPCG(s, 0xabcdef)
	b := make([]byte, n)
	for i := 0; i < n; i += 8 {
		v := g.Uint64()
		for j := 0; j < 8 && i+j < n; j++ {
			b[i+j] = byte(v >> (8 * j))
		}
	}
	return b
}

// Perm returns a permutation of [0,n) chosen by the tape (identity on zero draws).
func (c *Chooser) Perm(n int) []int {
	p := make([]int, n)
	for i := range p {
		p[i] = i
	}
	for i := 0; i < n-1; i++ {
		j := i + c.Intn(n-i)
		p[i], p[j] = p[j], p[i]
	}
	return p
}
