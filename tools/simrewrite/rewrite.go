package main

import (
	"bytes"
	"encoding/json"
	"fmt"
	"go/ast"
	"go/format"
	"go/parser"
	"go/token"
	"os"
	"path/filepath"
	"strconv"
	"strings"
)

// Rule is one rewrite rule.  Every rule must match at least Min sites (default 1) or the
// tool fails: a seam that silently disappears would silently remove a fault dimension.
type Rule struct {
	Kind string `json:"kind"` // callsel | lockgate | rwgate | wrapfunc | orderedrange | append | addimport
	File string `json:"file"` // path relative to the repo root
	Min  int    `json:"min"`

	// callsel: replace calls X.Sel(...) by NewPkg.NewSel(...)
	X      string `json:"x,omitempty"`
	Sel    string `json:"sel,omitempty"`
	NewX   string `json:"new_x,omitempty"`
	NewSel string `json:"new_sel,omitempty"`
	// Func restricts a rule to the body of the named function/method (optional)
	Func string `json:"func,omitempty"`

	// wrapfunc: rename method/func Name to Name__orig and emit wrapper calling Hook
	Recv string `json:"recv,omitempty"` // receiver type name without '*', empty for plain funcs
	Name string `json:"name,omitempty"`
	Hook string `json:"hook,omitempty"` // package-level variable name of the hook

	// orderedrange: `for k, v := range EXPR` where printed EXPR == Expr → range simkit.Ordered(EXPR)
	Expr string `json:"expr,omitempty"`

	// append: verbatim text appended to the file
	Text string `json:"text,omitempty"`

	// imports to add: alias=path
	Imports map[string]string `json:"imports,omitempty"`

	// wrapall: wrap every exported method of Recv declared in File (or only Names, minus Exclude)
	// with a generic hook `Hook func(recv T, name string, args []any) (rets []any, handled bool)`
	// that must be declared by a harness file of the package.
	Names   []string `json:"names,omitempty"`
	Exclude []string `json:"exclude,omitempty"`
}

type RuleFile struct {
	Rules []Rule `json:"rules"`
}

type Report struct {
	Files map[string]string `json:"files"` // repo-relative path -> rewritten copy
	Sites map[string]int    `json:"sites"` // rule description -> matches
}

func run(repo, out string, ruleFiles []string) (*Report, error) {
	rep := &Report{Files: map[string]string{}, Sites: map[string]int{}}
	byFile := map[string][]Rule{}
	var order []string
	for _, rf := range ruleFiles {
		b, err := os.ReadFile(rf)
		if err != nil {
			return nil, err
		}
		var doc RuleFile
		if err := json.Unmarshal(b, &doc); err != nil {
			return nil, fmt.Errorf("%s: %w", rf, err)
		}
		for _, r := range doc.Rules {
			if _, ok := byFile[r.File]; !ok {
				order = append(order, r.File)
			}
			byFile[r.File] = append(byFile[r.File], r)
		}
	}
	for _, rel := range order {
		src := filepath.Join(repo, rel)
		fset := token.NewFileSet()
		f, err := parser.ParseFile(fset, src, nil, parser.ParseComments)
		if err != nil {
			return nil, fmt.Errorf("parse %s: %w", rel, err)
		}
		var extra []string
		for _, r := range byFile[rel] {
			n, ex, err := apply(fset, f, r)
			if err != nil {
				return nil, fmt.Errorf("%s: %s: %w", rel, r.Kind, err)
			}
			desc := fmt.Sprintf("%s %s %s%s%s%s", rel, r.Kind, r.X, r.Sel, r.Name, r.Expr)
			rep.Sites[desc] += n
			min := r.Min
			if min == 0 {
				min = 1
			}
			if n < min {
				return nil, fmt.Errorf("seam not installed: rule %q matched %d site(s), needs >= %d", desc, n, min)
			}
			extra = append(extra, ex...)
			for alias, path := range r.Imports {
				addImport(f, alias, path)
			}
		}
		var buf bytes.Buffer
		if err := format.Node(&buf, fset, f); err != nil {
			return nil, fmt.Errorf("print %s: %w", rel, err)
		}
		for _, e := range extra {
			buf.WriteString("\n" + e + "\n")
		}
		dst := filepath.Join(out, strings.ReplaceAll(rel, "/", "__"))
		if err := os.WriteFile(dst, buf.Bytes(), 0o644); err != nil {
			return nil, err
		}
		rep.Files[rel] = dst
	}
	return rep, nil
}

func addImport(f *ast.File, alias, path string) {
	for _, im := range f.Imports {
		if im.Path.Value == strconv.Quote(path) {
			return
		}
	}
	spec := &ast.ImportSpec{Path: &ast.BasicLit{Kind: token.STRING, Value: strconv.Quote(path)}}
	if alias != "" {
		spec.Name = ast.NewIdent(alias)
	}
	decl := &ast.GenDecl{Tok: token.IMPORT, Specs: []ast.Spec{spec}}
	f.Decls = append([]ast.Decl{decl}, f.Decls...)
	f.Imports = append(f.Imports, spec)
}

func exprString(fset *token.FileSet, e ast.Expr) string {
	var buf bytes.Buffer
	_ = format.Node(&buf, fset, e)
	return buf.String()
}

func funcName(fd *ast.FuncDecl) string {
	if fd.Recv != nil && len(fd.Recv.List) == 1 {
		t := fd.Recv.List[0].Type
		if s, ok := t.(*ast.StarExpr); ok {
			t = s.X
		}
		if ix, ok := t.(*ast.IndexExpr); ok {
			t = ix.X
		}
		if id, ok := t.(*ast.Ident); ok {
			return id.Name + "." + fd.Name.Name
		}
	}
	return fd.Name.Name
}

func apply(fset *token.FileSet, f *ast.File, r Rule) (int, []string, error) {
	n := 0
	var extra []string
	scope := func(visit func(ast.Node) bool) {
		for _, d := range f.Decls {
			fd, ok := d.(*ast.FuncDecl)
			if !ok || fd.Body == nil {
				continue
			}
			if r.Func != "" && funcName(fd) != r.Func {
				continue
			}
			ast.Inspect(fd.Body, visit)
		}
	}
	switch r.Kind {
	case "callsel":
		scope(func(nd ast.Node) bool {
			ce, ok := nd.(*ast.CallExpr)
			if !ok {
				return true
			}
			se, ok := ce.Fun.(*ast.SelectorExpr)
			if !ok || se.Sel.Name != r.Sel {
				return true
			}
			if exprString(fset, se.X) != r.X {
				return true
			}
			if r.NewX == "" {
				// method call on a value: X.Sel(args) -> NewSel(X, args)
				ce.Args = append([]ast.Expr{se.X}, ce.Args...)
				ce.Fun = mustExpr(r.NewSel)
			} else {
				ce.Fun = &ast.SelectorExpr{X: ast.NewIdent(r.NewX), Sel: ast.NewIdent(r.NewSel)}
			}
			n++
			return true
		})
	case "lockgate":
		// X.Lock() -> NewX.Lock(X.TryLock, X.Lock, "site"); same for RLock
		scope(func(nd ast.Node) bool {
			ce, ok := nd.(*ast.CallExpr)
			if !ok || len(ce.Args) != 0 {
				return true
			}
			se, ok := ce.Fun.(*ast.SelectorExpr)
			if ok && (se.Sel.Name == "Unlock" || se.Sel.Name == "RUnlock") {
				if r.X != "" && exprString(fset, se.X) != r.X {
					return true
				}
				if id, isID := se.X.(*ast.Ident); isID && id.Name == r.NewX {
					return true // already rewritten
				}
				ce.Args = []ast.Expr{&ast.SelectorExpr{X: se.X, Sel: ast.NewIdent(se.Sel.Name)}}
				ce.Fun = &ast.SelectorExpr{X: ast.NewIdent(r.NewX), Sel: ast.NewIdent("Unlock")}
				return true
			}
			if !ok || (se.Sel.Name != "Lock" && se.Sel.Name != "RLock") {
				return true
			}
			xs := exprString(fset, se.X)
			if r.X != "" && xs != r.X {
				return true
			}
			try := "TryLock"
			if se.Sel.Name == "RLock" {
				try = "TryRLock"
			}
			pos := fset.Position(ce.Pos())
			site := fmt.Sprintf("%s:%s.%s", filepath.Base(pos.Filename), xs, se.Sel.Name)
			ce.Args = []ast.Expr{
				&ast.SelectorExpr{X: se.X, Sel: ast.NewIdent(try)},
				&ast.SelectorExpr{X: se.X, Sel: ast.NewIdent(se.Sel.Name)},
				&ast.BasicLit{Kind: token.STRING, Value: strconv.Quote(site)},
			}
			ce.Fun = &ast.SelectorExpr{X: ast.NewIdent(r.NewX), Sel: ast.NewIdent("Lock")}
			n++
			return true
		})
	case "rwgate":
		// EXPR.Lock()/Unlock()/RLock()/RUnlock() -> NewX.RWLock(&EXPR, "site") etc.: a
		// sync.RWMutex whose acquisitions become scheduling points with Go's writer preference
		scope(func(nd ast.Node) bool {
			ce, ok := nd.(*ast.CallExpr)
			if !ok || len(ce.Args) != 0 {
				return true
			}
			se, ok := ce.Fun.(*ast.SelectorExpr)
			if !ok || exprString(fset, se.X) != r.Expr {
				return true
			}
			var fn string
			switch se.Sel.Name {
			case "Lock":
				fn = "RWLock"
			case "Unlock":
				fn = "RWUnlock"
			case "RLock":
				fn = "RWRLock"
			case "RUnlock":
				fn = "RWRUnlock"
			default:
				return true
			}
			pos := fset.Position(ce.Pos())
			site := fmt.Sprintf("%s:%d", filepath.Base(pos.Filename), pos.Line)
			ce.Args = []ast.Expr{&ast.UnaryExpr{Op: token.AND, X: se.X}}
			if fn == "RWLock" || fn == "RWRLock" {
				ce.Args = append(ce.Args, &ast.BasicLit{Kind: token.STRING, Value: strconv.Quote(site)})
			}
			ce.Fun = &ast.SelectorExpr{X: ast.NewIdent(r.NewX), Sel: ast.NewIdent(fn)}
			n++
			return true
		})
	case "orderedrange":
		scope(func(nd ast.Node) bool {
			rs, ok := nd.(*ast.RangeStmt)
			if !ok {
				return true
			}
			if exprString(fset, rs.X) != r.Expr {
				return true
			}
			rs.X = &ast.CallExpr{Fun: &ast.SelectorExpr{X: ast.NewIdent(r.NewX), Sel: ast.NewIdent(r.NewSel)}, Args: []ast.Expr{rs.X}}
			n++
			return true
		})
	case "wrapfunc":
		for _, d := range f.Decls {
			fd, ok := d.(*ast.FuncDecl)
			if !ok || fd.Body == nil || fd.Name.Name != r.Name {
				continue
			}
			want := r.Name
			if r.Recv != "" {
				want = r.Recv + "." + r.Name
			}
			if funcName(fd) != want {
				continue
			}
			w, err := makeWrapper(fset, fd, r)
			if err != nil {
				return 0, nil, err
			}
			fd.Name = ast.NewIdent(r.Name + "__orig")
			extra = append(extra, w)
			n++
		}
	case "wrapall":
		excl := map[string]bool{}
		for _, x := range r.Exclude {
			excl[x] = true
		}
		only := map[string]bool{}
		for _, x := range r.Names {
			only[x] = true
		}
		for _, d := range f.Decls {
			fd, ok := d.(*ast.FuncDecl)
			if !ok || fd.Body == nil || fd.Recv == nil {
				continue
			}
			nm := fd.Name.Name
			if funcName(fd) != r.Recv+"."+nm || excl[nm] {
				continue
			}
			if len(only) > 0 {
				if !only[nm] {
					continue
				}
			} else if !ast.IsExported(nm) {
				continue
			}
			w := makeGenericWrapper(fset, fd, r)
			fd.Name = ast.NewIdent(nm + "__orig")
			extra = append(extra, w)
			n++
		}
	case "addimport":
		n = 1
	case "append":
		extra = append(extra, r.Text)
		n = 1
	default:
		return 0, nil, fmt.Errorf("unknown rule kind %q", r.Kind)
	}
	return n, extra, nil
}

// makeGenericWrapper emits
//
//	func (recv T) Name(a0 A0, ...) (R0, R1) {
//		if Hook != nil {
//			if rets, ok := Hook(recv, "Name", []any{a0, ...}); ok { r0, _ := rets[0].(R0); ...; return r0, r1 }
//		}
//		return recv.Name__orig(a0, ...)
//	}
func makeGenericWrapper(fset *token.FileSet, fd *ast.FuncDecl, r Rule) string {
	var params, args, anyArgs []string
	i := 0
	if fd.Type.Params != nil {
		for _, fl := range fd.Type.Params.List {
			ts := exprString(fset, fl.Type)
			k := len(fl.Names)
			if k == 0 {
				k = 1
			}
			for j := 0; j < k; j++ {
				nm := fmt.Sprintf("a%d", i)
				i++
				params = append(params, nm+" "+ts)
				anyArgs = append(anyArgs, nm)
				if strings.HasPrefix(ts, "...") {
					args = append(args, nm+"...")
				} else {
					args = append(args, nm)
				}
			}
		}
	}
	var rets []string
	if fd.Type.Results != nil {
		for _, fl := range fd.Type.Results.List {
			ts := exprString(fset, fl.Type)
			k := len(fl.Names)
			if k == 0 {
				k = 1
			}
			for j := 0; j < k; j++ {
				rets = append(rets, ts)
			}
		}
	}
	retSig := ""
	if len(rets) == 1 {
		retSig = " " + rets[0]
	} else if len(rets) > 1 {
		retSig = " (" + strings.Join(rets, ", ") + ")"
	}
	recvT := exprString(fset, fd.Recv.List[0].Type)
	var b strings.Builder
	fmt.Fprintf(&b, "func (recv %s) %s(%s)%s {\n", recvT, fd.Name.Name, strings.Join(params, ", "), retSig)
	fmt.Fprintf(&b, "\tif %s != nil {\n\t\tif rets, ok := %s(recv, %q, []any{%s}); ok {\n", r.Hook, r.Hook, fd.Name.Name, strings.Join(anyArgs, ", "))
	var rn []string
	for j, t := range rets {
		fmt.Fprintf(&b, "\t\t\tr%d, _ := rets[%d].(%s)\n", j, j, t)
		rn = append(rn, fmt.Sprintf("r%d", j))
	}
	if len(rets) == 0 {
		b.WriteString("\t\t\t_ = rets\n\t\t\treturn\n")
	} else {
		fmt.Fprintf(&b, "\t\t\treturn %s\n", strings.Join(rn, ", "))
	}
	b.WriteString("\t\t}\n\t}\n")
	if len(rets) == 0 {
		fmt.Fprintf(&b, "\trecv.%s__orig(%s)\n}\n", fd.Name.Name, strings.Join(args, ", "))
	} else {
		fmt.Fprintf(&b, "\treturn recv.%s__orig(%s)\n}\n", fd.Name.Name, strings.Join(args, ", "))
	}
	return b.String()
}

func mustExpr(s string) ast.Expr {
	e, err := parser.ParseExpr(s)
	if err != nil {
		panic(err)
	}
	return e
}

// makeWrapper emits
//
//	var Hook func(orig func(args) rets, recv, args) rets
//	func (recv) Name(args) rets { if Hook != nil { return Hook(recv.Name__orig, recv, args) }; return recv.Name__orig(args) }
func makeWrapper(fset *token.FileSet, fd *ast.FuncDecl, r Rule) (string, error) {
	var params, args, ptypes []string
	i := 0
	variadic := false
	if fd.Type.Params != nil {
		for _, fl := range fd.Type.Params.List {
			ts := exprString(fset, fl.Type)
			names := fl.Names
			if len(names) == 0 {
				names = []*ast.Ident{ast.NewIdent("_")}
			}
			for range names {
				nm := fmt.Sprintf("a%d", i)
				i++
				params = append(params, nm+" "+ts)
				ptypes = append(ptypes, ts)
				if strings.HasPrefix(ts, "...") {
					variadic = true
					args = append(args, nm+"...")
				} else {
					args = append(args, nm)
				}
			}
		}
	}
	_ = variadic
	var rets []string
	if fd.Type.Results != nil {
		for _, fl := range fd.Type.Results.List {
			ts := exprString(fset, fl.Type)
			k := len(fl.Names)
			if k == 0 {
				k = 1
			}
			for j := 0; j < k; j++ {
				rets = append(rets, ts)
			}
		}
	}
	retSig := ""
	if len(rets) == 1 {
		retSig = " " + rets[0]
	} else if len(rets) > 1 {
		retSig = " (" + strings.Join(rets, ", ") + ")"
	}
	ret := "return "
	if len(rets) == 0 {
		ret = ""
	}
	origType := "func(" + strings.Join(ptypes, ", ") + ")" + retSig
	var b strings.Builder
	if r.Recv != "" {
		recvT := exprString(fset, fd.Recv.List[0].Type)
		hookParams := append([]string{"orig " + origType, "recv " + recvT}, params...)
		fmt.Fprintf(&b, "var %s func(%s)%s\n\n", r.Hook, strings.Join(hookParams, ", "), retSig)
		fmt.Fprintf(&b, "func (recv %s) %s(%s)%s {\n", recvT, r.Name, strings.Join(params, ", "), retSig)
		callArgs := append([]string{"recv." + r.Name + "__orig", "recv"}, args...)
		fmt.Fprintf(&b, "\tif %s != nil {\n\t\t%s%s(%s)\n\t\treturn\n\t}\n", r.Hook, ret, r.Hook, strings.Join(callArgs, ", "))
		fmt.Fprintf(&b, "\t%srecv.%s__orig(%s)\n}\n", ret, r.Name, strings.Join(args, ", "))
	} else {
		hookParams := append([]string{"orig " + origType}, params...)
		fmt.Fprintf(&b, "var %s func(%s)%s\n\n", r.Hook, strings.Join(hookParams, ", "), retSig)
		fmt.Fprintf(&b, "func %s(%s)%s {\n", r.Name, strings.Join(params, ", "), retSig)
		callArgs := append([]string{r.Name + "__orig"}, args...)
		fmt.Fprintf(&b, "\tif %s != nil {\n\t\t%s%s(%s)\n\t\treturn\n\t}\n", r.Hook, ret, r.Hook, strings.Join(callArgs, ", "))
		fmt.Fprintf(&b, "\t%s%s__orig(%s)\n}\n", ret, r.Name, strings.Join(args, ", "))
	}
	s := b.String()
	if len(rets) > 0 {
		// "return X; return" is invalid; drop the bare return after a value return
		s = strings.ReplaceAll(s, ")\n\t\treturn\n\t}", ")\n\t}")
	}
	return s, nil
}
