//go:build verif

package object

// Shared world of the "objsvc" checks (C29, C45, C31): the real object Server over the real
// ACL stack, real placement, real get/put services, a real one-shard engine behind a recording
// blob proxy, and recording fakes for everything that reads, writes or forwards object data.

import (
	"bytes"
	"context"
	"crypto/ecdsa"
	"crypto/sha256"
	"encoding/binary"
	"errors"
	"fmt"
	"io"
	"net"
	"os"
	"path/filepath"
	"reflect"
	"sort"
	"strings"
	"sync"
	"testing"
	"time"

	"github.com/nspcc-dev/neo-go/pkg/core/block"
	"github.com/nspcc-dev/neo-go/pkg/core/state"
	"github.com/nspcc-dev/neo-go/pkg/core/transaction"
	"github.com/nspcc-dev/neo-go/pkg/crypto/keys"
	"github.com/nspcc-dev/neo-go/pkg/neorpc/result"
	"github.com/nspcc-dev/neo-go/pkg/smartcontract/trigger"
	neoutil "github.com/nspcc-dev/neo-go/pkg/util"
	iec "github.com/nspcc-dev/neofs-node/internal/ec"
	isessions "github.com/nspcc-dev/neofs-node/internal/sessions"
	clientcore "github.com/nspcc-dev/neofs-node/pkg/core/client"
	objectcore "github.com/nspcc-dev/neofs-node/pkg/core/object"
	"github.com/nspcc-dev/neofs-node/pkg/local_object_storage/blobstor/common"
	"github.com/nspcc-dev/neofs-node/pkg/local_object_storage/blobstor/fstree"
	"github.com/nspcc-dev/neofs-node/pkg/local_object_storage/engine"
	meta "github.com/nspcc-dev/neofs-node/pkg/local_object_storage/metabase"
	"github.com/nspcc-dev/neofs-node/pkg/local_object_storage/shard"
	metasvc "github.com/nspcc-dev/neofs-node/pkg/services/meta"
	aclchk "github.com/nspcc-dev/neofs-node/pkg/services/object/acl"
	aclsvc "github.com/nspcc-dev/neofs-node/pkg/services/object/acl/v2"
	deletesvc "github.com/nspcc-dev/neofs-node/pkg/services/object/delete"
	getsvc "github.com/nspcc-dev/neofs-node/pkg/services/object/get"
	"github.com/nspcc-dev/neofs-node/pkg/services/object/placement"
	putsvc "github.com/nspcc-dev/neofs-node/pkg/services/object/put"
	objutil "github.com/nspcc-dev/neofs-node/pkg/services/object/util"
	sessionstate "github.com/nspcc-dev/neofs-node/pkg/util/state/session"
	"github.com/nspcc-dev/neofs-sdk-go/client"
	apistatus "github.com/nspcc-dev/neofs-sdk-go/client/status"
	"github.com/nspcc-dev/neofs-sdk-go/container"
	"github.com/nspcc-dev/neofs-sdk-go/container/acl"
	cid "github.com/nspcc-dev/neofs-sdk-go/container/id"
	neofscrypto "github.com/nspcc-dev/neofs-sdk-go/crypto"
	neofsecdsa "github.com/nspcc-dev/neofs-sdk-go/crypto/ecdsa"
	"github.com/nspcc-dev/neofs-sdk-go/eacl"
	"github.com/nspcc-dev/neofs-sdk-go/netmap"
	"github.com/nspcc-dev/neofs-sdk-go/object"
	oid "github.com/nspcc-dev/neofs-sdk-go/object/id"
	protoobject "github.com/nspcc-dev/neofs-sdk-go/proto/object"
	iprotobuf "github.com/nspcc-dev/neofs-sdk-go/proto/protobuf"
	"github.com/nspcc-dev/neofs-sdk-go/proto/refs"
	protosession "github.com/nspcc-dev/neofs-sdk-go/proto/session"
	protostatus "github.com/nspcc-dev/neofs-sdk-go/proto/status"
	"github.com/nspcc-dev/neofs-sdk-go/session"
	sessionv2 "github.com/nspcc-dev/neofs-sdk-go/session/v2"
	"github.com/nspcc-dev/neofs-sdk-go/stat"
	"github.com/nspcc-dev/neofs-sdk-go/user"
	"github.com/nspcc-dev/neofs-sdk-go/version"
	"github.com/nspcc-dev/bbolt"
	"go.uber.org/zap"
	"google.golang.org/grpc"
	grpccodes "google.golang.org/grpc/codes"
	"google.golang.org/grpc/credentials/insecure"
	"google.golang.org/grpc/mem"
	"google.golang.org/grpc/metadata"
	grpcstatus "google.golang.org/grpc/status"
	"google.golang.org/grpc/test/bufconn"
	"google.golang.org/protobuf/proto"

	"verif/simkit"
)

func TestVerif(t *testing.T) {
	simkit.Main(t, propC29())
	simkit.Main(t, propC45())
	simkit.Main(t, propC31())
	simkit.Main(t, propC04n())
}

// ---------------------------------------------------------------------------------------------
// effects

// Effect kinds.  Everything that reads, writes or forwards object data is recorded with the
// world's event sequence number; "open:*" entries are bookkeeping that touches no object data.
const (
	effOpenPut      = "open:put-stream"    // Handlers.Put(ctx): creates an empty stream object, no data
	effHandler      = "handler:"           // + get|head|range|delete : entry into the data service
	effBlobRead     = "blob-read:"         // local blob storage read (+ method)
	effBlobWrite    = "blob-write:"        // local blob storage write/delete
	effPutLocal     = "store:put-local"    // put service stores an object locally
	effPutIsLocked  = "read:put-islocked"  // put service asks local storage for lock state
	effReplicate    = "forward:replicate"  // put service sends a replication request to a node
	effDial         = "forward:dial"       // client constructor asked for a connection to a node
	effConn         = "forward:conn"       // a gRPC connection to another node was used
	effRemote       = "forward:rpc:"       // + method: the remote node served an RPC
	effSearchLocal  = "read:search-local"  // Storage.SearchObjects
	effStoreAttempt = "store:attempt"      // Storage.VerifyAndStoreObjectLocally was called
	effSessionKey   = "read:session-key"   // private session key lookup (no object data; bookkeeping)
)

type effect struct {
	seq  uint64
	kind string
}

type recorder struct {
	mu  sync.Mutex
	seq uint64
	log []effect
}

func (x *recorder) add(kind string) {
	x.mu.Lock()
	x.seq++
	x.log = append(x.log, effect{x.seq, kind})
	x.mu.Unlock()
}

func (x *recorder) mark() int {
	x.mu.Lock()
	defer x.mu.Unlock()
	return len(x.log)
}

// since returns the sorted kinds recorded after mark (sorted: some are produced by concurrent
// goroutines of one request, their order is not part of the observation).
func (x *recorder) since(m int) []string {
	x.mu.Lock()
	defer x.mu.Unlock()
	var res []string
	for _, e := range x.log[m:] {
		res = append(res, e.kind)
	}
	sort.Strings(res)
	return res
}

// isDataEffect tells whether an effect kind reads, writes or forwards object data.
func isDataEffect(kind string) bool {
	return !strings.HasPrefix(kind, "open:") && kind != effSessionKey
}

func dataEffects(kinds []string) []string {
	var res []string
	for _, k := range kinds {
		if isDataEffect(k) {
			res = append(res, k)
		}
	}
	return res
}

func compact(kinds []string) string {
	if len(kinds) == 0 {
		return "-"
	}
	var b strings.Builder
	for i := 0; i < len(kinds); {
		j := i
		for j < len(kinds) && kinds[j] == kinds[i] {
			j++
		}
		if b.Len() > 0 {
			b.WriteByte(' ')
		}
		if j-i > 1 {
			fmt.Fprintf(&b, "%s*%d", kinds[i], j-i)
		} else {
			b.WriteString(kinds[i])
		}
		i = j
	}
	return b.String()
}

// ---------------------------------------------------------------------------------------------
// keys and actors

type actor struct {
	name string
	key  *keys.PrivateKey
	pub  []byte
	id   user.ID
}

func deriveActor(seed uint32, idx int, name string) *actor {
	for ctr := uint32(0); ; ctr++ {
		var b [16]byte
		binary.LittleEndian.PutUint32(b[:], seed)
		binary.LittleEndian.PutUint32(b[4:], uint32(idx))
		binary.LittleEndian.PutUint32(b[8:], ctr)
		h := sha256.Sum256(append([]byte("verif-objsvc-key"), b[:]...))
		k, err := keys.NewPrivateKeyFromBytes(h[:])
		if err != nil {
			continue
		}
		return &actor{name: name, key: k, pub: k.PublicKey().Bytes(), id: user.NewFromECDSAPublicKey(k.PrivateKey.PublicKey)}
	}
}

func (a *actor) ecdsa() ecdsa.PrivateKey { return a.key.PrivateKey }

// signer returns a user signer of the chosen scheme (0 deterministic RFC6979, 1 ECDSA/SHA-512,
// 2 WalletConnect).  Signatures of schemes 1 and 2 are randomized: never logged.
func (a *actor) signer(scheme int) user.Signer {
	switch scheme {
	default:
		return user.NewAutoIDSignerRFC6979(a.ecdsa())
	case 1:
		return user.NewAutoIDSigner(a.ecdsa())
	case 2:
		return user.NewSigner(neofsecdsa.SignerWalletConnect(a.ecdsa()), a.id)
	}
}

func idFromSeed(seed uint32, tag string, idx int) [32]byte {
	var b [8]byte
	binary.LittleEndian.PutUint32(b[:], seed)
	binary.LittleEndian.PutUint32(b[4:], uint32(idx))
	return sha256.Sum256(append([]byte("verif-objsvc-"+tag), b[:]...))
}

// ---------------------------------------------------------------------------------------------
// simulated FS chain: epochs, network maps, containers, eACL, maintenance flag, chain time

const nodeCount = 5 // node 0 is the local node (the server under test)

type simChain struct {
	mu          sync.Mutex
	rec         *recorder
	nodes       []*actor           // node keys
	epoch       uint64             // current epoch
	netmaps     map[uint64]*netmap.NetMap
	members     map[uint64]map[int][]bool // epoch -> container index -> node index -> member (the model)
	netmapFail  map[uint64]bool    // GetNetMapByEpoch(e) fails (injected)
	cnrs        map[cid.ID]container.Container
	cnrFail     map[cid.ID]bool // container read fails with a non-"not found" error (injected)
	eacls       map[cid.ID]eacl.Table
	maintenance bool
	chainTime   time.Time
	irKeys      [][]byte
	placement   *placement.Service
}

func newSimChain(rec *recorder, nodes []*actor, epoch uint64) *simChain {
	c := &simChain{rec: rec, nodes: nodes, epoch: epoch, netmaps: map[uint64]*netmap.NetMap{}, members: map[uint64]map[int][]bool{},
		netmapFail: map[uint64]bool{}, cnrs: map[cid.ID]container.Container{}, cnrFail: map[cid.ID]bool{}, eacls: map[cid.ID]eacl.Table{},
		chainTime: time.Unix(1_700_000_000, 0).UTC()}
	p, err := placement.New(chainContainers{c}, chainNetmaps{c})
	if err != nil {
		panic(err)
	}
	c.placement = p
	return c
}

// cnrAttr is the node attribute that puts a node into container #i: the containers' policies
// select every node carrying it (REP 1 with a backup factor larger than the network).
func cnrAttr(i int) string { return fmt.Sprintf("InCnr%d", i) }

func cnrPolicy(i int) netmap.PlacementPolicy {
	var p netmap.PlacementPolicy
	if err := p.DecodeString(fmt.Sprintf("REP 1 IN X CBF 8 SELECT 1 FROM F AS X FILTER %s EQ yes AS F", cnrAttr(i))); err != nil {
		panic(err)
	}
	return p
}

// setEpochMembership defines the network map of an epoch from the membership model:
// online[n] = node n is in the map, member[c][n] = node n carries the attribute of container c.
func (c *simChain) setEpochMembership(e uint64, online []bool, member map[int][]bool) {
	var nm netmap.NetMap
	nm.SetEpoch(e)
	var ns []netmap.NodeInfo
	model := map[int][]bool{}
	for ci, m := range member {
		model[ci] = make([]bool, len(c.nodes))
		for n := range c.nodes {
			model[ci][n] = online[n] && m[n]
		}
	}
	for n, a := range c.nodes {
		if !online[n] {
			continue
		}
		var ni netmap.NodeInfo
		ni.SetPublicKey(a.pub)
		ni.SetNetworkEndpoints(fmt.Sprintf("/dns4/node%d/tcp/8080", n))
		ni.SetOnline()
		ni.SetCapacity(100)
		ni.SetPrice(1)
		cis := make([]int, 0, len(member))
		for ci := range member {
			cis = append(cis, ci)
		}
		sort.Ints(cis)
		for _, ci := range cis {
			v := "no"
			if member[ci][n] {
				v = "yes"
			}
			ni.SetAttribute(cnrAttr(ci), v)
		}
		ns = append(ns, ni)
	}
	nm.SetNodes(ns)
	c.mu.Lock()
	c.netmaps[e] = &nm
	c.members[e] = model
	c.mu.Unlock()
}

// isMember is the model's answer: node n belongs to container ci in epoch e.
func (c *simChain) isMember(e uint64, ci, n int) bool {
	c.mu.Lock()
	defer c.mu.Unlock()
	m, ok := c.members[e]
	if !ok {
		return false
	}
	return m[ci] != nil && m[ci][n]
}

func (c *simChain) nodeIndex(pub []byte) int {
	for i, a := range c.nodes {
		if bytes.Equal(a.pub, pub) {
			return i
		}
	}
	return -1
}

type chainContainers struct{ c *simChain }

func (x chainContainers) Get(id cid.ID) (container.Container, error) {
	x.c.mu.Lock()
	defer x.c.mu.Unlock()
	if x.c.cnrFail[id] {
		return container.Container{}, errors.New("simulated container contract failure")
	}
	cnr, ok := x.c.cnrs[id]
	if !ok {
		return container.Container{}, apistatus.ErrContainerNotFound
	}
	return cnr, nil
}

func (x chainContainers) GetEACL(id cid.ID) (eacl.Table, error) {
	x.c.mu.Lock()
	defer x.c.mu.Unlock()
	t, ok := x.c.eacls[id]
	if !ok {
		return eacl.Table{}, apistatus.ErrEACLNotFound
	}
	return t, nil
}

type chainNetmaps struct{ c *simChain }

func (x chainNetmaps) GetNetMapByEpoch(e uint64) (*netmap.NetMap, error) {
	x.c.mu.Lock()
	defer x.c.mu.Unlock()
	if x.c.netmapFail[e] {
		return nil, errors.New("simulated netmap contract failure")
	}
	nm, ok := x.c.netmaps[e]
	if !ok {
		return nil, fmt.Errorf("no network map for epoch %d", e)
	}
	return nm, nil
}

func (x chainNetmaps) Epoch() (uint64, error) {
	x.c.mu.Lock()
	defer x.c.mu.Unlock()
	return x.c.epoch, nil
}

func (x chainNetmaps) NetMap() (*netmap.NetMap, error) {
	e, _ := x.Epoch()
	return x.GetNetMapByEpoch(e)
}

// serverChain implements the Server's FSChain the way cmd/neofs-node does: container node
// iteration and selection are the REAL placement service over the simulated sources.
type serverChain struct {
	chainContainers
	c *simChain
}

func (x serverChain) CurrentEpoch() uint64 {
	x.c.mu.Lock()
	defer x.c.mu.Unlock()
	return x.c.epoch
}
func (x serverChain) CurrentBlock() uint32         { return uint32(x.CurrentEpoch() * 240) }
func (x serverChain) CurrentEpochDuration() uint64 { return 240 }
func (x serverChain) InvokeContainedScript(*transaction.Transaction, *block.Header, *trigger.Type, *bool) (*result.Invoke, error) {
	return nil, errors.New("N3 witnesses are not simulated")
}
func (x serverChain) ForEachContainerNodePublicKey(id cid.ID, f func([]byte) bool) error {
	return x.c.placement.ForEachContainerNodePublicKey(id, f)
}
func (x serverChain) ForEachContainerNodePublicKeyInLastTwoEpochs(id cid.ID, f func([]byte) bool) error {
	return x.c.placement.ForEachContainerNodePublicKeyInLastTwoEpochs(id, f)
}
func (x serverChain) SelectContainerNodes(id cid.ID) ([][]netmap.NodeInfo, []uint, []iec.Rule, error) {
	return x.c.placement.SelectContainerNodes(id)
}
func (x serverChain) IsOwnPublicKey(pub []byte) bool { return bytes.Equal(pub, x.c.nodes[0].pub) }
func (x serverChain) LocalNodeUnderMaintenance() bool {
	x.c.mu.Lock()
	defer x.c.mu.Unlock()
	return x.c.maintenance
}

// aclChain is acl/v2's FSChain + Netmapper + IR fetcher + time provider.
type aclChain struct {
	chainNetmaps
	c *simChain
}

func (x aclChain) InvokeContainedScript(*transaction.Transaction, *block.Header, *trigger.Type, *bool) (*result.Invoke, error) {
	return nil, errors.New("N3 witnesses are not simulated")
}
func (x aclChain) InContainerInLastTwoEpochs(id cid.ID, pub []byte) (bool, error) {
	var in bool
	err := x.c.placement.ForEachContainerNodePublicKeyInLastTwoEpochs(id, func(k []byte) bool {
		in = bytes.Equal(k, pub)
		return !in
	})
	return in, err
}
func (x aclChain) HasUserInNNS(string, neoutil.Uint160) (bool, error) { return false, nil }
func (x aclChain) ServerInContainer(id cid.ID) (bool, error) {
	var in bool
	err := x.c.placement.ForEachContainerNodePublicKey(id, func(k []byte) bool {
		in = bytes.Equal(k, x.c.nodes[0].pub)
		return !in
	})
	return in, err
}
func (x aclChain) GetEpochBlock(e uint64) (uint32, error)       { return uint32(e * 240), nil }
func (x aclChain) GetEpochBlockByTime(uint32) (uint32, error)   { return uint32(serverChain{c: x.c}.CurrentEpoch() * 240), nil }
func (x aclChain) InnerRingKeys() [][]byte                      { return x.c.irKeys }
func (x aclChain) Now() time.Time {
	x.c.mu.Lock()
	defer x.c.mu.Unlock()
	return x.c.chainTime
}

// svcNet is the get/put services' view of the network (real placement underneath).
type svcNet struct{ c *simChain }

func (x svcNet) GetNodesForObject(a oid.Address) ([][]netmap.NodeInfo, []uint, []iec.Rule, error) {
	return x.c.placement.GetNodesForObject(a)
}
func (x svcNet) IsLocalNodePublicKey(pub []byte) bool { return bytes.Equal(pub, x.c.nodes[0].pub) }
func (x svcNet) GetEpochBlock(e uint64) (uint32, error) { return uint32(e * 240), nil }
func (x svcNet) GetEpochBlockByTime(uint32) (uint32, error) {
	return uint32(serverChain{c: x.c}.CurrentEpoch() * 240), nil
}
func (x svcNet) GetContainerNodes(id cid.ID) (putsvc.ContainerNodes, error) {
	p, err := x.c.placement.GetContainerPlacement(id)
	if err != nil {
		return nil, err
	}
	return &cnrNodesSorter{p: p, id: id, svc: x.c.placement}, nil
}

type cnrNodesSorter struct {
	p   placement.Placement
	id  cid.ID
	svc *placement.Service
}

func (x *cnrNodesSorter) Unsorted() [][]netmap.NodeInfo { return x.p.NodeSets }
func (x *cnrNodesSorter) PrimaryCounts() []uint         { return x.p.RepCounts }
func (x *cnrNodesSorter) ECRules() []iec.Rule           { return x.p.ECRules }
func (x *cnrNodesSorter) SortForObject(o oid.ID) ([][]netmap.NodeInfo, error) {
	return x.svc.SortContainerPlacementForObject(x.id, x.p, o)
}

// ---------------------------------------------------------------------------------------------
// recording local blob storage (under the real engine/shard)

type recBlob struct {
	common.Storage
	rec *recorder
	id  common.ID
	on  *bool // recording enabled (off while the harness itself seeds objects)
}

func (s *recBlob) r(kind string) {
	if *s.on {
		s.rec.add(kind)
	}
}
func (s *recBlob) Init(common.ID) error { return s.Storage.Init(s.id) }
func (s *recBlob) GetBytes(a oid.Address) ([]byte, error) {
	s.r(effBlobRead + "GetBytes")
	return s.Storage.GetBytes(a)
}
func (s *recBlob) Get(a oid.Address) (*object.Object, error) {
	s.r(effBlobRead + "Get")
	return s.Storage.Get(a)
}
func (s *recBlob) GetRangeStream(a oid.Address, rng common.PayloadRange, readHeader bool) (*object.Object, uint64, io.ReadCloser, error) {
	s.r(effBlobRead + "GetRangeStream")
	return s.Storage.GetRangeStream(a, rng, readHeader)
}
func (s *recBlob) GetStream(a oid.Address) (*object.Object, io.ReadCloser, error) {
	s.r(effBlobRead + "GetStream")
	return s.Storage.GetStream(a)
}
func (s *recBlob) Head(a oid.Address) (*object.Object, error) {
	s.r(effBlobRead + "Head")
	return s.Storage.Head(a)
}
func (s *recBlob) ReadHeader(a oid.Address, b []byte) (int, error) {
	s.r(effBlobRead + "ReadHeader")
	return s.Storage.ReadHeader(a, b)
}
func (s *recBlob) ReadObject(a oid.Address, b []byte) (int, io.ReadCloser, error) {
	s.r(effBlobRead + "ReadObject")
	return s.Storage.ReadObject(a, b)
}
func (s *recBlob) ReadPayloadRange(a oid.Address, off, ln uint64, b []byte, f func([]byte) error) (io.ReadCloser, error) {
	s.r(effBlobRead + "ReadPayloadRange")
	return s.Storage.ReadPayloadRange(a, off, ln, b, f)
}
func (s *recBlob) ReadObjectParts(b []byte, a oid.Address, rng common.PayloadRange, f func([]byte) error) (int, io.ReadCloser, error) {
	s.r(effBlobRead + "ReadObjectParts")
	return s.Storage.ReadObjectParts(b, a, rng, f)
}
func (s *recBlob) Exists(a oid.Address) (bool, error) {
	s.r(effBlobRead + "Exists")
	return s.Storage.Exists(a)
}
func (s *recBlob) Put(a oid.Address, b []byte) error {
	s.r(effBlobWrite + "Put")
	return s.Storage.Put(a, b)
}
func (s *recBlob) PutBatch(m map[oid.Address][]byte) error {
	s.r(effBlobWrite + "PutBatch")
	return s.Storage.PutBatch(m)
}
func (s *recBlob) Delete(a oid.Address) error {
	s.r(effBlobWrite + "Delete")
	return s.Storage.Delete(a)
}

type noPayments struct{}

func (noPayments) UnpaidSince(cid.ID) (int64, error) { return -1, nil }
func (noPayments) PaymentsDisabled() bool             { return true }

type allContainers struct{}

func (allContainers) Exists(cid.ID) (bool, error) { return true, nil }

func newEngine(dir string, rec *recorder, on *bool, ep interface{ CurrentEpoch() uint64 }) *engine.StorageEngine {
	fst := fstree.New(fstree.WithPath(filepath.Join(dir, "blob")), fstree.WithDepth(1), fstree.WithPerm(0o700),
		fstree.WithCombinedCountLimit(1), fstree.WithNoSync(true))
	var sid [16]byte
	copy(sid[:], "verifobjsvcshard")
	id, err := common.NewIDFromBytes(sid[:])
	if err != nil {
		panic(err)
	}
	e := engine.New()
	_, err = e.AddShard(
		shard.WithBlobstor(&recBlob{Storage: fst, rec: rec, id: id, on: on}),
		shard.WithMetaBaseOptions(meta.WithPath(filepath.Join(dir, "meta.db")), meta.WithEpochState(ep),
			meta.WithBoltDBOptions(&bbolt.Options{NoSync: true, Timeout: time.Second}), meta.WithMaxBatchSize(1), meta.WithMaxBatchDelay(time.Millisecond)),
		shard.WithContainerPayments(noPayments{}),
	)
	if err != nil {
		panic(fmt.Sprintf("add shard: %v", err))
	}
	if err = e.Init(); err != nil {
		panic(fmt.Sprintf("engine init: %v", err))
	}
	return e
}

// ---------------------------------------------------------------------------------------------
// recording fakes behind the put service and the Server

type recObjectStorage struct {
	rec    *recorder
	mu     sync.Mutex
	stored map[oid.Address][]byte // marshaled objects the put service stored locally
}

func (x *recObjectStorage) Put(_ context.Context, obj *object.Object, _ []byte) error {
	x.rec.add(effPutLocal)
	x.mu.Lock()
	x.stored[obj.Address()] = obj.Marshal()
	x.mu.Unlock()
	return nil
}

func (x *recObjectStorage) IsLocked(context.Context, oid.Address) (bool, error) {
	x.rec.add(effPutIsLocked)
	return false, nil
}

func (x *recObjectStorage) has(a oid.Address) bool {
	x.mu.Lock()
	defer x.mu.Unlock()
	_, ok := x.stored[a]
	return ok
}

func (x *recObjectStorage) count() int {
	x.mu.Lock()
	defer x.mu.Unlock()
	return len(x.stored)
}

type recTransport struct{ rec *recorder }

func (x recTransport) SendReplicationRequestToNode(context.Context, []byte, netmap.NodeInfo) ([]byte, error) {
	x.rec.add(effReplicate)
	return nil, nil // empty ReplicateResponse == OK
}

type noQuota struct{}

func (noQuota) AvailableQuotasLeft(cid.ID, user.ID) (uint64, uint64, error) {
	return ^uint64(0), ^uint64(0), nil
}

type maxSize uint64

func (x maxSize) MaxObjectSize() uint64 { return uint64(x) }

type noSessions struct{}

func (noSessions) GetToken(user.ID) *sessionstate.PrivateToken                       { return nil }
func (noSessions) FindTokenBySubjects([]sessionv2.Target) *sessionstate.PrivateToken { return nil }

// recStorage is the Server's Storage: replication stores go through the REAL put-service
// validation (putsvc.Service.ValidateAndStoreObjectLocally) into the recording object storage.
type recStorage struct {
	rec     *recorder
	put     *putsvc.Service
	storeEr error // injected local storage failure
	results []client.SearchResultItem
}

func (x *recStorage) VerifyAndStoreObjectLocally(ctx context.Context, obj object.Object) error {
	x.rec.add(effStoreAttempt)
	if x.storeEr != nil {
		return x.storeEr
	}
	return x.put.ValidateAndStoreObjectLocally(ctx, obj)
}

func (x *recStorage) SearchObjects(context.Context, cid.ID, []objectcore.SearchFilter, []string, *objectcore.SearchCursor, uint16) ([]client.SearchResultItem, []byte, error) {
	x.rec.add(effSearchLocal)
	return x.results, nil, nil
}

func (x *recStorage) GetSessionPrivateKey(user.ID) (ecdsa.PrivateKey, error) {
	x.rec.add(effSessionKey)
	return ecdsa.PrivateKey{}, apistatus.ErrSessionTokenNotFound
}

func (x *recStorage) GetSessionV2PrivateKey([]sessionv2.Target) (ecdsa.PrivateKey, error) {
	x.rec.add(effSessionKey)
	return ecdsa.PrivateKey{}, apistatus.ErrSessionTokenNotFound
}

// recHandlers is the Server's Handlers: entry into each data service is recorded, then the
// REAL get/put services run; delete is a recording stub.
type recHandlers struct {
	rec *recorder
	get *getsvc.Service
	put *putsvc.Service
	// onRead, when set, runs once at the entry of the next read handler: the world changes between
	// the server's access checks and the data service (e.g. a replica of the object arrives).
	onRead func()
}

func (x *recHandlers) hook() {
	if f := x.onRead; f != nil {
		x.onRead = nil
		f()
	}
}

func (x *recHandlers) Get(ctx context.Context, p getsvc.Prm) error {
	x.rec.add(effHandler + "get")
	x.hook()
	return x.get.Get(ctx, p)
}
func (x *recHandlers) Head(ctx context.Context, p getsvc.HeadPrm) error {
	x.rec.add(effHandler + "head")
	x.hook()
	return x.get.Head(ctx, p)
}
func (x *recHandlers) GetRange(ctx context.Context, p getsvc.RangePrm) error {
	x.rec.add(effHandler + "range")
	x.hook()
	return x.get.GetRange(ctx, p)
}
func (x *recHandlers) Put(ctx context.Context) (*putsvc.Streamer, error) {
	x.rec.add(effOpenPut)
	return x.put.Put(ctx)
}
func (x *recHandlers) Delete(context.Context, deletesvc.Prm) error {
	x.rec.add(effHandler + "delete")
	return nil
}

type nopMetricsV struct{}

func (nopMetricsV) HandleOpExecResult(stat.Method, bool, time.Duration) {}
func (nopMetricsV) AddPutPayload(int)                                   {}
func (nopMetricsV) AddGetPayload(int)                                   {}

// ---------------------------------------------------------------------------------------------
// the remote node: one in-memory gRPC server per process; what it serves is the current world's

type remoteObjects struct {
	mu   sync.Mutex
	rec  *recorder
	objs map[oid.Address]*object.Object
	node *actor
}

var (
	remoteOnce sync.Once
	remoteConn *grpc.ClientConn
	remoteCur  struct {
		sync.Mutex
		w *remoteObjects
	}
)

func curRemote() *remoteObjects {
	remoteCur.Lock()
	defer remoteCur.Unlock()
	return remoteCur.w
}

func setRemote(w *remoteObjects) {
	remoteCur.Lock()
	remoteCur.w = w
	remoteCur.Unlock()
}

type remoteSvc struct {
	protoobject.UnimplementedObjectServiceServer
}

func statusMeta(err error) *protosession.ResponseMetaHeader {
	return &protosession.ResponseMetaHeader{Status: apistatus.FromError(err)}
}

func (remoteSvc) lookup(m *refs.Address) (*remoteObjects, *object.Object) {
	w := curRemote()
	if w == nil {
		return nil, nil
	}
	var a oid.Address
	if m == nil || a.FromProtoMessage(m) != nil {
		return w, nil
	}
	w.mu.Lock()
	defer w.mu.Unlock()
	return w, w.objs[a]
}

func (s remoteSvc) Get(req *protoobject.GetRequest, st protoobject.ObjectService_GetServer) error {
	w, o := s.lookup(req.GetBody().GetAddress())
	if w == nil {
		return grpcstatus.Error(grpccodes.Unavailable, "no world")
	}
	w.rec.add(effRemote + "Get")
	if o == nil {
		return st.Send(&protoobject.GetResponse{MetaHeader: statusMeta(apistatus.ErrObjectNotFound)})
	}
	mo := o.ProtoMessage()
	pl := o.Payload()
	if rng := req.GetBody().GetRange(); rng != nil && rng.GetLength() > 0 {
		if rng.GetOffset()+rng.GetLength() > uint64(len(pl)) {
			return st.Send(&protoobject.GetResponse{MetaHeader: statusMeta(apistatus.ErrObjectOutOfRange)})
		}
		pl = pl[rng.GetOffset() : rng.GetOffset()+rng.GetLength()]
	} else if er := req.GetBody().GetExtendedRange(); er != nil {
		n := uint64(len(pl))
		switch {
		case er.FirstPos != nil && er.LastPos != nil:
			if *er.FirstPos >= n {
				return st.Send(&protoobject.GetResponse{MetaHeader: statusMeta(apistatus.ErrObjectOutOfRange)})
			}
			pl = pl[*er.FirstPos:min(*er.LastPos+1, n)]
		case er.FirstPos != nil:
			if *er.FirstPos >= n {
				return st.Send(&protoobject.GetResponse{MetaHeader: statusMeta(apistatus.ErrObjectOutOfRange)})
			}
			pl = pl[*er.FirstPos:]
		case er.LastPos != nil:
			pl = pl[n-min(*er.LastPos, n):]
		}
	}
	if !req.GetBody().GetPayloadOnly() {
		if err := st.Send(&protoobject.GetResponse{Body: &protoobject.GetResponse_Body{ObjectPart: &protoobject.GetResponse_Body_Init_{
			Init: &protoobject.GetResponse_Body_Init{ObjectId: mo.ObjectId, Signature: mo.Signature, Header: mo.Header}}}}); err != nil {
			return err
		}
	}
	if len(pl) > 0 {
		return st.Send(&protoobject.GetResponse{Body: &protoobject.GetResponse_Body{ObjectPart: &protoobject.GetResponse_Body_Chunk{Chunk: pl}}})
	}
	return nil
}

func (s remoteSvc) Head(_ context.Context, req *protoobject.HeadRequest) (*protoobject.HeadResponse, error) {
	w, o := s.lookup(req.GetBody().GetAddress())
	if w == nil {
		return nil, grpcstatus.Error(grpccodes.Unavailable, "no world")
	}
	w.rec.add(effRemote + "Head")
	if o == nil {
		return &protoobject.HeadResponse{MetaHeader: statusMeta(apistatus.ErrObjectNotFound)}, nil
	}
	mo := o.ProtoMessage()
	return &protoobject.HeadResponse{Body: &protoobject.HeadResponse_Body{Head: &protoobject.HeadResponse_Body_Header{
		Header: &protoobject.HeaderWithSignature{Header: mo.Header, Signature: mo.Signature}}}}, nil
}

func (s remoteSvc) GetRange(req *protoobject.GetRangeRequest, st protoobject.ObjectService_GetRangeServer) error {
	w, o := s.lookup(req.GetBody().GetAddress())
	if w == nil {
		return grpcstatus.Error(grpccodes.Unavailable, "no world")
	}
	w.rec.add(effRemote + "GetRange")
	if o == nil {
		return st.Send(&protoobject.GetRangeResponse{MetaHeader: statusMeta(apistatus.ErrObjectNotFound)})
	}
	pl := o.Payload()
	rng := req.GetBody().GetRange()
	if rng.GetLength() > 0 {
		if rng.GetOffset()+rng.GetLength() > uint64(len(pl)) {
			return st.Send(&protoobject.GetRangeResponse{MetaHeader: statusMeta(apistatus.ErrObjectOutOfRange)})
		}
		pl = pl[rng.GetOffset() : rng.GetOffset()+rng.GetLength()]
	}
	if len(pl) == 0 {
		return nil
	}
	return st.Send(&protoobject.GetRangeResponse{Body: &protoobject.GetRangeResponse_Body{RangePart: &protoobject.GetRangeResponse_Body_Chunk{Chunk: pl}}})
}

func (s remoteSvc) Put(st protoobject.ObjectService_PutServer) error {
	w := curRemote()
	if w == nil {
		return grpcstatus.Error(grpccodes.Unavailable, "no world")
	}
	w.rec.add(effRemote + "Put")
	var id *refs.ObjectID
	for {
		req, err := st.Recv()
		if err != nil {
			if errors.Is(err, io.EOF) {
				break
			}
			return err
		}
		if in := req.GetBody().GetInit(); in != nil {
			id = in.ObjectId
		}
	}
	return st.SendAndClose(&protoobject.PutResponse{Body: &protoobject.PutResponse_Body{ObjectId: id}})
}

func (s remoteSvc) Delete(context.Context, *protoobject.DeleteRequest) (*protoobject.DeleteResponse, error) {
	if w := curRemote(); w != nil {
		w.rec.add(effRemote + "Delete")
	}
	return &protoobject.DeleteResponse{Body: &protoobject.DeleteResponse_Body{}}, nil
}

func (s remoteSvc) SearchV2(context.Context, *protoobject.SearchV2Request) (*protoobject.SearchV2Response, error) {
	if w := curRemote(); w != nil {
		w.rec.add(effRemote + "SearchV2")
	}
	return &protoobject.SearchV2Response{Body: &protoobject.SearchV2Response_Body{}}, nil
}

func (s remoteSvc) Replicate(context.Context, *protoobject.ReplicateRequest) (*protoobject.ReplicateResponse, error) {
	if w := curRemote(); w != nil {
		w.rec.add(effRemote + "Replicate")
	}
	return &protoobject.ReplicateResponse{}, nil
}

func remoteConnection() *grpc.ClientConn {
	remoteOnce.Do(func() {
		lis := bufconn.Listen(256 << 10)
		srv := grpc.NewServer(grpc.ForceServerCodecV2(iprotobuf.BufferedCodec{}))
		protoobject.RegisterObjectServiceServer(srv, remoteSvc{})
		go func() { _ = srv.Serve(lis) }()
		c, err := grpc.NewClient("passthrough:///verif-remote",
			grpc.WithContextDialer(func(ctx context.Context, _ string) (net.Conn, error) { return lis.DialContext(ctx) }),
			grpc.WithTransportCredentials(insecure.NewCredentials()))
		if err != nil {
			panic(err)
		}
		remoteConn = c
	})
	return remoteConn
}

// recClients is the ClientConstructor of the Server, the get service and the put service.
type recClients struct{ rec *recorder }

func (x recClients) Get(context.Context, netmap.NodeInfo) (clientcore.MultiAddressClient, error) {
	x.rec.add(effDial)
	return &recConn{rec: x.rec}, nil
}

type recConn struct {
	clientcore.Client // nil: the typed SDK calls are not used on the paths driven here (a call panics => infra)
	rec               *recorder
}

func (x *recConn) ForAnyGRPCConn(ctx context.Context, f func(context.Context, *grpc.ClientConn) error) error {
	x.rec.add(effConn)
	return f(ctx, remoteConnection())
}
func (x *recConn) APIVersion() *refs.Version { return version.Current().ProtoMessage() }

// ---------------------------------------------------------------------------------------------
// process-wide metadata service (needed only for Height()/MagicNumber() of signed replication)

type metaChain struct{}

func (metaChain) Magic() uint32                                                  { return 7357 }
func (metaChain) Height() uint32                                                 { return 1000 }
func (metaChain) AddTx(*transaction.Transaction) error                           { return nil }
func (metaChain) SubscribeForBlocks(chan *block.Header)                          {}
func (metaChain) SubscribeForNotifications(chan *state.ContainedNotificationEvent) {}
func (metaChain) TransactionTestInvocation(*transaction.Transaction) error       { return nil }

type metaNet struct{}

func (metaNet) Head(context.Context, cid.ID, oid.ID) (object.Object, error) {
	return object.Object{}, apistatus.ErrObjectNotFound
}
func (metaNet) IsMineWithMeta(cid.ID, []byte) (bool, error) { return false, nil }

var (
	metaOnce sync.Once
	metaInst *metasvc.Meta
)

func processMeta() *metasvc.Meta {
	metaOnce.Do(func() {
		base := "/dev/shm"
		if st, err := os.Stat(base); err != nil || !st.IsDir() {
			base = os.TempDir()
		}
		dir := filepath.Join(base, fmt.Sprintf("verif-%d", os.Getpid()), "objsvc-meta") // removed by simkit.Main at exit
		if err := os.MkdirAll(dir, 0o755); err != nil {
			panic(err)
		}
		m, err := metasvc.New(metasvc.Parameters{Logger: zap.NewNop(), Chain: metaChain{}, Path: dir, Network: metaNet{}})
		if err != nil {
			panic(err)
		}
		metaInst = m
	})
	return metaInst
}

// ---------------------------------------------------------------------------------------------
// fake gRPC server streams (the client side of the Server under test)

type fakeStream struct {
	ctx  context.Context
	sent [][]byte // every message the server sent, encoded the way gRPC would put it on the wire
}

func (s *fakeStream) SetHeader(metadata.MD) error  { return nil }
func (s *fakeStream) SendHeader(metadata.MD) error { return nil }
func (s *fakeStream) SetTrailer(metadata.MD)       {}
func (s *fakeStream) Context() context.Context     { return s.ctx }
func (s *fakeStream) RecvMsg(any) error            { return io.EOF }
func (s *fakeStream) SendMsg(m any) error {
	bs, err := iprotobuf.BufferedCodec{}.Marshal(m)
	if err != nil {
		return err
	}
	b := bs.Materialize()
	bs.Free()
	s.sent = append(s.sent, b)
	return nil
}

type fakeGetStream struct{ fakeStream }

func (s *fakeGetStream) Send(m *protoobject.GetResponse) error { return s.SendMsg(m) }

type fakeRangeStream struct{ fakeStream }

func (s *fakeRangeStream) Send(m *protoobject.GetRangeResponse) error { return s.SendMsg(m) }

type fakeSearchStream struct{ fakeStream }

func (s *fakeSearchStream) Send(m *protoobject.SearchResponse) error { return s.SendMsg(m) }

// fakePutStreamHook runs f right before message #at of a Put stream is delivered to the server
// (the world changes in the middle of a client stream).
type fakePutStreamHook struct {
	at int
	f  func()
}

var putHook *fakePutStreamHook // consumed by the next Put call

type fakePutStream struct {
	fakeStream
	reqs []*protoobject.PutRequest
	pos  int
	resp *protoobject.PutResponse
	hook *fakePutStreamHook
}

func (s *fakePutStream) Recv() (*protoobject.PutRequest, error) {
	if s.pos >= len(s.reqs) {
		return nil, io.EOF
	}
	if s.hook != nil && s.hook.at == s.pos {
		s.hook.f()
	}
	s.pos++
	return s.reqs[s.pos-1], nil
}
func (s *fakePutStream) SendAndClose(m *protoobject.PutResponse) error {
	s.resp = m
	return s.SendMsg(m)
}

// ---------------------------------------------------------------------------------------------
// handler enumeration by reflection over the gRPC service descriptor

type rpcInfo struct {
	name          string
	serverStream  bool
	clientStream  bool
	method        reflect.Value // the entry point production wiring uses (XBuffered when it exists)
	respType      reflect.Type  // response message type (pointer) of the descriptor's method
	usesBuffered  bool
}

// enumerateRPCs lists every RPC of the object service from the generated descriptor and the
// generated server interface; both views must agree, otherwise the run fails as infra.
func enumerateRPCs(srv *Server) []rpcInfo {
	desc := protoobject.ObjectService_ServiceDesc
	var res []rpcInfo
	seen := map[string]bool{}
	for _, m := range desc.Methods {
		res = append(res, rpcInfo{name: m.MethodName})
		seen[m.MethodName] = true
	}
	for _, s := range desc.Streams {
		res = append(res, rpcInfo{name: s.StreamName, serverStream: s.ServerStreams, clientStream: s.ClientStreams})
		seen[s.StreamName] = true
	}
	it := reflect.TypeOf((*protoobject.ObjectServiceServer)(nil)).Elem()
	for i := 0; i < it.NumMethod(); i++ {
		if n := it.Method(i).Name; !seen[n] {
			panic("objsvc harness: server interface method " + n + " is not in the service descriptor")
		}
	}
	if len(res) != it.NumMethod() {
		panic(fmt.Sprintf("objsvc harness: descriptor lists %d RPCs, server interface has %d methods", len(res), it.NumMethod()))
	}
	sv := reflect.ValueOf(srv)
	for i := range res {
		orig := sv.MethodByName(res[i].name)
		if !orig.IsValid() {
			panic("objsvc harness: Server has no method " + res[i].name)
		}
		res[i].method = orig
		if !res[i].serverStream && !res[i].clientStream {
			res[i].respType = orig.Type().Out(0)
			// cmd/neofs-node replaces the generated unary handler by <Name>Buffered where it exists
			if b := sv.MethodByName(res[i].name + "Buffered"); b.IsValid() {
				res[i].method = b
				res[i].usesBuffered = true
			}
		}
	}
	sort.Slice(res, func(i, j int) bool { return res[i].name < res[j].name })
	return res
}

// rpcOutcome is what the client observes of one call.
type rpcOutcome struct {
	rpcErr   error  // transport-level error returned by the handler (gRPC status)
	code     uint32 // NeoFS status code of the (last) response carrying one; 0 = OK
	msg      string
	nResp    int  // responses/messages delivered to the client
	hdrMsgs  int  // messages carrying an object header (or split info)
	pldBytes int  // payload bytes delivered
	body     bool // unary response has a body
	resp     any  // decoded unary response
	payload  []byte
	header   *protoobject.Header
}

func (o rpcOutcome) failed() bool { return o.rpcErr != nil || o.code != 0 }

func (o rpcOutcome) String() string {
	if o.rpcErr != nil {
		return fmt.Sprintf("rpc-error(%s)", grpcstatus.Code(o.rpcErr))
	}
	return fmt.Sprintf("status=%d resp=%d hdr=%d payload=%d", o.code, o.nResp, o.hdrMsgs, o.pldBytes)
}

type metaGetter interface {
	GetMetaHeader() *protosession.ResponseMetaHeader
}

func statusOf(m any) (uint32, string) {
	if mg, ok := m.(metaGetter); ok {
		mh := mg.GetMetaHeader()
		for mh.GetOrigin() != nil {
			mh = mh.GetOrigin()
		}
		return mh.GetStatus().GetCode(), mh.GetStatus().GetMessage()
	}
	if rr, ok := m.(*protoobject.ReplicateResponse); ok {
		return rr.GetStatus().GetCode(), rr.GetStatus().GetMessage()
	}
	panic(fmt.Sprintf("objsvc harness: response type %T has no status accessor", m))
}

// callRPC invokes one RPC of the Server the way the gRPC layer would and decodes everything the
// client receives.  req is the request message (unary / server stream) or []*PutRequest.
func callRPC(ctx context.Context, info rpcInfo, req any) (out rpcOutcome) {
	switch {
	case !info.serverStream && !info.clientStream:
		mt := info.method.Type()
		rv := reflect.ValueOf(req)
		if mt.NumIn() != 2 || !rv.Type().AssignableTo(mt.In(1)) {
			panic(fmt.Sprintf("objsvc harness: request %T does not fit %s%v", req, info.name, mt))
		}
		rets := info.method.Call([]reflect.Value{reflect.ValueOf(ctx), rv})
		var respV any
		if info.usesBuffered {
			respV = rets[0].Interface()
		} else {
			if e, _ := rets[1].Interface().(error); e != nil {
				out.rpcErr = e
				return
			}
			respV = rets[0].Interface()
		}
		msg := reflect.New(info.respType.Elem()).Interface().(proto.Message)
		switch v := respV.(type) {
		case mem.BufferSlice:
			b := v.Materialize()
			v.Free()
			if err := proto.Unmarshal(b, msg); err != nil {
				panic(fmt.Sprintf("objsvc harness: undecodable buffered %s response: %v", info.name, err))
			}
		case mem.Buffer:
			b := append([]byte(nil), v.ReadOnlyData()...)
			v.Free()
			if err := proto.Unmarshal(b, msg); err != nil {
				panic(fmt.Sprintf("objsvc harness: undecodable buffered %s response: %v", info.name, err))
			}
		case proto.Message:
			// re-encode/decode: observe exactly what goes on the wire
			b, err := proto.Marshal(v)
			if err != nil {
				panic(err)
			}
			if err := proto.Unmarshal(b, msg); err != nil {
				panic(err)
			}
		default:
			panic(fmt.Sprintf("objsvc harness: unexpected %s response type %T", info.name, respV))
		}
		out.nResp = 1
		out.resp = msg
		out.code, out.msg = statusOf(msg)
		switch r := msg.(type) {
		case *protoobject.HeadResponse:
			if r.GetBody() != nil {
				out.body = true
				out.hdrMsgs = 1
				if h := r.GetBody().GetHeader(); h != nil {
					out.header = h.GetHeader()
				}
			}
		case *protoobject.SearchV2Response:
			out.body = r.GetBody() != nil
		case *protoobject.DeleteResponse:
			out.body = r.GetBody() != nil
		}
		return
	case info.serverStream && !info.clientStream:
		mt := info.method.Type()
		var st any
		var sent *[][]byte
		var newResp func() proto.Message
		switch mt.In(1) {
		case reflect.TypeOf((*protoobject.ObjectService_GetServer)(nil)).Elem():
			s := &fakeGetStream{fakeStream{ctx: ctx}}
			st, sent, newResp = s, &s.sent, func() proto.Message { return new(protoobject.GetResponse) }
		case reflect.TypeOf((*protoobject.ObjectService_GetRangeServer)(nil)).Elem():
			s := &fakeRangeStream{fakeStream{ctx: ctx}}
			st, sent, newResp = s, &s.sent, func() proto.Message { return new(protoobject.GetRangeResponse) }
		case reflect.TypeOf((*protoobject.ObjectService_SearchServer)(nil)).Elem():
			s := &fakeSearchStream{fakeStream{ctx: ctx}}
			st, sent, newResp = s, &s.sent, func() proto.Message { return new(protoobject.SearchResponse) }
		default:
			panic(fmt.Sprintf("objsvc harness: no fake stream for %s (%v)", info.name, mt.In(1)))
		}
		rv := reflect.ValueOf(req)
		if !rv.Type().AssignableTo(mt.In(0)) {
			panic(fmt.Sprintf("objsvc harness: request %T does not fit %s%v", req, info.name, mt))
		}
		rets := info.method.Call([]reflect.Value{rv, reflect.ValueOf(st)})
		if e, _ := rets[0].Interface().(error); e != nil {
			out.rpcErr = e
		}
		for _, b := range *sent {
			m := newResp()
			if err := proto.Unmarshal(b, m); err != nil {
				panic(fmt.Sprintf("objsvc harness: undecodable %s stream message: %v", info.name, err))
			}
			out.nResp++
			if c, s := statusOf(m); c != 0 {
				out.code, out.msg = c, s
			}
			switch r := m.(type) {
			case *protoobject.GetResponse:
				switch p := r.GetBody().GetObjectPart().(type) {
				case *protoobject.GetResponse_Body_Init_:
					out.hdrMsgs++
					out.header = p.Init.GetHeader()
				case *protoobject.GetResponse_Body_SplitInfo:
					out.hdrMsgs++
				case *protoobject.GetResponse_Body_Chunk:
					out.pldBytes += len(p.Chunk)
					out.payload = append(out.payload, p.Chunk...)
				}
			case *protoobject.GetRangeResponse:
				switch p := r.GetBody().GetRangePart().(type) {
				case *protoobject.GetRangeResponse_Body_SplitInfo:
					out.hdrMsgs++
				case *protoobject.GetRangeResponse_Body_Chunk:
					out.pldBytes += len(p.Chunk)
					out.payload = append(out.payload, p.Chunk...)
				}
			}
		}
		return
	case info.clientStream && !info.serverStream:
		reqs, ok := req.([]*protoobject.PutRequest)
		mt := info.method.Type()
		if !ok || mt.In(0) != reflect.TypeOf((*protoobject.ObjectService_PutServer)(nil)).Elem() {
			panic(fmt.Sprintf("objsvc harness: no fake client stream for %s (%v, request %T)", info.name, mt.In(0), req))
		}
		s := &fakePutStream{fakeStream: fakeStream{ctx: ctx}, reqs: reqs, hook: putHook}
		rets := info.method.Call([]reflect.Value{reflect.ValueOf(s)})
		if e, _ := rets[0].Interface().(error); e != nil {
			out.rpcErr = e
		}
		if s.resp != nil {
			out.nResp = 1
			out.resp = s.resp
			out.code, out.msg = statusOf(s.resp)
			out.body = s.resp.GetBody() != nil
		} else if out.rpcErr == nil {
			out.rpcErr = errors.New("put stream ended without a response")
		}
		return
	}
	panic("objsvc harness: bidirectional stream " + info.name + " is not supported")
}

// ---------------------------------------------------------------------------------------------
// request signing (generic SDK function, instantiated per request type)

func signRequest(s neofscrypto.Signer, req any) *protosession.RequestVerificationHeader {
	var vh *protosession.RequestVerificationHeader
	var err error
	switch r := req.(type) {
	case *protoobject.GetRequest:
		vh, err = neofscrypto.SignRequestWithBuffer(s, r, nil)
	case *protoobject.HeadRequest:
		vh, err = neofscrypto.SignRequestWithBuffer(s, r, nil)
	case *protoobject.GetRangeRequest:
		vh, err = neofscrypto.SignRequestWithBuffer(s, r, nil)
	case *protoobject.GetRangeHashRequest:
		vh, err = neofscrypto.SignRequestWithBuffer(s, r, nil)
	case *protoobject.DeleteRequest:
		vh, err = neofscrypto.SignRequestWithBuffer(s, r, nil)
	case *protoobject.SearchRequest:
		vh, err = neofscrypto.SignRequestWithBuffer(s, r, nil)
	case *protoobject.SearchV2Request:
		vh, err = neofscrypto.SignRequestWithBuffer(s, r, nil)
	case *protoobject.PutRequest:
		vh, err = neofscrypto.SignRequestWithBuffer(s, r, nil)
	default:
		panic(fmt.Sprintf("objsvc harness: no signer for request type %T", req))
	}
	if err != nil {
		panic(fmt.Sprintf("objsvc harness: sign %T: %v", req, err))
	}
	return vh
}

func setVerifyHeader(req any, vh *protosession.RequestVerificationHeader) {
	reflect.ValueOf(req).Elem().FieldByName("VerifyHeader").Set(reflect.ValueOf(vh))
}

func getVerifyHeader(req any) *protosession.RequestVerificationHeader {
	return req.(interface {
		GetVerifyHeader() *protosession.RequestVerificationHeader
	}).GetVerifyHeader()
}

func getMetaHeader(req any) *protosession.RequestMetaHeader {
	return req.(interface {
		GetMetaHeader() *protosession.RequestMetaHeader
	}).GetMetaHeader()
}

func setMetaHeader(req any, mh *protosession.RequestMetaHeader) {
	reflect.ValueOf(req).Elem().FieldByName("MetaHeader").Set(reflect.ValueOf(mh))
}

// ---------------------------------------------------------------------------------------------
// the world

type simObject struct {
	obj    *object.Object
	cnr    int  // container index
	local  bool // stored in the local engine (else only on the remote node)
	secret bool // carries the attribute the header-dependent eACL rule denies
	late   bool // stored nowhere yet: a replica may arrive locally between the access checks and the read
}

// arriveLocally stores a late object in the local engine (not recorded: it is the world acting,
// e.g. a replication that lands concurrently with the request being served).
func (w *objWorld) arriveLocally(so *simObject) {
	was := w.blobOn
	w.blobOn = false
	if err := w.eng.Put(context.Background(), so.obj, nil); err != nil {
		panic(fmt.Sprintf("objsvc harness: late object arrival: %v", err))
	}
	w.blobOn = was
	so.late, so.local = false, true
}

type objWorld struct {
	r     *simkit.R
	rec   *recorder
	seed  uint32
	nodes []*actor
	owner *actor
	other *actor // an unrelated user ("others" role)
	alien *actor // never used to sign valid data: the "wrong key"
	chain *simChain
	blobOn bool
	hasShard bool

	eng      *engine.StorageEngine
	handlers *recHandlers
	objStore *recObjectStorage
	putSvc   *putsvc.Service
	getSvc   *getsvc.Service
	storage  *recStorage
	remote   *remoteObjects
	sessions *isessions.ObjectSessionsCache
	aclSvc   aclsvc.Service
	srv      *Server
	rpcs     []rpcInfo

	cnrIDs []cid.ID
	objs   []*simObject
}

type worldCfg struct {
	epoch     uint64
	withEngine bool // a real shard (else an engine without shards: every local header read misses)
}

const secretAttr, secretVal = "Tag", "secret"

func newObjWorld(r *simkit.R, cfg worldCfg) *objWorld {
	w := &objWorld{r: r, rec: &recorder{}, seed: r.U32()}
	for i := 0; i < nodeCount; i++ {
		w.nodes = append(w.nodes, deriveActor(w.seed, i, fmt.Sprintf("node%d", i)))
	}
	w.owner = deriveActor(w.seed, 100, "owner")
	w.other = deriveActor(w.seed, 101, "other")
	w.alien = deriveActor(w.seed, 102, "alien")
	w.chain = newSimChain(w.rec, w.nodes, cfg.epoch)

	sc := serverChain{chainContainers{w.chain}, w.chain}
	w.hasShard = cfg.withEngine
	if cfg.withEngine {
		w.eng = newEngine(filepath.Join(r.Dir, "eng"), w.rec, &w.blobOn, sc)
	} else {
		w.eng = engine.New()
	}
	r.OnCleanup(func() { _ = w.eng.Close() })

	net := svcNet{w.chain}
	clients := recClients{w.rec}
	nodeKey := w.nodes[0].ecdsa()
	keyStore := objutil.NewKeyStorage(&nodeKey, noSessions{}, sc)
	w.objStore = &recObjectStorage{rec: w.rec, stored: map[oid.Address][]byte{}}
	w.sessions = isessions.NewObjectSessionsCache(64)
	w.putSvc = putsvc.NewService(recTransport{w.rec}, net, nil, noQuota{}, noPayments{},
		putsvc.WithKeyStorage(keyStore),
		putsvc.WithClientConstructor(clients),
		putsvc.WithMaxSizeSource(maxSize(1<<20)),
		putsvc.WithObjectStorage(w.objStore),
		putsvc.WithContainerSource(chainContainers{w.chain}),
		putsvc.WithNetworkState(sc),
		putsvc.WithSessionsCache(w.sessions),
		putsvc.WithLogger(zap.NewNop()),
	)
	w.getSvc = getsvc.New(net,
		getsvc.WithLogger(zap.NewNop()),
		getsvc.WithLocalStorageEngine(w.eng),
		getsvc.WithClientConstructor(clients),
		getsvc.WithKeyStorage(keyStore),
	)
	w.storage = &recStorage{rec: w.rec, put: w.putSvc}
	ac := aclChain{chainNetmaps{w.chain}, w.chain}
	w.aclSvc = aclsvc.New(ac, w.sessions,
		aclsvc.WithLogger(zap.NewNop()),
		aclsvc.WithIRFetcher(ac),
		aclsvc.WithNetmapper(ac),
		aclsvc.WithContainerSource(chainContainers{w.chain}),
		aclsvc.WithTimeProvider(ac),
	)
	checker := aclchk.NewChecker(new(aclchk.CheckerPrm).
		SetEACLSource(chainContainers{w.chain}).
		SetValidator(eacl.NewValidator()).
		SetLocalStorage(w.eng).
		SetHeaderSource(noHeaders{}),
	)
	w.remote = &remoteObjects{rec: w.rec, objs: map[oid.Address]*object.Object{}, node: w.nodes[1]}
	setRemote(w.remote)
	r.OnCleanup(func() { setRemote(nil) })
	w.handlers = &recHandlers{rec: w.rec, get: w.getSvc, put: w.putSvc}
	w.srv = New(w.handlers, sc, w.storage, processMeta(), nodeKey, nopMetricsV{},
		checker, w.aclSvc, clients, zap.NewNop())
	w.rpcs = enumerateRPCs(w.srv)
	return w
}

type noHeaders struct{}

func (noHeaders) Head(context.Context, oid.Address) (*object.Object, error) {
	return nil, apistatus.ErrObjectNotFound
}

// tickEpoch moves the chain to the next epoch the way the node's epoch handler does (token
// check caches are reset on every new epoch, cmd/neofs-node/object.go).
func (w *objWorld) setEpoch(e uint64) {
	w.chain.mu.Lock()
	w.chain.epoch = e
	w.chain.chainTime = w.chain.chainTime.Add(time.Duration(240) * time.Second)
	w.chain.mu.Unlock()
	w.sessions.ResetCache()
	w.aclSvc.ResetTokenCheckCache()
}

func (w *objWorld) epoch() uint64 { return serverChain{c: w.chain}.CurrentEpoch() }

// addContainer registers container #i with the given basic ACL (owner = w.owner).
func (w *objWorld) addContainer(i int, basic acl.Basic) cid.ID {
	var cnr container.Container
	cnr.SetOwner(w.owner.id)
	cnr.SetBasicACL(basic)
	cnr.SetPlacementPolicy(cnrPolicy(i))
	id := cid.ID(idFromSeed(w.seed, "cnr", i))
	w.chain.mu.Lock()
	w.chain.cnrs[id] = cnr
	w.chain.mu.Unlock()
	for len(w.cnrIDs) <= i {
		w.cnrIDs = append(w.cnrIDs, cid.ID{})
	}
	w.cnrIDs[i] = id
	return id
}

// newObject makes a valid signed regular object of the container.
func (w *objWorld) newObject(ci int, signer user.Signer, payload []byte, attrs ...[2]string) *object.Object {
	return w.newObjectIn(w.cnrIDs[ci], signer.UserID(), signer, payload, attrs...)
}

// keyWithID signs with key's private key but claims id's user ID.
func keyWithID(key, id *actor) user.Signer {
	return user.NewSigner(neofsecdsa.SignerRFC6979(key.ecdsa()), id.id)
}

func (w *objWorld) newObjectIn(cnr cid.ID, owner user.ID, signer neofscrypto.Signer, payload []byte, attrs ...[2]string) *object.Object {
	o := object.New(cnr, owner)
	ver := version.Current()
	o.SetVersion(&ver)
	o.SetCreationEpoch(w.epoch())
	o.SetType(object.TypeRegular)
	var as []object.Attribute
	for _, a := range attrs {
		as = append(as, object.NewAttribute(a[0], a[1]))
	}
	if len(as) > 0 {
		o.SetAttributes(as...)
	}
	o.SetPayload(payload)
	o.SetPayloadSize(uint64(len(payload)))
	if err := o.SetVerificationFields(signer); err != nil {
		panic(fmt.Sprintf("objsvc harness: sign object: %v", err))
	}
	return o
}

func (w *objWorld) seedObject(so *simObject) {
	if so.local {
		was := w.blobOn
		w.blobOn = false
		if err := w.eng.Put(context.Background(), so.obj, nil); err != nil {
			panic(fmt.Sprintf("objsvc harness: seed local object: %v", err))
		}
		w.blobOn = was
	} else {
		w.remote.mu.Lock()
		w.remote.objs[so.obj.Address()] = so.obj
		w.remote.mu.Unlock()
	}
	w.objs = append(w.objs, so)
}

func (w *objWorld) rpc(name string) rpcInfo {
	for _, i := range w.rpcs {
		if i.name == name {
			return i
		}
	}
	panic("objsvc harness: unknown RPC " + name)
}

func codeName(c uint32) string {
	switch c {
	case 0:
		return "OK"
	case protostatus.SignatureVerificationFail:
		return "SIGNATURE_VERIFICATION_FAIL"
	case protostatus.NodeUnderMaintenance:
		return "NODE_UNDER_MAINTENANCE"
	case protostatus.ObjectAccessDenied:
		return "ACCESS_DENIED"
	case protostatus.ObjectNotFound:
		return "OBJECT_NOT_FOUND"
	case protostatus.BadRequest:
		return "BAD_REQUEST"
	case protostatus.InternalServerError:
		return "INTERNAL"
	case protostatus.SessionTokenExpired:
		return "TOKEN_EXPIRED"
	case protostatus.ContainerNotFound:
		return "CONTAINER_NOT_FOUND"
	}
	return fmt.Sprintf("code-%d", c)
}

var _ = session.VerbObjectGet
