package shard

import (
	"bytes"
	"context"
	"crypto/sha256"
	"errors"
	"fmt"
	"io"
	"io/fs"
	"os"
	"path/filepath"
	"sort"
	"strings"
	"time"

	meta "github.com/nspcc-dev/neofs-node/pkg/local_object_storage/metabase"
	"github.com/nspcc-dev/neofs-node/pkg/local_object_storage/shard/mode"
	"github.com/nspcc-dev/neofs-sdk-go/object"
	oid "github.com/nspcc-dev/neofs-sdk-go/object/id"
	"github.com/nspcc-dev/neofs-node/internal/zzverif/simfs"
	"verif/simkit"
)

// digestDir hashes every file (relative name + content) below dir.
func digestDir(dir string) (map[string][32]byte, error) {
	out := map[string][32]byte{}
	err := filepath.WalkDir(dir, func(p string, d fs.DirEntry, err error) error {
		if err != nil {
			return err
		}
		if d.IsDir() {
			return nil
		}
		b, err := os.ReadFile(p)
		if err != nil {
			return err
		}
		rel, _ := filepath.Rel(dir, p)
		out[rel] = sha256.Sum256(b)
		return nil
	})
	return out, err
}

func diffDigest(a, b map[string][32]byte) string {
	var ks []string
	for k := range a {
		if v, ok := b[k]; !ok {
			ks = append(ks, "removed: "+k)
		} else if v != a[k] {
			ks = append(ks, "changed: "+k)
		}
	}
	for k := range b {
		if _, ok := a[k]; !ok {
			ks = append(ks, "created: "+k)
		}
	}
	sort.Strings(ks)
	if len(ks) > 6 {
		ks = append(ks[:6], fmt.Sprintf("... %d more", len(ks)-6))
	}
	return strings.Join(ks, "; ")
}

func component(rel string) string {
	switch {
	case strings.HasPrefix(rel, "changed: meta.db"), strings.HasPrefix(rel, "created: meta"), strings.HasPrefix(rel, "removed: meta"):
		return "metabase"
	case strings.Contains(rel, " blob/"):
		return "blob storage"
	case strings.Contains(rel, " wc/"):
		return "write-cache"
	}
	return "other"
}

// seqOp runs one workload operation alone (gates pass through).
func (w *shWorld) seqOp(op *shOp) {
	w.exclusive(op.String(), func() { w.exec(op) })
	w.r.Op("%s -> %v", op, errS(op.err))
}

// randomPrefix runs n sequential operations; it returns the ids whose removal was requested
// (their availability may legitimately change with time: lock expiry, GC).
func (w *shWorld) randomPrefix(nreg, n int) map[int]bool {
	r := w.r
	touched := map[int]bool{}
	defer func() { w.touched = touched }()
	for i := 0; i < n; i++ {
		switch r.Weighted(50, 10, 8, 10, 10, 12) {
		case 0:
			w.seqOp(&shOp{kind: "put", id: r.Intn(nreg)})
		case 1:
			op := &shOp{kind: "tomb", id: nreg + r.Intn(2)}
			w.seqOp(op)
			touched[w.u.Specs[op.id].Target] = true
		case 2:
			w.seqOp(&shOp{kind: "lock", id: nreg + 2 + r.Intn(2)})
		case 3:
			op := &shOp{kind: "mark", id: r.Intn(nreg)}
			w.seqOp(op)
			touched[op.id] = true
		case 4:
			w.seqOp(&shOp{kind: "epoch"})
		case 5:
			w.settle([]time.Duration{500 * time.Millisecond, 1500 * time.Millisecond, 4 * time.Second}[r.Intn(3)])
		}
	}
	return touched
}

// ---------------------------------------------------------------------------------------
// C14: read-only shard modes never change stored data

func propC14() *simkit.Property {
	return &simkit.Property{
		ID: "C14", Level: "exploration", Bubble: true, TapeLimit: 3000,
		Rule: "each run = one shard (with/without write-cache, objects partly still in the cache) filled by a random prefix history, switched to read-only or degraded read-only; then 10-30 attempts of every mutating API (put, delete, garbage mark, container removal, revive, restore, flush) interleaved with simulated time (GC ticks, flush ticks, error back-off) and epoch events (expiring objects, unpaid containers); oracle: each mutating call fails, the digest of EVERY file of the shard directory (metabase, blob storage, write-cache) is identical before and after, objects readable before stay readable. distinct = trace digest; non-trivial = >=1 object was still in the write-cache at the switch or >=1 epoch event was delivered in the read-only mode",
		Run:  runC14,
		Assumptions: []string{"persisted state = all files below the shard directory (byte-identical comparison)"},
		Components:  shardComponents,
		DeadlockClass: "hang",
	}
}

func runC14(r *simkit.R) {
	cfg := drawShCfg(r, 2)
	nreg := 3 + r.Intn(3)
	w := newShWorld(r, cfg, nreg+4)
	w.layoutSimple(nreg, 2, 2, func() int { return []int{0, 40, 250, 700, 2500}[r.Intn(5)] })
	w.pay.disabled = r.Bool(50)
	w.open(w.dir)
	r.OnCleanup(func() { w.close() })
	r.Logf("config %s payments=%v", cfg, !w.pay.disabled)
	w.randomPrefix(nreg, 5+r.Intn(10))
	inCache := 0
	w.exclusive("count-cache", func() {
		for id := 0; id < nreg; id++ {
			if _, inW := w.physical(id); inW {
				inCache++
			}
		}
	})
	target := mode.ReadOnly
	if r.Bool(50) {
		target = mode.DegradedReadOnly
	}
	var serr error
	if r.Bool(35) {
		// the read-only mode is entered from degraded read-write (writable, no metabase), with
		// objects written in between: they sit in the write-cache / blob storage only
		w.exclusive("setmode-degraded", func() { serr = w.sh.SetMode(mode.Degraded) })
		r.Op("set mode %s -> %v", mode.Degraded, errS(serr))
		if serr == nil {
			for i, k := 0, 1+r.Intn(2); i < k; i++ {
				id := r.Intn(nreg)
				var perr error
				w.exclusive("put-degraded", func() { perr = w.sh.Put(w.u.Build(w.u.Specs[id]), w.bin(id)) })
				w.touched[id] = true
				r.Op("put(o%d) in %s -> %v", id, mode.Degraded, errS(perr))
			}
			r.Probe("read-only mode entered from degraded read-write")
		}
		serr = nil
	}
	w.exclusive("setmode", func() { serr = w.sh.SetMode(target) })
	r.Op("set mode %s -> %v (objects still in the cache before: %d)", target, errS(serr), inCache)
	if serr != nil {
		r.Failf("mode", "switch to a read-only mode failed", "SetMode(%s): %v", target, serr)
	}
	w.settle(200 * time.Millisecond)
	before, err := digestDir(w.dir)
	if err != nil {
		r.Failf("infra", "digest", "%v", err)
	}
	readable := map[int]bool{}
	w.exclusive("reads-before", func() {
		for id := range w.u.IDs {
			// (objects with an expiration may legitimately expire while epochs advance)
			if o, err := w.sh.Get(w.addr(id), false); err == nil && bytes.Equal(o.Marshal(), w.bin(id)) && w.u.Specs[id].Exp < 0 && !w.touched[id] {
				readable[id] = true
			}
		}
	})
	// a small dump to feed Restore
	dump := append([]byte("NEOF"), 0, 0, 0, 0)
	events := 0
	natt := 10 + r.Intn(21)
	for i := 0; i < natt; i++ {
		id := r.Intn(nreg)
		a := w.addr(id)
		var err error
		var what string
		mustFail := true
		switch r.Weighted(14, 10, 10, 6, 6, 6, 6, 6, 14, 8, 6) {
		case 10:
			// a switch between the two read-only modes must not touch the data either (it may fail)
			other := mode.ReadOnly
			if target == mode.ReadOnly {
				other = mode.DegradedReadOnly
			}
			what = fmt.Sprintf("set mode %s", other)
			mustFail = false
			w.exclusive(what, func() { err = w.sh.SetMode(other) })
			if err == nil {
				target = other
				r.Probe("switched between the read-only modes")
			}
		case 0:
			what = fmt.Sprintf("put(o%d)", id)
			w.exclusive(what, func() { err = w.sh.Put(w.u.Build(w.u.Specs[id]), w.bin(id)) })
		case 1:
			what = fmt.Sprintf("delete(o%d)", id)
			w.exclusive(what, func() { err = w.sh.Delete(a.Container(), []oid.ID{a.Object()}) })
		case 2:
			what = fmt.Sprintf("mark(o%d)", id)
			w.exclusive(what, func() { err = w.sh.MarkGarbage(a.Container(), []oid.ID{a.Object()}, meta.GarbageMarkDefault) })
		case 3:
			what = "inhume-container"
			w.exclusive(what, func() { err = w.sh.InhumeContainer(a.Container()) })
		case 4:
			what = "delete-container"
			w.exclusive(what, func() { err = w.sh.DeleteContainer(context.Background(), a.Container()) })
		case 5:
			what = fmt.Sprintf("revive(o%d)", id)
			w.exclusive(what, func() { _, err = w.sh.ReviveObject(a) })
		case 6:
			what = "restore"
			w.exclusive(what, func() { _, _, err = w.sh.Restore(bytes.NewReader(dump), false) })
		case 7:
			what = "flush"
			w.exclusive(what, func() { err = w.sh.FlushWriteCache(false) })
		case 8:
			what = "time passes"
			mustFail = false
			w.settle([]time.Duration{1200 * time.Millisecond, 4 * time.Second, 12 * time.Second, 25 * time.Second}[r.Intn(4)])
		case 9:
			what = "epoch event"
			mustFail = false
			events++
			w.ep.e++
			if !w.pay.disabled {
				w.pay.unpaid[a.Container()] = int64(w.ep.e) - 5
			}
			e := w.ep.e
			w.exclusive(what, func() { w.sh.NotificationChannel() <- EventNewEpoch(e) })
			w.settle(300 * time.Millisecond)
		}
		r.Op("%s -> %v", what, errS(err))
		if mustFail && err == nil {
			r.Failf("mode", "modifying request accepted in a read-only mode: "+strings.SplitN(what, "(", 2)[0], "%s succeeded while the shard is in %s", what, target)
		}
	}
	w.settle(15 * time.Second)
	after, err := digestDir(w.dir)
	if err != nil {
		r.Failf("infra", "digest", "%v", err)
	}
	if d := diffDigest(before, after); d != "" {
		r.Failf("ro-change", "persisted state changed in a read-only mode: "+component(d), "shard in %s: files differ after modifying attempts, background activity and epoch events: %s", target, d)
	}
	var rmsg string
	w.exclusive("reads-after", func() {
		for id := range readable {
			o, err := w.sh.Get(w.addr(id), false)
			if err != nil || !bytes.Equal(o.Marshal(), w.bin(id)) {
				rmsg = fmt.Sprintf("o%d was readable right after the switch to %s, now: %v", id, target, err)
				return
			}
		}
	})
	if rmsg != "" {
		r.Failf("ro-read", "object no longer readable in a read-only mode", "%s", rmsg)
	}
	if inCache > 0 || events > 0 {
		r.Nontrivial()
	}
}

// ---------------------------------------------------------------------------------------
// C43: shard behaviour always matches its reported mode

func propC43() *simkit.Property {
	return &simkit.Property{
		ID: "C43", Level: "exploration", Bubble: true, TapeLimit: 3000,
		Rule: "each run = one shard and 4-12 mode switches among read-write, read-only, degraded and degraded read-only with injected component failures (blob storage close/open, write-cache switch, metabase file unavailable) so that transitions stop half-way; after every attempt put/get/mark probes are compared with the accept/reject table of the mode the shard REPORTS (docs/shard-modes.md); fault-free switches in about a third of the cases run concurrently with 1-2 operations (put, garbage mark, read) that start while the switch holds the mode lock in the middle of its component sequence or are in flight when it arrives (lock acquisitions and component close/switch calls are seeded scheduling points): each must be accepted/rejected as the mode before or the mode after prescribes and must finish; finally a fault-free switch to read-write must succeed and every object acknowledged earlier must be intact and a new write must work. distinct = trace digest; non-trivial = >=1 switch failed half-way",
		Run:  runC43,
		Assumptions: []string{"accept/reject table from docs/shard-modes.md: read-write accepts all; read-only and degraded read-only reject modifications, reads work; degraded accepts puts to blob storage, rejects metadata operations"},
		Components:  shardComponents,
		DeadlockClass: "hang",
	}
}

type modeFaults struct {
	blobClose, blobOpen, wcSwitch bool
}

func runC43(r *simkit.R) {
	cfg := drawShCfg(r, 2)
	nreg := 4 + r.Intn(3)
	// (acquisitions of the shard's mode lock are scheduling points: operations overlap switches)
	r.OnCleanup(func() { simfs.InstallRW(nil) })
	w := newShWorld(r, cfg, nreg+2)
	w.k.Eligible = simfs.RWEligible
	simfs.InstallRW(w.k)
	w.layoutSimple(nreg, 0, 0, func() int { return []int{40, 250, 700, 2500}[r.Intn(4)] })
	for id := range w.u.IDs {
		w.u.Specs[id].Exp = -1
	}
	w.open(w.dir)
	r.OnCleanup(func() { w.close() })
	r.Logf("config %s", cfg)
	acked := map[int]bool{}
	prev, prevClean := mode.ReadWrite, true
	everMarked := false
	for i := 0; i < 2+r.Intn(3); i++ {
		op := &shOp{kind: "put", id: r.Intn(nreg - 1)}
		w.seqOp(op)
		if op.err == nil {
			acked[op.id] = true
		}
	}
	modes := []mode.Mode{mode.ReadWrite, mode.ReadOnly, mode.Degraded, mode.DegradedReadOnly}
	halfway := 0
	nsw := 4 + r.Intn(9)
	scratch := nreg + r.Intn(2)
	for i := 0; i < nsw; i++ {
		m := modes[r.Intn(len(modes))]
		fl := modeFaults{}
		hidden := false
		_ = hidden
		if r.Bool(35) {
			switch r.Intn(4) {
			case 0:
				fl.blobClose = true
			case 1:
				fl.blobOpen = true
			case 2:
				fl.wcSwitch = cfg.wc
			case 3:
				// metabase file unavailable during the switch (only meaningful for a read-only
				// reopen: a read-write open would silently create a new empty database)
				if m == mode.ReadOnly {
					hidden = true
					r.Fired("metabase file unavailable")
					w.exclusive("hide-meta", func() { _ = os.Rename(filepath.Join(w.dir, "meta.db"), filepath.Join(w.dir, "meta.hidden")) })
				}
			}
		}
		w.mf = fl
		var err error
		var cops []*shOp
		if fl == (modeFaults{}) && !hidden && prevClean && r.Bool(35) {
			// operations overlapping the switch: started while the switch holds the mode lock in the
			// middle of its component sequence, or in flight when the switch arrives
			other := nreg + (1 - (scratch - nreg))
			for n := 1 + r.Intn(2); n > 0; n-- {
				switch r.Intn(3) {
				case 0:
					cops = append(cops, &shOp{kind: "put", id: other})
				case 1:
					cops = append(cops, &shOp{kind: "mark", id: other})
				case 2:
					ids := []int{}
					for id := range acked {
						ids = append(ids, id)
					}
					sort.Ints(ids)
					if len(ids) > 0 {
						cops = append(cops, &shOp{kind: "get", id: ids[r.Intn(len(ids))]})
					}
				}
			}
		}
		if len(cops) > 0 {
			var why string
			err, why = w.overlapSwitch(m, cops)
			if why != "" {
				r.Failf("hang", "operations overlapping a mode switch do not finish", "SetMode(%s) from %s with %d overlapping operations: %s", m, prev, len(cops), why)
			}
			r.Probe("operations overlap a mode switch")
		} else {
			w.exclusive("setmode", func() { err = w.sh.SetMode(m) })
		}
		w.mf = modeFaults{}
		w.exclusive("unhide-meta", func() {
			if _, e := os.Stat(filepath.Join(w.dir, "meta.hidden")); e == nil {
				if _, e2 := os.Stat(filepath.Join(w.dir, "meta.db")); e2 != nil {
					_ = os.Rename(filepath.Join(w.dir, "meta.hidden"), filepath.Join(w.dir, "meta.db"))
				} else {
					_ = os.Remove(filepath.Join(w.dir, "meta.hidden"))
				}
			}
		})
		var cur mode.Mode
		w.exclusive("getmode", func() { cur = w.sh.GetMode() })
		r.Op("SetMode(%s) faults=%+v -> %v; reported mode %s", m, fl, errS(err), cur)
		if err != nil {
			halfway++
			r.Fired("mode switch failed half-way")
		}
		if err == nil && cur != m {
			r.Failf("mode", "reported mode differs from the mode just set", "SetMode(%s) succeeded, GetMode reports %s", m, cur)
		}
		// operations that overlapped the switch: each is served by the mode before or the mode after
		if len(cops) > 0 && err == nil {
			for _, op := range cops {
				ok := op.err == nil
				r.Op("  overlapping %s -> %v", op, errS(op.err))
				var wOld, wNew bool
				switch op.kind {
				case "put":
					wOld, wNew = !prev.ReadOnly(), !cur.ReadOnly()
				case "mark":
					wOld, wNew = !prev.ReadOnly() && !prev.NoMetabase(), !cur.ReadOnly() && !cur.NoMetabase()
				case "get":
					wOld, wNew = true, true
					if ok && !bytes.Equal(op.val, w.bin(op.id)) {
						r.Failf("mode", "read overlapping a mode switch returns wrong bytes", "%s during SetMode(%s->%s)", op, prev, cur)
					}
				}
				if ok != wOld && ok != wNew {
					r.Failf("mode", fmt.Sprintf("%s overlapping a switch is %s although both the mode before and the mode after %s it", op.kind, acc(ok), map[bool]string{true: "accept", false: "reject"}[wOld]),
						"%s overlapping SetMode(%s -> %s): %v", op, prev, cur, op.err)
				}
				// (a garbage mark placed on the scratch object by an earlier overlapping operation may
				// still be there: the read-back is only judged in runs without one)
				for _, o2 := range cops {
					everMarked = everMarked || o2.kind == "mark"
				}
				if op.kind == "put" && ok && !wOld && cur == mode.ReadWrite && !everMarked {
					// (accepted although the old mode rejects: it was served in read-write mode)
					var b []byte
					var e error
					w.exclusive("overlap-readback", func() { b, e = w.sh.GetBytesWithMetadataLookup(w.addr(op.id)) })
					if e != nil || !bytes.Equal(b, w.bin(op.id)) {
						r.Failf("mode", "put acknowledged during a switch to read-write cannot be read", "%s overlapping SetMode(%s -> %s) acknowledged; read: %v", op, prev, cur, e)
					}
				}
			}
			if !cur.ReadOnly() && !cur.NoMetabase() {
				w.exclusive("overlap-undo", func() {
					other := nreg + (1 - (scratch - nreg))
					_ = w.sh.Delete(w.addr(other).Container(), []oid.ID{w.addr(other).Object()})
				})
			}
		}
		prev, prevClean = cur, err == nil
		// probes against the reported mode
		var perr, gerr, merr error
		pid := scratch
		gid := -1
		for id := range acked {
			gid = id
			break
		}
		ids := []int{}
		for id := range acked {
			ids = append(ids, id)
		}
		sort.Ints(ids)
		if len(ids) > 0 {
			gid = ids[r.Intn(len(ids))]
		}
		w.exclusive("probe", func() {
			if os.Getenv("VERIF_DEBUG") != "" && gid >= 0 && !cur.NoMetabase() {
				ex, e := w.sh.metaBase.Exists(w.addr(gid), false)
				inB, inW := w.physical(gid)
				fmt.Printf("DEBUG before probe: o%d exists=%v/%v blob=%v wc=%v\n", gid, ex, e, inB, inW)
			}
			perr = w.sh.Put(w.u.Build(w.u.Specs[pid]), w.bin(pid))
			if os.Getenv("VERIF_DEBUG") != "" && gid >= 0 && !cur.NoMetabase() {
				ex, e := w.sh.metaBase.Exists(w.addr(gid), false)
				fmt.Printf("DEBUG after probe put(o%d)=%v: o%d exists=%v/%v\n", pid, perr, gid, ex, e)
			}
			if gid >= 0 {
				var o *object.Object
				o, gerr = w.sh.Get(w.addr(gid), false)
				if gerr == nil && !bytes.Equal(o.Marshal(), w.bin(gid)) {
					gerr = errors.New("wrong bytes")
				}
			}
			merr = w.sh.MarkGarbage(w.addr(pid).Container(), []oid.ID{w.addr(pid).Object()}, meta.GarbageMarkRedundant)
			if perr == nil && !cur.NoMetabase() {
				// undo the probe write so that it does not accumulate
				_ = w.sh.Delete(w.addr(pid).Container(), []oid.ID{w.addr(pid).Object()})
			}
		})
		r.Op("  probes in reported mode %s: put=%v get(o%d)=%v mark=%v", cur, errS(perr), gid, errS(gerr), errS(merr))
		wantPut := !cur.ReadOnly()
		wantMark := !cur.ReadOnly() && !cur.NoMetabase()
		tag := ""
		if err != nil {
			tag = " [after a switch that failed half-way]"
			if fl == (modeFaults{}) && !hidden {
				// (nothing was made to fail: the switch broke down by itself)
				tag = " [after a switch that failed half-way although no component failure was injected]"
				r.Probe("mode switch failed without an injected failure")
			}
		}
		if (perr == nil) != wantPut {
			r.Failf("mode", fmt.Sprintf("put %s in reported mode %s%s", acc(perr == nil), cur, tag), "the shard reports %s but a put is %s: %v", cur, acc(perr == nil), perr)
		}
		if (merr == nil) != wantMark {
			r.Failf("mode", fmt.Sprintf("garbage mark %s in reported mode %s%s", acc(merr == nil), cur, tag), "the shard reports %s but a garbage mark is %s: %v", cur, acc(merr == nil), merr)
		}
		if gid >= 0 && gerr != nil && err == nil {
			r.Failf("mode", fmt.Sprintf("read fails in mode %s", cur), "the shard is in %s (switch succeeded) but an acknowledged object cannot be read: %v", cur, gerr)
		}
		if cur == mode.ReadWrite && err == nil && r.Bool(50) {
			op := &shOp{kind: "put", id: r.Intn(nreg - 1)}
			w.seqOp(op)
			if op.err == nil {
				acked[op.id] = true
			} else {
				r.Failf("mode", "put rejected in read-write mode", "%s: %v", op, op.err)
			}
		}
	}
	// return to read-write without faults
	var ferr error
	for try := 0; try < 2; try++ {
		w.exclusive("setmode-final", func() { ferr = w.sh.SetMode(mode.ReadWrite) })
		if ferr == nil {
			break
		}
	}
	if ferr != nil {
		r.Failf("mode", "cannot return to read-write mode", "fault-free SetMode(read-write) fails (twice): %v", ferr)
	}
	var msg string
	w.exclusive("final-reads", func() {
		for id := range acked {
			o, err := w.sh.Get(w.addr(id), false)
			if err != nil || !bytes.Equal(o.Marshal(), w.bin(id)) {
				msg = fmt.Sprintf("o%d was acknowledged earlier; after returning to read-write: %v", id, err)
				return
			}
		}
		nid := nreg - 1
		if err := w.sh.Put(w.u.Build(w.u.Specs[nid]), w.bin(nid)); err != nil {
			msg = fmt.Sprintf("a new put after returning to read-write fails: %v", err)
			return
		}
		if b, err := w.sh.GetBytesWithMetadataLookup(w.addr(nid)); err != nil || !bytes.Equal(b, w.bin(nid)) {
			msg = fmt.Sprintf("a new object cannot be read back after returning to read-write: %v", err)
		}
	})
	if msg != "" {
		r.Failf("mode", "service not fully restored after returning to read-write", "%s", msg)
	}
	if halfway > 0 {
		r.Nontrivial()
	}
}

// overlapSwitch runs SetMode(m) and ops as concurrent tasks under the seeded scheduler: the switch
// parks inside its component sequence (holding the mode lock), operations park at the lock or at
// their component calls (holding the read lock, the switch then waits for them).
func (w *shWorld) overlapSwitch(m mode.Mode, ops []*shOp) (serr error, why string) {
	k := w.k
	if !k.Drain(5 * time.Minute) {
		return nil, "background activity does not settle before the switch"
	}
	k.Collect()
	k.SetPass(false)
	w.gateSwitch = true
	defer func() { w.gateSwitch = false; k.SetPass(true) }()
	swDone := false
	type item struct {
		name string
		f    func(*simkit.Task)
	}
	items := []item{{"setmode", func(*simkit.Task) { serr = w.sh.SetMode(m); swDone = true }}}
	for i, op := range ops {
		items = append(items, item{fmt.Sprintf("overlap%d", i), func(*simkit.Task) { w.exec(op); op.done = true }})
	}
	// start order: by default the switch first (it parks in the middle), else an operation first
	if w.r.Bool(30) {
		j := 1 + w.r.Intn(len(items)-1)
		items[0], items[j] = items[j], items[0]
	}
	allDone := func() bool {
		if !swDone {
			return false
		}
		for _, op := range ops {
			if !op.done {
				return false
			}
		}
		return true
	}
	for step := 0; step < 600; step++ {
		w.r.Step()
		k.Quiesce()
		k.Collect()
		if allDone() {
			return serr, ""
		}
		var parked []*simkit.Ticket
		for _, t := range k.Parked() {
			if simfs.RWEligible(t.Key) {
				parked = append(parked, t)
			}
		}
		nopt := len(parked)
		if len(items) > 0 {
			nopt++
		}
		if nopt == 0 {
			if !k.Pump(3 * time.Minute) {
				keys := []string{}
				for _, t := range k.Parked() {
					keys = append(keys, t.Key)
				}
				return serr, fmt.Sprintf("nothing can proceed (switch finished: %v; parked: %s)", swDone, strings.Join(keys, " "))
			}
			continue
		}
		c := w.r.Intn(nopt)
		if len(items) > 0 {
			if c == 0 {
				w.r.Logf("  start %s", items[0].name)
				k.Go(items[0].name, items[0].f)
				items = items[1:]
				continue
			}
			c--
		}
		w.r.Logf("  grant %s", parked[c].Key)
		k.Grant(parked[c], 0)
	}
	return serr, "step limit"
}

func acc(ok bool) string {
	if ok {
		return "accepted"
	}
	return "rejected"
}

// ---------------------------------------------------------------------------------------
// C46: restoring a shard dump reproduces exactly the dumped objects

type chunkReader struct {
	data []byte
	c    *simkit.Chooser
	pos  int
	cut  int // EOF after this many bytes (-1 = never)
}

func (r *chunkReader) Read(p []byte) (int, error) {
	if r.cut >= 0 && r.pos >= r.cut {
		return 0, io.ErrUnexpectedEOF
	}
	if r.pos >= len(r.data) {
		return 0, io.EOF
	}
	n := len(p)
	switch r.c.Intn(4) {
	case 0:
		n = 1
	case 1:
		n = 1 + r.c.Intn(7)
	case 2:
		n = 1 + r.c.Intn(600)
	}
	n = min(n, len(p), len(r.data)-r.pos)
	if r.cut >= 0 {
		n = min(n, r.cut-r.pos)
	}
	copy(p, r.data[r.pos:r.pos+n])
	r.pos += n
	return n, nil
}

func propC46() *simkit.Property {
	return &simkit.Property{
		ID: "C46", Level: "exploration", Bubble: true, TapeLimit: 6000,
		Rule: "each run = a shard (with/without write-cache, objects in both) with 2-9 objects of sizes 0..6000 dumped in read-only mode, then restored into an empty shard through a reader that returns seed-chosen short reads (1 byte, a few bytes, hundreds, full), optionally with one corrupted record (ignore-errors on/off) or a stream cut in the middle; oracle: restored address->bytes map == dumped map minus the corrupted record, counts as reported, a cut or (strict) corruption is an error. distinct = trace digest; non-trivial = >=1 read was shorter than requested inside a record body",
		Run:  runC46,
		Assumptions: []string{"io.Reader contract: Read may return fewer bytes than requested without an error"},
		Components:  shardComponents,
		DeadlockClass: "hang",
	}
}

func runC46(r *simkit.R) {
	cfg := drawShCfg(r, 2)
	nobj := 2 + r.Intn(8)
	w := newShWorld(r, cfg, nobj)
	// (in a few runs some records are longer than 1 MiB, growing along the dump: readers that work
	// piecewise or re-use buffers meet them)
	big := r.Bool(4)
	w.layoutSimple(nobj, 0, 0, func() int {
		if big && r.Bool(40) {
			r.Probe("object larger than 1 MiB")
			return 1<<20 + 1 + r.Intn(400000)
		}
		return []int{0, 5, 300, 1200, 2900, 6000}[r.Intn(6)]
	})
	for id := range w.u.IDs {
		w.u.Specs[id].Exp = -1
	}
	w.open(w.dir)
	r.OnCleanup(func() { w.close() })
	stored := map[int]bool{}
	for id := 0; id < nobj; id++ {
		if r.Bool(85) {
			op := &shOp{kind: "put", id: id}
			w.seqOp(op)
			if op.err == nil {
				stored[id] = true
			}
			if r.Bool(30) {
				w.settle(1500 * time.Millisecond) // some get flushed, some stay cached
			}
		}
	}
	var dump bytes.Buffer
	var derr error
	var dcount int
	w.exclusive("dump", func() {
		if derr = w.sh.SetMode(mode.ReadOnly); derr != nil {
			return
		}
		dcount, derr = w.sh.Dump(&dump, false)
	})
	r.Op("dump -> %d objects, %d bytes, %v", dcount, dump.Len(), errS(derr))
	if derr != nil || dcount != len(stored) {
		r.Failf("dump", "dump does not contain exactly the stored objects", "dump returned %d objects (stored %d): %v", dcount, len(stored), derr)
	}
	data := dump.Bytes()
	// locate records
	type rec struct{ off, ln int }
	var recs []rec
	for p := 4; p+4 <= len(data); {
		ln := int(uint32(data[p]) | uint32(data[p+1])<<8 | uint32(data[p+2])<<16 | uint32(data[p+3])<<24)
		recs = append(recs, rec{p + 4, ln})
		p += 4 + ln
	}
	corrupt := -1
	ignore := r.Bool(50)
	cut := -1
	switch r.Intn(5) {
	case 0:
		if len(recs) > 0 {
			corrupt = r.Intn(len(recs))
			data = bytes.Clone(data)
			// break the protobuf framing of the record (first byte becomes an invalid tag)
			if recs[corrupt].ln > 0 {
				data[recs[corrupt].off] = 0xff
			} else {
				corrupt = -1
			}
		}
	case 1:
		if len(data) > 8 {
			cut = 5 + r.Intn(len(data)-5)
			if cut >= len(data) {
				cut = -1
			}
		}
	}
	// empty target shard
	w2 := &shWorld{r: r, k: w.k, cfg: w.cfg, ep: w.ep, pay: w.pay, u: w.u, bins: w.bins, dir: filepath.Join(r.Dir, "s1")}
	w2.open(w2.dir)
	defer w2.close()
	cr := &chunkReader{data: data, c: r.Chooser, cut: cut}
	var ok, failed int
	var rerr error
	w2.exclusive("restore", func() { ok, failed, rerr = w2.sh.Restore(cr, ignore) })
	r.Op("restore(ignoreErrors=%v, corrupt record=%d, cut=%d) -> ok=%d failed=%d err=%v", ignore, corrupt, cut, ok, failed, errS(rerr))
	if cut >= 0 {
		if rerr == nil {
			r.Failf("restore", "truncated dump restored without an error", "the stream ends after %d of %d bytes but Restore reports success", cut, len(data))
		}
		return
	}
	if corrupt >= 0 && !ignore {
		if rerr == nil {
			r.Failf("restore", "corrupted record not reported", "record %d is corrupted, ignoreErrors=false, Restore reports success", corrupt)
		}
		return
	}
	if rerr != nil {
		r.Failf("restore", "restore of an intact dump fails under short reads", "Restore: %v (reader splits the stream into chunks of 1..600 bytes)", rerr)
	}
	wantOK := len(stored)
	wantFailed := 0
	if corrupt >= 0 {
		wantOK--
		wantFailed = 1
	}
	if ok != wantOK || failed != wantFailed {
		r.Failf("restore", "restore counts differ from the dump", "Restore reports ok=%d failed=%d, the dump holds %d intact and %d corrupted records", ok, failed, wantOK, wantFailed)
	}
	var msg string
	w2.exclusive("compare", func() {
		missing := 0
		for id := range stored {
			b, err := w2.sh.GetBytesWithMetadataLookup(w.addr(id))
			if err != nil {
				missing++
				continue
			}
			if !bytes.Equal(b, w.bin(id)) {
				msg = fmt.Sprintf("restored o%d differs from the dumped object", id)
				return
			}
		}
		if missing != wantFailed {
			msg = fmt.Sprintf("%d dumped objects are missing in the restored shard (corrupted records: %d)", missing, wantFailed)
		}
		for id := 0; id < nobj; id++ {
			if !stored[id] {
				if _, err := w2.sh.Get(w.addr(id), false); err == nil {
					msg = fmt.Sprintf("o%d is in the restored shard but was not in the dump", id)
				}
			}
		}
	})
	if msg != "" {
		r.Failf("restore", "restored contents differ from the dump", "%s", msg)
	}
	r.Nontrivial()
}
