package simfs

import (
	"fmt"
	"strconv"
	"strings"
	"sync"
	"sync/atomic"
	"time"

	"verif/simkit"
)

// Read-write mutex seam (rules/engine.json, kind rwgate): acquisitions of Shard.m become
// scheduling points.  A waiter that cannot take the lock parks at a kernel gate (durably,
// unlike a goroutine blocked inside sync.RWMutex, which a synctest bubble cannot see as
// idle) and is offered to the scheduler again only after some unlock happened.  Go's writer
// preference is reproduced: while a writer waits, new readers wait too - that is what turns
// a recursive read lock into a deadlock in production.
//
// With no kernel installed every function is the plain mutex call.

var (
	rwKernel atomic.Pointer[simkit.Kernel]
	rwMu     sync.Mutex
	rwPend   = map[*sync.RWMutex]int{}
	rwEpoch  atomic.Uint64
)

// InstallRW makes RW* functions park at k's gates; nil restores plain mutex behaviour.
func InstallRW(k *simkit.Kernel) {
	rwKernel.Store(k)
	rwEpoch.Store(0)
	rwMu.Lock()
	rwPend = map[*sync.RWMutex]int{}
	rwMu.Unlock()
}

// RWEligible reports whether a parked ticket may be granted: lock waiters only after an
// unlock event that happened since they parked.
func RWEligible(key string) bool {
	if !strings.HasPrefix(key, "rwlock:") && !strings.HasPrefix(key, "rwrlock:") {
		return true
	}
	i := strings.LastIndexByte(key, '@')
	ep, _ := strconv.ParseUint(key[i+1:], 10, 64)
	return ep != rwEpoch.Load()
}

func rwWait(k *simkit.Kernel, key string, polls *int) {
	if k.Passing() {
		*polls++
		if k.Closed() && *polls > 500 {
			// teardown of a deadlocked world: stop polling, stay blocked (the bubble reports
			// the leftover goroutines; the violation has been recorded already)
			select {}
		}
		time.Sleep(time.Millisecond) // poll on the simulated clock
		return
	}
	k.Gate(fmt.Sprintf("%s@%d", key, rwEpoch.Load()))
}

func RWLock(m *sync.RWMutex, site string) {
	k := rwKernel.Load()
	if k == nil {
		m.Lock()
		return
	}
	rwMu.Lock()
	rwPend[m]++
	rwMu.Unlock()
	polls := 0
	for !m.TryLock() {
		rwWait(k, "rwlock:"+site, &polls)
	}
	rwMu.Lock()
	rwPend[m]--
	rwMu.Unlock()
}

func RWUnlock(m *sync.RWMutex) {
	m.Unlock()
	if rwKernel.Load() != nil {
		rwEpoch.Add(1)
	}
}

func RWRLock(m *sync.RWMutex, site string) {
	k := rwKernel.Load()
	if k == nil {
		m.RLock()
		return
	}
	polls := 0
	for {
		rwMu.Lock()
		pw := rwPend[m]
		rwMu.Unlock()
		if pw == 0 && m.TryRLock() {
			return
		}
		rwWait(k, "rwrlock:"+site, &polls)
	}
}

func RWRUnlock(m *sync.RWMutex) {
	m.RUnlock()
	if rwKernel.Load() != nil {
		rwEpoch.Add(1)
	}
}
