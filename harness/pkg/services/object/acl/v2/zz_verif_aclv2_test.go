package v2

// C30: session and bearer tokens are honoured only when valid for the request.
//
// The real acl/v2 Service (token decoding, signature checks of internal/crypto, lifetime
// checks, verb / container / object relation, bearer-vs-request checks, sender
// classification) with its real check-result caches runs against a simulated FS chain:
// epoch clock, chain (block) time, containers, inner ring, NNS, contract-account (N3)
// witnesses.  The harness plays the part of the object server's shared request path
// (pkg/services/object/common.go: _handleRequestMetaHeader, then <Verb>RequestToInfo).

import (
	"bytes"
	"context"
	"crypto/ecdsa"
	"crypto/sha256"
	"errors"
	"fmt"
	"reflect"
	"sort"
	"strings"
	"testing"
	"time"
	"unsafe"

	"github.com/google/uuid"
	lru "github.com/hashicorp/golang-lru/v2"
	"github.com/nspcc-dev/neo-go/pkg/core/block"
	"github.com/nspcc-dev/neo-go/pkg/core/transaction"
	"github.com/nspcc-dev/neo-go/pkg/crypto/hash"
	"github.com/nspcc-dev/neo-go/pkg/crypto/keys"
	"github.com/nspcc-dev/neo-go/pkg/neorpc/result"
	"github.com/nspcc-dev/neo-go/pkg/smartcontract/trigger"
	"github.com/nspcc-dev/neo-go/pkg/util"
	"github.com/nspcc-dev/neo-go/pkg/vm/stackitem"
	icrypto "github.com/nspcc-dev/neofs-node/internal/crypto"
	isessions "github.com/nspcc-dev/neofs-node/internal/sessions"
	"github.com/nspcc-dev/neofs-node/pkg/services/object/common"
	"github.com/nspcc-dev/neofs-sdk-go/bearer"
	"github.com/nspcc-dev/neofs-sdk-go/container"
	"github.com/nspcc-dev/neofs-sdk-go/container/acl"
	cid "github.com/nspcc-dev/neofs-sdk-go/container/id"
	neofscrypto "github.com/nspcc-dev/neofs-sdk-go/crypto"
	neofsecdsa "github.com/nspcc-dev/neofs-sdk-go/crypto/ecdsa"
	"github.com/nspcc-dev/neofs-sdk-go/eacl"
	"github.com/nspcc-dev/neofs-sdk-go/netmap"
	"github.com/nspcc-dev/neofs-sdk-go/object"
	oid "github.com/nspcc-dev/neofs-sdk-go/object/id"
	protoacl "github.com/nspcc-dev/neofs-sdk-go/proto/acl"
	protoobject "github.com/nspcc-dev/neofs-sdk-go/proto/object"
	"github.com/nspcc-dev/neofs-sdk-go/proto/refs"
	protosession "github.com/nspcc-dev/neofs-sdk-go/proto/session"
	"github.com/nspcc-dev/neofs-sdk-go/session"
	sessionv2 "github.com/nspcc-dev/neofs-sdk-go/session/v2"
	"github.com/nspcc-dev/neofs-sdk-go/user"
	"google.golang.org/protobuf/proto"
	"verif/simkit"
)

func TestVerif(t *testing.T) {
	simkit.Main(t, &simkit.Property{
		ID: "C30", Level: "exploration", Bubble: false, TapeLimit: 4000,
		Rule: "each run = one acl/v2 Service (session-cache size 1..1024, bearer-LRU size 1..1000) and a history of 5-40 object requests (get, head, range, search, delete, put, put of a tombstone) over 2-3 containers and 2-3 objects, signed by the owner, other users, an inner-ring or a container node, carrying session v1 tokens (verb, container, object list, epochs), session v2 tokens (contexts with verbs, wildcard container, delegation chains with user and NNS subjects, lifetimes in chain time), bearer tokens (eACL container, target user, epochs), signed with the three ECDSA schemes or by a contract account (N3 witness run on the simulated chain); lifetimes are placed at now-1/now/now+1 of the epoch clock (v1, bearer) or chain time (v2), both clocks move between requests, the same token is presented again while the clock crosses its nbf/exp, and a twin of a just-honoured token (one signed field changed with the signature kept, one signature byte flipped, re-signed by another key, key replaced) follows it; the new-epoch cache reset that cmd/neofs-node wires is delivered with the tick, late, or lost; in half of the runs the node's object pipeline authenticates objects whose header carries the token about to be presented (real internal/crypto.AuthenticateObject on the sessions cache it shares with the ACL service). The oracle is a predicate over the token models: a token may be honoured only if every signature matches its issuer, the current clock is inside its validity period, and it applies to the request's container, object and verb (bearer: issued by the container owner, for this container, for this sender); a token valid on all counts must be honoured and the request attributed to its (original) issuer. distinct = trace digest; non-trivial = a verification was answered from a cache, or a token was presented on both sides of one of its lifetime boundaries",
		Run:  runC30,
		Assumptions: []string{
			"the statement is read with the verb implications of the NeoFS specification (HEAD is implied by GET, DELETE and RANGE tokens, SEARCH by DELETE tokens): such uses may be honoured or refused",
			"chain time has millisecond resolution, token times whole seconds: within the second that contains nbf/iat/exp either answer is accepted",
			"the object ID of a tombstone being PUT cannot be known to the token issuer: any answer is accepted for the object relation there",
			"the caches are purged on a new epoch by the handlers cmd/neofs-node registers (sessionsCache.ResetCache, Service.ResetTokenCheckCache); the world delivers that purge with the epoch tick, late, or not at all (the handler is asynchronous in the node)",
			"eACL rules inside a bearer token (which operations they allow) are evaluated by pkg/services/object/acl, outside this world",
			"one ObjectSessionsCache instance serves the ACL service and the object format validator, as cmd/neofs-node/object.go wires it",
		},
		Components: map[string]string{
			"acl/v2.Service: VerifySessionV1TokenMessage / VerifySessionTokenMessage / VerifyBearerTokenMessage / *RequestToInfo / classifier": "real",
			"internal/crypto AuthenticateToken / AuthenticateTokenV2, N3 witness runner":                                                     "real",
			"internal/sessions.ObjectSessionsCache, bearer LRU, NNS resolver cache":                                                         "real (sizes are per-run knobs)",
			"SDK token types (session, session/v2, bearer), request signing":                                                                "real",
			"object server's meta-header handling (which Verify* is called with which verb, then which *RequestToInfo)":                      "simulated: re-stated in the harness (the server package imports this one)",
			"FS chain: epoch, block time, containers, inner ring keys, container nodes, NNS, contract witness execution":                      "simulated",
			"new-epoch notification handlers of cmd/neofs-node":                                                                             "simulated: purge delivered on tick / late / lost",
			"object pipeline sharing the sessions cache (FormatValidator -> icrypto.AuthenticateObject)":                                   "real AuthenticateObject, called by the world with an object that carries the token (the rest of the put pipeline is not executed)",
		},
	})
}

// ---------------------------------------------------------------------------------------
// world

type c30User struct {
	priv     ecdsa.PrivateKey
	id       user.ID
	pub      []byte
	n3Verif  []byte
	n3Secret []byte
	n3ID     user.ID
}

type c30Ident struct {
	u  int
	n3 bool
}

func (i c30Ident) String() string {
	if i.n3 {
		return fmt.Sprintf("u%d/contract", i.u)
	}
	return fmt.Sprintf("u%d", i.u)
}

const (
	c30Regular = 4 // users 0..3 issue tokens and sign requests
	c30IR      = 4 // user 4 is an inner ring node
	c30CN      = 5 // user 5 is a container node
)

type c30World struct {
	r        *simkit.R
	epoch    uint64
	chainMs  int64
	users    []*c30User
	cnrs     []cid.ID
	cnrOwner []c30Ident
	objs     []oid.ID
	nns      map[string]int
	svc      Service
	sess     *isessions.ObjectSessionsCache

	epochCalls int
}

func (w *c30World) identID(i c30Ident) user.ID {
	if i.n3 {
		return w.users[i.u].n3ID
	}
	return w.users[i.u].id
}

func (w *c30World) identKey(i c30Ident) []byte {
	if i.n3 {
		return w.users[i.u].n3Verif
	}
	return w.users[i.u].pub
}

// Netmapper
func (w *c30World) GetNetMapByEpoch(uint64) (*netmap.NetMap, error) {
	return nil, errors.New("sim: no netmap")
}
func (w *c30World) NetMap() (*netmap.NetMap, error)           { return nil, errors.New("sim: no netmap") }
func (w *c30World) Epoch() (uint64, error)                    { w.epochCalls++; return w.epoch, nil }
func (w *c30World) ServerInContainer(cid.ID) (bool, error)    { return true, nil }
func (w *c30World) GetEpochBlock(e uint64) (uint32, error)    { return uint32(e * 10), nil }
func (w *c30World) GetEpochBlockByTime(uint32) (uint32, error) { return 7, nil }

// TimeProvider
func (w *c30World) Now() time.Time { return time.UnixMilli(w.chainMs) }

// containers
func (w *c30World) Get(id cid.ID) (container.Container, error) {
	for i := range w.cnrs {
		if w.cnrs[i] == id {
			var c container.Container
			c.Init()
			c.SetOwner(w.identID(w.cnrOwner[i]))
			return c, nil
		}
	}
	return container.Container{}, errors.New("sim: container not found")
}

// inner ring
func (w *c30World) InnerRingKeys() [][]byte { return [][]byte{w.users[c30IR].pub} }

// FS chain
type c30Chain struct{ w *c30World }

func (c c30Chain) InContainerInLastTwoEpochs(_ cid.ID, pub []byte) (bool, error) {
	return bytes.Equal(pub, c.w.users[c30CN].pub), nil
}

func (c c30Chain) HasUserInNNS(name string, addr util.Uint160) (bool, error) {
	u, ok := c.w.nns[name]
	if !ok {
		return false, nil
	}
	return c.w.users[u].id.ScriptHash() == addr, nil
}

func c30Invoc(secret []byte, dataHash []byte) []byte {
	h := sha256.Sum256(append(append([]byte{}, secret...), dataHash...))
	return h[:20]
}

// InvokeContainedScript plays the contract account's verification: the witness is valid iff
// the verification script is a registered one, the signer account is its hash and the
// invocation script is the account's "signature" of the data hash.
func (c c30Chain) InvokeContainedScript(tx *transaction.Transaction, _ *block.Header, _ *trigger.Type, _ *bool) (*result.Invoke, error) {
	ok := false
	for _, u := range c.w.users {
		if len(tx.Script) < len(u.n3Verif) || !bytes.HasSuffix(tx.Script, u.n3Verif) {
			continue
		}
		invoc := tx.Script[:len(tx.Script)-len(u.n3Verif)]
		h := tx.Hash()
		if len(tx.Signers) == 1 && tx.Signers[0].Account == hash.Hash160(u.n3Verif) && bytes.Equal(invoc, c30Invoc(u.n3Secret, h.BytesBE())) {
			ok = true
		}
	}
	return &result.Invoke{State: "HALT", Stack: []stackitem.Item{stackitem.NewBool(ok)}}, nil
}

func c30Hash(parts ...any) [32]byte {
	return sha256.Sum256([]byte(fmt.Sprint(parts...)))
}

func newC30World(r *simkit.R, salt uint32) *c30World {
	w := &c30World{r: r, nns: map[string]int{"deleg.neofs": 2, "other.neofs": 3}}
	for i := 0; i < 6; i++ {
		h := c30Hash("c30-key", salt, i)
		k, err := keys.NewPrivateKeyFromBytes(h[:])
		if err != nil {
			r.Failf("infra", "key", "%v", err)
		}
		u := &c30User{priv: k.PrivateKey}
		u.id = user.NewFromECDSAPublicKey(u.priv.PublicKey)
		u.pub = k.PublicKey().Bytes()
		vs := c30Hash("c30-verif", salt, i)
		u.n3Verif = append([]byte("verification-script:"), vs[:12]...)
		sc := c30Hash("c30-secret", salt, i)
		u.n3Secret = sc[:]
		u.n3ID = user.NewFromScriptHash(hash.Hash160(u.n3Verif))
		w.users = append(w.users, u)
	}
	return w
}

// ---------------------------------------------------------------------------------------
// token models

const (
	c30V1 = iota
	c30V2
	c30Bearer
)

var c30KindName = []string{"session v1", "session v2", "bearer"}

// verbs, numbered as in the API (both session versions)
const (
	vPut = 1 + iota
	vGet
	vHead
	vSearch
	vDelete
	vRange
	vRangeHash
)

var c30VerbName = []string{"?", "PUT", "GET", "HEAD", "SEARCH", "DELETE", "RANGE", "RANGEHASH"}

type c30Ctx struct {
	cnr   int // -1 = any container
	verbs []int
}

// one token of a v2 delegation chain; links[0] is the presented token, the last one the original
type c30Link struct {
	issuer        c30Ident
	scheme        int
	iat, nbf, exp int64
	ctxs          []c30Ctx
	subjUsers     []int
	subjNNS       []string
	final         bool
	sigOK         bool
	narrowOK      bool // the generator kept this link within its origin (contexts and lifetime)
}

type c30Tok struct {
	idx    int
	idSeed int
	kind   int
	issuer c30Ident
	scheme int // 0 rfc6979, 1 sha512, 2 walletconnect, 3 contract witness
	// keyUser >= 0: signed with that user's key while the issuer field names `issuer`
	keyUser       int
	iat, nbf, exp int64
	verb          int
	cnr           int
	objs          []int
	forUser       int // bearer: -1 none
	links         []c30Link
	sigOK         bool
	mutation      string
	desc          string

	v1 *protosession.SessionToken
	v2 *protosession.SessionTokenV2
	b  *protoacl.BearerToken

	uses      int
	lastClock int64
	honoured  bool
	// an object carrying this token passed the node's object authentication since the last
	// purge: the shared sessions cache holds a "correctly signed" entry for it
	objCached bool
}

// objectArrives plays the node's object pipeline (put / replication) receiving an object whose
// header carries the token: pkg/core/object.FormatValidator calls icrypto.AuthenticateObject
// with the sessions cache it shares with the ACL service (cmd/neofs-node/object.go).
func (w *c30World) objectArrives(t *c30Tok) {
	r := w.r
	var signerUser int
	obj := object.New(w.cnrs[0], w.identID(t.issuer))
	switch t.kind {
	case c30V1:
		var st session.Object
		if err := st.FromProtoMessage(t.v1); err != nil {
			return
		}
		obj.SetSessionToken(&st)
		signerUser = (t.issuer.u + 1) % c30Regular // the session key of buildV1
	case c30V2:
		var st sessionv2.Token
		if err := st.FromProtoMessage(t.v2); err != nil {
			return
		}
		obj.SetSessionTokenV2(&st)
		obj.SetOwner(w.identID(t.links[len(t.links)-1].issuer))
		if len(t.links[0].subjUsers) == 0 {
			return
		}
		signerUser = t.links[0].subjUsers[0]
	default:
		return
	}
	if err := obj.SetVerificationFields(neofsecdsa.SignerRFC6979(w.users[signerUser].priv)); err != nil {
		r.Failf("infra", "sign object", "%v", err)
	}
	err := icrypto.AuthenticateObject(*obj, historicN3ScriptRunner{FSChain: c30Chain{w}, Netmapper: w}, w.sess, w.svc.r)
	r.Logf("  an object carrying T%d is authenticated by the object pipeline -> %s", t.idx, c30Res(true, err))
	if err == nil {
		t.objCached = true
		r.Fired("object carrying a token authenticated (shared cache filled)")
	}
}

func (w *c30World) sign(id c30Ident, scheme int, keyUser int, data func() []byte, attach func(neofscrypto.Signature), setIssuer func(user.ID), doSign func(user.Signer) error) {
	if scheme == 3 {
		u := w.users[id.u]
		setIssuer(u.n3ID)
		dh := sha256.Sum256(data())
		attach(neofscrypto.NewN3Signature(c30Invoc(u.n3Secret, dh[:]), u.n3Verif))
		return
	}
	ku := id.u
	if keyUser >= 0 {
		ku = keyUser
	}
	priv := w.users[ku].priv
	var s neofscrypto.Signer
	switch scheme {
	case 1:
		s = neofsecdsa.Signer(priv)
	case 2:
		s = neofsecdsa.SignerWalletConnect(priv)
	default:
		s = neofsecdsa.SignerRFC6979(priv)
	}
	if err := doSign(user.NewSigner(s, w.identID(id))); err != nil {
		w.r.Failf("infra", "sign", "%v", err)
	}
}

func (w *c30World) buildV1(t *c30Tok) {
	var st session.Object
	h := c30Hash("c30-id", t.idSeed)
	var id uuid.UUID
	copy(id[:], h[:16])
	id[6] = (id[6] & 0x0f) | 0x40
	id[8] = (id[8] & 0x3f) | 0x80
	st.SetID(id)
	st.SetAuthKey((*neofsecdsa.PublicKey)(&w.users[(t.issuer.u+1)%c30Regular].priv.PublicKey))
	st.SetIat(uint64(t.iat))
	st.SetNbf(uint64(t.nbf))
	st.SetExp(uint64(t.exp))
	st.BindContainer(w.cnrs[t.cnr])
	if len(t.objs) > 0 {
		ids := make([]oid.ID, len(t.objs))
		for i, o := range t.objs {
			ids[i] = w.objs[o]
		}
		st.LimitByObjects(ids...)
	}
	st.ForVerb(session.ObjectVerb(t.verb))
	w.sign(t.issuer, t.scheme, t.keyUser, func() []byte { return st.SignedData() }, st.AttachSignature, st.SetIssuer, st.Sign)
	t.v1 = st.ProtoMessage()
}

func (w *c30World) buildBearer(t *c30Tok) {
	var bt bearer.Token
	var tab eacl.Table
	if t.cnr >= 0 {
		tab.SetCID(w.cnrs[t.cnr])
	}
	bt.SetEACLTable(tab)
	if t.forUser >= 0 {
		bt.ForUser(w.users[t.forUser].id)
	}
	bt.SetIat(uint64(t.iat))
	bt.SetNbf(uint64(t.nbf))
	bt.SetExp(uint64(t.exp))
	w.sign(t.issuer, t.scheme, t.keyUser, func() []byte { return bt.SignedData() }, bt.AttachSignature, bt.SetIssuer, bt.Sign)
	t.b = bt.ProtoMessage()
}

func (w *c30World) buildV2(t *c30Tok) {
	var prev *sessionv2.Token
	for i := len(t.links) - 1; i >= 0; i-- {
		l := &t.links[i]
		tok := new(sessionv2.Token)
		tok.SetVersion(sessionv2.TokenCurrentVersion)
		ctxs := append([]c30Ctx{}, l.ctxs...)
		cnrOf := func(c c30Ctx) cid.ID {
			if c.cnr < 0 {
				return cid.ID{}
			}
			return w.cnrs[c.cnr]
		}
		sort.SliceStable(ctxs, func(a, b int) bool {
			x, y := cnrOf(ctxs[a]), cnrOf(ctxs[b])
			return bytes.Compare(x[:], y[:]) < 0
		})
		for _, c := range ctxs {
			vs := make([]sessionv2.Verb, len(c.verbs))
			for j, v := range c.verbs {
				vs[j] = sessionv2.Verb(v)
			}
			cx, err := sessionv2.NewContext(cnrOf(c), vs)
			if err != nil {
				w.r.Failf("infra", "v2ctx", "%v", err)
			}
			if err := tok.AddContext(cx); err != nil {
				w.r.Failf("infra", "v2ctx", "%v", err)
			}
		}
		for _, u := range l.subjUsers {
			_ = tok.AddSubject(sessionv2.NewTargetUser(w.users[u].id))
		}
		for _, n := range l.subjNNS {
			_ = tok.AddSubject(sessionv2.NewTargetNamed(n))
		}
		tok.SetIat(time.Unix(l.iat, 0))
		tok.SetNbf(time.Unix(l.nbf, 0))
		tok.SetExp(time.Unix(l.exp, 0))
		tok.SetFinal(l.final)
		if prev != nil {
			tok.SetOrigin(prev)
		}
		ku := -1
		if i == 0 {
			ku = t.keyUser
		}
		w.sign(l.issuer, l.scheme, ku, func() []byte { return tok.SignedData() }, tok.AttachSignature, tok.SetIssuer, tok.Sign)
		prev = tok
	}
	t.v2 = prev.ProtoMessage()
}

func (w *c30World) build(t *c30Tok) {
	switch t.kind {
	case c30V1:
		w.buildV1(t)
	case c30V2:
		w.buildV2(t)
	default:
		w.buildBearer(t)
	}
}

func (t *c30Tok) binary() []byte {
	switch t.kind {
	case c30V1:
		b := make([]byte, t.v1.MarshaledSize())
		t.v1.MarshalStable(b)
		return b
	case c30V2:
		b := make([]byte, t.v2.MarshaledSize())
		t.v2.MarshalStable(b)
		return b
	}
	b := make([]byte, t.b.MarshaledSize())
	t.b.MarshalStable(b)
	return b
}

func c30Verbs(vs []int) string {
	var s []string
	for _, v := range vs {
		s = append(s, c30VerbName[v])
	}
	return strings.Join(s, "+")
}

var c30SchemeName = []string{"rfc6979", "sha512", "walletconnect", "contract"}

func (t *c30Tok) describe() string {
	var b strings.Builder
	fmt.Fprintf(&b, "T%d:%s[", t.idx, c30KindName[t.kind])
	switch t.kind {
	case c30V1:
		fmt.Fprintf(&b, "by %v %s iat=%d nbf=%d exp=%d %s c%d objs=%v", t.issuer, c30SchemeName[t.scheme], t.iat, t.nbf, t.exp, c30VerbName[t.verb], t.cnr, t.objs)
	case c30Bearer:
		fmt.Fprintf(&b, "by %v %s iat=%d nbf=%d exp=%d cnr=%d for=%d", t.issuer, c30SchemeName[t.scheme], t.iat, t.nbf, t.exp, t.cnr, t.forUser)
	default:
		for i, l := range t.links {
			if i > 0 {
				b.WriteString(" <- ")
			}
			fmt.Fprintf(&b, "by %v %s iat=%d nbf=%d exp=%d", l.issuer, c30SchemeName[l.scheme], l.iat, l.nbf, l.exp)
			for _, c := range l.ctxs {
				if c.cnr < 0 {
					fmt.Fprintf(&b, " any:%s", c30Verbs(c.verbs))
				} else {
					fmt.Fprintf(&b, " c%d:%s", c.cnr, c30Verbs(c.verbs))
				}
			}
			fmt.Fprintf(&b, " subj=%v%v", l.subjUsers, l.subjNNS)
			if l.final {
				b.WriteString(" final")
			}
			if !l.narrowOK {
				b.WriteString(" wider-than-origin")
			}
		}
	}
	if t.keyUser >= 0 {
		fmt.Fprintf(&b, " signed-with-key-of-u%d", t.keyUser)
	}
	b.WriteString("]")
	if t.mutation != "" {
		fmt.Fprintf(&b, "{%s}", t.mutation)
	}
	return b.String()
}

// ---------------------------------------------------------------------------------------
// requests

type c30Req struct {
	name   string
	verb   int // verb the server asks the token for
	op     acl.Op
	tomb   bool
	cnr    int
	obj    int // -1 = none
	signer int
}

var c30ReqKinds = []c30Req{
	{name: "get", verb: vGet, op: acl.OpObjectGet},
	{name: "head", verb: vHead, op: acl.OpObjectHead},
	{name: "delete", verb: vDelete, op: acl.OpObjectDelete},
	{name: "range", verb: vRange, op: acl.OpObjectRange},
	{name: "search", verb: vSearch, op: acl.OpObjectSearch},
	{name: "put", verb: vPut, op: acl.OpObjectPut},
	{name: "put-tombstone", verb: vDelete, op: acl.OpObjectDelete, tomb: true},
}

// ---------------------------------------------------------------------------------------
// oracle (from the statement; three-valued)

type c30Verdict int

const (
	vdEither c30Verdict = iota
	vdAccept
	vdReject
)

type c30Judge struct {
	v      c30Verdict
	reject string // why it must not be honoured (stable wording, goes into the signature)
	soft   string // why the answer is left open
}

func (j *c30Judge) no(why string) {
	if j.v != vdReject {
		j.v, j.reject = vdReject, why
	}
}

func (j *c30Judge) open(why string) {
	if j.v == vdAccept {
		j.v, j.soft = vdEither, why
	}
}

// does a token verb cover the requested verb: 2 = it is that verb, 1 = the specification lets
// it imply the requested one, 0 = no
func c30VerbCovers(tokVerb, reqVerb int) int {
	if tokVerb == reqVerb {
		return 2
	}
	switch reqVerb {
	case vHead:
		if tokVerb == vGet || tokVerb == vDelete || tokVerb == vRange {
			return 1
		}
	case vSearch:
		if tokVerb == vDelete {
			return 1
		}
	}
	return 0
}

func (w *c30World) judgeV1(t *c30Tok, q c30Req) c30Judge {
	j := c30Judge{v: vdAccept}
	e := int64(w.epoch)
	if !t.sigOK {
		j.no("its signature does not match its content and issuer")
	}
	if e > t.exp {
		j.no("it is expired at the current epoch")
	}
	if e < t.nbf {
		j.no("it is not yet valid at the current epoch (nbf)")
	}
	if e < t.iat {
		j.no("it is issued in a future epoch (iat)")
	}
	if t.cnr != q.cnr {
		j.no("it is bound to another container")
	}
	switch c30VerbCovers(t.verb, q.verb) {
	case 0:
		j.no("its verb does not apply to the operation")
	case 1:
		j.open("verb implied by the specification")
	}
	if len(t.objs) > 0 && q.obj >= 0 {
		in := false
		for _, o := range t.objs {
			in = in || o == q.obj
		}
		if !in {
			if q.tomb {
				j.open("ID of a tombstone being put")
			} else {
				j.no(fmt.Sprintf("the requested object is not in its object list [token verb %s]", c30VerbName[t.verb]))
			}
		}
	}
	return j
}

func (w *c30World) secRange() (lo, hi int64) {
	lo = w.chainMs / 1000
	hi = lo
	if w.chainMs%1000 != 0 {
		hi++
	}
	return
}

func c30LinkCovers(l *c30Link, verb, cnr int) int {
	best := 0
	for _, c := range l.ctxs {
		if c.cnr >= 0 && c.cnr != cnr {
			continue
		}
		for _, v := range c.verbs {
			if k := c30VerbCovers(v, verb); k > best {
				best = k
			}
		}
	}
	return best
}

func (w *c30World) judgeV2(t *c30Tok, q c30Req) c30Judge {
	j := c30Judge{v: vdAccept}
	lo, hi := w.secRange()
	for i := range t.links {
		l := &t.links[i]
		who := "it"
		if i > 0 {
			who = "a token of its delegation chain"
		}
		if !l.sigOK {
			j.no(who + " has a signature that does not match its content and issuer")
		}
		if lo > l.exp {
			j.no(who + " is expired at the current chain time")
		} else if hi > l.exp {
			j.open("inside the second of exp")
		}
		if hi < l.nbf {
			j.no(who + " is not yet valid at the current chain time (nbf)")
		} else if lo < l.nbf {
			j.open("inside the second of nbf")
		}
		if i == 0 {
			if hi < l.iat {
				j.no("it is issued in the future (iat)")
			} else if lo < l.iat {
				j.open("inside the second of iat")
			}
		} else if lo < l.iat {
			j.open("origin issued after now")
		}
		switch c30LinkCovers(l, q.verb, q.cnr) {
		case 0:
			j.no(who + " does not allow the operation in the container")
		case 1:
			j.open("verb implied by the specification")
		}
		if i+1 < len(t.links) {
			o := &t.links[i+1]
			in := false
			if !l.issuer.n3 {
				for _, u := range o.subjUsers {
					in = in || u == l.issuer.u
				}
				for _, n := range o.subjNNS {
					if u, ok := w.nns[n]; ok && u == l.issuer.u {
						in = true
					}
				}
			}
			if !in {
				j.no("a delegate is not among the subjects of the token it delegates")
			}
			if o.final {
				j.no("a token marked final was delegated further")
			}
			if !l.narrowOK {
				j.open("delegate claims more than its origin")
			}
		}
	}
	return j
}

// the bearer token against the request; author = account the request is attributed to
func (w *c30World) judgeBearer(t *c30Tok, q c30Req, author c30Ident, signer c30Ident) c30Judge {
	j := c30Judge{v: vdAccept}
	e := int64(w.epoch)
	if !t.sigOK {
		j.no("its signature does not match its content and issuer")
	}
	if e > t.exp {
		j.no("it is expired at the current epoch")
	}
	if e < t.nbf {
		j.no("it is not yet valid at the current epoch (nbf)")
	}
	if e < t.iat {
		j.no("it is issued in a future epoch (iat)")
	}
	if t.issuer != w.cnrOwner[q.cnr] {
		j.no("its issuer is not the owner of the container")
	}
	if t.cnr >= 0 && t.cnr != q.cnr {
		j.no("it is issued for another container")
	}
	if t.forUser >= 0 {
		tu := c30Ident{u: t.forUser}
		if tu != author {
			if tu == signer {
				j.open("target user signed the request made under another account's session")
			} else {
				j.no("it is issued for another user")
			}
		}
	}
	return j
}

// ---------------------------------------------------------------------------------------
// cache probes (measurement only)

func c30SessCacheHas(c *isessions.ObjectSessionsCache, key [32]byte) (has bool, ok bool) {
	defer func() {
		if recover() != nil {
			ok = false
		}
	}()
	f := reflect.ValueOf(c).Elem().FieldByName("cache")
	f = reflect.NewAt(f.Type(), unsafe.Pointer(f.UnsafeAddr())).Elem()
	out := f.MethodByName("Contains").Call([]reflect.Value{reflect.ValueOf(key)})
	return out[0].Bool(), true
}

// ---------------------------------------------------------------------------------------
// the run

func runC30(r *simkit.R) {
	w := newC30World(r, r.U32()%1000)
	ncnr := 2 + r.Intn(2)
	nobj := 2 + r.Intn(2)
	for i := 0; i < ncnr; i++ {
		h := c30Hash("c30-cnr", i)
		w.cnrs = append(w.cnrs, cid.ID(h))
	}
	for i := 0; i < nobj; i++ {
		h := c30Hash("c30-obj", i)
		w.objs = append(w.objs, oid.ID(h))
	}
	// container 0 belongs to u0, container 1 to u0 or u1, container 2 to u1 or u1's contract account
	w.cnrOwner = []c30Ident{{u: 0}, {u: r.Intn(2)}, {u: 1, n3: r.Bool(40)}}[:ncnr]
	w.epoch = uint64(10 + r.Intn(5))
	w.chainMs = int64(1000+r.Intn(50)) * 1000

	sessSize := []int{1024, 1, 2, 3, 8}[r.Intn(5)]
	bearerSize := []int{1000, 1, 2, 4}[r.Intn(4)]
	w.sess = isessions.NewObjectSessionsCache(sessSize)
	w.svc = New(c30Chain{w}, w.sess, WithNetmapper(w), WithContainerSource(w), WithIRFetcher(w), WithTimeProvider(w))
	bl, err := lru.New[[sha256.Size]byte, bearerTokenCommonCheckResult](bearerSize)
	if err != nil {
		r.Failf("infra", "lru", "%v", err)
	}
	w.svc.bearerTokenCommonCheckCache = bl
	if _, ok := c30SessCacheHas(w.sess, [32]byte{}); !ok {
		r.Failf("infra", "session cache probe", "cannot look into internal/sessions.ObjectSessionsCache")
	}

	// how the new-epoch purge reaches the caches: 0 with the tick, 1 late, 2 sometimes lost
	resetMode := r.Weighted(65, 20, 15)
	// which token kinds this run prefers
	kindW := [][]int{{40, 30, 30}, {80, 10, 10}, {10, 80, 10}, {10, 10, 80}}[r.Intn(4)]
	n3Pct := []int{0, 15, 40}[r.Intn(3)]
	r.Logf("config containers=%d owners=%v objects=%d epoch=%d chain=%d sessionCache=%d bearerCache=%d reset=%s kinds=%v contractPct=%d",
		ncnr, w.cnrOwner, nobj, w.epoch, w.chainMs, sessSize, bearerSize, []string{"with-tick", "late", "lossy"}[resetMode], kindW, n3Pct)

	stale := false // a purge for an epoch tick is still outstanding
	pending := -1  // requests until the late purge arrives
	var pool []*c30Tok
	purge := func(why string) {
		w.sess.ResetCache()
		w.svc.ResetTokenCheckCache()
		stale, pending = false, -1
		for _, t := range pool {
			t.objCached = false
		}
		r.Logf("  caches purged (%s)", why)
	}
	// does the node's object pipeline see objects that carry the tokens of this history
	objTraffic := r.Weighted(50, 50) == 1

	var lastHonoured [3]*c30Tok
	nontrivial := false

	clockOf := func(kind int) int64 {
		if kind == c30V2 {
			return w.chainMs
		}
		return int64(w.epoch)
	}
	boundaryCrossed := func(t *c30Tok) bool {
		a, b := t.lastClock, clockOf(t.kind)
		if a == b {
			return false
		}
		marks := []int64{t.iat, t.nbf, t.exp + 1}
		if t.kind == c30V2 {
			l := t.links[0]
			marks = []int64{l.iat * 1000, l.nbf * 1000, l.exp*1000 + 1}
		}
		for _, m := range marks {
			if a < m && b >= m {
				return true
			}
		}
		return false
	}

	pickScheme := func() int {
		if r.Bool(n3Pct) {
			return 3
		}
		return r.Intn(3)
	}
	newTok := func(kind int, q c30Req) *c30Tok {
		t := &c30Tok{idx: len(pool), idSeed: len(pool), kind: kind, keyUser: -1, forUser: -1, sigOK: true, cnr: q.cnr, verb: q.verb}
		fit := !r.Bool(30) // mostly made for this request
		owner := w.cnrOwner[q.cnr]
		t.scheme = pickScheme()
		if r.Bool(65) {
			t.issuer = owner
			if owner.n3 {
				t.scheme = 3
			} else if t.scheme == 3 {
				t.scheme = r.Intn(3)
			}
		} else {
			t.issuer = c30Ident{u: r.Intn(c30Regular), n3: t.scheme == 3}
		}
		now := int64(w.epoch)
		if kind == c30V2 {
			now = w.chainMs / 1000
		}
		t.iat = now + int64([]int{0, -1, 1, -2}[r.Weighted(40, 35, 13, 12)])
		t.nbf = now + int64([]int{0, -1, 1, -2}[r.Weighted(45, 30, 15, 10)])
		t.exp = now + int64([]int{1, 0, 2, -1, 3}[r.Weighted(35, 22, 20, 10, 13)])
		if !fit {
			if r.Bool(50) {
				t.cnr = r.Intn(ncnr)
			}
			if r.Bool(60) {
				t.verb = 1 + r.Intn(7)
			}
		}
		switch kind {
		case c30V1:
			switch r.Weighted(45, 30, 25) {
			case 1:
				if q.obj >= 0 {
					t.objs = []int{q.obj}
				}
				if r.Bool(30) {
					t.objs = append(t.objs, r.Intn(nobj))
				}
			case 2:
				t.objs = []int{r.Intn(nobj)}
			}
		case c30Bearer:
			if r.Bool(40) {
				t.cnr = -1
			}
			if r.Bool(40) {
				t.forUser = r.Intn(c30Regular)
				if fit && r.Bool(70) {
					t.forUser = q.signer % c30Regular
				}
			}
		case c30V2:
			// the presented token
			l0 := c30Link{issuer: t.issuer, scheme: t.scheme, iat: t.iat, nbf: t.nbf, exp: t.exp, sigOK: true, narrowOK: true,
				subjUsers: []int{r.Intn(c30Regular)}}
			vs := []int{t.verb}
			if r.Bool(40) {
				vs = append(vs, 1+r.Intn(7))
			}
			cn := t.cnr
			if r.Bool(25) {
				cn = -1
			}
			l0.ctxs = []c30Ctx{{cnr: cn, verbs: c30SortedVerbs(vs)}}
			if cn >= 0 && r.Bool(30) {
				other := (cn + 1) % ncnr
				l0.ctxs = append(l0.ctxs, c30Ctx{cnr: other, verbs: []int{1 + r.Intn(7)}})
			}
			t.links = []c30Link{l0}
			depth := r.Weighted(65, 25, 10)
			for d := 0; d < depth; d++ {
				// the token that the current last link was delegated from
				cur := &t.links[len(t.links)-1]
				o := c30Link{sigOK: true, narrowOK: true, scheme: pickScheme()}
				o.issuer = c30Ident{u: r.Intn(c30Regular), n3: o.scheme == 3}
				if d == depth-1 && r.Bool(60) {
					o.issuer = owner
					if owner.n3 {
						o.scheme = 3
					} else if o.scheme == 3 {
						o.scheme = 0
					}
				}
				// the delegate must be an ordinary account named by the origin; sometimes it is not
				if cur.issuer.n3 {
					cur.issuer.n3 = false
					cur.scheme = r.Intn(3)
				}
				switch r.Weighted(50, 30, 20) {
				case 0:
					o.subjUsers = []int{cur.issuer.u}
				case 1:
					o.subjNNS = []string{"deleg.neofs"}
					if r.Bool(70) {
						cur.issuer.u = 2
					}
				default:
					o.subjUsers = []int{r.Intn(c30Regular)}
				}
				if r.Bool(20) {
					o.subjNNS = append(o.subjNNS, "other.neofs")
				}
				o.iat = cur.iat - int64(r.Intn(3))
				o.nbf = cur.nbf - int64(r.Intn(2))
				o.exp = cur.exp + int64(r.Intn(3))
				for _, c := range cur.ctxs {
					o.ctxs = append(o.ctxs, c30Ctx{cnr: c.cnr, verbs: append([]int{}, c.verbs...)})
				}
				switch r.Weighted(60, 15, 10, 15) {
				case 1: // origin expires earlier than its delegate
					o.exp = cur.exp - 1 - int64(r.Intn(2))
					cur.narrowOK = false
				case 2: // origin lacks one of the delegate's verbs
					c := &o.ctxs[r.Intn(len(o.ctxs))]
					if len(c.verbs) > 1 {
						c.verbs = c.verbs[1:]
					} else {
						c.verbs = []int{1 + (c.verbs[0] % 7)}
					}
					cur.narrowOK = false
				case 3:
					o.final = r.Bool(50)
					if !o.final && r.Bool(50) {
						o.ctxs = []c30Ctx{{cnr: -1, verbs: []int{vPut, vGet, vHead, vSearch, vDelete, vRange}}}
						for _, c := range cur.ctxs {
							for _, v := range c.verbs {
								if v == vRangeHash {
									cur.narrowOK = false
								}
							}
						}
					}
				}
				t.links = append(t.links, o)
			}
			t.issuer = t.links[0].issuer
		}
		return t
	}

	nreq := 5 + r.Intn(36)
	for step := 0; step < nreq; step++ {
		r.Step()
		// --- clocks
		switch r.Weighted(45, 25, 20, 10) {
		case 1, 3:
			w.epoch += uint64(1 + r.Weighted(80, 20))
			r.Logf("  epoch -> %d", w.epoch)
			switch {
			case resetMode == 0:
				purge("new epoch")
			case resetMode == 1:
				stale = true
				if pending < 0 {
					pending = 1 + r.Intn(3)
				}
				r.Fired("new-epoch purge late")
			default:
				if r.Bool(50) {
					stale = true
					r.Fired("new-epoch purge lost")
				} else {
					purge("new epoch")
				}
			}
		}
		switch r.Weighted(50, 50) {
		case 1:
			d := int64([]int{1000, 1000, 300, 700, 2000, 500}[r.Intn(6)])
			w.chainMs += d
			r.AddSimTime(time.Duration(d) * time.Millisecond)
			r.Logf("  chain time -> %d.%03d", w.chainMs/1000, w.chainMs%1000)
		}
		if pending == 0 {
			purge("late new-epoch notification")
		} else if pending > 0 {
			pending--
		}

		// --- request
		q := c30ReqKinds[r.Intn(len(c30ReqKinds))]
		q.cnr = r.Intn(ncnr)
		q.obj = r.Intn(nobj)
		if q.name == "search" || (q.name == "put" && r.Bool(60)) {
			q.obj = -1
		}
		q.signer = []int{2, 3, 0, 1, c30IR, c30CN}[r.Weighted(30, 25, 15, 15, 8, 7)]
		signer := c30Ident{u: q.signer}

		// --- tokens
		var sess, bear *c30Tok
		pickKind := func() int { return r.Weighted(kindW...) }
		choose := func(want func(*c30Tok) bool) *c30Tok {
			var c []*c30Tok
			onlyHonoured := r.Bool(55) // keep presenting what worked while the clocks move
			for i := len(pool) - 1; i >= 0 && len(c) < 6; i-- {
				if want(pool[i]) && (!onlyHonoured || pool[i].honoured) {
					c = append(c, pool[i])
				}
			}
			if len(c) == 0 {
				return nil
			}
			return c[r.Intn(len(c))]
		}
		isSess := func(t *c30Tok) bool { return t.kind != c30Bearer }
		isBear := func(t *c30Tok) bool { return t.kind == c30Bearer }
		retarget := func(q *c30Req, t *c30Tok) {
			cn, vb := t.cnr, t.verb
			if t.kind == c30V2 {
				cn, vb = t.links[0].ctxs[0].cnr, t.links[0].ctxs[0].verbs[0]
			}
			if cn >= 0 {
				q.cnr = cn
			}
			if t.kind == c30Bearer {
				return
			}
			for _, kq := range c30ReqKinds {
				if kq.verb == vb {
					kq.cnr, kq.obj, kq.signer = q.cnr, q.obj, q.signer
					if kq.name == "search" {
						kq.obj = -1
					} else if kq.obj < 0 && kq.name != "put" {
						kq.obj = 0
					}
					*q = kq
					break
				}
			}
			if len(t.objs) > 0 && q.obj >= 0 {
				q.obj = t.objs[0]
			}
		}
		mode := r.Weighted(38, 30, 24, 8) // new, reuse, twin of the last honoured, none
		k := pickKind()
		switch mode {
		case 0:
			t := newTok(k, q)
			w.build(t)
			t.desc = t.describe()
			pool = append(pool, t)
			if k == c30Bearer {
				bear = t
			} else {
				sess = t
			}
		case 1:
			if k == c30Bearer {
				bear = choose(isBear)
			} else {
				sess = choose(isSess)
			}
			// mostly the holder uses the token for what it was made for
			if t := firstTok(sess, bear); t != nil && r.Bool(65) {
				retarget(&q, t)
			}
		case 2:
			if lh := lastHonoured[k]; lh != nil {
				if r.Bool(80) {
					retarget(&q, lh)
				}
				t := w.twin(lh, len(pool), q)
				pool = append(pool, t)
				if k == c30Bearer {
					bear = t
				} else {
					sess = t
				}
			}
		}
		// a second token of the other family rides along sometimes
		if sess != nil && bear == nil && r.Bool(25) {
			if r.Bool(50) {
				bear = choose(isBear)
			}
			if bear == nil {
				t := newTok(c30Bearer, q)
				w.build(t)
				t.desc = t.describe()
				pool = append(pool, t)
				bear = t
			}
		} else if bear != nil && sess == nil && r.Bool(25) {
			sess = choose(isSess)
		}

		if objTraffic && sess != nil && r.Bool(22) {
			w.objectArrives(sess)
		}

		w.handle(q, signer, sess, bear, stale, &lastHonoured, &nontrivial, boundaryCrossed, clockOf)
		if r.Violated() {
			return
		}
	}
	if nontrivial {
		r.Nontrivial()
	}
}

func c30SortedVerbs(vs []int) []int {
	sort.Ints(vs)
	out := vs[:0]
	for i, v := range vs {
		if i == 0 || v != vs[i-1] {
			out = append(out, v)
		}
	}
	return out
}

// twin makes a token that differs from an honoured one in one respect.
func (w *c30World) twin(orig *c30Tok, idx int, q c30Req) *c30Tok {
	r := w.r
	t := *orig
	t.idx, t.uses, t.honoured, t.lastClock = idx, 0, false, 0
	t.objs = append([]int{}, orig.objs...)
	t.links = append([]c30Link{}, orig.links...)
	t.sigOK = false
	flip := func(b []byte) {
		if len(b) > 12 {
			b[len(b)/2] ^= 0x10
		}
	}
	other := func() *c30User { return w.users[(orig.issuer.u+1+r.Intn(c30Regular-1))%c30Regular] }
	switch orig.kind {
	case c30V1:
		m := proto.Clone(orig.v1).(*protosession.SessionToken)
		t.v1 = m
		ctx := m.Body.Context.(*protosession.SessionToken_Body_Object).Object
		switch r.Intn(12) {
		case 0:
			m.Body.Lifetime.Exp += 1 + uint64(r.Intn(3))
			t.mutation = "exp extended, signature kept"
		case 1:
			m.Body.Lifetime.Nbf--
			t.mutation = "nbf lowered, signature kept"
		case 2:
			m.Body.Lifetime.Iat--
			t.mutation = "iat lowered, signature kept"
		case 3:
			nv := protosession.ObjectSessionContext_Verb(q.verb)
			if nv == ctx.Verb {
				nv = protosession.ObjectSessionContext_Verb(1 + (q.verb % 7))
			}
			ctx.Verb = nv
			t.mutation = "verb changed, signature kept"
		case 4:
			ctx.Target.Container = w.cnrs[(orig.cnr+1)%len(w.cnrs)].ProtoMessage()
			t.mutation = "container changed, signature kept"
		case 5:
			if len(ctx.Target.Objects) > 0 {
				ctx.Target.Objects = nil
				t.mutation = "object list removed, signature kept"
			} else {
				ctx.Target.Objects = []*refs.ObjectID{w.objs[0].ProtoMessage()}
				t.mutation = "object list added, signature kept"
			}
		case 6:
			m.Body.SessionKey = append([]byte{}, m.Body.SessionKey...)
			m.Body.SessionKey[len(m.Body.SessionKey)-1] ^= 1
			t.mutation = "session key changed, signature kept"
		case 7:
			m.Body.Id = append([]byte{}, m.Body.Id...)
			m.Body.Id[0] ^= 0x55
			t.mutation = "token ID changed, signature kept"
		case 8:
			m.Body.OwnerId = other().id.ProtoMessage()
			t.mutation = "issuer changed, signature kept"
		case 9:
			m.Signature.Sign = append([]byte{}, m.Signature.Sign...)
			flip(m.Signature.Sign)
			t.mutation = "one signature byte flipped"
		case 10:
			if orig.scheme != 3 {
				m.Signature.Key = append([]byte{}, other().pub...)
				t.mutation = "public key replaced"
			} else {
				m.Signature.Key = append([]byte{}, other().n3Verif...)
				t.mutation = "verification script replaced"
			}
		default:
			if t.scheme == 3 {
				// a contract account cannot be impersonated by a key; corrupt its witness instead
				t.mutation = "one signature byte flipped"
				m.Signature.Sign = append([]byte{}, m.Signature.Sign...)
				flip(m.Signature.Sign)
			} else {
				t.keyUser = (orig.issuer.u + 1) % c30Regular
				t.mutation = "re-signed with another user's key, issuer kept"
				w.buildV1(&t)
			}
		}
	case c30Bearer:
		m := proto.Clone(orig.b).(*protoacl.BearerToken)
		t.b = m
		switch r.Intn(9) {
		case 0:
			m.Body.Lifetime.Exp += 1 + uint64(r.Intn(3))
			t.mutation = "exp extended, signature kept"
		case 1:
			m.Body.Lifetime.Nbf--
			t.mutation = "nbf lowered, signature kept"
		case 2:
			m.Body.Lifetime.Iat--
			t.mutation = "iat lowered, signature kept"
		case 3:
			if m.Body.EaclTable.ContainerId != nil {
				m.Body.EaclTable.ContainerId = nil
				t.mutation = "eACL container removed, signature kept"
			} else {
				m.Body.EaclTable.ContainerId = w.cnrs[q.cnr].ProtoMessage()
				t.mutation = "eACL container added, signature kept"
			}
		case 4:
			if m.Body.OwnerId != nil {
				m.Body.OwnerId = nil
				t.mutation = "target user removed, signature kept"
			} else {
				m.Body.OwnerId = other().id.ProtoMessage()
				t.mutation = "target user added, signature kept"
			}
		case 5:
			m.Body.Issuer = other().id.ProtoMessage()
			t.mutation = "issuer changed, signature kept"
		case 6:
			m.Signature.Sign = append([]byte{}, m.Signature.Sign...)
			flip(m.Signature.Sign)
			t.mutation = "one signature byte flipped"
		case 7:
			if orig.scheme != 3 {
				m.Signature.Key = append([]byte{}, other().pub...)
				t.mutation = "public key replaced"
			} else {
				m.Signature.Key = append([]byte{}, other().n3Verif...)
				t.mutation = "verification script replaced"
			}
		default:
			if t.scheme == 3 {
				m.Signature.Sign = append([]byte{}, m.Signature.Sign...)
				flip(m.Signature.Sign)
				t.mutation = "one signature byte flipped"
			} else {
				t.keyUser = (orig.issuer.u + 1) % c30Regular
				t.mutation = "re-signed with another user's key, issuer kept"
				w.buildBearer(&t)
			}
		}
	default:
		m := proto.Clone(orig.v2).(*protosession.SessionTokenV2)
		t.v2 = m
		t.links[0].sigOK = false
		deep := m
		for deep.Origin != nil {
			deep = deep.Origin
		}
		switch r.Intn(12) {
		case 0:
			m.Body.Lifetime.Exp += 1 + uint64(r.Intn(3))
			t.mutation = "exp extended, signature kept"
		case 1:
			m.Body.Lifetime.Nbf--
			t.mutation = "nbf lowered, signature kept"
		case 2:
			m.Body.Lifetime.Iat--
			t.mutation = "iat lowered, signature kept"
		case 3:
			c := m.Body.Contexts[0]
			nv := protosession.Verb(q.verb)
			for _, v := range c.Verbs {
				if v == nv {
					nv = protosession.Verb(vRangeHash)
				}
			}
			c.Verbs = append(append([]protosession.Verb{}, c.Verbs...), nv)
			sort.Slice(c.Verbs, func(a, b int) bool { return c.Verbs[a] < c.Verbs[b] })
			t.mutation = "verb added, signature kept"
		case 4:
			c := m.Body.Contexts[len(m.Body.Contexts)-1]
			if c.Container != nil && len(m.Body.Contexts) == 1 {
				c.Container = nil
				t.mutation = "context container widened to any, signature kept"
			} else {
				m.Body.Subjects = append(m.Body.Subjects, &protosession.Target{Identifier: &protosession.Target_NnsName{NnsName: "x.neofs"}})
				t.mutation = "subject added, signature kept"
			}
		case 5:
			m.Body.Final = !m.Body.Final
			t.mutation = "final flag toggled, signature kept"
		case 6:
			m.Body.Appdata = append([]byte("x"), m.Body.Appdata...)
			t.mutation = "app data changed, signature kept"
		case 7:
			m.Body.Issuer = other().id.ProtoMessage()
			t.mutation = "issuer changed, signature kept"
		case 8:
			m.Signature.Sign = append([]byte{}, m.Signature.Sign...)
			flip(m.Signature.Sign)
			t.mutation = "one signature byte flipped"
		case 9:
			deep.Body.Lifetime.Exp += 1 + uint64(r.Intn(3))
			t.mutation = "exp of the original token extended, signature kept"
			if deep != m {
				t.links[0].sigOK = true
				t.links[len(t.links)-1].sigOK = false
			}
		case 10:
			deep.Signature.Sign = append([]byte{}, deep.Signature.Sign...)
			flip(deep.Signature.Sign)
			t.mutation = "one signature byte of the original token flipped"
			if deep != m {
				t.links[0].sigOK = true
				t.links[len(t.links)-1].sigOK = false
			}
		default:
			if t.links[0].scheme == 3 {
				m.Signature.Sign = append([]byte{}, m.Signature.Sign...)
				flip(m.Signature.Sign)
				t.mutation = "one signature byte flipped"
			} else {
				t.keyUser = (orig.links[0].issuer.u + 1) % c30Regular
				t.mutation = "re-signed with another user's key, issuer kept"
				w.buildV2(&t)
			}
		}
	}
	t.desc = fmt.Sprintf("T%d:twin of T%d{%s}", t.idx, orig.idx, t.mutation)
	return &t
}

func (w *c30World) handle(q c30Req, signer c30Ident, sess, bear *c30Tok, stale bool, lastHonoured *[3]*c30Tok, nontrivial *bool,
	boundaryCrossed func(*c30Tok) bool, clockOf func(int) int64) {
	r := w.r
	objS := "-"
	if q.obj >= 0 {
		objS = fmt.Sprintf("o%d", q.obj)
	}
	tokS := func(t *c30Tok) string {
		if t == nil {
			return "none"
		}
		return t.desc
	}
	staleSfx := ""
	if stale {
		staleSfx = " [cache purge for the new epoch not delivered yet]"
	}

	note := func(t *c30Tok) {
		if t == nil {
			return
		}
		if t.uses > 0 && boundaryCrossed(t) {
			r.Probe(c30KindName[t.kind] + " presented on both sides of a lifetime boundary")
			*nontrivial = true
		}
		key := sha256.Sum256(t.binary())
		hit := false
		if t.kind == c30Bearer {
			hit = w.svc.bearerTokenCommonCheckCache.Contains(key)
		} else {
			hit, _ = c30SessCacheHas(w.sess, key)
		}
		if hit {
			r.Probe(c30KindName[t.kind] + " verification answered from the cache")
			*nontrivial = true
		} else if t.uses > 0 {
			r.Probe(c30KindName[t.kind] + " presented again after eviction or purge")
		}
		if t.mutation != "" && t.uses == 0 {
			r.Fired("twin: " + t.mutation)
		}
	}
	note(sess)
	note(bear)

	// the account the request is attributed to if the session token is honoured
	author := signer
	var sj, bj c30Judge
	if sess != nil {
		if sess.kind == c30V1 {
			sj = w.judgeV1(sess, q)
			author = sess.issuer
		} else {
			sj = w.judgeV2(sess, q)
			author = sess.links[len(sess.links)-1].issuer
		}
		if stale && sess.kind == c30V1 {
			sj.open("stale cache")
		}
	}
	if bear != nil {
		bj = w.judgeBearer(bear, q, author, signer)
		if stale {
			bj.open("stale cache")
		}
	}

	// ---- the server's shared path
	meta := &protosession.RequestMetaHeader{Ttl: 2}
	var tokens common.RequestTokens
	var sessErr, bearErr, infoErr error
	var info RequestInfo
	objID := oid.ID{}
	if q.obj >= 0 {
		objID = w.objs[q.obj]
	}
	cnrID := w.cnrs[q.cnr]
	if sess != nil {
		if sess.kind == c30V2 {
			meta.SessionTokenV2 = sess.v2
			tok, err := w.svc.VerifySessionTokenMessage(sess.v2, sessionv2.Verb(q.verb), cnrID)
			if sessErr = err; err == nil {
				tokens.Session = &tok
			}
		} else {
			meta.SessionToken = sess.v1
			tok, err := w.svc.VerifySessionV1TokenMessage(sess.v1, session.ObjectVerb(q.verb), cnrID, objID)
			if sessErr = err; err == nil {
				tokens.SessionV1 = &tok
			}
		}
	}
	reached := sessErr == nil
	if reached && bear != nil {
		meta.BearerToken = bear.b
		tok, err := w.svc.VerifyBearerTokenMessage(bear.b)
		if bearErr = err; err == nil {
			tokens.Bearer = &tok
		}
	}
	infoReached := reached && bearErr == nil
	if infoReached {
		info, infoErr = w.requestInfo(q, cnrID, objID, signer, meta, tokens)
	}

	sessHon := sess != nil && sessErr == nil
	bearHon := bear != nil && infoReached && infoErr == nil && info.Bearer != nil
	r.Op("e=%d t=%d.%03d %s c%d/%s by u%d session=%s bearer=%s -> session:%s bearer:%s info:%s", w.epoch, w.chainMs/1000, w.chainMs%1000, q.name, q.cnr, objS, q.signer,
		tokS(sess), tokS(bear), c30Res(sess != nil, sessErr), c30Res(bear != nil && reached, firstErr(bearErr, infoErr)), c30Res(infoReached, infoErr))

	for _, t := range []*c30Tok{sess, bear} {
		if t != nil {
			t.uses++
			t.lastClock = clockOf(t.kind)
		}
	}

	// ---- verdicts
	if sess != nil {
		switch {
		case sessHon && sj.v == vdReject:
			sfx := c30Excuse(sess, sj.reject, staleSfx)
			r.Failf("token-honoured", fmt.Sprintf("%s token honoured although %s%s", c30KindName[sess.kind], sj.reject, sfx),
				"%s request for c%d/%s at epoch %d, chain time %d.%03d: %s was honoured although %s", q.name, q.cnr, objS, w.epoch, w.chainMs/1000, w.chainMs%1000, sess.desc, sj.reject)
		case !sessHon && sj.v == vdAccept:
			r.Failf("token-refused", fmt.Sprintf("%s token that is valid for the request was refused", c30KindName[sess.kind]),
				"%s request for c%d/%s at epoch %d, chain time %d.%03d: %s is correctly signed, within its lifetime and applies to the request, but was refused: %v", q.name, q.cnr, objS, w.epoch, w.chainMs/1000, w.chainMs%1000, sess.desc, sessErr)
		}
		if sessHon {
			sess.honoured = true
			if sj.v == vdAccept {
				lastHonoured[sess.kind] = sess
			}
			r.Probe(c30KindName[sess.kind] + " honoured")
		} else {
			r.Probe(c30KindName[sess.kind] + " refused")
		}
	}
	if bear != nil && reached {
		switch {
		case bearHon && bj.v == vdReject:
			sfx := c30Excuse(bear, bj.reject, staleSfx)
			r.Failf("token-honoured", fmt.Sprintf("bearer token honoured although %s%s", bj.reject, sfx),
				"%s request for c%d/%s at epoch %d: %s was honoured although %s", q.name, q.cnr, objS, w.epoch, bear.desc, bj.reject)
		case !bearHon && bj.v == vdAccept:
			r.Failf("token-refused", "bearer token that is valid for the request was refused",
				"%s request for c%d/%s at epoch %d: %s is correctly signed by the container owner, within its lifetime and applies to the request, but was refused: %v", q.name, q.cnr, objS, w.epoch, bear.desc, firstErr(bearErr, infoErr))
		}
		if bearHon {
			bear.honoured = true
			if bj.v == vdAccept {
				lastHonoured[c30Bearer] = bear
			}
			r.Probe("bearer honoured")
		} else {
			r.Probe("bearer refused")
		}
	}
	// a request whose tokens were all honoured (or that carries none) must be resolved, and
	// attributed to the right account with the right role
	if infoReached && infoErr != nil && (bear == nil || bj.v == vdAccept) {
		r.Failf("request-info", "request with honoured tokens could not be resolved", "%s request for c%d: %v", q.name, q.cnr, infoErr)
	}
	if infoReached && infoErr == nil {
		wantAcc := w.identID(author)
		wantKey := w.identKey(author)
		wantRole := acl.RoleOthers
		switch {
		case author == w.cnrOwner[q.cnr]:
			wantRole = acl.RoleOwner
		case !author.n3 && author.u == c30IR:
			wantRole = acl.RoleInnerRing
		case !author.n3 && author.u == c30CN:
			wantRole = acl.RoleContainer
		}
		if info.SenderAccount == nil || *info.SenderAccount != wantAcc || !bytes.Equal(info.SenderKey, wantKey) {
			what := "request without a session token is not attributed to its signer"
			if sess != nil {
				what = c30KindName[sess.kind] + " token honoured but the request is not attributed to its (original) issuer"
			}
			r.Failf("attribution", what, "%s request for c%d by u%d with %s: expected account of %v", q.name, q.cnr, q.signer, tokS(sess), author)
		}
		if info.RequestRole != wantRole {
			r.Failf("attribution", "wrong role for the account the request is attributed to", "%s request for c%d by u%d with %s: role %v, expected %v (author %v, owner %v)", q.name, q.cnr, q.signer, tokS(sess), info.RequestRole, wantRole, author, w.cnrOwner[q.cnr])
		}
		if (info.Bearer != nil) != (bear != nil) {
			r.Failf("attribution", "bearer token presence in the resolved request differs from the request", "%s request: bearer attached=%v, in request info=%v", q.name, bear != nil, info.Bearer != nil)
		}
		if info.Operation != q.op {
			r.Failf("attribution", "wrong operation in the resolved request", "%s request: operation %v, expected %v", q.name, info.Operation, q.op)
		}
	}
}

// c30Excuse names the world condition that can explain a wrongly honoured token (it goes into
// the signature, so that each mechanism is a finding of its own and anything else stays loud).
func c30Excuse(t *c30Tok, reason, staleSfx string) string {
	expired := reason == "it is expired at the current epoch"
	life := expired || strings.Contains(reason, "(nbf)") || strings.Contains(reason, "(iat)")
	if t.objCached && t.kind == c30V1 && life {
		return " [cache entry made by the object pipeline, which does not check lifetimes]"
	}
	if t.objCached && t.kind == c30V2 && !strings.Contains(reason, "signature") &&
		(strings.Contains(reason, "delegate") || strings.Contains(reason, "final") || strings.HasPrefix(reason, "a token of its delegation chain")) {
		return " [cache entry made by the object pipeline, which does not validate the delegation chain]"
	}
	if t.kind != c30V2 && expired {
		return staleSfx // the only wrong answer an outstanding purge can explain
	}
	return ""
}

func firstTok(ts ...*c30Tok) *c30Tok {
	for _, t := range ts {
		if t != nil {
			return t
		}
	}
	return nil
}

func firstErr(es ...error) error {
	for _, e := range es {
		if e != nil {
			return e
		}
	}
	return nil
}

func c30Res(present bool, err error) string {
	if !present {
		return "-"
	}
	if err == nil {
		return "ok"
	}
	s := err.Error()
	if i := strings.Index(s, "V2 token is invalid at"); i >= 0 {
		s = s[:i+len("V2 token is invalid at")] // times formatted in the local zone follow
	}
	if len(s) > 70 {
		s = s[:70]
	}
	return "ERR(" + s + ")"
}

func (w *c30World) requestInfo(q c30Req, cnrID cid.ID, objID oid.ID, signer c30Ident, meta *protosession.RequestMetaHeader, tokens common.RequestTokens) (RequestInfo, error) {
	ctx := context.Background()
	sg := neofsecdsa.SignerRFC6979(w.users[signer.u].priv)
	addr := &refs.Address{ContainerId: cnrID.ProtoMessage()}
	if !objID.IsZero() {
		addr.ObjectId = objID.ProtoMessage()
	}
	var err error
	switch q.name {
	case "get":
		req := &protoobject.GetRequest{Body: &protoobject.GetRequest_Body{Address: addr}, MetaHeader: meta}
		if req.VerifyHeader, err = neofscrypto.SignRequestWithBuffer[*protoobject.GetRequest_Body](sg, req, nil); err != nil {
			break
		}
		return w.svc.GetRequestToInfo(ctx, req, cnrID, tokens)
	case "head":
		req := &protoobject.HeadRequest{Body: &protoobject.HeadRequest_Body{Address: addr}, MetaHeader: meta}
		if req.VerifyHeader, err = neofscrypto.SignRequestWithBuffer[*protoobject.HeadRequest_Body](sg, req, nil); err != nil {
			break
		}
		return w.svc.HeadRequestToInfo(ctx, req, cnrID, tokens)
	case "delete":
		req := &protoobject.DeleteRequest{Body: &protoobject.DeleteRequest_Body{Address: addr}, MetaHeader: meta}
		if req.VerifyHeader, err = neofscrypto.SignRequestWithBuffer[*protoobject.DeleteRequest_Body](sg, req, nil); err != nil {
			break
		}
		return w.svc.DeleteRequestToInfo(ctx, req, cnrID, tokens)
	case "range":
		req := &protoobject.GetRangeRequest{Body: &protoobject.GetRangeRequest_Body{Address: addr, Range: &protoobject.Range{Offset: 0, Length: 1}}, MetaHeader: meta}
		if req.VerifyHeader, err = neofscrypto.SignRequestWithBuffer[*protoobject.GetRangeRequest_Body](sg, req, nil); err != nil {
			break
		}
		return w.svc.RangeRequestToInfo(ctx, req, cnrID, tokens)
	case "search":
		req := &protoobject.SearchV2Request{Body: &protoobject.SearchV2Request_Body{ContainerId: cnrID.ProtoMessage(), Version: 1, Count: 10}, MetaHeader: meta}
		if req.VerifyHeader, err = neofscrypto.SignRequestWithBuffer[*protoobject.SearchV2Request_Body](sg, req, nil); err != nil {
			break
		}
		return w.svc.SearchV2RequestToInfo(ctx, req, cnrID, tokens)
	default: // put, put-tombstone
		hdr := &protoobject.Header{ContainerId: cnrID.ProtoMessage(), OwnerId: w.users[signer.u].id.ProtoMessage()}
		if q.tomb {
			hdr.ObjectType = protoobject.ObjectType_TOMBSTONE
		}
		init := &protoobject.PutRequest_Body_Init{Header: hdr}
		if !objID.IsZero() {
			init.ObjectId = objID.ProtoMessage()
		}
		req := &protoobject.PutRequest{Body: &protoobject.PutRequest_Body{ObjectPart: &protoobject.PutRequest_Body_Init_{Init: init}}, MetaHeader: meta}
		if req.VerifyHeader, err = neofscrypto.SignRequestWithBuffer[*protoobject.PutRequest_Body](sg, req, nil); err != nil {
			break
		}
		info, _, err := w.svc.PutRequestToInfo(ctx, req, init, cnrID, q.op, tokens)
		return info, err
	}
	w.r.Failf("infra", "sign request", "%v", err)
	return RequestInfo{}, err
}
