//go:build verif

package object

// C45 "Only client object operations are refused while the node is in maintenance".

import (
	"context"
	"fmt"
	"strings"

	"github.com/nspcc-dev/neofs-sdk-go/container/acl"
	neofscrypto "github.com/nspcc-dev/neofs-sdk-go/crypto"
	"github.com/nspcc-dev/neofs-sdk-go/object"
	oid "github.com/nspcc-dev/neofs-sdk-go/object/id"
	protoobject "github.com/nspcc-dev/neofs-sdk-go/proto/object"
	"github.com/nspcc-dev/neofs-sdk-go/proto/refs"
	protosession "github.com/nspcc-dev/neofs-sdk-go/proto/session"
	protostatus "github.com/nspcc-dev/neofs-sdk-go/proto/status"
	"github.com/nspcc-dev/neofs-sdk-go/version"
	grpccodes "google.golang.org/grpc/codes"
	grpcstatus "google.golang.org/grpc/status"

	"verif/simkit"
)

func propC45() *simkit.Property {
	return &simkit.Property{
		ID: "C45", Level: "exploration", Bubble: false, TapeLimit: 1200, PanicIsInfra: true,
		Rule: "each run = one server world and a history of 8-15 correctly signed object RPCs (every handler of the service descriptor, client and node-to-node) " +
			"while the tape toggles the local maintenance flag (also in the middle of a Put stream) and moves the epoch; " +
			"distinct = trace digest; non-trivial = a client operation was refused under maintenance AND the same kind of request was served with the flag off",
		Run: runC45,
		Assumptions: []string{
			"client operation = every RPC of the object service except Replicate (docs/maintenance.md: the node denies all object operations; replication between nodes is expected to continue)",
			"an RPC the node does not implement at all (gRPC Unimplemented with the flag off as well) counts as refused",
		},
		Components: map[string]string{
			"object.Server (all handlers)":                              "real",
			"ACL stack, placement, get/put services":                    "real",
			"local storage":                                             "real one-shard engine behind a recording blob proxy; recording object storage for writes",
			"other nodes":                                               "simulated in-memory gRPC node, every dial/connection/RPC recorded",
			"FS chain incl. LocalNodeUnderMaintenance":                  "simulated, flag toggled by the tape",
		},
	}
}

// replicateRequest builds a replication request for obj signed by the node actor.
func replicateRequest(obj *object.Object, signer *actor, scheme int) *protoobject.ReplicateRequest {
	id := obj.GetID()
	s := neofscrypto.Signer(signer.signer(scheme))
	sig, err := s.Sign(id[:])
	if err != nil {
		panic(err)
	}
	return &protoobject.ReplicateRequest{
		Object:    obj.ProtoMessage(),
		Signature: &refs.Signature{Key: neofscrypto.PublicKeyBytes(s.Public()), Sign: sig, Scheme: refs.SignatureScheme(s.Scheme())},
	}
}

func runC45(r *simkit.R) {
	w := newObjWorld(r, worldCfg{epoch: uint64(10 + r.Intn(4)), withEngine: !r.Bool(15)})
	e0 := w.epoch()
	online := []bool{true, true, true, true, true}
	for e := e0 - 2; e <= e0+20; e++ {
		w.chain.setEpochMembership(e, online, c29Members)
	}
	for i, b := range c29Basic {
		w.addContainer(i, b.basic)
	}
	for ci := range c29Basic {
		for k := 0; k < 2; k++ {
			secret := k == 1
			tag := "public"
			if secret {
				tag = secretVal
			}
			local := w.hasShard && ci != c29OutsideCnr && r.Bool(70)
			pl := []byte(fmt.Sprintf("payload-of-cnr%d-%s-%08x", ci, tag, w.seed))
			w.seedObject(&simObject{obj: w.newObject(ci, w.owner.signer(0), pl, [2]string{secretAttr, tag}), cnr: ci, local: local, secret: secret})
		}
	}
	w.blobOn = true
	// container 0 always has a header-dependent rule: a server that evaluated eACL before looking
	// at the maintenance flag would read local headers
	rules := map[int][]simRule{0: {{deny: true, ops: map[acl.Op]bool{acl.OpObjectGet: true, acl.OpObjectHead: true}, kind: ruleObjAttr}}}
	w.chain.mu.Lock()
	w.chain.eacls[w.cnrIDs[0]] = tableFromRules(w.cnrIDs[0], rules[0])
	w.chain.mu.Unlock()
	r.Logf("engine=%v epoch=%d rpcs=%d", w.hasShard, e0, len(w.rpcs))

	setMaint := func(on bool) {
		w.chain.mu.Lock()
		w.chain.maintenance = on
		w.chain.mu.Unlock()
	}
	maint := false
	refused := map[string]bool{}
	served := map[string]bool{}
	steps := 8 + r.Intn(8)
	for step := 0; step < steps && !r.Violated(); step++ {
		r.Step()
		if r.Bool(40) {
			maint = !maint
			setMaint(maint)
			r.Logf("maintenance -> %v", maint)
		}
		if r.Bool(15) {
			w.setEpoch(w.epoch() + 1)
			r.Logf("epoch -> %d", w.epoch())
		}
		// unsupported RPCs are cheap to check but uninteresting: lower weight
		weights := make([]int, len(w.rpcs))
		for i, info := range w.rpcs {
			weights[i] = 4
			if !specOf(info.name).supported {
				weights[i] = 1
			}
		}
		info := w.rpcs[r.Weighted(weights...)]
		spec := specOf(info.name)
		ctx := context.Background()

		if !spec.client {
			if info.name != "Replicate" {
				panic("objsvc harness: no maintenance expectation for node-to-node RPC " + info.name)
			}
			// a valid replication request from a container node for a container the server belongs to
			ci := r.Intn(3)
			o := w.newObject(ci, w.owner.signer(0), []byte(fmt.Sprintf("repl-%d-%08x", step, w.seed)), [2]string{"Step", fmt.Sprint(step)})
			req := replicateRequest(o, w.nodes[1], r.Intn(3))
			r.Op("Replicate cnr%d maintenance=%v", ci, maint)
			mark := w.rec.mark()
			out := callRPC(ctx, info, req)
			effs := w.rec.since(mark)
			r.Logf("  -> %s %s effects: %s", out, codeName(out.code), compact(effs))
			if out.code == protostatus.NodeUnderMaintenance {
				r.Failf("maintenance-refused-replication", "Replicate", "replication request was refused with the maintenance status")
			}
			if out.failed() || !w.objStore.has(o.Address()) {
				r.Failf("replication-not-served", "Replicate/maintenance="+fmt.Sprint(maint), "valid replication request (maintenance=%v) was not served: %s %q, stored=%v", maint, out, out.msg, w.objStore.has(o.Address()))
			}
			if maint {
				r.Probe("replicate-served-under-maintenance")
				served["Replicate/maint"] = true
			}
			continue
		}

		sh := &reqShape{rpc: info.name, cnr: r.Intn(len(c29Basic)), ver: version.Current(), ttl: uint32(2 - r.Intn(2))}
		if spec.addressed {
			sh.obj = w.objs[2*sh.cnr+r.Intn(2)]
			if !sh.obj.local {
				sh.ttl = 2
			}
		}
		if r.Bool(15) {
			sh.ver = version.New(2, 17)
		}
		if info.name == "Get" {
			sh.rngMode = r.Weighted(4, 2, 2)
			sh.pldOnly = r.Bool(30)
			if sh.ver.Minor() <= 17 && sh.rngMode != 0 && !sh.pldOnly {
				sh.pldOnly = true // F-OBJSVC-1 (corrupted signed ranged GET) is C29's finding, keep it out of this check
			}
		}
		sender := []*actor{w.other, w.owner}[r.Weighted(6, 4)]
		if info.name == "Put" {
			sh.newSecret = false
			sh.newObj = w.newObject(sh.cnr, sender.signer(0), []byte(fmt.Sprintf("put-%d-%08x", step, w.seed)), [2]string{secretAttr, "public"}, [2]string{"Step", fmt.Sprint(step)})
			sh.chunks = 1 + r.Intn(3)
		}
		mh := &protosession.RequestMetaHeader{Version: sh.ver.ProtoMessage(), Ttl: sh.ttl}

		// would the request be served with the flag off?  (same model as C29)
		role := acl.RoleOthers
		if sender == w.owner {
			role = acl.RoleOwner
		}
		basic := c29Basic[sh.cnr].basic
		permitted, servable := true, true
		var objID oid.ID
		if sh.obj != nil {
			objID = sh.obj.obj.GetID()
		}
		if !basic.IsOpAllowed(spec.op, role) {
			permitted = false
		} else if basic.Extendable() && role == acl.RoleOthers {
			secret := sh.obj != nil && sh.obj.secret
			if deny, _ := evalRules(rules[sh.cnr], spec.op, secret, sh.obj != nil, objID, false); deny {
				permitted = false
			}
		}
		if !spec.supported || sh.cnr == c29OutsideCnr && sh.ttl == 1 {
			servable = false
		}

		req := w.buildRequest(sh, mh)
		scheme := r.Intn(3)
		midStream := -1 // Put only: the flag flips right before message #midStream is received
		hookFired := false
		var put *fakePutStreamHook
		if reqs, ok := req.([]*protoobject.PutRequest); ok {
			for _, m := range reqs {
				w.signWithDefect(m, sender, scheme, sigValid, 0)
			}
			if !maint && r.Bool(35) {
				midStream = r.Intn(len(reqs))
				put = &fakePutStreamHook{at: midStream, f: func() { setMaint(true); hookFired = true }}
			}
		} else {
			w.signWithDefect(req, sender, scheme, sigValid, 0)
		}

		target := "-"
		if sh.obj != nil {
			target = map[bool]string{true: "local", false: "remote"}[sh.obj.local] + map[bool]string{true: "/secret", false: "/public"}[sh.obj.secret]
		}
		r.Op("%s cnr%d obj=%s ttl=%d v=%s sender=%s rng=%d/%v maintenance=%v midstream=%d permitted=%v servable=%v",
			info.name, sh.cnr, target, sh.ttl, sh.ver.String(), sender.name, sh.rngMode, sh.pldOnly, maint, midStream, permitted, servable)

		mark := w.rec.mark()
		storedBefore := w.objStore.count()
		putHook = put
		out := callRPC(ctx, info, req)
		putHook = nil
		effs := w.rec.since(mark)
		data := dataEffects(effs)
		r.Logf("  -> %s %s effects: %s", out, codeName(out.code), compact(effs))
		effMaint := maint || hookFired
		if hookFired {
			maint = true // stays on
			r.Probe("maintenance-on-mid-put-stream")
		}

		if effMaint {
			unimpl := out.rpcErr != nil && grpcstatus.Code(out.rpcErr) == grpccodes.Unimplemented
			switch {
			case !spec.supported && unimpl:
				r.Probe("unimplemented-under-maintenance")
			case !out.failed():
				r.Failf("served-under-maintenance", info.name, "%s was served (status OK) while the node is in maintenance; effects: %s", info.name, compact(effs))
			case permitted && out.code != protostatus.NodeUnderMaintenance:
				r.Failf("wrong-maintenance-status", info.name, "%s: a valid request under maintenance was refused with %s %q instead of NODE_UNDER_MAINTENANCE", info.name, out, out.msg)
			}
			if len(data) > 0 {
				r.Failf("effect-under-maintenance", info.name, "%s under maintenance (answered %s) touched storage or other nodes: %s", info.name, out, compact(data))
			}
			if out.hdrMsgs > 0 || out.pldBytes > 0 || w.objStore.count() != storedBefore {
				r.Failf("effect-under-maintenance", info.name, "%s under maintenance delivered or stored object data", info.name)
			}
			r.Fired("maintenance-refusal")
			r.Probe("refused-under-maintenance/" + info.name)
			if permitted && servable {
				refused[info.name] = true
			}
			continue
		}
		// flag off: the must-succeed side
		if !spec.supported {
			if out.rpcErr == nil || grpcstatus.Code(out.rpcErr) != grpccodes.Unimplemented {
				panic(fmt.Sprintf("objsvc harness: RPC %s is registered as unsupported but answered %s", info.name, out))
			}
			continue
		}
		if out.code == protostatus.NodeUnderMaintenance {
			r.Failf("maintenance-status-when-off", info.name, "%s refused with the maintenance status while the flag is off", info.name)
		}
		if permitted && servable {
			if out.failed() {
				r.Failf("refused-good-request", info.name, "%s: permitted request refused with the flag off: %s %q; effects: %s", info.name, out, out.msg, compact(effs))
			}
			c29CheckServed(r, w, info, sh, out, data, storedBefore)
			r.Probe("served-with-flag-off/" + info.name)
			served[info.name] = true
		}
	}
	for k := range refused {
		if served[k] || strings.HasPrefix(k, "Replicate") {
			r.Nontrivial()
			break
		}
	}
}
