package event_test

// C34: the inner ring co-signs only notary transactions whose calls it fully validated.
//
// The real event.Listener (subscription loops, notary preparator, parser/handler tables) is wired with the
// real container, netmap and reputation processors over a simulated FS chain (internal/zzverif/simchain
// behind the wrapped morph client).  Generated and mutated notary requests are delivered through the
// listener's notary subscription channel; every NotarySignAndInvokeTX of the node is recorded by the chain model.

import (
	"context"
	"fmt"
	"os"
	"reflect"
	"sort"
	"strings"
	"testing"
	"testing/synctest"
	"time"
	"unsafe"

	"github.com/nspcc-dev/neo-go/pkg/core/transaction"
	"github.com/nspcc-dev/neo-go/pkg/crypto/keys"
	"github.com/nspcc-dev/neo-go/pkg/network/payload"
	"github.com/nspcc-dev/neo-go/pkg/util"
	"github.com/nspcc-dev/neo-go/pkg/vm/opcode"
	zsim "github.com/nspcc-dev/neofs-node/internal/zzverif/simchain"
	"github.com/nspcc-dev/neofs-node/pkg/innerring/processors/container"
	"github.com/nspcc-dev/neofs-node/pkg/innerring/processors/netmap"
	nodevalidator "github.com/nspcc-dev/neofs-node/pkg/innerring/processors/netmap/nodevalidation"
	statevalidation "github.com/nspcc-dev/neofs-node/pkg/innerring/processors/netmap/nodevalidation/state"
	addrvalidator "github.com/nspcc-dev/neofs-node/pkg/innerring/processors/netmap/nodevalidation/structure"
	"github.com/nspcc-dev/neofs-node/pkg/innerring/processors/reputation"
	"github.com/nspcc-dev/neofs-node/pkg/morph/client"
	cntClient "github.com/nspcc-dev/neofs-node/pkg/morph/client/container"
	nmClient "github.com/nspcc-dev/neofs-node/pkg/morph/client/netmap"
	repClient "github.com/nspcc-dev/neofs-node/pkg/morph/client/reputation"
	"github.com/nspcc-dev/neofs-node/pkg/morph/event"
	reputationcommon "github.com/nspcc-dev/neofs-node/pkg/services/reputation/common"
	"github.com/nspcc-dev/neofs-sdk-go/container/acl"
	sdkreputation "github.com/nspcc-dev/neofs-sdk-go/reputation"
	"github.com/panjf2000/ants/v2"
	"go.uber.org/zap"
	"go.uber.org/zap/zaptest/observer"
	"verif/simkit"
)

func TestVerif(t *testing.T) {
	simkit.Main(t, &simkit.Property{
		ID: "C34", Level: "exploration", Bubble: true, TapeLimit: 1500, PanicIsInfra: true,
		Rule: "each run = one inner ring notary pipeline (real event.Listener with its notary preparator and parser/handler tables filled from the real container, netmap and reputation processors' ListenerNotaryParsers/ListenerNotaryHandlers, real processors over a simulated FS chain, node always an alphabet member) and a history of 6-24 steps: deliver a notary request, re-deliver an earlier one, let the chain height advance by 0-3 blocks, rotate the committee. A request = a script of 1-3 contract calls drawn from the registered (contract, method) table (content valid for its handler, or with a defect the handler must catch: foreign signer, mismatching name, reporter outside the container, unverifiable witness, bad address) mixed with calls to unregistered contracts / unregistered methods, the legitimate createV2+putEACL pair, createV2 followed by a well-formed eACL argument list addressed to another contract or method, argument count / type changes, trailing opcodes; wrapped in an envelope that is canonical (3 or 4 signers, alphabet witness empty or pre-signed by others, dummy or empty notary placeholder, any alphabet signer scope) or carries one structural defect (20 kinds: signer/witness counts and order, foreign or stale alphabet account or witness, non-empty proxy witness, notary placeholder, invoker witness, NotaryAssisted attribute count/type/NKeys, fallback attribute set), fallback NotValidBefore at height-1/height/height+1/height+30 of the moving chain, optionally sent by the node itself. Oracle (from the statement): a NotarySignAndInvokeTX of a request's main transaction is allowed only if at delivery time the envelope is canonical for the current committee, NotValidBefore > current block count, and the script is exactly one registered call whose content is valid, or the pair createV2 + container.putEACL with both parts valid; never a transaction nobody delivered. distinct = trace digest; non-trivial = >=1 request co-signed and >=1 defective request delivered",
		Run:  runC34,
		Assumptions: []string{
			"the chain node only relays notary requests whose fallback transaction has its two signers (preparator relies on it); such requests are not generated",
			"the only multi-call script a handler is documented to validate is createV2 followed by putEACL of the container contract; any other co-signed multi-call script is reported",
			"content validity of a call is known by construction (who signed, which container, which node); session tokens are not used (C37 covers them)",
			"alphabet signer witness scopes are varied but not judged (the statement does not name a scope)",
			"chain height and committee change only between deliveries, not while a request is being handled",
		},
		Components: map[string]string{
			"event.Listener: ListenWithError, listenForNotary, parseAndHandleNotary, SetNotaryParser/RegisterNotaryHandler, acceptOnlySingleCall": "real",
			"notary preparator (Prepare, validateCosigners/Witnesses/Attributes/Expiration, parseEvent)":                                       "real",
			"notary parsers of event/container, event/netmap, event/reputation":                                                                   "real",
			"container / netmap / reputation processors (constructors, handlers, worker pools, signature checks, node validators state+structure)": "real",
			"alphabet state": "stub: always an alphabet member",
			"morph client":   "simulated: chain model answers reads (containers, network map, epoch, block count, committee, witness runs), records every state-changing call",
		},
	})
}

func infraf(format string, args ...any) {
	dumpLog()
	panic("INFRA(C34): " + fmt.Sprintf(format, args...))
}

var dumpLog = func() {}

type alwaysAlpha struct{ epoch uint64 }

func (alwaysAlpha) IsAlphabet() bool              { return true }
func (a alwaysAlpha) EpochCounter() uint64        { return a.epoch }
func (alwaysAlpha) SetEpochCounter(uint64)        {}
func (alwaysAlpha) SetEpochDuration(uint64)       {}
func (alwaysAlpha) EpochDuration() time.Duration  { return time.Hour }
func (alwaysAlpha) ResetEpochTimer(uint32) error  { return nil }
func (alwaysAlpha) Now() time.Time                { return time.Now() }

type processor interface {
	ListenerNotificationParsers() []event.NotificationParserInfo
	ListenerNotificationHandlers() []event.NotificationHandlerInfo
	ListenerNotaryParsers() []event.NotaryParserInfo
	ListenerNotaryHandlers() []event.NotaryHandlerInfo
}

func poolOf(p any) *ants.Pool {
	v := reflect.ValueOf(p).Elem().FieldByName("pool")
	if !v.IsValid() {
		return nil
	}
	return *(**ants.Pool)(unsafe.Pointer(v.UnsafeAddr()))
}

// request is a generated notary request with what the generator knows about it.
type request struct {
	id       int
	nr       *payload.P2PNotaryRequest
	desc     string
	builtFor keys.PublicKeys
	defect   string // structural defect of the envelope ("" = canonical)
	nvb      uint32
	scriptOK bool   // the call list is one a handler validates completely and every call's content is valid
	why      string // first reason the script is not OK
	own      bool
	signed   int
}

type world struct {
	r     *simkit.R
	w     *zsim.World
	kinds []string // registered "<contract>.<method>"
	reqs  []*request
	byTx  map[util.Uint256]*request
	salt  uint32
	nSigned, nBad int
}

func runC34(r *simkit.R) {
	h := &world{r: r, byTx: map[util.Uint256]*request{}}
	r.OnCleanup(func() {
		for i := 0; i < 3; i++ {
			time.Sleep(600 * time.Millisecond)
			synctest.Wait()
		}
	})
	nComm := []int{4, 1, 3, 7}[r.Intn(4)]
	nNodes := 1 + r.Intn(3)
	h.w = zsim.NewWorld(zsim.Key(zsim.KNode), nComm)
	w := h.w
	w.SeedFS(nNodes, 1+r.Intn(2))
	w.RegisterName(zsim.H("attacker"), "attacker")
	comm := []int{zsim.KNode}
	for i := zsim.KIRFirst; len(comm) < nComm; i++ {
		comm = append(comm, i)
	}
	w.FS.Committee, w.FS.IRList = zsim.PubList(comm...), zsim.PubList(comm...)
	r.Logf("config committee=%d nodes=%d", nComm, nNodes)

	log := zap.NewNop()
	if os.Getenv("VERIF_IRLOG") != "" {
		core, logs := observer.New(zap.DebugLevel)
		log = zap.New(core)
		dumpLog = func() {
			for _, e := range logs.All() {
				fmt.Fprintf(os.Stderr, "NODELOG %s %s %v\n", e.Level, e.Message, e.ContextMap())
			}
		}
	}
	cli := client.NewSimClient(w.FS, w.Node)
	r.OnCleanup(func() { client.ReleaseSimClient(cli) })
	must := func(err error) {
		if err != nil {
			infraf("building the world: %v", err)
		}
	}
	lis, err := event.NewListener(event.ListenerParams{Logger: log, Client: cli})
	must(err)
	lis.EnableNotarySupport(w.Proxy, w.Node.PublicKey().GetScriptHash(), cli.Committee, cli)

	cnrCli, err := cntClient.NewFromMorph(cli, w.Container, cntClient.AsAlphabet())
	must(err)
	nmCli, err := nmClient.NewFromMorph(cli, w.Netmap, nmClient.AsAlphabet())
	must(err)
	repCli, err := repClient.NewFromMorph(cli, w.Reputation, repClient.AsAlphabet())
	must(err)
	st := alwaysAlpha{epoch: w.FS.Epoch}
	cp, err := container.New(&container.Params{Log: log, PoolSize: 4, AlphabetState: st, ContainerClient: cnrCli, NetworkState: nmCli, ChainTime: st})
	must(err)
	np, err := netmap.New(&netmap.Params{Log: log, PoolSize: 4, NetmapClient: nmCli, EpochTimer: st, EpochState: st, AlphabetState: st, ContainerWrapper: cnrCli,
		NotaryDepositHandler: func(event.Event) {}, AlphabetSyncHandler: func(event.Event) {},
		NodeValidator: nodevalidator.New(statevalidation.New(), addrvalidator.New())})
	must(err)
	mb := reputationcommon.NewManagerBuilder(reputationcommon.ManagersPrm{NetMapSource: nmCli})
	rp, err := reputation.New(&reputation.Params{Log: log, PoolSize: 4, EpochState: st, AlphabetState: st, ReputationWrapper: repCli, ManagerBuilder: mb})
	must(err)
	w.ManagerOf = func(epoch uint64, peer []byte) int {
		var pid sdkreputation.PeerID
		pid.SetPublicKey(peer)
		mm, err := mb.BuildManagers(epoch, pid)
		if err != nil || len(mm) == 0 {
			infraf("cannot compute the reputation manager: %v", err)
		}
		for i := 0; i < zsim.NKeys; i++ {
			if string(zsim.Pub(i).Bytes()) == string(mm[0].PublicKey()) {
				return i
			}
		}
		infraf("reputation manager is not a pool key")
		return 0
	}
	for _, p := range []processor{cp, np, rp} {
		// the wiring of innerring/bindings.go
		for _, x := range p.ListenerNotificationParsers() {
			lis.SetNotificationParser(x)
		}
		for _, x := range p.ListenerNotificationHandlers() {
			lis.RegisterNotificationHandler(x)
		}
		for _, x := range p.ListenerNotaryParsers() {
			lis.SetNotaryParser(x)
			h.kinds = append(h.kinds, w.ContractName(x.ScriptHash())+"."+x.RequestType().String())
		}
		handlers := map[string]bool{}
		for _, x := range p.ListenerNotaryHandlers() {
			lis.RegisterNotaryHandler(x)
			handlers[w.ContractName(x.ScriptHash())+"."+x.RequestType().String()] = true
		}
		pl := poolOf(p)
		if pl == nil {
			infraf("processor %T has no worker pool field to release", p)
		}
		r.OnCleanup(pl.Release)
		_ = handlers
	}
	sort.Strings(h.kinds)
	for _, k := range h.kinds {
		known := false
		for _, ck := range zsim.CallKinds {
			known = known || ck == k
		}
		if !known {
			infraf("no generator for the registered notary request %s", k)
		}
	}

	ctx, cancel := context.WithCancel(context.Background())
	errCh := make(chan error, 4)
	go lis.ListenWithError(ctx, errCh)
	stopped := false
	stop := func() {
		if !stopped {
			stopped = true
			cancel()
			lis.Stop()
			for i := 0; i < 3; i++ {
				synctest.Wait()
				time.Sleep(10 * time.Millisecond)
			}
		}
	}
	r.OnCleanup(stop)
	h.settle()

	steps := 6 + r.Intn(19)
	for i := 0; i < steps; i++ {
		r.Step()
		switch r.Weighted(8, 2, 2, 1) {
		case 0:
			h.deliver(h.generate(), false)
		case 1:
			if len(h.reqs) > 0 {
				h.deliver(h.reqs[r.Intn(len(h.reqs))], true)
			} else {
				h.deliver(h.generate(), false)
			}
		case 2:
			d := uint32(r.Intn(4))
			w.FS.Lock()
			w.FS.Blocks += d
			b := w.FS.Blocks
			w.FS.Unlock()
			r.Logf("chain: +%d blocks, block count %d", d, b)
		case 3:
			// the committee rotates (the node stays a member): requests built for the old one are stale
			c := append([]int(nil), comm...)
			if len(c) > 1 {
				c[1+r.Intn(len(c)-1)] = zsim.KIRLast
			} else {
				c = append(c, zsim.KIRLast)
			}
			w.FS.Lock()
			w.FS.Committee = zsim.PubList(c...)
			w.FS.Unlock()
			r.Logf("committee is now %s", zsim.Canon(zsim.PubList(c...)))
		}
	}
	select {
	case err := <-errCh:
		infraf("the listener stopped with an error: %v", err)
	default:
	}
	if h.nSigned > 0 && h.nBad > 0 {
		r.Nontrivial()
	}
	stop()
}

func (h *world) settle() {
	for i := 0; i < 3; i++ {
		synctest.Wait()
		time.Sleep(time.Millisecond)
	}
	synctest.Wait()
	if e := h.w.InfraErr(); e != "" {
		infraf("chain model: %s", e)
	}
}

func (h *world) nextSalt() uint32 { h.salt++; return h.salt }

// generate draws one request.
func (h *world) generate() *request {
	r, w := h.r, h.w
	q := &request{id: len(h.reqs)}
	salt := h.nextSalt()

	// --- script
	kind := h.kinds[r.Intn(len(h.kinds))]
	bad := 0
	if r.Bool(25) {
		bad = 1 + r.Intn(2)
	}
	first := w.BuildCall(kind, bad, salt)
	calls := []zsim.Call{first}
	q.scriptOK, q.why = first.Valid, first.Why
	var trailing []opcode.Opcode
	shape := kind
	foreign := func() zsim.Call {
		// a call nobody registered: another contract, or an unregistered method of a registered contract
		c := zsim.Call{Contract: w.Balance, Method: "transfer", Args: []any{zsim.UserID(zsim.KOwner).ScriptHash(), zsim.UserID(zsim.KStranger).ScriptHash(), int64(1_0000_0000), []byte{}}}
		switch r.Intn(3) {
		case 1:
			c = zsim.Call{Contract: w.Container, Method: "setQuota", Args: []any{[]byte("x"), int64(5)}}
		case 2:
			c = zsim.Call{Contract: w.Netmap, Method: "setConfig", Args: []any{[]byte("id"), []byte("ContainerFee"), int64(0)}}
		}
		return c
	}
	eaclFor := func(signer int) []any {
		_, _, id := zsim.NewContainer(zsim.KOwner, salt, 1, acl.PublicRWExtended, "", "")
		return w.EACLArgs(id, signer, salt)
	}
	switch r.Weighted(10, 2, 2, 2, 2, 2, 1, 1, 2, 2, 1) {
	case 0:
	case 1: // the legitimate pair
		shape = "createV2+putEACL"
		first = w.BuildCall("container.createV2", bad, salt)
		signer := zsim.KOwner
		q.scriptOK, q.why = first.Valid, first.Why
		if r.Bool(30) {
			signer = zsim.KStranger
			q.scriptOK, q.why = false, "eACL of the second call is not signed by the owner"
			shape += "(foreign eACL signer)"
		}
		calls = []zsim.Call{first, {Contract: w.Container, Method: "putEACL", Args: eaclFor(signer)}}
	case 2: // createV2 followed by eACL-shaped arguments addressed elsewhere
		first = w.BuildCall("container.createV2", 0, salt)
		tgt := []struct {
			c util.Uint160
			m string
		}{{w.Balance, "putEACL"}, {w.Container, "remove"}, {w.Netmap, "anything"}, {zsim.H("attacker"), "putEACL"}}[r.Intn(4)]
		shape = "createV2+" + w.ContractName(tgt.c) + "." + tgt.m + "(eACL-shaped args)"
		calls = []zsim.Call{first, {Contract: tgt.c, Method: tgt.m, Args: eaclFor(zsim.KOwner)}}
		q.scriptOK, q.why = false, "second call is not container.putEACL"
	case 3: // valid first call + another registered call, valid on its own
		k2 := h.kinds[r.Intn(len(h.kinds))]
		shape = kind + "+" + k2
		calls = append(calls, w.BuildCall(k2, 0, h.nextSalt()))
		q.scriptOK, q.why = false, "two registered calls in one script: only the first one is looked at by its handler"
	case 4: // valid first call + unregistered call
		f := foreign()
		shape = kind + "+" + w.ContractName(f.Contract) + "." + f.Method
		calls = append(calls, f)
		q.scriptOK, q.why = false, "an unregistered call follows the registered one"
	case 5: // unregistered first call
		f := foreign()
		shape = w.ContractName(f.Contract) + "." + f.Method + "+" + kind
		calls = []zsim.Call{f, first}
		if r.Bool(50) {
			shape = w.ContractName(f.Contract) + "." + f.Method
			calls = calls[:1]
		}
		q.scriptOK, q.why = false, "first call is not registered"
	case 6: // three calls
		shape = "createV2+putEACL+putEACL"
		first = w.BuildCall("container.createV2", 0, salt)
		calls = []zsim.Call{first, {Contract: w.Container, Method: "putEACL", Args: eaclFor(zsim.KOwner)}, {Contract: w.Container, Method: "putEACL", Args: eaclFor(zsim.KOwner)}}
		q.scriptOK, q.why = false, "three calls"
	case 7: // registered contract, unregistered method, same arguments
		shape = kind + " under method name 'other'"
		calls[0].Method = "other"
		q.scriptOK, q.why = false, "method is not registered"
	case 8: // argument count
		if r.Bool(50) {
			shape = kind + " without its last argument"
			calls[0].Args = calls[0].Args[:len(calls[0].Args)-1]
		} else {
			shape = kind + " with 5 extra arguments"
			calls[0].Args = append(append([]any(nil), calls[0].Args...), int64(1), int64(2), []byte("x"), "y", true)
		}
		q.scriptOK, q.why = false, "wrong number of arguments"
	case 9: // argument type
		i := r.Intn(len(calls[0].Args))
		shape = fmt.Sprintf("%s with argument %d replaced by a nested array", kind, i)
		a := append([]any(nil), calls[0].Args...)
		a[i] = []any{int64(1), []any{[]byte("x")}}
		calls[0].Args = a
		q.scriptOK, q.why = false, "argument of a wrong type"
	case 10: // trailing opcodes
		trailing = [][]opcode.Opcode{{opcode.RET}, {opcode.NOP}, {opcode.PUSH1}, {opcode.PUSH1, opcode.DROP}}[r.Intn(4)]
		shape = fmt.Sprintf("%s followed by %v", kind, trailing)
		q.scriptOK, q.why = false, "opcodes after the last call"
	}
	if !first.Valid && q.scriptOK {
		q.scriptOK, q.why = false, first.Why
	}

	// --- envelope
	w.FS.Lock()
	q.builtFor = append(keys.PublicKeys(nil), w.FS.Committee...)
	bc := w.FS.Blocks
	w.FS.Unlock()
	sh := zsim.ReqShape{Nonce: salt, Invoker: r.Bool(40), AlphaSigned: r.Bool(20), DummyNotary: r.Bool(20)}
	sh.AlphaScope = []transaction.WitnessScope{transaction.None, transaction.CalledByEntry, transaction.Global}[r.Intn(3)]
	q.nvb = bc + []uint32{30, 1, 0, ^uint32(0)}[r.Intn(4)] // height+30, +1, height, height-1
	sh.NVB = q.nvb
	if r.Bool(25) {
		q.defect = zsim.Defects[r.Intn(len(zsim.Defects))]
		if q.defect == "invoker-witness-empty" {
			sh.Invoker = true
		}
		sh.Defect = q.defect
	}
	if r.Bool(8) {
		q.own = true
		sh.FallbackOwner = w.Node.PublicKey().GetScriptHash()
	}
	sh.TrailingOps = trailing
	q.nr = w.BuildRequest(calls, q.builtFor, sh)
	q.desc = fmt.Sprintf("#%d script{%s} content=%s envelope{%s invoker=%v presigned=%v dummy=%v scope=%v own=%v} nvb=%d", q.id, shape, okStr(q.scriptOK, q.why),
		orStr(q.defect, "canonical"), sh.Invoker, sh.AlphaSigned, sh.DummyNotary, sh.AlphaScope, q.own, q.nvb)
	h.reqs = append(h.reqs, q)
	if _, dup := h.byTx[q.nr.MainTransaction.Hash()]; dup {
		infraf("two generated requests share a main transaction")
	}
	h.byTx[q.nr.MainTransaction.Hash()] = q
	return q
}

func okStr(ok bool, why string) string {
	if ok {
		return "valid"
	}
	return "INVALID(" + why + ")"
}

func orStr(s, d string) string {
	if s == "" {
		return d
	}
	return s
}

func sameKeys(a, b keys.PublicKeys) bool {
	if len(a) != len(b) {
		return false
	}
	x, y := append(keys.PublicKeys(nil), a...), append(keys.PublicKeys(nil), b...)
	sort.Sort(x)
	sort.Sort(y)
	for i := range x {
		if !x[i].Equal(y[i]) {
			return false
		}
	}
	return true
}

// deliver pushes the request through the listener and judges what the node signed.
func (h *world) deliver(q *request, again bool) {
	r, w := h.r, h.w
	w.FS.Lock()
	bc := w.FS.Blocks
	cur := append(keys.PublicKeys(nil), w.FS.Committee...)
	w.FS.Unlock()
	// the verdict of the statement at this moment
	reason := ""
	switch {
	case q.defect != "":
		reason = "envelope: " + q.defect
	case !sameKeys(q.builtFor, cur):
		reason = "envelope: alphabet signer and witness belong to a previous committee"
	case q.nvb <= bc:
		reason = "fallback already valid (NotValidBefore <= block count)"
	case !q.scriptOK:
		reason = "script: " + q.why
	}
	if reason != "" {
		h.nBad++
		r.Fired("defective request delivered")
	}
	mark := w.Seq()
	_, _, ch := w.FS.Channels()
	ch <- zsim.NotaryEvent(q.nr)
	h.settle()
	r.Op("deliver%s %s at block count %d -> %s", map[bool]string{true: " again", false: ""}[again], q.desc, bc, orStr(reason, "may be co-signed"))
	for _, e := range w.EffectsSince(mark) {
		r.Logf("    effect %s", e.Key())
		if e.Via != "NotarySignAndInvokeTX" {
			continue
		}
		sq, ok := h.byTx[e.Tx.Hash()]
		if !ok {
			r.Failf("notary-cosign", "the node co-signed a main transaction that was never delivered", "%s", e.Key())
		}
		if sq != q {
			r.Failf("notary-cosign", "the node co-signed another request than the delivered one", "delivered %s, signed %s", q.desc, sq.desc)
		}
		sq.signed++
		h.nSigned++
		if reason != "" {
			r.Failf("notary-cosign", sigOf(q, reason, cur, bc), "the node co-signed request %s delivered at block count %d for committee %s although: %s", q.desc, bc, zsim.Canon(cur), reason)
		}
		r.Probe("co-signed: " + strings.SplitN(e.Short(), "{", 2)[1])
	}
}

func sigOf(q *request, reason string, cur keys.PublicKeys, bc uint32) string {
	switch {
	case strings.HasPrefix(reason, "fallback"):
		return fmt.Sprintf("co-signed with expired fallback (NotValidBefore - block count = %d)", int64(q.nvb)-int64(bc))
	case strings.HasPrefix(reason, "script"):
		return "co-signed script: " + q.why + " [" + scriptShape(q.desc) + "]"
	}
	return "co-signed " + reason
}

// scriptShape extracts the script{...} part of a description, without salts.
func scriptShape(desc string) string {
	i := strings.Index(desc, "script{")
	j := strings.Index(desc, "} content=")
	if i < 0 || j < i {
		return "?"
	}
	return desc[i+7 : j]
}
