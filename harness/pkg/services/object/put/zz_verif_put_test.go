package putsvc

// World "put" of the /verif simulation framework: the real PUT pipeline of this package
// (Service.Put -> Streamer.Init/SendChunk/Close -> validatingTarget -> slicingTarget ->
// distributedTarget -> placement iteration / EC distribution) runs for one simulated storage
// node; every other party is a fake owned by the simulator:
//   - the cluster: a pool of simulated storage nodes reached through the Transport
//     (replication requests) and the ClientConstructor (client PUT streams) seams;
//   - the node's own object storage (ObjectStorage seam);
//   - network map / container nodes / container source / epoch / sessions / quotas / payments.
// Every per-node delivery parks at a simkit Kernel gate "node:<i>:put..." and the seeded
// scheduler decides the completion order and the verdict (success, error kinds, slow, timeout).
// Every delivery is recorded (what object, on which node, really stored or not, acknowledged
// or not).  C25 and C24 judge the recordings.

import (
	"github.com/nspcc-dev/neofs-sdk-go/session"
	"context"
	"crypto/ecdsa"
	"crypto/elliptic"
	"crypto/sha256"
	"errors"
	"fmt"
	"io"
	"math"
	"math/big"
	"runtime"
	"runtime/debug"
	"sort"
	"strings"
	"sync"
	"testing"
	"time"

	iec "github.com/nspcc-dev/neofs-node/internal/ec"
	isessions "github.com/nspcc-dev/neofs-node/internal/sessions"
	clientcore "github.com/nspcc-dev/neofs-node/pkg/core/client"
	objutil "github.com/nspcc-dev/neofs-node/pkg/services/object/util"
	storage "github.com/nspcc-dev/neofs-node/pkg/util/state/session"
	"github.com/nspcc-dev/neofs-sdk-go/client"
	apistatus "github.com/nspcc-dev/neofs-sdk-go/client/status"
	"github.com/nspcc-dev/neofs-sdk-go/container"
	cid "github.com/nspcc-dev/neofs-sdk-go/container/id"
	neofscrypto "github.com/nspcc-dev/neofs-sdk-go/crypto"
	neofsecdsa "github.com/nspcc-dev/neofs-sdk-go/crypto/ecdsa"
	"github.com/nspcc-dev/neofs-sdk-go/netmap"
	"github.com/nspcc-dev/neofs-sdk-go/object"
	oid "github.com/nspcc-dev/neofs-sdk-go/object/id"
	protoobject "github.com/nspcc-dev/neofs-sdk-go/proto/object"
	sessionv2 "github.com/nspcc-dev/neofs-sdk-go/session/v2"
	"github.com/nspcc-dev/neofs-sdk-go/user"
	"go.uber.org/zap"
	"google.golang.org/protobuf/proto"
	"verif/simkit"
)

func TestVerif(t *testing.T) {
	simkit.Main(t, propC25())
	simkit.Main(t, propC24())
}

// ---------------------------------------------------------------------------------------
// deterministic keys (fixed scalars; which key plays which role is fixed per check)

const (
	pvKeyNode     = 0 // the local storage node
	pvKeyOwner    = 1 // object / container owner
	pvKeyOwner2   = 2 // another user
	pvKeySession  = 3 // session key held by the node for pvKeyOwner
	pvKeyClientSK = 4 // session key held by the client (sealed objects with a session)
	pvKeyStranger = 5 // a key unknown to everybody
	pvKeyCount    = 6
)

var (
	pvKeysOnce sync.Once
	pvKeys     []*ecdsa.PrivateKey
)

func pvKey(i int) *ecdsa.PrivateKey {
	pvKeysOnce.Do(func() {
		c := elliptic.P256()
		nm1 := new(big.Int).Sub(c.Params().N, big.NewInt(1))
		for j := 0; j < pvKeyCount; j++ {
			h := sha256.Sum256([]byte(fmt.Sprintf("verif/put/fixed-scalar/%d", j)))
			d := new(big.Int).SetBytes(h[:])
			d.Mod(d, nm1)
			d.Add(d, big.NewInt(1))
			k := &ecdsa.PrivateKey{D: d}
			k.Curve = c
			k.X, k.Y = c.ScalarBaseMult(d.Bytes()) //nolint:staticcheck // deterministic key from a fixed scalar
			pvKeys = append(pvKeys, k)
		}
	})
	return pvKeys[i]
}

func pvUser(i int) user.ID { return user.NewFromECDSAPublicKey(pvKey(i).PublicKey) }

func pvSigner(i int) user.Signer { return user.NewAutoIDSignerRFC6979(*pvKey(i)) }

func pvPubBytes(i int) []byte {
	return neofscrypto.PublicKeyBytes((*neofsecdsa.PublicKey)(&pvKey(i).PublicKey))
}

// ---------------------------------------------------------------------------------------
// verdicts a gate can deliver to a simulated node

const (
	pvOK          = 0
	pvErrGeneric  = 1 // plain failure
	pvErrRemoved  = 2 // "object already removed" status
	pvErrSpace    = 3 // out of space
	pvErrIncompl  = 4 // the remote node answers with the "incomplete" status itself
	pvErrLostAck  = 5 // the node stores the object, the acknowledgement is lost
	pvSlow        = 6 // answers 2 s later (or never, if the caller's deadline fires first)
	pvVerySlow    = 7 // answers 45 s later
	pvTimeout     = 8 // never answers; returns at the caller's deadline
	pvVerdictLast = 8
)

func pvVerdictName(v int) string {
	return [...]string{"ok", "error", "already-removed", "no-space", "incomplete-status", "stored-ack-lost", "slow", "very-slow", "timeout"}[v]
}

var errPvNode = errors.New("simulated node failure")

// ---------------------------------------------------------------------------------------
// recordings

type pvRec struct {
	seq    int
	op     int    // workload operation during which the delivery happened
	node   int    // pool index of the receiving node; -1: the local node when it is outside the pool
	via    string // local | replicate | client
	obj    object.Object
	binErr string // local storage only: the binary handed over does not decode / differs
	stored bool
	acked  bool
}

type pvPost struct {
	op    int
	id    oid.ID
	nodes []int
}

// ---------------------------------------------------------------------------------------
// the world

type pvCnrNodes struct {
	unsorted [][]netmap.NodeInfo
	sorted   [][]netmap.NodeInfo
	rep      []uint
	ec       []iec.Rule
}

func (x *pvCnrNodes) Unsorted() [][]netmap.NodeInfo                    { return x.unsorted }
func (x *pvCnrNodes) SortForObject(oid.ID) ([][]netmap.NodeInfo, error) { return x.sorted, nil }
func (x *pvCnrNodes) PrimaryCounts() []uint                             { return x.rep }
func (x *pvCnrNodes) ECRules() []iec.Rule                               { return x.ec }

type pvWorld struct {
	lastTok *session.Object // (C24) token of the last unmutated sealed-with-session upload of this run
	r *simkit.R
	k *simkit.Kernel

	mu    sync.Mutex
	recs  []*pvRec
	posts []pvPost
	curOp int

	panicSig, panicMsg string

	pool     []netmap.NodeInfo // simulated storage nodes (fake 33-byte public keys)
	localIdx int               // pool index of the local node, -1 if it is not a pool node
	localPub []byte
	epoch    uint64
	maxSize  uint64

	sessionKnown bool // the node holds the private session key pvKeySession
	sessionExp   uint64

	cnrID cid.ID
	cnr   container.Container
	cn    *pvCnrNodes

	svc *Service
}

// pool node public keys are opaque to the code under test (only compared)
func pvNodePub(i int) []byte {
	h := sha256.Sum256([]byte(fmt.Sprintf("verif/put/node/%d", i)))
	return append([]byte{2}, h[:]...)
}

func newPvWorld(r *simkit.R, k *simkit.Kernel, poolSize, localIdx int) *pvWorld {
	w := &pvWorld{r: r, k: k, localIdx: localIdx, epoch: 100, maxSize: 1024, sessionKnown: true, sessionExp: 200}
	for i := 0; i < poolSize; i++ {
		var ni netmap.NodeInfo
		if i == localIdx {
			ni.SetPublicKey(pvPubBytes(pvKeyNode))
		} else {
			ni.SetPublicKey(pvNodePub(i))
		}
		ni.SetNetworkEndpoints(fmt.Sprintf("/dns4/n%d/tcp/8080", i))
		w.pool = append(w.pool, ni)
	}
	w.localPub = pvPubBytes(pvKeyNode)
	h := sha256.Sum256([]byte("verif/put/container"))
	copy(w.cnrID[:], h[:])
	return w
}

// setPolicy installs the container's policy and node lists.  lists holds pool indices: REP
// lists first, then EC lists, already in the order "sorted for the object".
func (w *pvWorld) setPolicy(rep []int, ec [][2]int, lists [][]int, initial *netmap.InitialPlacementPolicy) {
	cn := &pvCnrNodes{}
	var pp netmap.PlacementPolicy
	var rds []netmap.ReplicaDescriptor
	for _, c := range rep {
		cn.rep = append(cn.rep, uint(c))
		var rd netmap.ReplicaDescriptor
		rd.SetNumberOfObjects(uint32(c))
		rds = append(rds, rd)
	}
	pp.SetReplicas(rds)
	var ers []netmap.ECRule
	for _, e := range ec {
		cn.ec = append(cn.ec, iec.Rule{DataPartNum: uint8(e[0]), ParityPartNum: uint8(e[1])})
		ers = append(ers, netmap.NewECRule(uint32(e[0]), uint32(e[1])))
	}
	if len(ers) > 0 {
		pp.SetECRules(ers)
	}
	if initial != nil {
		pp.SetInitial(*initial)
	}
	for _, l := range lists {
		var s, u []netmap.NodeInfo
		for _, n := range l {
			s = append(s, w.pool[n])
		}
		us := append([]int(nil), l...)
		sort.Ints(us)
		for _, n := range us {
			u = append(u, w.pool[n])
		}
		cn.sorted = append(cn.sorted, s)
		cn.unsorted = append(cn.unsorted, u)
	}
	w.cn = cn
	w.cnr = container.Container{}
	w.cnr.SetOwner(pvUser(pvKeyOwner))
	w.cnr.SetPlacementPolicy(pp)
}

func (w *pvWorld) build() {
	ks := objutil.NewKeyStorage(pvKey(pvKeyNode), (*pvSessions)(w), (*pvNet)(w))
	w.svc = NewService((*pvTransport)(w), (*pvNet)(w), nil, pvQuota{}, pvPaid{},
		WithSessionsCache(isessions.NewObjectSessionsCache(8)),
		WithLogger(zap.NewNop()),
		WithKeyStorage(ks),
		WithObjectStorage((*pvLocal)(w)),
		WithMaxSizeSource((*pvMax)(w)),
		WithContainerSource((*pvCnrSrc)(w)),
		WithNetworkState((*pvNet)(w)),
		WithClientConstructor((*pvClients)(w)),
		WithSplitChainVerifier(pvSplitOK{}),
		WithTombstoneVerifier(pvTombOK{}),
		WithPostPlacementReplicator((*pvPostRepl)(w)),
	)
}

func (w *pvWorld) nodeIndex(pub []byte) int {
	for i := range w.pool {
		if string(w.pool[i].PublicKey()) == string(pub) {
			return i
		}
	}
	return -1
}

func (w *pvWorld) recCount() int {
	w.mu.Lock()
	defer w.mu.Unlock()
	return len(w.recs)
}

func (w *pvWorld) nodeName(n int) string {
	if n < 0 {
		return "local"
	}
	return fmt.Sprintf("%d", n)
}

// deliver applies the scheduler's verdict on a simulated node and records the delivery.
func (w *pvWorld) deliver(ctx context.Context, node int, via string, obj *object.Object, binErr string, v int) error {
	rec := &pvRec{node: node, via: via, binErr: binErr}
	obj.CopyTo(&rec.obj)
	var err error
	wait := func(d time.Duration) bool {
		t := time.NewTimer(d)
		defer t.Stop()
		select {
		case <-t.C:
			return true
		case <-ctx.Done():
			return false
		}
	}
	switch v {
	case pvOK:
		rec.stored, rec.acked = true, true
	case pvErrGeneric:
		err = errPvNode
	case pvErrRemoved:
		err = apistatus.ErrObjectAlreadyRemoved
	case pvErrSpace:
		err = errors.New("no space left on device")
	case pvErrIncompl:
		inc := new(apistatus.Incomplete)
		inc.SetMessage("remote node reports an incomplete operation")
		err = inc
	case pvErrLostAck:
		rec.stored = true
		err = errors.New("connection reset by peer")
	case pvSlow, pvVerySlow:
		d := 2 * time.Second
		if v == pvVerySlow {
			d = 45 * time.Second
		}
		if wait(d) {
			rec.stored, rec.acked = true, true
		} else {
			rec.stored = true // the node finishes its work, nobody listens any more
			err = ctx.Err()
		}
	case pvTimeout:
		if _, has := ctx.Deadline(); has {
			<-ctx.Done()
			err = ctx.Err()
		} else {
			err = errors.New("i/o timeout")
		}
	default:
		err = errPvNode
	}
	w.mu.Lock()
	rec.seq = len(w.recs)
	rec.op = w.curOp
	w.recs = append(w.recs, rec)
	w.mu.Unlock()
	return err
}

func pvGateKey(node string, obj *object.Object) string {
	// the key names the receiving node and what the object is (never its id)
	kind := "obj"
	switch obj.Type() {
	case object.TypeLink:
		kind = "link"
	case object.TypeLock:
		kind = "lock"
	case object.TypeTombstone:
		kind = "tomb"
	default:
	}
	if ri, pi, ok := pvECInfo(obj); ok {
		kind = fmt.Sprintf("ec%s.%s", ri, pi)
	}
	return "node:" + node + ":put:" + kind
}

// pvECInfo returns the raw EC attributes of an object.
func pvECInfo(o *object.Object) (rule, part string, ok bool) {
	for _, a := range o.Attributes() {
		switch a.Key() {
		case "__NEOFS__EC_RULE_IDX":
			rule, ok = a.Value(), true
		case "__NEOFS__EC_PART_IDX":
			part, ok = a.Value(), true
		}
	}
	return
}

// ---- seams ----------------------------------------------------------------------------

type pvLocal pvWorld

func (x *pvLocal) Put(ctx context.Context, obj *object.Object, objBin []byte) error {
	w := (*pvWorld)(x)
	v := w.k.Gate(pvGateKey(w.nodeName(w.localIdx), obj))
	stored := obj
	binErr := ""
	if objBin != nil {
		// the real engine writes the binary it is given: judge the binary
		var dec object.Object
		if err := dec.Unmarshal(objBin); err != nil {
			binErr = "binary does not decode: " + err.Error()
		} else {
			if string(dec.CutPayload().Marshal()) != string(obj.CutPayload().Marshal()) {
				binErr = "binary header differs from the object"
			} else if string(dec.Payload()) != string(obj.Payload()) {
				binErr = "binary payload differs from the object"
			}
			stored = &dec
		}
	}
	err := w.deliver(ctx, w.localIdx, "local", stored, binErr, v)
	if err != nil {
		return err
	}
	return nil
}

func (x *pvLocal) IsLocked(context.Context, oid.Address) (bool, error) { return false, nil }

type pvTransport pvWorld

func (x *pvTransport) SendReplicationRequestToNode(ctx context.Context, reqBin []byte, node netmap.NodeInfo) ([]byte, error) {
	w := (*pvWorld)(x)
	n := w.nodeIndex(node.PublicKey())
	var req protoobject.ReplicateRequest
	garbage := func(what string) ([]byte, error) {
		// a real node would refuse it; the judges raise it after more specific diagnoses
		w.mu.Lock()
		w.recs = append(w.recs, &pvRec{seq: len(w.recs), op: w.curOp, node: n, via: "replicate", binErr: what})
		w.mu.Unlock()
		return nil, errors.New(what)
	}
	if err := proto.Unmarshal(reqBin, &req); err != nil {
		return garbage("replication request does not decode")
	}
	var obj object.Object
	if req.Object == nil {
		return garbage("replication request without object")
	}
	if err := obj.FromProtoMessage(req.Object); err != nil {
		return garbage("replication request carries an undecodable object")
	}
	v := w.k.Gate(pvGateKey(w.nodeName(n), &obj))
	return nil, w.deliver(ctx, n, "replicate", &obj, "", v)
}

type pvClients pvWorld

func (x *pvClients) Get(_ context.Context, node netmap.NodeInfo) (clientcore.MultiAddressClient, error) {
	w := (*pvWorld)(x)
	return &pvClient{w: w, node: w.nodeIndex(node.PublicKey())}, nil
}

type pvClient struct {
	clientcore.MultiAddressClient // everything else is unreachable from PUT
	w    *pvWorld
	node int
}

func (c *pvClient) ObjectPutInit(ctx context.Context, hdr object.Object, _ user.Signer, _ client.PrmObjectPutInit) (client.ObjectWriter, error) {
	wr := &pvWriter{c: c, ctx: ctx}
	hdr.CopyTo(&wr.obj)
	wr.obj.SetPayload(nil)
	return wr, nil
}

type pvWriter struct {
	c   *pvClient
	ctx context.Context
	obj object.Object
	pl  []byte
}

func (x *pvWriter) Write(p []byte) (int, error) { x.pl = append(x.pl, p...); return len(p), nil }
func (x *pvWriter) ReadFrom(r io.Reader) (int64, error) {
	b, err := io.ReadAll(r)
	x.pl = append(x.pl, b...)
	return int64(len(b)), err
}
func (x *pvWriter) Close() error {
	x.obj.SetPayload(x.pl)
	v := x.c.w.k.Gate(pvGateKey(x.c.w.nodeName(x.c.node), &x.obj))
	return x.c.w.deliver(x.ctx, x.c.node, "client", &x.obj, "", v)
}
func (x *pvWriter) GetResult() client.ResObjectPut { return client.ResObjectPut{} }

type pvNet pvWorld

func (x *pvNet) GetContainerNodes(id cid.ID) (ContainerNodes, error) {
	if id != x.cnrID {
		return nil, apistatus.ErrContainerNotFound
	}
	return x.cn, nil
}
func (x *pvNet) IsLocalNodePublicKey(pk []byte) bool        { return string(pk) == string(x.localPub) }
func (x *pvNet) GetEpochBlock(uint64) (uint32, error)       { return 1, nil }
func (x *pvNet) GetEpochBlockByTime(uint32) (uint32, error) { return 1, nil }
func (x *pvNet) CurrentEpoch() uint64                       { return x.epoch }
func (x *pvNet) CurrentBlock() uint32                       { return 1000 }
func (x *pvNet) CurrentEpochDuration() uint64               { return 240 }

type pvCnrSrc pvWorld

func (x *pvCnrSrc) Get(id cid.ID) (container.Container, error) {
	if id != x.cnrID {
		return container.Container{}, apistatus.ErrContainerNotFound
	}
	return x.cnr, nil
}

type pvMax pvWorld

func (x *pvMax) MaxObjectSize() uint64 { return x.maxSize }

type pvSessions pvWorld

func (x *pvSessions) GetToken(acc user.ID) *storage.PrivateToken {
	if x.sessionKnown && acc == pvUser(pvKeySession) {
		return storage.NewPrivateToken(pvKey(pvKeySession), x.sessionExp)
	}
	return nil
}
func (x *pvSessions) FindTokenBySubjects([]sessionv2.Target) *storage.PrivateToken { return nil }

type pvQuota struct{}

func (pvQuota) AvailableQuotasLeft(cid.ID, user.ID) (uint64, uint64, error) {
	return math.MaxUint64, math.MaxUint64, nil
}

type pvPaid struct{}

func (pvPaid) UnpaidSince(cid.ID) (int64, error) { return -1, nil }

type pvSplitOK struct{}

func (pvSplitOK) VerifySplit(context.Context, cid.ID, oid.ID, []object.MeasuredObject) error {
	return nil
}

type pvTombOK struct{}

func (pvTombOK) VerifyTombStoneWithoutPayload(context.Context, object.Object) error { return nil }

type pvPostRepl pvWorld

func (x *pvPostRepl) HandlePostPlacement(obj *object.Object, nodes []netmap.NodeInfo) {
	w := (*pvWorld)(x)
	p := pvPost{id: obj.GetID()}
	for i := range nodes {
		p.nodes = append(p.nodes, w.nodeIndex(nodes[i].PublicKey()))
	}
	w.mu.Lock()
	p.op = w.curOp
	w.posts = append(w.posts, p)
	w.mu.Unlock()
}

// ---- scheduler ------------------------------------------------------------------------

// drive runs f as a kernel task and plays the scheduler until it returns: parked deliveries
// are granted in tape-chosen order with the verdict chosen by pick; when nothing is parked
// the simulated clock is pumped (deadlines, slow nodes).  Returns false on a hang.
func (w *pvWorld) drive(name string, f func(), pick func(key string) int) bool {
	k := w.k
	t := k.Go(name, func(*simkit.Task) { f() })
	for step := 0; step < 4000; step++ {
		w.r.Step()
		k.Quiesce()
		for _, x := range k.Collect() {
			if x == t {
				return true
			}
		}
		parked := k.Parked()
		if len(parked) == 0 {
			if !k.Pump(3 * time.Minute) {
				return false
			}
			continue
		}
		ch := w.r.Intn(len(parked))
		v := pick(parked[ch].Key)
		w.r.Logf("  grant %s -> %s", parked[ch].Key, pvVerdictName(v))
		if v != pvOK {
			w.r.Fired("node answers: " + pvVerdictName(v))
		}
		k.Grant(parked[ch], v)
	}
	return false
}

// gateNode extracts the node name from a gate key "node:<name>:put:<kind>".
func gateNode(key string) string {
	p := strings.Split(key, ":")
	if len(p) < 2 {
		return ""
	}
	return p[1]
}

// pvCatchPanic turns a panic of the code under test into a violation whose signature names
// the panicking function of this package, the kind of runtime error and the given shape.
// Must be deferred directly by the task function.
func (w *pvWorld) pvCatchPanic(shape string) {
	x := recover()
	if x == nil {
		return
	}
	var msg string
	switch v := x.(type) {
	case error:
		msg = v.Error()
	case string:
		msg = v
	default:
		panic(x) // the kernel's own unwinding
	}
	site := "unknown"
	pcs := make([]uintptr, 64)
	n := runtime.Callers(2, pcs)
	frames := runtime.CallersFrames(pcs[:n])
	for {
		f, more := frames.Next()
		if strings.Contains(f.Function, "services/object/put.") && !strings.Contains(f.File, "zz_verif") {
			site = f.Function[strings.LastIndex(f.Function, "/")+1:]
			break
		}
		if !more {
			break
		}
	}
	generic := strings.Map(func(c rune) rune {
		if c >= '0' && c <= '9' {
			return 'N'
		}
		return c
	}, msg)
	w.mu.Lock()
	w.panicSig = fmt.Sprintf("%s: %s [%s]", site, generic, shape)
	w.panicMsg = fmt.Sprintf("the PUT pipeline panicked: %s\n%s", msg, debug.Stack())
	w.mu.Unlock()
}

// reportPanic raises the violation for a panic caught by pvCatchPanic (called by the
// scheduler once the task is over, so that a more specific diagnosis can come first).
func (w *pvWorld) reportPanic() {
	w.mu.Lock()
	sig, msg := w.panicSig, w.panicMsg
	w.mu.Unlock()
	if sig != "" {
		w.r.Failf("put-panic", sig, "%s", msg)
	}
}

func pvErrClass(err error) string {
	switch {
	case err == nil:
		return "ok"
	case errors.Is(err, apistatus.ErrIncomplete):
		return "incomplete"
	default:
		return "error"
	}
}
