package getsvc

// World of check C23: a simulated cluster of storage nodes.  Every node runs a REAL
// getsvc.Service; what is simulated is (a) the node's local object storage (an in-memory
// object list answering like the storage engine does: physical object, split info collected
// from the stored children that reference the parent, EC part lookup by parent/rule/part,
// range resolution through the storage's own common.PayloadRange.Resolve), (b) the network
// (a call to a remote node = a call of that node's Service with TTL 1, errors mapped the way
// the object server and the SDK client map them, streams delivered as bytes-then-error),
// (c) placement (per-object node order), (d) node failures: down (transport error), hang
// (answers only when the caller's context ends), missing copies.

import (
	"bytes"
	"context"
	"crypto/ecdsa"
	"crypto/elliptic"
	"crypto/sha256"
	"errors"
	"fmt"
	"io"
	"math/big"
	"sync"
	"sync/atomic"
	"time"

	iec "github.com/nspcc-dev/neofs-node/internal/ec"
	clientcore "github.com/nspcc-dev/neofs-node/pkg/core/client"
	blobcommon "github.com/nspcc-dev/neofs-node/pkg/local_object_storage/blobstor/common"
	"github.com/nspcc-dev/neofs-node/pkg/local_object_storage/engine"
	objcommon "github.com/nspcc-dev/neofs-node/pkg/services/object/common"
	objutil "github.com/nspcc-dev/neofs-node/pkg/services/object/util"
	svcutil "github.com/nspcc-dev/neofs-node/pkg/services/util"
	"github.com/nspcc-dev/neofs-sdk-go/client"
	apistatus "github.com/nspcc-dev/neofs-sdk-go/client/status"
	"github.com/nspcc-dev/neofs-sdk-go/container"
	"github.com/nspcc-dev/neofs-sdk-go/container/acl"
	cid "github.com/nspcc-dev/neofs-sdk-go/container/id"
	"github.com/nspcc-dev/neofs-sdk-go/netmap"
	"github.com/nspcc-dev/neofs-sdk-go/object"
	oid "github.com/nspcc-dev/neofs-sdk-go/object/id"
	"github.com/nspcc-dev/neofs-sdk-go/object/slicer"
	iprotobuf "github.com/nspcc-dev/neofs-sdk-go/proto/protobuf"
	protosession "github.com/nspcc-dev/neofs-sdk-go/proto/session"
	sessionv2 "github.com/nspcc-dev/neofs-sdk-go/session/v2"
	"github.com/nspcc-dev/neofs-sdk-go/user"
	"github.com/nspcc-dev/neofs-sdk-go/version"
	"go.uber.org/zap"
	"google.golang.org/grpc/mem"
	"verif/simkit"
)

// ---------------------------------------------------------------------------------------
// deterministic keys

var (
	zzKeyOnce sync.Once
	zzKeyVal  *ecdsa.PrivateKey
)

func zzKey() *ecdsa.PrivateKey {
	zzKeyOnce.Do(func() {
		curve := elliptic.P256()
		h := sha256.Sum256([]byte("verif C23 node key"))
		d := new(big.Int).SetBytes(h[:])
		n1 := new(big.Int).Sub(curve.Params().N, big.NewInt(1))
		d.Mod(d, n1)
		d.Add(d, big.NewInt(1))
		k := &ecdsa.PrivateKey{D: d}
		k.Curve = curve
		k.X, k.Y = curve.ScalarBaseMult(d.Bytes())
		zzKeyVal = k
	})
	return zzKeyVal
}

type zzKeyStore struct{}

func (zzKeyStore) GetKey(*user.ID) (*ecdsa.PrivateKey, error) { return zzKey(), nil }
func (zzKeyStore) GetKeyBySubjects([]sessionv2.Target) (*ecdsa.PrivateKey, error) {
	return nil, errors.New("sim: no session keys")
}

// ---------------------------------------------------------------------------------------
// nodes and world

type zzNode struct {
	w    *zzWorld
	idx  int
	info netmap.NodeInfo
	pub  []byte
	objs []*object.Object // stored physical objects (with payload), insertion order
	down bool             // every call to this node fails with a transport error
	hang bool             // every call to this node answers only when the caller gives up
	svc  *Service
}

func (n *zzNode) find(id oid.ID) *object.Object {
	for _, o := range n.objs {
		if o.GetID() == id {
			return o
		}
	}
	return nil
}

func (n *zzNode) put(o *object.Object) {
	if n.find(o.GetID()) == nil {
		n.objs = append(n.objs, o)
	}
}

func (n *zzNode) remove(id oid.ID) {
	for i, o := range n.objs {
		if o.GetID() == id {
			n.objs = append(n.objs[:i:i], n.objs[i+1:]...)
			return
		}
	}
}

type zzWorld struct {
	r     *simkit.R
	nodes []*zzNode
	byPub map[string]*zzNode
	cnrID cid.ID
	cnr   container.Container
	owner user.ID
	repN  uint      // number of primary holders of the REP rule (REP container)
	ec    *iec.Rule // EC rule (EC container), nil otherwise
	base  []int     // base node order
	rot   map[oid.ID]int

	// what the transport met during the current operation (not part of the trace)
	hitDown   atomic.Bool
	hitHang   atomic.Bool
	remoteGet atomic.Int32
	proxyTo   *zzNode // node the next proxied (top-level) request goes to
	linkID    oid.ID  // link object of the stored split object (zero otherwise)
	linkRead  atomic.Bool // some node served the link object during the current operation
}

// zzProxy models the object server's proxying of one top-level request to container nodes
// (pkg/services/object get.go / range.go continueWithConn and the HEAD transport): response
// messages of the remote node are passed to the client as they are -- the header once, payload
// bytes beyond what was already passed on (a stream resumed on another node skips them), a
// non-OK status other than "not found" ends the request with that status; "not found" and
// transport failures make the service try the next node; split info goes back to the service.
type zzProxy struct {
	w            *zzWorld
	col          *zzCollector // the client's response stream
	suppressInit bool         // payload-only request: the header is not passed on
	hdrDone      bool
	sent         int   // payload bytes passed to the client so far
	status       error // status the request was finished with by a remote node
	headHdr      *object.Object
}

// finish replays what the remote handler produced (rc, err) as its message stream.
func (px *zzProxy) finish(ctx context.Context, rc *zzCollector, err error, wantLen func(hdr *object.Object) (uint64, bool), needHdr bool) error {
	if rc.hdrs > 0 && !px.hdrDone {
		px.hdrDone = true
		if !px.suppressInit {
			_ = px.col.WriteHeader(rc.hdr)
		}
	}
	if len(rc.data) > px.sent {
		_ = px.col.WriteChunk(rc.data[px.sent:])
		px.sent = len(rc.data)
	}
	if err != nil {
		werr := zzWire(ctx, err)
		var si *object.SplitInfoError
		switch {
		case errors.As(werr, &si):
			return werr
		case errors.Is(werr, apistatus.ErrObjectNotFound):
			return apistatus.ErrObjectNotFound
		case errors.Is(werr, apistatus.Error):
			px.status = werr
			return nil
		}
		return fmt.Errorf("reading the response failed: %w", werr)
	}
	// end of stream: the proxy checks that nothing is missing
	if needHdr && rc.hdrs == 0 {
		return io.ErrUnexpectedEOF
	}
	if want, ok := wantLen(rc.hdr); ok && uint64(px.sent) < want {
		return io.ErrUnexpectedEOF
	}
	return nil
}

func (px *zzProxy) getFn(addr oid.Address, rng blobcommon.PayloadRange) GetTransportFunc {
	return func(ctx context.Context, _ clientcore.MultiAddressClient) error {
		to := px.w.proxyTo
		if err := px.w.reach(ctx, to); err != nil {
			return fmt.Errorf("stream opening failed: %w", err)
		}
		px.w.remoteGet.Add(1)
		var p Prm
		p.SetCommonParameters(zzCommon(1, nil))
		p.WithAddress(addr)
		p.WithContainer(px.w.cnr)
		p.payloadRange = rng
		rc := new(zzCollector)
		p.SetObjectWriter(rc)
		err := to.svc.Get(ctx, p)
		return px.finish(ctx, rc, err, func(hdr *object.Object) (uint64, bool) {
			if hdr == nil {
				return 0, false
			}
			if rng.Mode == blobcommon.PayloadRangeModeOffsetLength && rng.Second > 0 {
				return rng.Second, true
			}
			_, ln, rerr := rng.Resolve(hdr.PayloadSize())
			return ln, rerr == nil
		}, true)
	}
}

func (px *zzProxy) rangeFn(addr oid.Address, off, ln uint64) RangeTransportFunc {
	return func(ctx context.Context, _ clientcore.MultiAddressClient) error {
		to := px.w.proxyTo
		if err := px.w.reach(ctx, to); err != nil {
			return fmt.Errorf("stream opening failed: %w", err)
		}
		px.w.remoteGet.Add(1)
		var p RangePrm
		p.SetCommonParameters(zzCommon(1, nil))
		p.WithAddress(addr)
		p.WithContainer(px.w.cnr)
		rng := object.NewRange()
		rng.SetOffset(off)
		rng.SetLength(ln)
		p.SetRange(rng)
		rc := new(zzCollector)
		p.SetChunkWriter(rc)
		err := to.svc.GetRange(ctx, p)
		if err == nil && len(rc.data) == 0 {
			// a payload-less OK answer is an empty message stream, which the proxy refuses
			return io.ErrUnexpectedEOF
		}
		return px.finish(ctx, rc, err, func(*object.Object) (uint64, bool) { return 0, false }, false)
	}
}

func (px *zzProxy) headFn(addr oid.Address) HeadTransportFunc {
	return func(ctx context.Context, _ clientcore.MultiAddressClient) (mem.BufferSlice, iprotobuf.BuffersSlice, error) {
		var none iprotobuf.BuffersSlice
		to := px.w.proxyTo
		if err := px.w.reach(ctx, to); err != nil {
			return nil, none, err
		}
		px.w.remoteGet.Add(1)
		var p HeadPrm
		p.SetCommonParameters(zzCommon(1, nil))
		p.WithAddress(addr)
		p.WithContainer(px.w.cnr)
		rc := new(zzCollector)
		p.SetHeaderWriter(rc)
		if err := to.svc.Head(ctx, p); err != nil {
			werr := zzWire(ctx, err)
			var si *object.SplitInfoError
			switch {
			case errors.As(werr, &si):
				return nil, none, werr
			case errors.Is(werr, apistatus.ErrObjectNotFound):
				return nil, none, apistatus.ErrObjectNotFound
			case errors.Is(werr, apistatus.Error):
				px.status = werr
				return nil, none, nil
			}
			return nil, none, werr
		}
		px.headHdr = rc.hdr
		return nil, none, nil
	}
}

// submitHead is the HEAD response forwarding installed together with headFn.
func (px *zzProxy) submitHead(mem.BufferSlice, iprotobuf.BuffersSlice) {
	if px.status == nil && px.headHdr != nil {
		_ = px.col.WriteHeader(px.headHdr)
	}
}

func (w *zzWorld) listFor(id oid.ID) []netmap.NodeInfo {
	rot := w.rot[id]
	n := len(w.nodes)
	res := make([]netmap.NodeInfo, n)
	for i := 0; i < n; i++ {
		res[i] = w.nodes[w.base[(i+rot)%n]].info
	}
	return res
}

// orderFor is listFor in node indexes.
func (w *zzWorld) orderFor(id oid.ID) []int {
	rot := w.rot[id]
	n := len(w.nodes)
	res := make([]int, n)
	for i := 0; i < n; i++ {
		res[i] = w.base[(i+rot)%n]
	}
	return res
}

type zzNet struct {
	w *zzWorld
	n *zzNode
}

func (x *zzNet) GetNodesForObject(addr oid.Address) ([][]netmap.NodeInfo, []uint, []iec.Rule, error) {
	list := x.w.listFor(addr.Object())
	if x.w.ec != nil {
		return [][]netmap.NodeInfo{list}, nil, []iec.Rule{*x.w.ec}, nil
	}
	return [][]netmap.NodeInfo{list}, []uint{x.w.repN}, nil, nil
}

func (x *zzNet) IsLocalNodePublicKey(pub []byte) bool { return bytes.Equal(pub, x.n.pub) }

func zzNewWorld(r *simkit.R, nnodes int, ecRule *iec.Rule, repN uint) *zzWorld {
	w := &zzWorld{r: r, byPub: map[string]*zzNode{}, rot: map[oid.ID]int{}, ec: ecRule, repN: repN}
	w.cnrID = cid.ID(sha256.Sum256([]byte("verif C23 container")))
	w.owner = user.NewFromECDSAPublicKey(zzKey().PublicKey)
	var pp netmap.PlacementPolicy
	if ecRule != nil {
		pp.SetECRules([]netmap.ECRule{netmap.NewECRule(uint32(ecRule.DataPartNum), uint32(ecRule.ParityPartNum))})
	} else {
		var rd netmap.ReplicaDescriptor
		rd.SetNumberOfObjects(uint32(repN))
		pp.SetReplicas([]netmap.ReplicaDescriptor{rd})
	}
	w.cnr.SetOwner(w.owner)
	w.cnr.SetBasicACL(acl.PublicRW)
	w.cnr.SetPlacementPolicy(pp)
	for i := 0; i < nnodes; i++ {
		n := &zzNode{w: w, idx: i}
		n.pub = []byte(fmt.Sprintf("\x02verif-c23-node-public-key-%06d", i)) // 33 bytes like a compressed key
		n.info.SetPublicKey(n.pub)
		n.info.SetNetworkEndpoints(fmt.Sprintf("/dns4/n%d/tcp/8080", i))
		w.nodes = append(w.nodes, n)
		w.byPub[string(n.pub)] = n
	}
	for _, n := range w.nodes {
		svc := New(&zzNet{w: w, n: n}, WithLogger(zap.NewNop()))
		loc := &zzLocal{n: n}
		svc.localObjects = loc
		svc.localStorage = loc
		conn := &zzConn{w: w, from: n}
		svc.clientCache = conn
		svc.conns = conn
		svc.keyStore = zzKeyStore{}
		n.svc = svc
	}
	if ecRule != nil {
		// Service.getECObjectHeaderByRule asserts the concrete engine wrapper for the local HEAD;
		// the entry node gets a real, empty engine there (its parts are still served by zzLocal
		// through the localObjects interface for every other call).
		w.nodes[0].svc.localStorage = &storageEngineWrapper{engine: engine.New()}
	}
	return w
}

// ---------------------------------------------------------------------------------------
// local storage of a node

type zzLocal struct {
	n *zzNode
}

// buffer-based variants are never reached: the harness passes no buffers
func (l *zzLocal) ReadECPart(context.Context, cid.ID, oid.ID, iec.PartInfo, blobcommon.PayloadRange, []byte, func([]byte) error) (int, io.ReadCloser, error) {
	panic("sim: unexpected ReadECPart")
}
func (l *zzLocal) ReadECPartRange(context.Context, cid.ID, oid.ID, iec.PartInfo, uint64, uint64, []byte, func([]byte) error) (io.ReadCloser, error) {
	panic("sim: unexpected ReadECPartRange")
}
func (l *zzLocal) ReadHeader(context.Context, oid.Address, bool, []byte) (int, error) {
	panic("sim: unexpected ReadHeader")
}
func (l *zzLocal) ReadECPartHeader(context.Context, cid.ID, oid.ID, iec.PartInfo, []byte) (int, error) {
	panic("sim: unexpected ReadECPartHeader")
}

type zzReader struct {
	data []byte
	err  error
}

func (x *zzReader) Read(p []byte) (int, error) {
	if len(x.data) > 0 {
		n := copy(p, x.data)
		x.data = x.data[n:]
		return n, nil
	}
	if x.err != nil {
		return 0, x.err
	}
	return 0, io.EOF
}

func (x *zzReader) Close() error { return nil }

func zzHdr(o *object.Object) *object.Object {
	h := o.CutPayload()
	h.SetPayloadSize(o.PayloadSize())
	return h
}

// resolve answers like the metabase: the physical object, or what the stored objects that
// reference id as their parent tell about it (split info / EC parts).
func (l *zzLocal) resolve(id oid.ID) (phys *object.Object, si *object.SplitInfo, ecParts []*object.Object) {
	if o := l.n.find(id); o != nil {
		if id == l.n.w.linkID {
			l.n.w.linkRead.Store(true)
		}
		return o, nil, nil
	}
	l.scan(func(o *object.Object, stored bool) {
		if o.GetParentID() != id {
			return
		}
		if pi, err := iec.GetPartInfo(*o); stored && err == nil && pi.RuleIndex >= 0 {
			ecParts = append(ecParts, o)
			return
		}
		if si == nil {
			si = object.NewSplitInfo()
		}
		isLink := o.Type() == object.TypeLink
		isV1 := o.SplitID() != nil
		isEmpty := o.PayloadSize() == 0
		if isV1 {
			si.SetSplitID(o.SplitID())
		}
		if first := o.GetFirstID(); !first.IsZero() {
			si.SetFirstPart(first)
		}
		if isLink || (isV1 && isEmpty) {
			si.SetLink(o.GetID())
		}
		if (isV1 && !isEmpty) || (!isV1 && !isLink) {
			si.SetLastPart(o.GetID())
		}
	})
	return nil, si, ecParts
}

// scan visits what the metabase knows: every stored object and, as header-only entries, the
// finished parent headers they carry (the metabase indexes those recursively).
func (l *zzLocal) scan(fn func(o *object.Object, stored bool)) {
	for _, o := range l.n.objs {
		fn(o, true)
		depth := 0
		for p := o.Parent(); p != nil && !p.GetID().IsZero() && depth < 2; p = p.Parent() {
			fn(p, false)
			depth++
		}
	}
}

func (l *zzLocal) head(id oid.ID, raw bool) (*object.Object, error) {
	phys, si, ecParts := l.resolve(id)
	switch {
	case phys != nil:
		return zzHdr(phys), nil
	case len(ecParts) > 0:
		return ecParts[0].Parent(), nil
	case si != nil:
		if raw {
			return nil, object.NewSplitInfoError(si)
		}
		for _, c := range []oid.ID{si.GetLastPart(), si.GetLink()} {
			if c.IsZero() {
				continue
			}
			if o := l.n.find(c); o != nil {
				return o.Parent(), nil
			}
		}
		return nil, object.NewSplitInfoError(si)
	}
	return nil, apistatus.ErrObjectNotFound
}

// get implements cfg.localStorage.
func (l *zzLocal) get(exec *execCtx) (*object.Object, io.ReadCloser, error) {
	id := exec.address().Object()
	if exec.headOnly() {
		h, err := l.head(id, exec.isRaw())
		return h, nil, err
	}
	phys, si, ecParts := l.resolve(id)
	switch {
	case phys != nil:
		pld := phys.Payload()
		if exec.hasPayloadRange() {
			off, ln, err := exec.payloadRange.Resolve(uint64(len(pld)))
			if err != nil {
				return nil, nil, err
			}
			return zzHdr(phys), &zzReader{data: pld[off : off+ln]}, nil
		}
		return zzHdr(phys), &zzReader{data: pld}, nil
	case si != nil:
		return nil, nil, object.NewSplitInfoError(si)
	case len(ecParts) > 0:
		ids := make([]oid.ID, len(ecParts))
		for i := range ecParts {
			ids[i] = ecParts[i].GetID()
		}
		return nil, nil, iec.ErrParts(ids)
	}
	return nil, nil, apistatus.ErrObjectNotFound
}

func (l *zzLocal) Head(_ context.Context, addr oid.Address, raw bool) (*object.Object, error) {
	return l.head(addr.Object(), raw)
}

func (l *zzLocal) findPart(parent oid.ID, pi iec.PartInfo) *object.Object {
	for _, o := range l.n.objs {
		if o.GetParentID() != parent {
			continue
		}
		got, err := iec.GetPartInfo(*o)
		if err == nil && got.RuleIndex == pi.RuleIndex && got.Index == pi.Index {
			return o
		}
	}
	return nil
}

// sizeSplit tells what the node knows about parent as a size-split object of an EC container:
// the stored link object, or the (header-only) last child learnt from the parts it stores.
func (l *zzLocal) sizeSplit(parent oid.ID) (link *object.Object, si *object.SplitInfo) {
	l.scan(func(o *object.Object, stored bool) {
		if o.GetParentID() != parent || link != nil {
			return
		}
		if pi, err := iec.GetPartInfo(*o); stored && err == nil && pi.RuleIndex >= 0 {
			return
		}
		if o.Type() == object.TypeLink {
			if stored {
				link = o
			}
			return
		}
		if !o.GetFirstID().IsZero() {
			if si == nil {
				si = new(object.SplitInfo)
			}
			si.SetLastPart(o.GetID())
		}
	})
	return link, si
}

func (l *zzLocal) GetECPart(_ context.Context, _ cid.ID, parent oid.ID, pi iec.PartInfo, _ bool) (object.Object, io.ReadCloser, error) {
	o := l.findPart(parent, pi)
	if o == nil {
		link, si := l.sizeSplit(parent)
		switch {
		case link != nil:
			// the shard answers with the link object itself
			l.n.w.linkRead.Store(true)
			return *zzHdr(link), &zzReader{data: link.Payload()}, nil
		case si != nil:
			return object.Object{}, nil, fmt.Errorf("resolve part ID in metabase: %w", object.NewSplitInfoError(si))
		}
		return object.Object{}, nil, apistatus.ErrObjectNotFound
	}
	return *zzHdr(o), &zzReader{data: o.Payload()}, nil
}

func (l *zzLocal) HeadECPart(_ context.Context, _ cid.ID, parent oid.ID, pi iec.PartInfo) (object.Object, error) {
	o := l.findPart(parent, pi)
	if o == nil {
		return object.Object{}, apistatus.ErrObjectNotFound
	}
	return *zzHdr(o), nil
}

func (l *zzLocal) GetECPartRange(_ context.Context, _ cid.ID, parent oid.ID, pi iec.PartInfo, rng blobcommon.PayloadRange, readHeader bool) (*object.Object, uint64, io.ReadCloser, error) {
	o := l.findPart(parent, pi)
	if o == nil {
		if link, si := l.sizeSplit(parent); link != nil || si != nil {
			if si == nil {
				si = new(object.SplitInfo)
			}
			if link != nil {
				si.SetLink(link.GetID())
			}
			return nil, 0, nil, fmt.Errorf("resolve part ID and payload len in metabase: %w", object.NewSplitInfoError(si))
		}
		return nil, 0, nil, apistatus.ErrObjectNotFound
	}
	pld := o.Payload()
	off, ln, err := rng.Resolve(uint64(len(pld)))
	if err != nil {
		return nil, 0, nil, err
	}
	if ln == 0 && !readHeader {
		return nil, 0, nil, nil
	}
	var hdr *object.Object
	if readHeader {
		hdr = zzHdr(o)
	}
	return hdr, uint64(len(pld)), &zzReader{data: pld[off : off+ln]}, nil
}

// ---------------------------------------------------------------------------------------
// network

var (
	errZZRefused = errors.New("sim: connection refused")
	errZZTimeout = errors.New("sim: stream timeout")
)

type zzConn struct {
	w    *zzWorld
	from *zzNode
}

type zzClient struct {
	w        *zzWorld
	from, to *zzNode
}

// reach models the transport towards a node: a down node refuses, a hanging node answers
// nothing until the caller's context ends (or the client's own 10 min stream timeout).
func (w *zzWorld) reach(ctx context.Context, to *zzNode) error {
	if to.hang {
		w.hitHang.Store(true)
		t := time.NewTimer(10 * time.Minute)
		defer t.Stop()
		select {
		case <-ctx.Done():
			return ctx.Err()
		case <-t.C:
			return errZZTimeout
		}
	}
	if to.down {
		w.hitDown.Store(true)
		return errZZRefused
	}
	if err := ctx.Err(); err != nil {
		return err
	}
	return nil
}

// zzWire maps an error of the remote handler to what the caller's client returns: context
// errors as they are, split info as split info, everything else through the object server's
// status conversion and the SDK's status decoding.
func zzWire(ctx context.Context, err error) error {
	if err == nil {
		return nil
	}
	if ce := ctx.Err(); ce != nil && errors.Is(err, ce) {
		return ce
	}
	var si *object.SplitInfoError
	if errors.As(err, &si) {
		return object.NewSplitInfoError(si.SplitInfo())
	}
	return apistatus.ToError(svcutil.ToStatus(err))
}

func zzCommon(ttl uint32, xs []string) *objutil.CommonPrm {
	var mxs []*protosession.XHeader
	for i := 0; i+1 < len(xs); i += 2 {
		mxs = append(mxs, &protosession.XHeader{Key: xs[i], Value: xs[i+1]})
	}
	return objutil.CommonPrmFromRequest(ttl, mxs, objcommon.RequestTokens{})
}

// zzCollector is the response stream of one request.
type zzCollector struct {
	hdr       *object.Object
	hdrs      int
	validated *object.Object
	data      []byte
	chunks    int
}

func (c *zzCollector) WriteHeader(h *object.Object) error {
	c.hdrs++
	c.hdr = h
	return nil
}

func (c *zzCollector) ValidateHeader(h *object.Object) error {
	c.validated = h
	return nil
}

func (c *zzCollector) WriteChunk(p []byte) error {
	c.chunks++
	c.data = append(c.data, p...)
	return nil
}

func (c *zzConn) get(_ context.Context, info netmap.NodeInfo) (getClient, error) {
	to := c.w.byPub[string(info.PublicKey())]
	if to == nil {
		return nil, errors.New("sim: unknown node")
	}
	return &zzClient{w: c.w, from: c.from, to: to}, nil
}

func zzTTL(exec *execCtx) uint32 {
	if t := exec.prm.common.TTL(); t >= 2 {
		return t
	}
	return 1
}

func (c *zzClient) remoteHead(ctx context.Context, exec *execCtx) (*object.Object, error) {
	var hp HeadPrm
	hp.SetCommonParameters(zzCommon(zzTTL(exec), exec.prm.common.XHeaders()))
	hp.WithAddress(exec.address())
	hp.WithContainer(c.w.cnr)
	hp.WithRawFlag(exec.isRaw())
	col := new(zzCollector)
	hp.SetHeaderWriter(col)
	if err := c.to.svc.Head(ctx, hp); err != nil {
		return nil, fmt.Errorf("read object header from NeoFS: %w", zzWire(ctx, err))
	}
	if col.hdr == nil {
		return nil, errors.New("sim: empty HEAD response")
	}
	return col.hdr, nil
}

// getObject implements getClient: what clientWrapper.getObject does over the SDK client,
// done here by calling the remote node's Service.
func (c *zzClient) getObject(exec *execCtx) (*object.Object, io.ReadCloser, error) {
	ctx := exec.context()
	// request proxying of the top-level request (what the object server installs): the
	// callbacks are the harness's model of pkg/services/object {get,range}.go continueWithConn
	if exec.headTransportFn != nil {
		c.w.proxyTo = c.to
		respBuf, hdr, err := exec.headTransportFn(ctx, nil)
		if err == nil {
			exec.submitHeadResponseFn(respBuf, hdr)
		}
		return nil, nil, err
	}
	if exec.getTransportFn != nil {
		c.w.proxyTo = c.to
		return nil, nil, exec.getTransportFn(ctx, nil)
	}
	if exec.rangeTransportFn != nil {
		c.w.proxyTo = c.to
		return nil, nil, exec.rangeTransportFn(ctx, nil)
	}
	if err := c.w.reach(ctx, c.to); err != nil {
		return nil, nil, err
	}
	c.w.remoteGet.Add(1)
	if exec.headOnly() {
		h, err := c.remoteHead(ctx, exec)
		return h, nil, err
	}
	if exec.hasPayloadRange() && exec.legacyRange {
		var rp RangePrm
		rp.SetCommonParameters(zzCommon(zzTTL(exec), exec.prm.common.XHeaders()))
		rp.WithAddress(exec.address())
		rp.WithContainer(c.w.cnr)
		rp.WithRawFlag(exec.isRaw())
		rp.SetRange(exec.ctxRange())
		col := new(zzCollector)
		rp.SetChunkWriter(col)
		rerr := c.to.svc.GetRange(ctx, rp)
		h, err := c.remoteHead(ctx, exec)
		if err != nil {
			return nil, nil, err
		}
		return h, &zzReader{data: col.data, err: zzWire(ctx, rerr)}, nil
	}
	var p Prm
	p.SetCommonParameters(zzCommon(zzTTL(exec), exec.prm.common.XHeaders()))
	p.WithAddress(exec.address())
	p.WithContainer(c.w.cnr)
	p.WithRawFlag(exec.isRaw())
	p.payloadRange = exec.payloadRange
	if exec.payloadOnly && !exec.hasPayloadRange() && !exec.recheckEACL {
		p.MarkPayloadOnly()
	}
	col := new(zzCollector)
	p.SetObjectWriter(col)
	err := c.to.svc.Get(ctx, p)
	if err != nil && col.hdrs == 0 && len(col.data) == 0 {
		wrap := "init object reader"
		if exec.hasPayloadRange() {
			wrap = "init payload reading"
		}
		return nil, nil, fmt.Errorf("%s: %w", wrap, zzWire(ctx, err))
	}
	hdr := new(object.Object)
	if col.hdr != nil {
		hdr = col.hdr
	}
	return hdr, &zzReader{data: col.data, err: zzWire(ctx, err)}, nil
}

// InitGetObjectStream implements cfg.conns (EC part requests).
func (c *zzConn) InitGetObjectStream(ctx context.Context, node netmap.NodeInfo, _ ecdsa.PrivateKey, cnr cid.ID, id oid.ID,
	local, _ bool, rng *object.Range, xs []string) (object.Object, io.ReadCloser, error) {
	to := c.w.byPub[string(node.PublicKey())]
	if to == nil {
		return object.Object{}, nil, errors.New("sim: unknown node")
	}
	if err := c.w.reach(ctx, to); err != nil {
		return object.Object{}, nil, err
	}
	c.w.remoteGet.Add(1)
	ttl := uint32(2)
	if local {
		ttl = 1
	}
	var p Prm
	p.SetCommonParameters(zzCommon(ttl, xs))
	p.WithAddress(oid.NewAddress(cnr, id))
	p.WithContainer(c.w.cnr)
	col := new(zzCollector)
	p.SetObjectWriter(col)
	if rng != nil {
		p.SetRange(rng)
		p.MarkPayloadOnly()
	}
	err := to.svc.Get(ctx, p)
	if err != nil && col.hdrs == 0 && len(col.data) == 0 {
		return object.Object{}, nil, zzWire(ctx, err)
	}
	rd := &zzReader{data: col.data, err: zzWire(ctx, err)}
	if rng != nil {
		// the real wrapper reads the first byte to surface an early failure
		if len(rd.data) == 0 {
			if rd.err != nil {
				return object.Object{}, nil, rd.err
			}
			return object.Object{}, nil, io.EOF
		}
		return object.Object{}, rd, nil
	}
	var hdr object.Object
	if col.hdr != nil {
		hdr = *col.hdr
	}
	return hdr, rd, nil
}

// Head implements cfg.conns.
func (c *zzConn) Head(ctx context.Context, node netmap.NodeInfo, _ ecdsa.PrivateKey, cnr cid.ID, id oid.ID) (object.Object, error) {
	to := c.w.byPub[string(node.PublicKey())]
	if to == nil {
		return object.Object{}, errors.New("sim: unknown node")
	}
	if err := c.w.reach(ctx, to); err != nil {
		return object.Object{}, err
	}
	c.w.remoteGet.Add(1)
	var hp HeadPrm
	hp.SetCommonParameters(zzCommon(1, nil))
	hp.WithAddress(oid.NewAddress(cnr, id))
	hp.WithContainer(c.w.cnr)
	col := new(zzCollector)
	hp.SetHeaderWriter(col)
	if err := to.svc.Head(ctx, hp); err != nil {
		return object.Object{}, fmt.Errorf("call HEAD API: %w", zzWire(ctx, err))
	}
	if col.hdr == nil {
		return object.Object{}, errors.New("sim: empty HEAD response")
	}
	return *col.hdr, nil
}

// ---------------------------------------------------------------------------------------
// object builders (real formats)

func zzSigner() user.Signer { return user.NewAutoIDSignerRFC6979(*zzKey()) }

func (w *zzWorld) stub() object.Object {
	var o object.Object
	ver := version.Current()
	o.SetVersion(&ver)
	o.SetContainerID(w.cnrID)
	o.SetOwner(w.owner)
	o.SetCreationEpoch(10)
	o.SetType(object.TypeRegular)
	return o
}

func (w *zzWorld) userHeader() object.Object {
	o := w.stub()
	o.SetAttributes(object.NewAttribute("FileName", "c23.bin"), object.NewAttribute("Content-Type", "application/octet-stream"))
	return o
}

// zzLayout is one stored logical object: its parent header, the physical objects that carry
// it and what the oracle needs to know about them.
type zzLayout struct {
	kind     string // "whole" | "v1" | "v2" | "ec"
	payload  []byte
	parentID oid.ID
	parent   *object.Object   // parent header (no payload)
	children []*object.Object // split: payload-carrying children in order; whole: the object; ec: parts by index
	link     *object.Object   // split only
	bounds   []uint64         // interior boundaries of the payload (child / EC data part starts)
	// "ecsplit" (size-split object of an EC container): children are the logical children (never
	// stored), parts[j] the stored EC parts of child j, link the stored link object
	parts [][]*object.Object
}

// zzBuildECSplit forms a size-split object of an EC container: the v2 chain, every child
// encoded into EC parts that carry the child's header as their parent, the link stored as is.
func zzBuildECSplit(w *zzWorld, payload []byte, limit uint64, rule iec.Rule) *zzLayout {
	l := zzBuildV2(w, payload, limit)
	if l.kind != "v2" {
		return zzBuildEC(w, payload, rule)
	}
	l.kind = "ecsplit"
	for _, c := range l.children {
		enc, _, err := iec.Encode(rule, c.Payload())
		if err != nil {
			w.r.Failf("infra", "build", "EC encode: %v", err)
		}
		var ps []*object.Object
		for i := range enc {
			po, err := iec.FormObjectForECPart(zzSigner(), *zzHdr(c), enc[i], iec.PartInfo{RuleIndex: 0, Index: i})
			if err != nil {
				w.r.Failf("infra", "build", "EC part: %v", err)
			}
			ps = append(ps, &po)
		}
		l.parts = append(l.parts, ps)
	}
	return l
}

func zzBuildWhole(w *zzWorld, payload []byte) *zzLayout {
	o := w.userHeader()
	o.SetPayload(payload)
	o.SetPayloadSize(uint64(len(payload)))
	if err := o.SetVerificationFields(zzSigner()); err != nil {
		w.r.Failf("infra", "build", "form object: %v", err)
	}
	return &zzLayout{kind: "whole", payload: payload, parentID: o.GetID(), parent: zzHdr(&o), children: []*object.Object{&o}}
}

type zzSliceSink struct {
	objs []*object.Object
}

type zzSliceStream struct {
	sink *zzSliceSink
	hdr  object.Object
	buf  bytes.Buffer
}

func (s *zzSliceSink) ObjectPutInit(_ context.Context, hdr object.Object, _ user.Signer, _ client.PrmObjectPutInit) (client.ObjectWriter, error) {
	return &zzSliceStream{sink: s, hdr: hdr}, nil
}

func (s *zzSliceStream) Write(p []byte) (int, error)          { return s.buf.Write(p) }
func (s *zzSliceStream) ReadFrom(r io.Reader) (int64, error)  { return s.buf.ReadFrom(r) }
func (s *zzSliceStream) GetResult() client.ResObjectPut       { return client.ResObjectPut{} }
func (s *zzSliceStream) Close() error {
	o := s.hdr
	o.SetPayload(append([]byte(nil), s.buf.Bytes()...))
	s.sink.objs = append(s.sink.objs, &o)
	return nil
}

// zzBuildV2 forms the v2 chain (first-ID chain + link object with sizes).  The SDK slicer
// refuses chains whose link object is bigger than the child limit, so chains of tiny children
// are formed by zzBuildV2Hand, which repeats the slicer's steps; whenever the slicer accepts
// the input both are built and must agree object by object.
func zzBuildV2(w *zzWorld, payload []byte, limit uint64) *zzLayout {
	hand := zzBuildV2Hand(w, payload, limit)
	if hand.kind != "v2" || uint64(len(hand.link.Payload())) > limit {
		return hand
	}
	sl := zzBuildV2Slicer(w, payload, limit)
	if sl.kind != "v2" || len(sl.children) != len(hand.children) || sl.parentID != hand.parentID || sl.link.GetID() != hand.link.GetID() {
		w.r.Failf("infra", "build", "hand-made v2 chain differs from the slicer's (parent or link)")
	}
	for i := range sl.children {
		if sl.children[i].GetID() != hand.children[i].GetID() {
			w.r.Failf("infra", "build", "hand-made v2 chain differs from the slicer's at child %d", i)
		}
	}
	return sl
}

func zzBuildV2Hand(w *zzWorld, payload []byte, limit uint64) *zzLayout {
	if uint64(len(payload)) <= limit {
		return zzBuildWhole(w, payload)
	}
	signer := zzSigner()
	parent := w.userHeader()
	unfinished := parent
	parent.SetPayloadSize(uint64(len(payload)))
	parent.SetPayloadChecksum(object.CalculatePayloadChecksum(payload))
	if err := parent.CalculateAndSetID(); err != nil {
		w.r.Failf("infra", "build", "parent id: %v", err)
	}
	if err := parent.Sign(signer); err != nil {
		w.r.Failf("infra", "build", "parent signature: %v", err)
	}
	l := &zzLayout{kind: "v2", payload: payload, parentID: parent.GetID(), parent: &parent}
	var measured []object.MeasuredObject
	var last object.Object
	for off := uint64(0); off < uint64(len(payload)); off += limit {
		end := min(off+limit, uint64(len(payload)))
		c := w.stub()
		if len(measured) == 0 {
			c.SetParent(&unfinished)
		} else {
			c.SetFirstID(measured[0].ObjectID())
			c.SetPreviousID(measured[len(measured)-1].ObjectID())
		}
		if end == uint64(len(payload)) {
			c.SetParentID(parent.GetID())
			c.SetParent(&parent)
			last = c
		}
		c.SetPayload(payload[off:end])
		c.SetPayloadSize(end - off)
		if err := c.SetVerificationFields(signer); err != nil {
			w.r.Failf("infra", "build", "child: %v", err)
		}
		var m object.MeasuredObject
		m.SetObjectID(c.GetID())
		m.SetObjectSize(uint32(end - off))
		measured = append(measured, m)
		l.children = append(l.children, &c)
	}
	lk := last
	lk.SetType(object.TypeLink)
	lk.ResetPreviousID()
	var lnk object.Link
	lnk.SetObjects(measured)
	lk.SetPayload(lnk.Marshal())
	lk.SetPayloadSize(uint64(len(lk.Payload())))
	if err := lk.SetVerificationFields(signer); err != nil {
		w.r.Failf("infra", "build", "link: %v", err)
	}
	l.link = &lk
	return l
}

func zzBuildV2Slicer(w *zzWorld, payload []byte, limit uint64) *zzLayout {
	var opts slicer.Options
	opts.SetObjectPayloadLimit(limit)
	opts.SetCurrentNeoFSEpoch(10)
	sink := new(zzSliceSink)
	pid, err := slicer.Put(context.Background(), sink, w.userHeader(), zzSigner(), bytes.NewReader(payload), opts)
	if err != nil {
		w.r.Failf("infra", "build", "slicer: %v", err)
	}
	if len(sink.objs) == 1 {
		o := sink.objs[0]
		return &zzLayout{kind: "whole", payload: payload, parentID: pid, parent: zzHdr(o), children: sink.objs}
	}
	l := &zzLayout{kind: "v2", payload: payload, parentID: pid}
	l.link = sink.objs[len(sink.objs)-1]
	l.children = sink.objs[:len(sink.objs)-1]
	if l.link.Type() != object.TypeLink {
		w.r.Failf("infra", "build", "slicer: last written object is not a link")
	}
	l.parent = l.link.Parent()
	return l
}

// zzBuildV1 forms the legacy chain: common split ID, previous-ID links, the last part and the
// (payload-less) link object carry the finished parent header, the link lists the children.
func zzBuildV1(w *zzWorld, payload []byte, limit uint64, splitSeed []byte, firstCarriesParent bool) *zzLayout {
	if uint64(len(payload)) <= limit {
		return zzBuildWhole(w, payload)
	}
	signer := zzSigner()
	parent := w.userHeader()
	parent.SetPayloadSize(uint64(len(payload)))
	parent.SetPayloadChecksum(object.CalculatePayloadChecksum(payload))
	unfinished := parent
	if err := parent.CalculateAndSetID(); err != nil {
		w.r.Failf("infra", "build", "parent id: %v", err)
	}
	if err := parent.Sign(signer); err != nil {
		w.r.Failf("infra", "build", "parent signature: %v", err)
	}
	splitID := object.NewSplitIDFromV2(splitSeed)
	l := &zzLayout{kind: "v1", payload: payload, parentID: parent.GetID(), parent: &parent}
	var ids []oid.ID
	for off := uint64(0); off < uint64(len(payload)); off += limit {
		end := min(off+limit, uint64(len(payload)))
		c := w.stub()
		c.SetSplitID(splitID)
		if len(ids) > 0 {
			c.SetPreviousID(ids[len(ids)-1])
		} else if firstCarriesParent {
			c.SetParent(&unfinished)
		}
		if end == uint64(len(payload)) {
			c.SetParent(&parent)
			c.SetParentID(parent.GetID())
		}
		c.SetPayload(payload[off:end])
		c.SetPayloadSize(end - off)
		if err := c.SetVerificationFields(signer); err != nil {
			w.r.Failf("infra", "build", "child: %v", err)
		}
		ids = append(ids, c.GetID())
		l.children = append(l.children, &c)
	}
	lk := w.stub()
	lk.SetSplitID(splitID)
	lk.SetParent(&parent)
	lk.SetParentID(parent.GetID())
	lk.SetChildren(ids...)
	if err := lk.SetVerificationFields(signer); err != nil {
		w.r.Failf("infra", "build", "link: %v", err)
	}
	l.link = &lk
	return l
}

// zzBuildEC encodes the payload with the repository's EC encoder and forms the part objects
// the way the put service does.
func zzBuildEC(w *zzWorld, payload []byte, rule iec.Rule) *zzLayout {
	whole := zzBuildWhole(w, payload)
	parentHdr := *whole.parent
	parts, _, err := iec.Encode(rule, payload)
	if err != nil {
		w.r.Failf("infra", "build", "EC encode: %v", err)
	}
	l := &zzLayout{kind: "ec", payload: payload, parentID: whole.parentID, parent: whole.parent}
	for i := range parts {
		po, err := iec.FormObjectForECPart(zzSigner(), parentHdr, parts[i], iec.PartInfo{RuleIndex: 0, Index: i})
		if err != nil {
			w.r.Failf("infra", "build", "EC part: %v", err)
		}
		l.children = append(l.children, &po)
	}
	return l
}

func (l *zzLayout) computeBounds(rule *iec.Rule) {
	l.bounds = nil
	switch l.kind {
	case "v1", "v2":
		var off uint64
		for _, c := range l.children[:len(l.children)-1] {
			off += c.PayloadSize()
			l.bounds = append(l.bounds, off)
		}
	case "ecsplit":
		var off uint64
		for j, c := range l.children {
			if pl := uint64(len(l.parts[j][0].Payload())); pl > 0 {
				for i := 1; i < int(rule.DataPartNum); i++ {
					if b := pl * uint64(i); b < c.PayloadSize() {
						l.bounds = append(l.bounds, off+b)
					}
				}
			}
			off += c.PayloadSize()
			if j < len(l.children)-1 {
				l.bounds = append(l.bounds, off)
			}
		}
	case "ec":
		if len(l.payload) == 0 {
			return
		}
		pl := uint64(len(l.children[0].Payload()))
		for i := 1; i < int(rule.DataPartNum); i++ {
			if b := pl * uint64(i); b < uint64(len(l.payload)) {
				l.bounds = append(l.bounds, b)
			}
		}
	}
}
