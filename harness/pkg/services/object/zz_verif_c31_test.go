//go:build verif

package object

// C31 "Replication requests are accepted only from container nodes for container nodes".

import (
	"context"
	"errors"
	"fmt"
	"strconv"

	apistatus "github.com/nspcc-dev/neofs-sdk-go/client/status"
	"github.com/nspcc-dev/neofs-sdk-go/container/acl"
	cid "github.com/nspcc-dev/neofs-sdk-go/container/id"
	neofscrypto "github.com/nspcc-dev/neofs-sdk-go/crypto"
	oid"github.com/nspcc-dev/neofs-sdk-go/object/id"
	protoobject "github.com/nspcc-dev/neofs-sdk-go/proto/object"
	"github.com/nspcc-dev/neofs-sdk-go/proto/refs"
	"google.golang.org/protobuf/proto"

	"verif/simkit"
)

func propC31() *simkit.Property {
	return &simkit.Property{
		ID: "C31", Level: "exploration", Bubble: false, TapeLimit: 1500, PanicIsInfra: true,
		Rule: "each run = a network map evolving over ~16 epochs (5 nodes joining/leaving two containers and the map) and a history of 8-15 Replicate requests sent at " +
			"tape-chosen epochs by a current member / previous-epoch-only member / member two epochs ago / stranger / unknown key, with a valid or defective request signature, " +
			"a valid or defective object, for a known or unknown container, with or without a requested metadata signature, plus injected chain-read and storage failures and replays; " +
			"distinct = trace digest; non-trivial = at least one request was accepted and one refused for a membership reason in the same run",
		Run: runC31,
		Assumptions: []string{
			"container membership of an epoch = the nodes of that epoch's network map selected by the container's placement policy (SDK policy evaluation is trusted)",
			"object validity is decided by the put service's real format validation; the harness knows which defect it planted",
			"a chain read that fails gives no evidence of membership",
		},
		Components: map[string]string{
			"object.Server.Replicate":                                            "real",
			"placement.Service (current / previous epoch container nodes, LRU)":  "real",
			"putsvc.Service.ValidateAndStoreObjectLocally + FormatValidator":      "real",
			"local object storage":                                               "stub: recording",
			"FS chain (epochs, network maps, containers)":                        "simulated, read failures injected",
			"metadata service (Height/Magic for the metadata signature)":         "real instance over a constant fake chain",
		},
	}
}

const (
	c31SigValid = iota
	c31SigClaimMember // public key of another (member) node, signature made by the sender
	c31SigCorrupt
	c31SigOtherData // correct key, signature of different bytes
	c31SigScheme    // unsupported scheme
	c31SigEmpty
	c31SigNoKey
	c31SigMissing
	c31SigCount
)

var c31SigNames = [...]string{"valid", "claims-other-key", "corrupt", "signs-other-data", "bad-scheme", "empty-sig", "no-key", "missing"}

const (
	c31ObjValid = iota
	c31ObjIDMismatch
	c31ObjChecksum
	c31ObjSignature
	c31ObjSize
	c31ObjExpired
	c31ObjForeignSig // signed by a key that is not the owner's
	c31ObjCount
)

var c31ObjNames = [...]string{"valid", "id-mismatch", "bad-checksum", "bad-signature", "size-mismatch", "expired", "foreign-signature"}

func b2i(b bool) int {
	if b {
		return 1
	}
	return 0
}

func runC31(r *simkit.R) {
	w := newObjWorld(r, worldCfg{epoch: uint64(10 + r.Intn(4)), withEngine: false})
	e0 := w.epoch()
	const nCnr = 2
	const span = 16
	// membership evolution (zero draws: everybody is a member all the time)
	online := make([]bool, nodeCount)
	member := map[int][]bool{}
	for n := range online {
		online[n] = !r.Bool(15 / (1 + 2*b2i(n == 0)))
	}
	for c := 0; c < nCnr; c++ {
		member[c] = make([]bool, nodeCount)
		for n := range member[c] {
			member[c][n] = !r.Bool(45)
		}
		member[c][0] = !r.Bool(20) // the receiver is more often inside: otherwise "receiver outside" masks everything else
	}
	churn := 10 + 10*r.Intn(4)
	for e := e0 - 3; e <= e0+span; e++ {
		if e > e0-3 {
			for n := range online {
				if r.Bool(8 / (1 + 3*b2i(n == 0))) {
					online[n] = !online[n]
				}
			}
			for c := 0; c < nCnr; c++ {
				for n := range member[c] {
					if r.Bool(churn / (1 + 2*b2i(n == 0))) {
						member[c][n] = !member[c][n]
					}
				}
			}
		}
		cp := map[int][]bool{}
		for c := range member {
			cp[c] = append([]bool(nil), member[c]...)
		}
		w.chain.setEpochMembership(e, append([]bool(nil), online...), cp)
	}
	for c := 0; c < nCnr; c++ {
		w.addContainer(c, acl.PublicRWExtended)
	}
	unknownCnr := cid.ID(idFromSeed(w.seed, "unknown-cnr", 0))
	info := w.rpc("Replicate")
	r.Logf("epoch=%d churn=%d%%", e0, churn)

	memberStr := func(e uint64, c int) string {
		s := ""
		for n := 0; n < nodeCount; n++ {
			if w.chain.isMember(e, c, n) {
				s += strconv.Itoa(n)
			} else {
				s += "."
			}
		}
		return s
	}

	var last *protoobject.ReplicateRequest
	var lastSigner, lastCnr int
	accepted, refusedMembership := 0, 0
	steps := 8 + r.Intn(8)
	for step := 0; step < steps && !r.Violated(); step++ {
		r.Step()
		if d := r.Weighted(5, 3, 1); d > 0 && w.epoch()+uint64(d) <= e0+span {
			w.setEpoch(w.epoch() + uint64(d))
		}
		cur := w.epoch()

		var req *protoobject.ReplicateRequest
		var signerIdx, ci int
		sigV, objV := c31SigValid, c31ObjValid
		replay := last != nil && r.Bool(12)
		cnrKnown := true
		var cnrID cid.ID
		if replay {
			req, signerIdx, ci = last, lastSigner, lastCnr
			cnrID = w.cnrIDs[ci]
		} else {
			ci = r.Intn(nCnr)
			cnrID = w.cnrIDs[ci]
			if r.Bool(7) {
				cnrKnown = false
				cnrID = unknownCnr
			}
			// sender category
			pick := func(pred func(n int) bool) int {
				var cand []int
				for n := 1; n < nodeCount; n++ {
					if pred(n) {
						cand = append(cand, n)
					}
				}
				if len(cand) == 0 {
					return 1 + r.Intn(nodeCount-1)
				}
				return cand[r.Intn(len(cand))]
			}
			switch r.Weighted(4, 3, 3, 2, 1, 1) {
			case 0: // any node
				signerIdx = 1 + r.Intn(nodeCount-1)
			case 1: // current member
				signerIdx = pick(func(n int) bool { return w.chain.isMember(cur, ci, n) })
			case 2: // member in the previous epoch only
				signerIdx = pick(func(n int) bool { return !w.chain.isMember(cur, ci, n) && w.chain.isMember(cur-1, ci, n) })
			case 3: // member two epochs ago only
				signerIdx = pick(func(n int) bool {
					return !w.chain.isMember(cur, ci, n) && !w.chain.isMember(cur-1, ci, n) && w.chain.isMember(cur-2, ci, n)
				})
			case 4: // a key unknown to the network
				signerIdx = -1
			case 5: // the server's own key
				signerIdx = 0
			}
			if r.Bool(20) {
				sigV = 1 + r.Intn(c31SigCount-1)
			}
			if r.Bool(20) {
				objV = 1 + r.Intn(c31ObjCount-1)
			}
			signer := w.alien
			if signerIdx >= 0 {
				signer = w.nodes[signerIdx]
			}
			// the object
			attrs := [][2]string{{"Step", strconv.Itoa(step)}}
			if objV == c31ObjExpired {
				attrs = append(attrs, [2]string{"__NEOFS__EXPIRATION_EPOCH", strconv.FormatUint(cur-1, 10)})
			} else if r.Bool(20) {
				attrs = append(attrs, [2]string{"__NEOFS__EXPIRATION_EPOCH", strconv.FormatUint(cur+uint64(r.Intn(3)), 10)})
			}
			pl := []byte(fmt.Sprintf("replica-%d-%08x", step, w.seed))
			objSigner := w.owner.signer(0)
			if objV == c31ObjForeignSig {
				objSigner = keyWithID(w.alien, w.owner)
			}
			o := w.newObjectIn(cnrID, w.owner.id, objSigner, pl, attrs...)
			switch objV {
			case c31ObjIDMismatch:
				o.SetID(oid.ID(idFromSeed(w.seed, "wrong-id", step)))
			case c31ObjChecksum:
				bad := append([]byte(nil), pl...)
				bad[0] ^= 1
				o.SetPayload(bad)
			case c31ObjSignature:
				sg := o.Signature()
				v := append([]byte(nil), sg.Value()...)
				v[step%len(v)] ^= 4
				ns := neofscrypto.NewSignatureFromRawKey(sg.Scheme(), sg.PublicKeyBytes(), v)
				o.SetSignature(&ns)
			case c31ObjSize:
				o.SetPayload(append(append([]byte(nil), pl...), 'x'))
			}
			req = replicateRequest(o, signer, r.Intn(3))
			req.SignObject = r.Bool(30)
			switch sigV {
			case c31SigClaimMember:
				other := w.nodes[pick(func(n int) bool { return n != signerIdx && w.chain.isMember(cur, ci, n) })]
				if other == signer {
					other = w.nodes[0]
				}
				req.Signature.Key = other.pub
			case c31SigCorrupt:
				req.Signature.Sign = append([]byte(nil), req.Signature.Sign...)
				req.Signature.Sign[step%len(req.Signature.Sign)] ^= 2
			case c31SigOtherData:
				s := neofscrypto.Signer(signer.signer(0))
				x := idFromSeed(w.seed, "other-data", step)
				sg, err := s.Sign(x[:])
				if err != nil {
					panic(err)
				}
				req.Signature.Sign, req.Signature.Scheme = sg, refs.SignatureScheme(s.Scheme())
			case c31SigScheme:
				req.Signature.Scheme = refs.SignatureScheme(3 + r.Intn(3)) // N3 and beyond
			case c31SigEmpty:
				req.Signature.Sign = nil
			case c31SigNoKey:
				req.Signature.Key = nil
			case c31SigMissing:
				req.Signature = nil
			}
		}

		// injected failures for this request
		fault := ""
		switch r.Weighted(16, 1, 1, 1, 1) {
		case 1:
			fault = "netmap-read-prev"
			w.chain.mu.Lock()
			w.chain.netmapFail[cur-1] = true
			w.chain.mu.Unlock()
		case 2:
			fault = "netmap-read-cur"
			w.chain.mu.Lock()
			w.chain.netmapFail[cur] = true
			w.chain.mu.Unlock()
		case 3:
			fault = "container-read"
			w.chain.mu.Lock()
			w.chain.cnrFail[cnrID] = true
			w.chain.mu.Unlock()
		case 4:
			fault = "storage"
			if r.Bool(50) {
				w.storage.storeEr = apistatus.ErrBusy
			} else {
				w.storage.storeEr = errors.New("simulated disk failure")
			}
		}

		// ---- the model -----------------------------------------------------------------------
		inCur := signerIdx >= 0 && cnrKnown && w.chain.isMember(cur, ci, signerIdx)
		inPrev := signerIdx >= 0 && cnrKnown && w.chain.isMember(cur-1, ci, signerIdx)
		recvIn := cnrKnown && w.chain.isMember(cur, ci, 0)
		allowed := sigV == c31SigValid && objV == c31ObjValid && cnrKnown && recvIn && (inCur || inPrev)
		why := "allowed"
		switch {
		case sigV != c31SigValid:
			why = "request-signature"
		case !cnrKnown:
			why = "unknown-container"
		case !recvIn:
			why = "receiver-outside"
		case !(inCur || inPrev):
			why = "sender-outside"
		case objV != c31ObjValid:
			why = "invalid-object"
		}
		if replay {
			// the planted defects of the original are unknown here: only membership is re-judged
			allowed = false
			why = "replay"
		}
		signerName := "unknown-key"
		if signerIdx >= 0 {
			signerName = fmt.Sprintf("node%d", signerIdx)
		}
		cm, pm, p2 := "-----", "-----", "-----"
		if cnrKnown {
			cm, pm, p2 = memberStr(cur, ci), memberStr(cur-1, ci), memberStr(cur-2, ci)
		}
		r.Op("Replicate epoch=%d cnr%d known=%v members cur=%s prev=%s prev2=%s sender=%s sig=%s obj=%s signobj=%v fault=%s replay=%v expect=%s",
			cur, ci, cnrKnown, cm, pm, p2, signerName, c31SigNames[sigV], c31ObjNames[objV], req.GetSignObject(), fault, replay, why)

		mark := w.rec.mark()
		out := callRPC(context.Background(), info, proto.Clone(req).(*protoobject.ReplicateRequest))
		effs := w.rec.since(mark)
		stored := 0
		for _, k := range effs {
			if k == effPutLocal {
				stored++
			}
		}
		resp := out.resp.(*protoobject.ReplicateResponse)
		r.Logf("  -> %s %s stored=%d effects: %s", out, codeName(out.code), stored, compact(effs))

		// undo the injected failures
		w.chain.mu.Lock()
		delete(w.chain.netmapFail, cur-1)
		delete(w.chain.netmapFail, cur)
		delete(w.chain.cnrFail, cnrID)
		w.chain.mu.Unlock()
		w.storage.storeEr = nil
		if fault != "" {
			r.Fired(fault)
		}

		sig := why
		if fault != "" {
			sig += "+" + fault
		}
		if replay {
			// a replay is judged by the membership of the moment only when the original was fully valid
			if stored > 0 != !out.failed() {
				r.Failf("status-store-mismatch", sig, "replayed request: status %s but stored=%d", out, stored)
			}
			memberNow := lastSigner >= 0 && (w.chain.isMember(cur, ci, lastSigner) || w.chain.isMember(cur-1, ci, lastSigner)) && w.chain.isMember(cur, ci, 0)
			if !memberNow && stored > 0 {
				r.Failf("stored-forbidden-replica", "replay/membership", "a replayed request was accepted although the sender/receiver membership no longer holds (epoch %d)", cur)
			}
			r.Probe("replay")
			continue
		}
		if !allowed {
			r.Fired("refuse:" + why)
			if stored > 0 {
				r.Failf("stored-forbidden-replica", sig, "object was stored although the request must be refused (%s): sender=%s cur=%s prev=%s receiver-in=%v sig=%s obj=%s",
					why, signerName, cm, pm, recvIn, c31SigNames[sigV], c31ObjNames[objV])
			}
			if !out.failed() {
				r.Failf("ok-status-for-refused-replica", sig, "request that must be refused (%s) got status OK", why)
			}
			if why == "sender-outside" || why == "receiver-outside" {
				refusedMembership++
				if why == "sender-outside" && signerIdx > 0 && w.chain.isMember(cur-2, ci, signerIdx) {
					r.Probe("sender-member-two-epochs-ago-only")
				}
			}
			if why != "invalid-object" {
				for _, k := range effs {
					if k == effStoreAttempt {
						r.Probe("storage-consulted-for-request-refused-earlier") // not forbidden by the statement; measured
					}
				}
			}
			continue
		}
		if stored > 0 != !out.failed() {
			r.Failf("status-store-mismatch", sig, "status %s but stored=%d", out, stored)
		}
		if fault == "" {
			if stored == 0 {
				r.Failf("refused-valid-replica", sig, "fully valid replication request was refused: %s %q (sender=%s cur=%s prev=%s)", out, out.msg, signerName, cm, pm)
			}
		} else if fault == "storage" && stored > 0 {
			r.Failf("stored-despite-storage-failure", sig, "storage failure injected but an object was stored")
		}
		if stored > 0 {
			accepted++
			r.Probe("accepted")
			if !inCur {
				r.Probe("accepted-from-previous-epoch-member")
			}
			if req.GetSignObject() {
				if len(resp.GetObjectSignature()) == 0 {
					r.Failf("missing-metadata-signature", sig, "metadata signature requested and the object was stored, but the response carries none")
				}
				r.Probe("metadata-signature-returned")
			} else if len(resp.GetObjectSignature()) != 0 {
				r.Failf("unrequested-metadata-signature", sig, "metadata signature returned although not requested")
			}
			last, lastSigner, lastCnr = req, signerIdx, ci
		}
	}
	if accepted > 0 && refusedMembership > 0 {
		r.Nontrivial()
	}
}
