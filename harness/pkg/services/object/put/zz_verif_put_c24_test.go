package putsvc

// C24: nodes store only self-consistent, authenticated objects.
//
// A simulated client streams objects through the real PUT pipeline (Service.Put ->
// Init/SendChunk/Close; sealed objects and blank objects the node slices / EC-encodes and
// signs itself) and through the replication entry of this package
// (Service.ValidateAndStoreObjectLocally).  Objects are valid or broken in exactly one
// respect; streams are chunked, cut, closed early, corrupted, padded.  The node's own storage
// and the transports to the other container nodes are recording fakes; a few deliveries fail.
//
// Oracle: c24Valid (an independent validity predicate written from the statement; trusted
// base: SDK Object.VerifyID, Object.VerifySignature, session.Object.VerifySignature /
// AssertAuthKey, crypto/sha256) must hold for every object that reaches any storage; broken
// input must end in an error with nothing stored; what the node assembled itself must
// reassemble to exactly the streamed bytes (a prefix of them if the stream failed).

import (
	"bytes"
	"context"
	"crypto/ecdsa"
	"crypto/sha256"
	"encoding/hex"
	"fmt"
	"sort"
	"strconv"
	"strings"
	"time"

	"github.com/google/uuid"
	iec "github.com/nspcc-dev/neofs-node/internal/ec"
	"github.com/nspcc-dev/neofs-node/pkg/services/object/common"
	objutil "github.com/nspcc-dev/neofs-node/pkg/services/object/util"
	"github.com/nspcc-dev/neofs-sdk-go/checksum"
	neofsecdsa "github.com/nspcc-dev/neofs-sdk-go/crypto/ecdsa"
	"github.com/nspcc-dev/neofs-sdk-go/object"
	oid "github.com/nspcc-dev/neofs-sdk-go/object/id"
	"github.com/nspcc-dev/neofs-sdk-go/session"
	"github.com/nspcc-dev/neofs-sdk-go/user"
	"verif/simkit"
)

func propC24() *simkit.Property {
	return &simkit.Property{
		ID: "C24", Level: "exploration", Bubble: true, TapeLimit: 1500,
		Rule: "each run = one container (REP 1-2 rules or EC 1-2 rules over 2-5 nodes, local node inside or outside, max object size 1-4 KiB) and 1-3 uploads: a client-sealed object (plain, with a client session, v2 split child with parent header, EC part, LOCK) through the PUT stream or the replication entry, or a blank object the node slices / EC-encodes and signs (session token or node-owned), payload 0-16 KiB; each upload is valid or broken in exactly one respect (40+ kinds: id, checksum, size, header/attribute byte after signing, signer, signature, session issuer / signer / key / verb / expiry, attribute zero byte / duplicate / empty, EC indexes / hashes / length / parent, parent header id / signature / attributes, node session missing / expired, foreign owner) and its stream is chunked 1 byte..whole and optionally cut, closed early, corrupted, duplicated or padded; 0-25% of the deliveries to nodes fail. Every object reaching any storage is judged by the independent validity predicate; broken input must give an error and no store; node-made pieces must reassemble to the streamed bytes. distinct = trace digest; non-trivial = >=1 object stored and >=1 broken upload or failed delivery",
		Run:  runC24,
		Assumptions: []string{
			"trusted base of the predicate: SDK Object.VerifyID / VerifySignature, session token VerifySignature / AssertAuthKey, crypto/sha256; none of the put / core-object / internal-crypto code",
			"request-level checks of the session token (signature, verb, lifetime, container) belong to the object server / ACL layer (C29/C30) and are not repeated here: tokens handed to the node-side slicer are authentic",
			"a session token's verb / lifetime / container inside a sealed object's header, the homomorphic hash, the max-size limit and EC attributes on a non-EC object are not named by the statement: acceptance or refusal are both fine (probes)",
			"V2 session tokens, N3 (contract) signatures, tombstones' target checks and v1 split are not generated",
			"the client stops at the first error its stream reports",
		},
		Components: map[string]string{
			"Streamer Init/SendChunk/Close, validatingTarget, slicingTarget (SDK slicer), distributedTarget, ValidateAndStoreObjectLocally": "real",
			"FormatValidator.Validate/ValidateContent, checkEC/checkECPart/checkECParent, AuthenticateObject, AuthenticateToken":               "real",
			"local object storage": "simulated: recording fake (judges the binary it is given)",
			"other container nodes": "simulated: recording Transport / ClientConstructor fakes behind gates, 0-25% failures",
			"client":               "simulated: object builder + mutators + stream fault injector",
		},
		DeadlockClass: "hang",
	}
}

// ---------------------------------------------------------------------------------------
// independent validity predicate

type c24Ctx struct {
	ec    [][2]int // container's EC rules
	epoch uint64
}

func ecdsaPub(p neofsecdsa.PublicKey) ecdsa.PublicKey { return ecdsa.PublicKey(p) }

func c24AttrsBad(o *object.Object) string {
	seen := map[string]bool{}
	for _, a := range o.Attributes() {
		if seen[a.Key()] {
			return "duplicated attribute key"
		}
		seen[a.Key()] = true
		if a.Value() == "" {
			return "empty attribute value"
		}
		if strings.IndexByte(a.Key(), 0) >= 0 || strings.IndexByte(a.Value(), 0) >= 0 {
			return "zero byte in an attribute"
		}
	}
	return ""
}

// c24Auth: the signature authenticates the owner or the session issued by the owner.
func c24Auth(o *object.Object) string {
	sig := o.Signature()
	if sig == nil {
		return "no signature"
	}
	if !o.VerifySignature() {
		return "signature does not verify over the identifier"
	}
	var pub neofsecdsa.PublicKey
	if err := pub.Decode(sig.PublicKeyBytes()); err != nil {
		return "signature key is not an ECDSA key"
	}
	signer := user.NewFromECDSAPublicKey(ecdsaPub(pub))
	if o.SessionTokenV2() != nil {
		return "unexpected V2 session token"
	}
	tok := o.SessionToken()
	if tok == nil {
		if signer != o.Owner() {
			return "signer is not the owner"
		}
		return ""
	}
	if !tok.VerifySignature() {
		return "session token signature does not verify"
	}
	tsig, ok := tok.Signature()
	if !ok {
		return "session token without signature"
	}
	var tpub neofsecdsa.PublicKey
	if err := tpub.Decode(tsig.PublicKeyBytes()); err != nil {
		return "session token key is not an ECDSA key"
	}
	if user.NewFromECDSAPublicKey(ecdsaPub(tpub)) != tok.Issuer() {
		return "session token is not signed by its issuer"
	}
	if tok.Issuer() != o.Owner() {
		return "session issuer is not the object owner"
	}
	if !tok.AssertAuthKey(&pub) {
		return "object signer is not the session key"
	}
	return ""
}

// c24HeaderBad judges a header carried inside another object (parent header).
func c24HeaderBad(h *object.Object) string {
	if s := c24AttrsBad(h); s != "" {
		return "parent header: " + s
	}
	if !h.GetID().IsZero() {
		if err := h.VerifyID(); err != nil {
			return "parent header: identifier does not match"
		}
	}
	if h.Signature() != nil {
		if h.GetID().IsZero() {
			return "parent header: signature without identifier"
		}
		if s := c24Auth(h); s != "" {
			return "parent header: " + s
		}
	}
	return ""
}

func c24Valid(o *object.Object, cx *c24Ctx) string {
	if err := o.VerifyID(); err != nil {
		return "identifier does not match the header"
	}
	if uint64(len(o.Payload())) != o.PayloadSize() {
		return "payload length differs from the declared size"
	}
	cs, ok := o.PayloadChecksum()
	if !ok {
		return "no payload checksum"
	}
	if cs.Type() != checksum.SHA256 {
		return "payload checksum is not SHA-256"
	}
	if h := sha256.Sum256(o.Payload()); !bytes.Equal(h[:], cs.Value()) {
		return "payload checksum mismatch"
	}
	if s := c24AttrsBad(o); s != "" {
		return s
	}
	rs, ps, isEC := pvECInfo(o)
	if !isEC {
		if s := c24Auth(o); s != "" {
			return s
		}
		if par := o.Parent(); par != nil {
			if s := c24HeaderBad(par); s != "" {
				return s
			}
		}
		return ""
	}
	// EC part
	ri, e1 := strconv.Atoi(rs)
	pi, e2 := strconv.Atoi(ps)
	if rs == "" || ps == "" || e1 != nil || e2 != nil || ri < 0 || pi < 0 {
		return "EC part: broken index attributes"
	}
	if ri >= len(cx.ec) {
		return "EC part: rule index beyond the policy"
	}
	d, p := cx.ec[ri][0], cx.ec[ri][1]
	if pi >= d+p {
		return "EC part: part index beyond the rule"
	}
	for _, a := range o.Attributes() {
		if !strings.HasPrefix(a.Key(), "__NEOFS__EC_") {
			return "EC part: mixed with other attributes"
		}
	}
	par := o.Parent()
	if par == nil {
		return "EC part: no parent header"
	}
	if par.GetID().IsZero() || par.Signature() == nil {
		return "EC part: parent header not sealed"
	}
	if s := c24HeaderBad(par); s != "" {
		return "EC part: " + s
	}
	if par.Owner() != o.Owner() || par.GetContainerID() != o.GetContainerID() {
		return "EC part: owner/container differ from the parent"
	}
	if want := (par.PayloadSize() + uint64(d) - 1) / uint64(d); o.PayloadSize() != want {
		return "EC part: length is not the parent's length divided over the data parts"
	}
	hashes := ""
	for _, a := range par.Attributes() {
		if a.Key() == "__NEOFS__EC_PART_HASHES" {
			hashes = a.Value()
		}
	}
	pos := pi
	for j := 0; j < ri; j++ {
		pos += cx.ec[j][0] + cx.ec[j][1]
	}
	list := strings.Split(hashes, ",")
	if pos >= len(list) || list[pos] != hex.EncodeToString(cs.Value()) {
		return "EC part: checksum is not the one the parent lists for this part"
	}
	return ""
}

// ---------------------------------------------------------------------------------------
// client side: objects, mutations, stream faults

const (
	c24Plain   = iota // sealed regular object signed by the owner
	c24Session        // sealed regular object signed by a session key, token inside
	c24Child          // sealed v2 split child carrying a signed parent header
	c24ECPart         // client-made EC part
	c24LockObj        // sealed LOCK
	c24Blank          // blank object, node slices and signs (session token)
	c24BlankOwn       // blank object owned by the node's own key, no token
)

func c24ShapeName(s int) string {
	return [...]string{"sealed plain", "sealed with session", "sealed split child", "sealed EC part", "sealed LOCK", "blank with session", "blank node-owned"}[s]
}

type c24Upload struct {
	shape   int
	via     string // stream | replicate
	hdr     *object.Object
	payload []byte // what the object is sealed over / what the client means to stream
	tokens  common.RequestTokens
	mut     string
	broken  bool // the statement demands refusal
	open    bool // the statement does not say
	// world tweaks
	noNodeSession, nodeSessionExpired bool
}

func c24Token(r *simkit.R, w *pvWorld, issuerKey, signKey, authKey int, verb session.ObjectVerb, exp uint64, foreignCnr bool) *session.Object {
	var tok session.Object
	var id uuid.UUID
	copy(id[:], r.Bytes(16))
	id[6] = (id[6] & 0x0f) | 0x40
	id[8] = (id[8] & 0x3f) | 0x80
	tok.SetID(id)
	tok.SetIat(w.epoch - 1)
	tok.SetNbf(w.epoch - 1)
	tok.SetExp(exp)
	c := w.cnrID
	if foreignCnr {
		c[3] ^= 0x55
	}
	tok.BindContainer(c)
	tok.ForVerb(verb)
	tok.SetAuthKey((*neofsecdsa.PublicKey)(&pvKey(authKey).PublicKey))
	tok.SetIssuer(pvUser(issuerKey))
	if err := tok.SetSignature(neofsecdsa.SignerRFC6979(*pvKey(signKey))); err != nil {
		r.Failf("infra", "token-sign", "%v", err)
	}
	return &tok
}

func c24Seal(r *simkit.R, o *object.Object, signKey int) {
	if err := o.CalculateAndSetID(); err != nil {
		r.Failf("infra", "id", "%v", err)
	}
	if err := o.Sign(pvSigner(signKey)); err != nil {
		r.Failf("infra", "sign", "%v", err)
	}
}

func c24RandID(r *simkit.R) oid.ID {
	var id oid.ID
	copy(id[:], r.Bytes(32))
	id[0] |= 1
	return id
}

// c24Build creates one upload.  mutation 0 = valid.
func c24Build(r *simkit.R, w *pvWorld, cx *c24Ctx, shape int, size int, mutate bool) *c24Upload {
	u := &c24Upload{shape: shape, via: "stream", mut: "none"}
	payload := r.Bytes(size)
	attrs := []object.Attribute{object.NewAttribute("FileName", "a.bin"), object.NewAttribute("Tag", "t1")}
	badAttrs := func(which int) []object.Attribute {
		zero := []string{"v\x00", "\x00v", "a\x00b", "\x00"}[r.Intn(4)]
		switch which {
		case 0:
			u.mut = "attribute key with zero byte"
			return append(attrs, object.NewAttribute(zero, "v"))
		case 1:
			u.mut = "attribute value with zero byte"
			return append(attrs, object.NewAttribute("key", zero))
		case 2:
			u.mut = "duplicated attribute key"
			return append(attrs, object.NewAttribute("Tag", "t2"))
		default:
			u.mut = "empty attribute value"
			return append(attrs, object.NewAttribute("key", ""))
		}
	}
	owner := pvKeyOwner
	switch shape {
	case c24Blank, c24BlankOwn:
		m := 0
		if mutate {
			m = 1 + r.Intn(11)
		}
		if shape == c24BlankOwn {
			owner = pvKeyNode
		}
		// (a blank object may already be a split child: split fields and the finished header of
		// its parent, which the node has to verify like any other finished header)
		blankChild := m >= 10 || !mutate && r.Bool(12)
		o := object.New(w.cnrID, pvUser(owner))
		o.SetAttributes(attrs...)
		declared := r.Bool(50)
		if declared {
			o.SetPayloadSize(uint64(size))
		}
		issuer, signK := pvKeyOwner, pvKeyOwner
		switch m {
		case 1, 2, 3, 4:
			o.SetAttributes(badAttrs(m - 1)...)
			u.broken = true
		case 5:
			if shape == c24Blank {
				u.mut, u.noNodeSession, u.broken = "node does not hold the session key", true, true
			}
		case 6:
			if shape == c24Blank {
				u.mut, u.nodeSessionExpired, u.broken = "node's session key expired", true, true
			}
		case 7:
			if shape == c24BlankOwn {
				o.SetOwner(pvUser(pvKeyOwner))
				u.mut, u.broken = "no session and the owner is not the node", true
			}
		case 8:
			o.SetAttributes(append(attrs, object.NewAttribute("__NEOFS__EC_RULE_IDX", "0"), object.NewAttribute("__NEOFS__EC_PART_IDX", "0"))...)
			u.mut, u.open = "EC attributes in a blank object", true
		case 9:
			if shape == c24Blank {
				o.SetOwner(pvUser(pvKeyOwner2))
				u.mut, u.open = "header owner differs from the session issuer", true
			}
		}
		if blankChild {
			root := object.New(w.cnrID, pvUser(owner))
			root.SetCreationEpoch(w.epoch)
			root.SetAttributes(attrs...)
			root.SetPayloadSize(uint64(size) + 4096)
			root.SetPayloadChecksum(checksum.NewSHA256(sha256.Sum256(r.Bytes(8))))
			pk := owner
			if m == 11 {
				pk = pvKeyStranger
				u.mut, u.broken = "parent header: signed by another key", true
			}
			c24Seal(r, root, pk)
			if m == 10 {
				id := root.GetID()
				id[5] ^= 1
				root.SetID(id)
				u.mut, u.broken = "parent header: identifier does not match", true
			}
			o.SetAttributes()
			o.SetParent(root)
			o.SetParentID(root.GetID())
			o.SetFirstID(c24RandID(r))
			o.SetPreviousID(c24RandID(r))
			if m == 0 {
				u.mut, u.open = "blank split child with a finished parent header", true
			}
			r.Probe("blank object carrying split fields and a finished parent header")
		}
		if shape == c24Blank {
			u.tokens.SessionV1 = c24Token(r, w, issuer, signK, pvKeySession, session.VerbObjectPut, w.epoch+20, false)
		}
		u.hdr, u.payload = o, payload
		return u
	case c24ECPart:
		return c24BuildPart(r, w, cx, u, payload, attrs, mutate)
	}

	// sealed objects -------------------------------------------------------------------
	m := 0
	if mutate {
		m = 1 + r.Intn(22)
	}
	o := object.New(w.cnrID, pvUser(owner))
	o.SetCreationEpoch(w.epoch)
	o.SetAttributes(attrs...)
	signK := pvKeyOwner
	switch shape {
	case c24Session:
		issuer, tokSign, auth, verb, exp, foreign := pvKeyOwner, pvKeyOwner, pvKeyClientSK, session.VerbObjectPut, w.epoch+20, false
		switch m {
		case 15:
			issuer, tokSign = pvKeyOwner2, pvKeyOwner2
			u.mut, u.broken = "session issued by another user", true
		case 16:
			tokSign = pvKeyStranger
			u.mut, u.broken = "session token signed by a key that is not its issuer's", true
		case 17:
			auth = pvKeyStranger
			u.mut, u.broken = "session issued to another key than the object signer's", true
		case 18:
			verb = session.VerbObjectDelete
			u.mut, u.open = "session for another verb", true
		case 19:
			exp = w.epoch - 5
			u.mut, u.open = "session expired", true
		case 20:
			foreign = true
			u.mut, u.open = "session bound to another container", true
		}
		tok := c24Token(r, w, issuer, tokSign, auth, verb, exp, foreign)
		if m == 16 && w.lastTok != nil && r.Bool(60) {
			// the twin of a token this node has already authenticated: same body, signature by a
			// stranger (a check-result cache must not conflate the two)
			twin := *w.lastTok
			if err := twin.SetSignature(neofsecdsa.SignerRFC6979(*pvKey(pvKeyStranger))); err != nil {
				r.Failf("infra", "token-sign", "%v", err)
			}
			tok = &twin
			u.mut = "session token signed by a key that is not its issuer's (twin of an authenticated token)"
			r.Probe("twin of an already authenticated session token uploaded")
		}
		if m == 0 {
			w.lastTok = tok
		}
		o.SetSessionToken(tok)
		signK = pvKeyClientSK
	case c24Child:
		par := object.New(w.cnrID, pvUser(owner))
		par.SetCreationEpoch(w.epoch)
		par.SetAttributes(attrs...)
		par.SetPayloadSize(uint64(size) + 4096)
		par.SetPayloadChecksum(checksum.NewSHA256(sha256.Sum256(r.Bytes(8))))
		pk := pvKeyOwner
		switch m {
		case 15:
			par.SetAttributes(append(attrs, object.NewAttribute("k\x00", "v"))...)
			u.mut, u.broken = "parent header: attribute with zero byte", true
		case 16:
			par.SetAttributes(append(attrs, object.NewAttribute("Tag", "x"))...)
			u.mut, u.broken = "parent header: duplicated attribute", true
		case 17:
			pk = pvKeyStranger
			u.mut, u.broken = "parent header: signed by another key", true
		}
		c24Seal(r, par, pk)
		switch m {
		case 18:
			id := par.GetID()
			id[5] ^= 1
			par.SetID(id)
			u.mut, u.broken = "parent header: identifier does not match", true
		case 19:
			par.SetPayloadSize(par.PayloadSize() + 1)
			u.mut, u.broken = "parent header: field changed after signing", true
		}
		o.SetAttributes()
		o.SetParent(par)
		o.SetParentID(par.GetID())
		o.SetFirstID(c24RandID(r))
		o.SetPreviousID(c24RandID(r))
	case c24LockObj:
		o.SetAttributes(object.NewAttribute(object.AttributeExpirationEpoch, strconv.FormatUint(w.epoch+30, 10)))
		o.AssociateLocked(c24RandID(r))
		payload = nil
	}
	if shape != c24LockObj {
		o.SetPayload(payload)
	}
	o.SetPayloadSize(uint64(len(payload)))
	o.CalculateAndSetPayloadChecksum()
	// one-respect mutations applied before sealing
	switch m {
	case 1:
		cs := sha256.Sum256(payload)
		cs[7] ^= 0x10
		o.SetPayloadChecksum(checksum.NewSHA256(cs))
		u.mut, u.broken = "payload checksum of other bytes", true
	case 2:
		o.SetPayloadSize(uint64(len(payload)) + 1 + uint64(r.Intn(40)))
		u.mut, u.broken = "declared size larger than the payload", true
	case 3:
		if len(payload) > 0 {
			o.SetPayloadSize(uint64(r.Intn(len(payload))))
			u.mut, u.broken = "declared size smaller than the payload", true
		}
	case 4, 5, 6, 7:
		if shape != c24LockObj && shape != c24Child {
			o.SetAttributes(badAttrs(m - 4)...)
			u.broken = true
		}
	case 8:
		signK = pvKeyStranger
		u.mut, u.broken = "signed by a key that is neither the owner's nor the session's", true
		if shape == c24Session && w.lastTok != nil && r.Bool(60) {
			// (with the very token of an upload this node has already authenticated: a cached
			// verdict about the token says nothing about who signed THIS object)
			o.SetSessionToken(w.lastTok)
			r.Probe("stranger-signed object with an already authenticated session token")
		}
	case 9:
		o.SetPayloadHomomorphicHash(checksum.New(checksum.TillichZemor, r.Bytes(64))) //nolint:staticcheck // legacy field on purpose
		u.mut, u.open = "garbage homomorphic hash", true
	case 10:
		if len(cx.ec) == 0 && shape == c24Plain {
			o.SetAttributes(append(attrs, object.NewAttribute("__NEOFS__EC_PARTS", "1"))...)
			u.mut, u.open = "EC-prefixed attribute on a plain object", true
		}
	}
	c24Seal(r, o, signK)
	// one-respect mutations applied after sealing
	switch m {
	case 11:
		id := o.GetID()
		id[9] ^= 4
		o.SetID(id)
		u.mut, u.broken = "identifier does not match the header", true
	case 12:
		o.SetCreationEpoch(w.epoch - 1)
		u.mut, u.broken = "header field changed after signing", true
	case 13:
		if shape != c24LockObj && shape != c24Child {
			o.SetAttributes(append(attrs[:1:1], object.NewAttribute("Tag", "t9"))...)
			u.mut, u.broken = "attribute changed after signing", true
		}
	case 14:
		sig := *o.Signature()
		v := append([]byte(nil), sig.Value()...)
		v[len(v)/2] ^= 1
		sig.SetValue(v)
		o.SetSignature(&sig)
		u.mut, u.broken = "signature bytes corrupted", true
	case 21:
		o.SetSignature(nil)
		u.mut, u.open = "signature removed (becomes a blank object)", true
	case 22:
		// valid object, unknown container
		u.mut = "none"
	}
	if uint64(len(payload)) > w.maxSize && !u.broken {
		u.open = true
		if u.mut == "none" {
			u.mut = "sealed object larger than the maximum object size"
		}
	}
	u.hdr, u.payload = o, payload
	return u
}

func c24BuildPart(r *simkit.R, w *pvWorld, cx *c24Ctx, u *c24Upload, payload []byte, attrs []object.Attribute, mutate bool) *c24Upload {
	m := 0
	if mutate {
		m = 1 + r.Intn(14)
	}
	par := object.New(w.cnrID, pvUser(pvKeyOwner))
	par.SetCreationEpoch(w.epoch)
	par.SetPayloadSize(uint64(len(payload)))
	par.SetPayloadChecksum(checksum.NewSHA256(sha256.Sum256(payload)))
	var hashes []string
	var partsByRule [][][]byte
	for _, e := range cx.ec {
		pl := append([]byte(nil), payload...)
		parts, sums, err := iec.Encode(iec.Rule{DataPartNum: uint8(e[0]), ParityPartNum: uint8(e[1])}, pl[:len(pl):len(pl)])
		if err != nil {
			r.Failf("infra", "ec-encode", "%v", err)
		}
		hashes = append(hashes, sums...)
		partsByRule = append(partsByRule, parts)
	}
	pattrs := append(append([]object.Attribute(nil), attrs...), object.NewAttribute(iec.AttributePartsHashes, strings.Join(hashes, ",")))
	parKey := pvKeyOwner
	switch m {
	case 1:
		pattrs = attrs
		u.mut, u.broken = "EC part: parent without part hashes", true
	case 2:
		parKey = pvKeyStranger
		u.mut, u.broken = "EC part: parent signed by another key", true
	case 3:
		pattrs = append(pattrs, object.NewAttribute("z\x00", "v"))
		u.mut, u.broken = "EC part: parent attribute with zero byte", true
	}
	par.SetAttributes(pattrs...)
	c24Seal(r, par, parKey)
	if m == 4 {
		id := par.GetID()
		id[1] ^= 2
		par.SetID(id)
		u.mut, u.broken = "EC part: parent identifier does not match", true
	}
	rule := r.Intn(len(cx.ec))
	total := cx.ec[rule][0] + cx.ec[rule][1]
	idx := r.Intn(total)
	pp := partsByRule[rule][idx]
	ruleAttr, idxAttr := rule, idx
	switch m {
	case 5:
		idxAttr = total + r.Intn(3)
		u.mut, u.broken = "EC part: part index beyond the rule", true
	case 6:
		ruleAttr = len(cx.ec) + r.Intn(2)
		u.mut, u.broken = "EC part: rule index beyond the policy", true
	case 7:
		if len(pp) > 0 {
			pp = append([]byte(nil), pp...)
			pp[0] ^= 0x80
			u.mut, u.broken = "EC part: payload is not the part the parent lists", true
		}
	case 8:
		if len(pp) > 1 {
			pp = pp[:len(pp)-1]
			u.mut, u.broken = "EC part: shorter than the parent's length allows", true
		}
	}
	part, err := iec.FormObjectForECPart(nil, *par, pp, iec.PartInfo{RuleIndex: ruleAttr, Index: idxAttr})
	if err != nil {
		r.Failf("infra", "ec-part", "%v", err)
	}
	reseal := func() {
		part.SetSignature(nil)
		if err := part.CalculateAndSetID(); err != nil {
			r.Failf("infra", "id", "%v", err)
		}
	}
	switch m {
	case 9:
		var keep []object.Attribute
		for _, a := range part.Attributes() {
			if a.Key() != "__NEOFS__EC_PART_IDX" {
				keep = append(keep, a)
			}
		}
		part.SetAttributes(keep...)
		reseal()
		u.mut, u.broken = "EC part: part index attribute missing", true
	case 10:
		part.SetAttributes(append(part.Attributes(), object.NewAttribute("FileName", "x"))...)
		reseal()
		u.mut, u.broken = "EC part: mixed with a non-EC attribute", true
	case 11:
		id := part.GetID()
		id[2] ^= 8
		part.SetID(id)
		u.mut, u.broken = "identifier does not match the header", true
	case 12:
		cs := sha256.Sum256(pp)
		cs[0] ^= 1
		part.SetPayloadChecksum(checksum.NewSHA256(cs))
		reseal()
		u.mut, u.broken = "payload checksum of other bytes", true
	case 13:
		part.SetPayloadSize(part.PayloadSize() + 3)
		reseal()
		u.mut, u.broken = "declared size larger than the payload", true
	case 14:
		part.SetParent(nil)
		reseal()
		u.mut, u.broken = "EC part: no parent header", true
	}
	u.hdr, u.payload = &part, part.Payload()
	return u
}

const (
	c24FNone = iota
	c24FCut
	c24FEarly
	c24FCorrupt
	c24FDup
	c24FExtra
)

func c24FaultName(f int) string {
	return [...]string{"none", "stream cut before Close", "Close before the last chunks", "one chunk corrupted", "one chunk sent twice", "extra bytes appended"}[f]
}

// c24Chunks splits the payload and applies the stream fault.  It returns the chunks to send,
// whether Close is called, and the bytes actually streamed.
func c24Chunks(r *simkit.R, payload []byte, fault int) ([][]byte, bool, []byte, int) {
	var chunks [][]byte
	mode := r.Intn(4)
	rest := payload
	for len(rest) > 0 {
		n := len(rest)
		switch mode {
		case 1:
			n = 1 + r.Intn(2000)
		case 2:
			if len(payload) <= 300 {
				n = 1
			} else {
				n = 1 + r.Intn(64)
				if len(chunks) > 300 {
					n = len(rest)
				}
			}
		case 3:
			n = 100
		}
		n = min(n, len(rest))
		chunks = append(chunks, rest[:n])
		rest = rest[n:]
	}
	doClose := true
	switch fault {
	case c24FCut:
		chunks = chunks[:r.Intn(len(chunks)+1)]
		doClose = false
	case c24FEarly:
		if len(chunks) == 0 {
			fault = c24FNone
		} else {
			chunks = chunks[:r.Intn(len(chunks))]
		}
	case c24FCorrupt:
		if len(chunks) == 0 {
			fault = c24FNone
		} else {
			i := r.Intn(len(chunks))
			c := append([]byte(nil), chunks[i]...)
			c[r.Intn(len(c))] ^= 0x20
			chunks[i] = c
		}
	case c24FDup:
		if len(chunks) == 0 {
			fault = c24FNone
		} else {
			i := r.Intn(len(chunks))
			chunks = append(chunks[:i+1:i+1], chunks[i:]...)
		}
	case c24FExtra:
		chunks = append(chunks, r.Bytes(1+r.Intn(50)))
	}
	var streamed []byte
	for _, c := range chunks {
		streamed = append(streamed, c...)
	}
	return chunks, doClose, streamed, fault
}

// ---------------------------------------------------------------------------------------

func runC24(r *simkit.R) {
	k := simkit.NewKernel(r)
	pool := 2 + r.Intn(4)
	localIdx := r.Intn(pool + 1)
	if localIdx == pool {
		localIdx = -1
	}
	w := newPvWorld(r, k, pool, localIdx)
	w.maxSize = []uint64{1024, 2048, 4096}[r.Intn(3)]
	cx := &c24Ctx{epoch: w.epoch}
	var rep []int
	var lists [][]int
	pick := func(need int) []int {
		size := need + r.Intn(pool-need+1)
		return r.Perm(pool)[:size]
	}
	if r.Bool(40) {
		ne := 1 + r.Intn(2)
		for j := 0; j < ne; j++ {
			e := [2]int{1 + r.Intn(2), 1}
			if e[0]+e[1] > pool {
				e[0] = 1
			}
			if j > 0 && cx.ec[0] == e { // repeated rules are C25's subject (F-PUT-2)
				if e[0] == 1 && pool >= 3 {
					e[0] = 2
				} else if e[0] == 2 {
					e[0] = 1
				} else {
					break
				}
			}
			cx.ec = append(cx.ec, e)
		}
		for j := range cx.ec {
			lists = append(lists, pick(cx.ec[j][0]+cx.ec[j][1]))
		}
	} else {
		nr := 1 + r.Intn(2)
		for i := 0; i < nr; i++ {
			c := 1 + r.Intn(min(2, pool))
			rep = append(rep, c)
			lists = append(lists, pick(c))
		}
	}
	w.setPolicy(rep, cx.ec, lists, nil)
	w.build()
	failPct := []int{0, 0, 10, 25}[r.Intn(4)]
	r.Logf("container: REP%v EC%v lists%v | pool=%d local=%s | max object size %d | delivery failures %d%%", rep, cx.ec, lists, pool, w.nodeName(localIdx), w.maxSize, failPct)
	r.OnCleanup(func() { k.Shutdown(); time.Sleep(50 * time.Millisecond) })
	k.SetPass(false)

	storedAny, brokenAny := false, false
	nops := 1 + r.Intn(3)
	for op := 0; op < nops; op++ {
		w.mu.Lock()
		w.curOp = op
		w.mu.Unlock()
		// shape
		sw := []int{4, 3, 2, 0, 1, 4, 2}
		if len(cx.ec) > 0 {
			sw = []int{0, 0, 0, 5, 1, 4, 2}
		}
		shape := r.Weighted(sw...)
		sizes := []int{300, 0, 1, 17, int(w.maxSize) - 1, int(w.maxSize), int(w.maxSize) + 1, 2 * int(w.maxSize), 2*int(w.maxSize) + 5, 3*int(w.maxSize) + 100, 16000}
		size := sizes[r.Intn(len(sizes))]
		if shape != c24Blank && shape != c24BlankOwn && r.Bool(85) {
			size = sizes[r.Intn(6)]
		}
		u := c24Build(r, w, cx, shape, size, r.Bool(55))
		if shape != c24Blank && shape != c24BlankOwn && r.Bool(25) {
			u.via = "replicate"
		}
		fault := c24FNone
		if u.via == "stream" && r.Bool(35) {
			fault = 1 + r.Intn(5)
		}
		chunks, doClose, streamed, fault := c24Chunks(r, u.payload, fault)
		if u.via == "replicate" {
			streamed = u.payload
		}
		w.sessionKnown = !u.noNodeSession
		w.sessionExp = w.epoch + 50
		if u.nodeSessionExpired {
			w.sessionExp = w.epoch
		}

		var resID oid.ID
		var resErr error
		stage := "done"
		closed := false
		var okSpans [][2]int // record ranges of SendChunk calls that returned nil
		run := func() {
			defer w.pvCatchPanic(c24ShapeName(shape) + "; " + u.via)
			ctx := context.Background()
			if u.via == "replicate" {
				var full object.Object
				u.hdr.CopyTo(&full)
				full.SetPayload(u.payload)
				resErr = w.svc.ValidateAndStoreObjectLocally(ctx, full)
				resID = full.GetID()
				closed = true
				return
			}
			stream, err := w.svc.Put(ctx)
			if err != nil {
				resErr, stage = err, "put"
				return
			}
			prm := new(PutInitPrm).WithObject(u.hdr.CutPayload()).WithCommonPrm(objutil.CommonPrmFromRequest(2, nil, u.tokens))
			if err = stream.Init(prm); err != nil {
				resErr, stage = err, "init"
				return
			}
			for _, c := range chunks {
				from := w.recCount()
				err = stream.SendChunk(new(PutChunkPrm).WithChunk(c))
				if to := w.recCount(); to > from && err == nil {
					okSpans = append(okSpans, [2]int{from, to})
				}
				if err != nil {
					resErr, stage = err, "chunk"
					return
				}
			}
			if !doClose {
				stage = "cut"
				return
			}
			closed = true
			resID, resErr = stream.Close()
			stage = "close"
		}
		finished := w.drive("upload", run, func(string) int {
			if failPct > 0 && r.Bool(failPct) {
				return []int{pvErrGeneric, pvErrLostAck, pvErrSpace}[r.Intn(3)]
			}
			return pvOK
		})
		if r.Violated() {
			return
		}
		if !finished {
			r.Failf("hang", "upload does not return", "the upload did not return")
		}
		res := pvErrClass(resErr)
		if stage == "cut" {
			res = "cut"
		}
		r.Op("upload %d: %s via %s, %d bytes, mutation=%s, stream=%s (%d chunks) -> %s at %s", op, c24ShapeName(shape), u.via, len(u.payload), u.mut, c24FaultName(fault), len(chunks), res, stage)

		// ---- judge ----
		var st []*pvRec
		failedDeliveries := 0
		for _, rec := range w.recs {
			if rec.op != op {
				continue
			}
			if !rec.acked {
				failedDeliveries++
			}
			if rec.stored {
				st = append(st, rec)
			}
		}
		where := fmt.Sprintf("%s via %s; mutation=%s; stream=%s", c24ShapeName(shape), u.via, u.mut, c24FaultName(fault))
		// a SendChunk that reported success must have placed the pieces it formed
		for _, sp := range okSpans {
			if why := c24SpanPlaced(rep, cx.ec, lists, w.recs[sp[0]:sp[1]]); why != "" {
				r.Failf("put-chunk-error-swallowed", "SendChunk reports success although the piece formed during it was not placed as the policy demands ["+c24ShapeName(shape)+"]", "%s; the client goes on streaming into a slicer that has already failed.\nupload: %s; result %s at %s", why, where, res, stage)
			}
		}
		w.reportPanic()
		for _, rec := range w.recs {
			if rec.op == op && rec.binErr != "" {
				r.Failf("put-stores-invalid", "a storage is handed a broken binary: "+c24Generic(rec.binErr)+" ["+where+"]", "node %s (%s): %s", w.nodeName(rec.node), rec.via, rec.binErr)
			}
		}
		for _, rec := range st {
			if why := c24Valid(&rec.obj, cx); why != "" {
				r.Failf("put-stores-invalid", why+" ["+where+"]", "an object reached the storage of node %s (%s) although: %s.\nupload: %s, %d payload bytes, %d streamed; result %s at %s", w.nodeName(rec.node), rec.via, why, where, len(u.payload), len(streamed), res, stage)
			}
		}
		sealed := shape != c24Blank && shape != c24BlankOwn
		streamBroken := sealed && u.via == "stream" && (!bytes.Equal(streamed, u.payload) || !closed)
		if u.broken || streamBroken {
			brokenAny = true
			r.Probe("broken upload: " + u.mut)
			if fault != c24FNone {
				r.Probe("stream fault: " + c24FaultName(fault))
			}
			if len(st) > 0 {
				r.Failf("put-broken-input-stored", "objects stored for a broken upload ["+where+"]", "%d deliveries stored something although the upload is broken (%s); result %s at %s", len(st), where, res, stage)
			}
			if closed && resErr == nil {
				r.Failf("put-broken-input-accepted", "success reported for a broken upload ["+where+"]", "the upload is broken (%s) but the node reported success", where)
			}
		} else if u.open {
			r.Probe("statement leaves open: " + u.mut)
			if resErr == nil && closed {
				r.Probe("open case accepted")
			} else {
				r.Probe("open case refused")
			}
		} else if closed {
			if resErr == nil {
				r.Probe("valid upload accepted: " + c24ShapeName(shape))
			} else if failedDeliveries == 0 {
				r.Probe("valid upload refused although no delivery failed (allowed, watch): " + c24Tail(resErr.Error()))
				r.Logf("  refused: %s", c24Tail(resErr.Error()))
			} else {
				r.Probe("valid upload failed after delivery failures")
			}
		}
		if len(st) > 0 {
			storedAny = true
		}
		if failedDeliveries > 0 {
			brokenAny = true
		}
		if sealed {
			// what is stored must be the client's object, bit for bit
			for _, rec := range st {
				if rec.obj.GetID() != u.hdr.GetID() || !bytes.Equal(rec.obj.CutPayload().Marshal(), u.hdr.CutPayload().Marshal()) || !bytes.Equal(rec.obj.Payload(), streamed) {
					r.Failf("put-stores-different-object", "the stored object differs from the sealed object that was sent ["+where+"]", "node %s (%s) stored an object that is not the one the client sent", w.nodeName(rec.node), rec.via)
				}
			}
			continue
		}
		c24Reassembly(r, w, cx, st, streamed, u.hdr.PayloadSize(), resID, closed && resErr == nil, where)
	}
	if storedAny && brokenAny {
		r.Nontrivial()
	}
}

// c24SpanPlaced judges the deliveries made during one SendChunk call: every piece formed
// (child object, or the EC parts of a child) must have been acknowledged as the container's
// policy demands (C25's judge).  Returns "" or what is short.
func c24SpanPlaced(rep []int, ec [][2]int, lists [][]int, recs []*pvRec) string {
	pol := &c25Policy{rep: rep, ec: ec, lists: lists}
	var acks []c25Ack
	var ids []oid.ID
	seen := map[oid.ID]bool{}
	sys := map[oid.ID]bool{}
	for _, rec := range recs {
		if rec.binErr != "" && rec.obj.GetID().IsZero() {
			continue // undecodable request: judged separately
		}
		a := c25Ack{node: rec.node, id: rec.obj.GetID(), rule: -1, part: -1}
		logical := a.id
		if rs, ps, ok := pvECInfo(&rec.obj); ok {
			a.rule, _ = strconv.Atoi(rs)
			a.part, _ = strconv.Atoi(ps)
			if par := rec.obj.Parent(); par != nil {
				a.parent = par.GetID()
				logical = a.parent
			}
		}
		if rec.obj.Type() != object.TypeRegular {
			sys[logical] = true
		}
		if !seen[logical] {
			seen[logical] = true
			ids = append(ids, logical)
		}
		if rec.acked {
			acks = append(acks, a)
		}
	}
	attempted := make([]bool, len(ec))
	for _, id := range ids {
		kind := c25Trusted
		if sys[id] {
			kind = c25Lock
		}
		if ok, why := c25Judge(pol, kind, -1, -1, id, acks, attempted); !ok {
			return why
		}
	}
	return ""
}

// c24Tail: the innermost cause of a wrapped error, without run-specific values.
func c24Tail(s string) string {
	if i := strings.LastIndex(s, ": "); i >= 0 {
		s = s[i+2:]
	}
	return c24Generic(s)
}

// c24Generic strips run-specific values (hex, numbers) from a message.
func c24Generic(s string) string {
	out := strings.Map(func(c rune) rune {
		if c >= '0' && c <= '9' {
			return 'N'
		}
		return c
	}, s)
	if len(out) > 90 {
		out = out[:90]
	}
	return out
}

// c24Reassembly: the pieces the node made (children in order, link, parent header; EC parts
// of each of them) give back exactly the streamed bytes - or a prefix if the upload failed.
func c24Reassembly(r *simkit.R, w *pvWorld, cx *c24Ctx, st []*pvRec, streamed []byte, declared uint64, root oid.ID, success bool, where string) {
	// diagnosis: exactly the declared number of bytes was kept, the rest of the stream dropped
	surplus := func(got []byte, what string) string {
		if declared > 0 && uint64(len(streamed)) > declared && uint64(len(got)) <= declared {
			return "more bytes streamed than the blank header declared: no chunk is refused, bytes are dropped silently"
		}
		return what
	}
	logical := map[oid.ID]*object.Object{}
	type pkey struct{ rule, part int }
	parts := map[oid.ID]map[pkey]*object.Object{}
	var order []oid.ID
	for _, rec := range st {
		o := &rec.obj
		if rs, ps, ok := pvECInfo(o); ok {
			ri, _ := strconv.Atoi(rs)
			pi, _ := strconv.Atoi(ps)
			pid := o.Parent().GetID() // c24Valid has checked the parent
			if parts[pid] == nil {
				parts[pid] = map[pkey]*object.Object{}
				order = append(order, pid)
			}
			if old := parts[pid][pkey{ri, pi}]; old != nil && old.GetID() != o.GetID() {
				r.Failf("put-reassembly", "two different objects stored as the same EC part ["+where+"]", "rule %d part %d", ri, pi)
			}
			parts[pid][pkey{ri, pi}] = o
			continue
		}
		logical[o.GetID()] = o
	}
	// decode EC parents from their data parts
	incomplete := 0
	for _, pid := range order {
		ps := parts[pid]
		var dec *object.Object
		for j, e := range cx.ec {
			have := true
			var pl []byte
			var hdr *object.Object
			for d := 0; d < e[0]; d++ {
				p := ps[pkey{j, d}]
				if p == nil {
					have = false
					break
				}
				pl = append(pl, p.Payload()...)
				hdr = p.Parent()
			}
			if !have {
				continue
			}
			if uint64(len(pl)) < hdr.PayloadSize() {
				r.Failf("put-reassembly", "data parts of an EC rule are shorter than their parent ["+where+"]", "rule %d: %d < %d", j, len(pl), hdr.PayloadSize())
			}
			pl = pl[:hdr.PayloadSize()]
			cs, _ := hdr.PayloadChecksum()
			if h := sha256.Sum256(pl); !bytes.Equal(h[:], cs.Value()) {
				r.Failf("put-reassembly", "data parts of an EC rule do not give back their parent's payload ["+where+"]", "rule %d", j)
			}
			var full object.Object
			hdr.CopyTo(&full)
			full.SetPayload(pl)
			if dec != nil && !bytes.Equal(dec.Payload(), pl) {
				r.Failf("put-reassembly", "two EC rules decode to different payloads ["+where+"]", "rule %d", j)
			}
			dec = &full
		}
		if dec == nil {
			incomplete++
			continue
		}
		if why := c24Valid(dec, &c24Ctx{epoch: cx.epoch}); why != "" {
			r.Failf("put-stores-invalid", "EC parent: "+why+" ["+where+"]", "the object decoded from stored EC parts is not valid: %s", why)
		}
		logical[pid] = dec
	}
	if success && incomplete > 0 {
		r.Failf("put-reassembly", "success, but an EC-encoded object lacks data parts ["+where+"]", "%d encoded objects cannot be put together from what was stored", incomplete)
	}
	if success {
		rootObj := logical[root]
		// (stored whole: no parent header, or the parent header the client itself declared for a
		// blank object that already is a split child)
		if rootObj != nil && rootObj.Type() == object.TypeRegular && (!rootObj.HasParent() || !rootObj.GetFirstID().IsZero()) {
			if !bytes.Equal(rootObj.Payload(), streamed) {
				r.Failf("put-reassembly", surplus(rootObj.Payload(), "the stored object's payload is not what the client streamed")+" ["+where+"]", "%d bytes stored, %d streamed, %d declared in the blank header", len(rootObj.Payload()), len(streamed), declared)
			}
			r.Probe("node-formed object stored whole")
			return
		}
		// split: find the link object
		var link *object.Object
		var ids []oid.ID
		for id := range logical {
			ids = append(ids, id)
		}
		sort.Slice(ids, func(i, j int) bool { return bytes.Compare(ids[i][:], ids[j][:]) < 0 })
		for _, id := range ids {
			o := logical[id]
			if o.Type() == object.TypeLink && o.Parent() != nil && o.Parent().GetID() == root {
				link = o
			}
		}
		if link == nil {
			r.Failf("put-reassembly", "success, but neither the object nor its link object was stored ["+where+"]", "%d objects stored", len(logical))
		}
		var l object.Link
		if err := link.ReadLink(&l); err != nil {
			r.Failf("put-reassembly", "link object payload does not decode ["+where+"]", "%v", err)
		}
		var got []byte
		var prev, first oid.ID
		for i, mo := range l.Objects() {
			ch := logical[mo.ObjectID()]
			if ch == nil {
				r.Failf("put-reassembly", "success, but a child listed by the link object was stored nowhere ["+where+"]", "child %d of %d", i, len(l.Objects()))
			}
			if uint64(mo.ObjectSize()) != ch.PayloadSize() {
				r.Failf("put-reassembly", "link object lists a wrong child size ["+where+"]", "child %d", i)
			}
			if i == 0 {
				first = ch.GetID()
				if !ch.GetPreviousID().IsZero() {
					r.Failf("put-reassembly", "first child has a previous object ["+where+"]", "")
				}
			} else if ch.GetPreviousID() != prev || ch.GetFirstID() != first {
				r.Failf("put-reassembly", "children are not chained in the order the link object lists ["+where+"]", "child %d", i)
			}
			prev = ch.GetID()
			got = append(got, ch.Payload()...)
		}
		if !bytes.Equal(got, streamed) {
			r.Failf("put-reassembly", surplus(got, "children's payloads concatenated differ from the streamed bytes")+" ["+where+"]", "%d bytes in children, %d streamed, %d declared in the blank header", len(got), len(streamed), declared)
		}
		par := link.Parent()
		cs, _ := par.PayloadChecksum()
		if h := sha256.Sum256(streamed); par.PayloadSize() != uint64(len(streamed)) || !bytes.Equal(h[:], cs.Value()) {
			r.Failf("put-reassembly", "parent header's size/checksum are not those of the streamed bytes ["+where+"]", "")
		}
		if why := c24HeaderBad(par); why != "" || par.Signature() == nil {
			r.Failf("put-stores-invalid", "parent header of a node-made split: "+why+" ["+where+"]", "")
		}
		r.Probe("node-formed split object reassembled")
		return
	}
	// failed or cut upload: whatever regular pieces exist, chained from the first one, must
	// be a prefix of the streamed bytes
	var firstObj *object.Object
	next := map[oid.ID]*object.Object{}
	n := 0
	for _, o := range logical {
		if o.Type() != object.TypeRegular {
			continue
		}
		n++
		if o.GetPreviousID().IsZero() {
			if firstObj != nil && firstObj.GetID() != o.GetID() {
				r.Failf("put-reassembly", "two first pieces stored for one upload ["+where+"]", "")
			}
			firstObj = o
		} else {
			next[o.GetPreviousID()] = o
		}
	}
	if n == 0 {
		return
	}
	r.Probe("failed upload left valid pieces behind")
	if firstObj == nil {
		return
	}
	var got []byte
	for o := firstObj; o != nil; o = next[o.GetID()] {
		got = append(got, o.Payload()...)
	}
	if !bytes.HasPrefix(streamed, got) {
		r.Failf("put-reassembly", surplus(got, "pieces left by a failed upload are not a prefix of the streamed bytes")+" ["+where+"]", "%d bytes in pieces, %d streamed, %d declared in the blank header", len(got), len(streamed), declared)
	}
}
