package policer

// World "policer" (C26, C27): a simulated cluster of storage nodes with in-memory object
// stores and per-node behaviours.  The REAL policer (processObject / processNodes /
// processECPart*, and for C27 the whole Run loop) and the REAL Replicator.HandleTask run
// against fakes of: the local storage (records Delete / DeleteRedundantCopies), the remote
// HEAD / RANGE connections (answered by the simulated nodes), the network (generated
// placements) and the API client constructor behind putsvc.RemoteSender (writes into the
// simulated nodes' stores).  This file: the world and C26.  C27: zz_verif_policer27_test.go.

import (
	"bytes"
	"context"
	"crypto/ecdsa"
	"crypto/elliptic"
	"crypto/rand"
	"errors"
	"fmt"
	"io"
	"sort"
	"strconv"
	"strings"
	"sync"
	"testing"
	"time"

	"github.com/nspcc-dev/neo-go/pkg/util"
	iec "github.com/nspcc-dev/neofs-node/internal/ec"
	clientcore "github.com/nspcc-dev/neofs-node/pkg/core/client"
	objectcore "github.com/nspcc-dev/neofs-node/pkg/core/object"
	"github.com/nspcc-dev/neofs-node/pkg/local_object_storage/engine"
	putsvc "github.com/nspcc-dev/neofs-node/pkg/services/object/put"
	objutil "github.com/nspcc-dev/neofs-node/pkg/services/object/util"
	"github.com/nspcc-dev/neofs-node/pkg/services/replicator"
	apistatus "github.com/nspcc-dev/neofs-sdk-go/client/status"
	cid "github.com/nspcc-dev/neofs-sdk-go/container/id"
	neofscrypto "github.com/nspcc-dev/neofs-sdk-go/crypto"
	neofsecdsa "github.com/nspcc-dev/neofs-sdk-go/crypto/ecdsa"
	"github.com/nspcc-dev/neofs-sdk-go/netmap"
	"github.com/nspcc-dev/neofs-sdk-go/object"
	oid "github.com/nspcc-dev/neofs-sdk-go/object/id"
	"github.com/nspcc-dev/neofs-sdk-go/user"
	"github.com/nspcc-dev/neofs-sdk-go/version"
	"go.uber.org/zap"
	"verif/simkit"
)

func TestVerif(t *testing.T) {
	simkit.Main(t, propC26())
	simkit.Main(t, propC27())
	simkit.Main(t, propC47p())
}

// ---------------------------------------------------------------------------------------
// process-wide constants (never logged)

var (
	zzKey    *ecdsa.PrivateKey
	zzSigner neofscrypto.Signer
	zzOwner  user.ID
	zzVer    = version.Current()
)

func init() {
	k, err := ecdsa.GenerateKey(elliptic.P256(), rand.Reader)
	if err != nil {
		panic(err)
	}
	zzKey = k
	zzSigner = neofsecdsa.Signer(*k)
	zzOwner = user.NewFromScriptHash(util.Uint160{1, 2, 3})
}

// ---------------------------------------------------------------------------------------
// behaviours of a simulated node

const (
	bOK = iota // answers truthfully
	bNotFound  // "not found" for everything
	bMaint     // answers with the maintenance status
	bErr       // generic error
	bTimeout   // never answers: returns when the caller's deadline fires on the fake clock
	bSlow      // answers truthfully after half of the caller's timeout
	bKinds
)

var headName = [...]string{"ok", "not-found", "maintenance", "error", "timeout", "slow"}

const (
	pOK      = iota // stores and acknowledges
	pFail           // refuses, does not store
	pTimeout        // never answers, does not store
	pMaint          // maintenance status, does not store
	pAckLost        // stores, but the acknowledgement is lost (error to the caller)
)

var putName = [...]string{"ok", "fail", "timeout", "maintenance", "ack-lost"}

type simObj struct {
	name    string
	addr    oid.Address
	typ     object.Type
	hdr     object.Object // without payload
	payload []byte
	bin     []byte
	isPart  bool
	rule    int
	part    int
	parent  oid.ID
	pl      *placement
}

// placement of one object (for an EC part: of its parent): node indexes, in policy order.
type placement struct {
	repLists [][]int
	copies   []uint
	ecLists  [][]int
	ecRules  []iec.Rule
}

func (pl *placement) listed(n int) bool {
	for _, l := range pl.repLists {
		if inList(l, n) {
			return true
		}
	}
	for _, l := range pl.ecLists {
		if inList(l, n) {
			return true
		}
	}
	return false
}

func inList(l []int, n int) bool {
	for _, x := range l {
		if x == n {
			return true
		}
	}
	return false
}

type simNode struct {
	idx     int
	key     []byte
	store   map[oid.Address]*simObj
	shards  map[oid.Address][]string // local shard ids of a stored object (the node's own view)
	head    int
	put     int
	flagged bool // maintenance state in the network map (such a node also answers "maintenance")
}

type nodeObj struct {
	n int
	a oid.Address
}

// window = what was observable while ONE object was processed by ONE policer.
type window struct {
	obj       *simObj
	flagged   map[int]bool     // nodes handed to the policer with the maintenance state
	headOK    map[nodeObj]bool // header of a really read from n
	ack       map[nodeObj]bool // replication of a to n acknowledged through TaskResult
	maint     map[int]bool     // n answered "maintenance" (or was flagged)
	unreach   map[int]bool     // n answered with an error / timed out
	notFound  map[int]bool     // n answered "not found"
	replFail  bool
	replOK    bool
	removed   bool
	redundant bool
	tasks     int
}

func newWindow(o *simObj) *window {
	return &window{obj: o, flagged: map[int]bool{}, headOK: map[nodeObj]bool{}, ack: map[nodeObj]bool{}, maint: map[int]bool{}, unreach: map[int]bool{}, notFound: map[int]bool{}}
}

type world struct {
	r      *simkit.R
	mu     sync.Mutex
	nodes  []*simNode
	cnr    cid.ID
	objs   []*simObj
	byAddr map[oid.Address]*simObj
	plByID map[oid.ID]*placement
	salt   uint32

	headTimeout time.Duration
	putTimeout  time.Duration
	faultsOn    bool
	flipPct     int // chance (per remote call) that the called node changes its behaviour first
	localErrPct int // chance that a local storage call of the policer / replicator fails

	checkRemovals bool // C26 oracle at Delete / DeleteRedundantCopies
	checkAcct     bool // C27 replicator accounting oracle

	win      map[int]*window
	fired    int
	removals int
	putCalls int // remote replication calls that reached a simulated node + local puts by the replicator
	acks     int
	newObjs  int
}

func newWorld(r *simkit.R, n int) *world {
	w := &world{r: r, byAddr: map[oid.Address]*simObj{}, plByID: map[oid.ID]*placement{}, win: map[int]*window{}}
	w.salt = r.U32() % 1000
	for i := range w.cnr {
		w.cnr[i] = byte(7*i + 1)
	}
	for i := 0; i < n; i++ {
		key := make([]byte, 33)
		key[0] = 2
		copy(key[1:], fmt.Sprintf("verif-node-%02d", i))
		w.nodes = append(w.nodes, &simNode{idx: i, key: key, store: map[oid.Address]*simObj{}, shards: map[oid.Address][]string{}})
	}
	return w
}

func (w *world) fire(kind string) {
	w.fired++
	w.r.Fired(kind)
}

func (w *world) nodeInfo(i int) netmap.NodeInfo {
	var ni netmap.NodeInfo
	ni.SetPublicKey(w.nodes[i].key)
	ni.SetNetworkEndpoints(fmt.Sprintf("/dns4/n%d/tcp/8080", i))
	if w.nodes[i].flagged {
		ni.SetMaintenance()
	} else {
		ni.SetOnline()
	}
	return ni
}

func (w *world) nodeOf(ni netmap.NodeInfo) *simNode {
	k := ni.PublicKey()
	for _, n := range w.nodes {
		if bytes.Equal(n.key, k) {
			return n
		}
	}
	return nil
}

// ---------------------------------------------------------------------------------------
// objects

func (w *world) mkObject(typ object.Type, tag string) object.Object {
	var o object.Object
	o.SetVersion(&zzVer)
	o.SetContainerID(w.cnr)
	o.SetOwner(zzOwner)
	o.SetType(typ)
	p := []byte(fmt.Sprintf("payload %d %s ........................", w.salt, tag))
	o.SetPayload(p)
	o.SetPayloadSize(uint64(len(p)))
	o.CalculateAndSetPayloadChecksum()
	if err := o.CalculateAndSetID(); err != nil {
		panic(err)
	}
	return o
}

func (w *world) register(name string, o object.Object, pl *placement) *simObj {
	so := &simObj{name: name, addr: oid.NewAddress(o.GetContainerID(), o.GetID()), typ: o.Type(), payload: o.Payload(), bin: o.Marshal(), rule: -1, part: -1, pl: pl}
	so.hdr = *o.CutPayload()
	if pi, err := iec.GetPartInfo(o); err == nil && pi.RuleIndex >= 0 {
		so.isPart, so.rule, so.part = true, pi.RuleIndex, pi.Index
		so.parent = o.GetParentID()
		if so.pl == nil {
			so.pl = w.plByID[so.parent]
		}
	}
	w.objs = append(w.objs, so)
	w.byAddr[so.addr] = so
	if !so.isPart {
		w.plByID[o.GetID()] = pl
	}
	return so
}

// newPlain creates a non-EC object of the given type.
func (w *world) newPlain(typ object.Type, pl *placement) *simObj {
	i := len(w.objs)
	return w.register(fmt.Sprintf("o%d", i), w.mkObject(typ, strconv.Itoa(i)), pl)
}

// newECFamily creates a parent (never stored as such) and all its parts for EC rule k.
func (w *world) newECFamily(k int, pl *placement) []*simObj {
	i := len(w.objs)
	parent := w.mkObject(object.TypeRegular, "parent"+strconv.Itoa(i))
	w.plByID[parent.GetID()] = pl
	rule := pl.ecRules[k]
	parts, _, err := iec.Encode(rule, parent.Payload())
	if err != nil {
		panic(err)
	}
	parentHdr := *parent.CutPayload()
	var res []*simObj
	for j := range parts {
		po, err := iec.FormObjectForECPart(zzSigner, parentHdr, parts[j], iec.PartInfo{RuleIndex: k, Index: j})
		if err != nil {
			panic(err)
		}
		res = append(res, w.register(fmt.Sprintf("o%d.r%dp%d", i, k, j), po, pl))
	}
	return res
}

func (w *world) awa(owner int, o *simObj) objectcore.AddressWithAttributes {
	a := objectcore.AddressWithAttributes{Address: o.addr, Type: o.typ, Attributes: []string{"", "", ""}}
	if o.isPart {
		a.Attributes = []string{strconv.Itoa(o.rule), strconv.Itoa(o.part), string(o.parent[:])}
	}
	a.ShardIDs = append([]string(nil), w.nodes[owner].shards[o.addr]...)
	if len(a.ShardIDs) == 0 {
		a.ShardIDs = []string{"s0"}
	}
	return a
}

// lookup resolves a HEAD/RANGE target on node n: by address, or (xs given) the EC part of
// parent addr with the requested rule / part index.
func (n *simNode) lookup(addr oid.Address, xs []string) *simObj {
	if len(xs) == 0 {
		return n.store[addr]
	}
	var rule, part = "", ""
	for i := 0; i+1 < len(xs); i += 2 {
		switch xs[i] {
		case iec.AttributeRuleIdx:
			rule = xs[i+1]
		case iec.AttributePartIdx:
			part = xs[i+1]
		}
	}
	var found *simObj
	for _, o := range n.store {
		if o.isPart && o.parent == addr.Object() && o.addr.Container() == addr.Container() && strconv.Itoa(o.rule) == rule && strconv.Itoa(o.part) == part {
			if found == nil || o.addr.Compare(found.addr) < 0 {
				found = o
			}
		}
	}
	return found
}

func (w *world) name(addr oid.Address, xs []string) string {
	if len(xs) == 0 {
		if o := w.byAddr[addr]; o != nil {
			return o.name
		}
		return "unknown-object"
	}
	for _, o := range w.objs {
		if o.isPart && o.parent == addr.Object() {
			return strings.SplitN(o.name, ".", 2)[0] + ".parent" + fmt.Sprint(xs)
		}
	}
	return "unknown-parent"
}

// holders returns the sorted indexes of the nodes whose store contains addr.
func (w *world) holders(addr oid.Address) []int {
	var res []int
	for _, n := range w.nodes {
		if n.store[addr] != nil {
			res = append(res, n.idx)
		}
	}
	return res
}

// ---------------------------------------------------------------------------------------
// behaviour drawing (a zero draw = healthy)

func (w *world) drawBehaviour(n *simNode) {
	n.flagged = false
	n.head = w.r.Weighted(10, 2, 2, 2, 1, 1)
	n.put = w.r.Weighted(8, 3, 1, 1, 1)
	if w.r.Bool(10) {
		n.flagged = true
		n.head, n.put = bMaint, pMaint
	}
}

func (w *world) heal() {
	for _, n := range w.nodes {
		n.flagged, n.head, n.put = false, bOK, pOK
	}
}

func (w *world) behaviours() string {
	var sb strings.Builder
	for _, n := range w.nodes {
		fmt.Fprintf(&sb, " n%d=%s/%s", n.idx, headName[n.head], putName[n.put])
		if n.flagged {
			sb.WriteString("(netmap:maintenance)")
		}
	}
	return sb.String()
}

// maybeFlip: a node may change its answer kind in the middle of a processing (never its
// network map state: the lists were already handed out).
func (w *world) maybeFlip(n *simNode) {
	if !w.faultsOn || w.flipPct == 0 || n.flagged {
		return
	}
	if w.r.Bool(w.flipPct) {
		n.head = w.r.Weighted(10, 2, 2, 2, 1, 1)
		n.put = w.r.Weighted(8, 3, 1, 1, 1)
		w.r.Logf("    n%d changes behaviour to %s/%s", n.idx, headName[n.head], putName[n.put])
	}
}

var (
	errSimTransport = errors.New("simulated transport error")
	errSimPut       = errors.New("simulated put refusal")
	errSimAckLost   = errors.New("simulated connection loss after the object was stored")
	errSimLocal     = errors.New("simulated local storage error")
)

func waitDeadline(ctx context.Context) error {
	if _, ok := ctx.Deadline(); !ok {
		return errors.New("simulated node never answers and the caller set no deadline")
	}
	<-ctx.Done()
	return ctx.Err()
}

// ---------------------------------------------------------------------------------------
// remote HEAD / RANGE connections of one policer

type simConns struct {
	w     *world
	owner int
}

// answer runs the behaviour of node n for a read call; returns the object (nil + error otherwise).
func (c *simConns) answer(ctx context.Context, op string, node netmap.NodeInfo, addr oid.Address, xs []string) (*simObj, error) {
	w := c.w
	n := w.nodeOf(node)
	if n == nil {
		w.r.Report("harness", "call to a node outside the simulated cluster", "%s", op)
		return nil, errSimTransport
	}
	if n.idx == c.owner {
		w.r.Probe("remote call addressed to the local node")
	}
	w.mu.Lock()
	w.maybeFlip(n)
	b := n.head
	win := w.win[c.owner]
	w.mu.Unlock()
	what := w.name(addr, xs)
	res := func(s string) { w.r.Logf("    n%d %s n%d %s -> %s", c.owner, op, n.idx, what, s) }
	switch b {
	case bTimeout:
		err := waitDeadline(ctx)
		w.fire(op + ": timeout")
		if win != nil {
			win.unreach[n.idx] = true
		}
		res("timeout")
		return nil, err
	case bSlow:
		w.fire(op + ": slow")
		select {
		case <-time.After(w.headTimeout / 2):
		case <-ctx.Done():
			res("gave up on a slow node")
			if win != nil {
				win.unreach[n.idx] = true
			}
			return nil, ctx.Err()
		}
	case bMaint:
		w.fire(op + ": maintenance")
		if win != nil {
			win.maint[n.idx] = true
		}
		res("maintenance")
		return nil, apistatus.ErrNodeUnderMaintenance
	case bErr:
		w.fire(op + ": error")
		if win != nil {
			win.unreach[n.idx] = true
		}
		res("error")
		return nil, errSimTransport
	case bNotFound:
		if n.lookup(addr, xs) != nil {
			w.fire(op + ": not-found although stored")
		}
		if win != nil && len(xs) == 0 {
			win.notFound[n.idx] = true
		}
		res("not found")
		return nil, apistatus.ErrObjectNotFound
	}
	o := n.lookup(addr, xs)
	if o == nil {
		if win != nil && len(xs) == 0 {
			win.notFound[n.idx] = true
		}
		res("not found")
		return nil, apistatus.ErrObjectNotFound
	}
	if win != nil && op == "HEAD" {
		win.headOK[nodeObj{n.idx, o.addr}] = true
	}
	res("ok")
	return o, nil
}

func (c *simConns) headObject(ctx context.Context, node netmap.NodeInfo, addr oid.Address, _ bool, xs []string) (object.Object, error) {
	o, err := c.answer(ctx, "HEAD", node, addr, xs)
	if err != nil {
		return object.Object{}, err
	}
	return o.hdr, nil
}

func (c *simConns) GetRange(ctx context.Context, node netmap.NodeInfo, cnr cid.ID, id oid.ID, off, ln uint64, xs []string) (io.ReadCloser, error) {
	o, err := c.answer(ctx, "RANGE", node, oid.NewAddress(cnr, id), xs)
	if err != nil {
		return nil, err
	}
	return io.NopCloser(bytes.NewReader(cut(o.payload, off, ln))), nil
}

func cut(p []byte, off, ln uint64) []byte {
	if off > uint64(len(p)) {
		return nil
	}
	p = p[off:]
	if ln != 0 && ln < uint64(len(p)) {
		p = p[:ln]
	}
	return p
}

// ---------------------------------------------------------------------------------------
// API client constructor behind putsvc.RemoteSender (the replicator's transport)

type simCons struct {
	w     *world
	owner int
}

func (c *simCons) Get(_ context.Context, node netmap.NodeInfo) (clientcore.MultiAddressClient, error) {
	n := c.w.nodeOf(node)
	if n == nil {
		c.w.r.Report("harness", "client for a node outside the simulated cluster", "")
		return nil, errSimTransport
	}
	return &simClient{w: c.w, owner: c.owner, n: n}, nil
}

type simClient struct {
	clientcore.MultiAddressClient // nil: any other call panics
	w                             *world
	owner                         int
	n                             *simNode
}

func (c *simClient) ReplicateObject(ctx context.Context, id oid.ID, src io.ReadSeeker, _ neofscrypto.Signer, _ bool) (*neofscrypto.Signature, error) {
	w, n := c.w, c.n
	w.mu.Lock()
	w.maybeFlip(n)
	b := n.put
	win := w.win[c.owner]
	w.putCalls++
	w.mu.Unlock()
	if _, err := src.Seek(0, io.SeekStart); err != nil {
		return nil, err
	}
	bin, err := io.ReadAll(src)
	if err != nil {
		return nil, err
	}
	o := w.objectFromBinary(bin, id)
	if o == nil {
		w.r.Report("harness", "replicated binary is not a valid object", "")
		return nil, errSimPut
	}
	res := func(s string) { w.r.Logf("    n%d PUT %s to n%d -> %s", c.owner, o.name, n.idx, s) }
	failed := func() {
		if win != nil {
			win.replFail = true
		}
	}
	switch b {
	case pTimeout:
		err := waitDeadline(ctx)
		w.fire("PUT: timeout")
		failed()
		res("timeout")
		return nil, err
	case pFail:
		w.fire("PUT: refused")
		failed()
		res("refused")
		return nil, errSimPut
	case pMaint:
		w.fire("PUT: maintenance")
		failed()
		if win != nil {
			win.maint[n.idx] = true
		}
		res("maintenance")
		return nil, apistatus.ErrNodeUnderMaintenance
	case pAckLost:
		w.fire("PUT: stored but acknowledgement lost")
		failed()
		w.storeOn(n, o)
		res("stored, acknowledgement lost")
		return nil, errSimAckLost
	}
	w.storeOn(n, o)
	res("stored")
	return nil, nil
}

func (w *world) storeOn(n *simNode, o *simObj) {
	w.mu.Lock()
	n.store[o.addr] = o
	if len(n.shards[o.addr]) == 0 {
		n.shards[o.addr] = []string{"s0"}
	}
	w.mu.Unlock()
}

// objectFromBinary finds (or registers: a re-created EC part) the object with this binary.
func (w *world) objectFromBinary(bin []byte, id oid.ID) *simObj {
	var o object.Object
	if err := o.Unmarshal(bin); err != nil {
		return nil
	}
	addr := oid.NewAddress(o.GetContainerID(), id)
	w.mu.Lock()
	defer w.mu.Unlock()
	if so := w.byAddr[addr]; so != nil {
		return so
	}
	w.newObjs++
	w.r.Probe("replicated object not known before (re-created EC part with another id)")
	return w.register(fmt.Sprintf("new%d", w.newObjs), o, nil)
}

// ---------------------------------------------------------------------------------------
// local storage of one policer / replicator

type simLocal struct {
	w     *world
	owner int
	// C27: ListWithCursor is a gate of the scheduler
	gate      chan struct{}
	parked    bool
	lastEOL   bool
	lastCur   *engine.Cursor
	firstSkip int
	calls     int
}

func (s *simLocal) me() *simNode { return s.w.nodes[s.owner] }

func (s *simLocal) localFault(op string) bool {
	w := s.w
	if w.faultsOn && w.localErrPct > 0 && w.r.Bool(w.localErrPct) {
		w.fire("local " + op + ": error")
		return true
	}
	return false
}

func (s *simLocal) Delete(_ context.Context, addr oid.Address, mark engine.GarbageMark) error {
	w := s.w
	w.mu.Lock()
	defer w.mu.Unlock()
	w.removals++
	nm := "unknown-object"
	if o := w.byAddr[addr]; o != nil {
		nm = o.name
	}
	w.r.Logf("    n%d local DELETE %s mark=%d", s.owner, nm, mark)
	if win := w.win[s.owner]; win != nil {
		win.removed = true
	}
	if w.checkRemovals {
		w.checkRemoval(s.owner, addr)
	}
	if s.localFault("delete") {
		return errSimLocal
	}
	delete(s.me().store, addr)
	delete(s.me().shards, addr)
	return nil
}

func (s *simLocal) DeleteRedundantCopies(_ context.Context, addr oid.Address, ids []string) error {
	w := s.w
	w.mu.Lock()
	defer w.mu.Unlock()
	o := w.byAddr[addr]
	nm := "unknown-object"
	if o != nil {
		nm = o.name
	}
	w.r.Logf("    n%d local DELETE-REDUNDANT-SHARD-COPIES %s %v", s.owner, nm, ids)
	if win := w.win[s.owner]; win != nil {
		win.redundant = true
	}
	if w.checkRemovals {
		have := s.me().shards[addr]
		switch {
		case o == nil || s.me().store[addr] == nil:
			w.r.Report("policer-delete", "shard copies of an object the node does not store are removed", "%s", nm)
		case (o.typ == object.TypeLock || o.typ == object.TypeLink) && o.pl != nil && o.pl.listed(s.owner):
			w.r.Report("policer-delete", "shard copy of a LOCK/LINK object removed from a container node", "%s (%s) held on shards %v: DeleteRedundantCopies(%v)", nm, o.typ, have, ids)
		case len(ids) < 2:
			w.r.Probe("DeleteRedundantCopies called with fewer than two shards")
		}
	}
	if s.localFault("delete-redundant") {
		return errSimLocal
	}
	if len(ids) >= 2 {
		s.me().shards[addr] = ids[:1]
	}
	return nil
}

func (s *simLocal) Put(_ context.Context, o *object.Object, bin []byte) error {
	w := s.w
	so := w.objectFromBinary(bin, o.GetID())
	if so == nil {
		return errSimLocal
	}
	w.mu.Lock()
	w.putCalls++
	w.mu.Unlock()
	if s.localFault("put") {
		w.r.Logf("    n%d local PUT %s -> error", s.owner, so.name)
		return errSimLocal
	}
	w.storeOn(s.me(), so)
	w.r.Logf("    n%d local PUT %s -> stored", s.owner, so.name)
	return nil
}

func (s *simLocal) GetBytes(_ context.Context, addr oid.Address) ([]byte, error) {
	o := s.me().store[addr]
	if o == nil {
		return nil, apistatus.ErrObjectNotFound
	}
	if s.localFault("read") {
		s.w.r.Logf("    n%d local READ %s -> error", s.owner, o.name)
		return nil, errSimLocal
	}
	return o.bin, nil
}

func (s *simLocal) Head(_ context.Context, addr oid.Address, _ bool) (*object.Object, error) {
	if o := s.me().store[addr]; o != nil {
		h := o.hdr
		return &h, nil
	}
	// parent of locally stored EC parts
	var best *simObj
	for _, o := range s.me().store {
		if o.isPart && o.parent == addr.Object() && (best == nil || o.addr.Compare(best.addr) < 0) {
			best = o
		}
	}
	if best != nil {
		if ph := best.hdr.Parent(); ph != nil {
			h := *ph
			return &h, nil
		}
	}
	return nil, apistatus.ErrObjectNotFound
}

func (s *simLocal) HeadECPart(_ context.Context, cnr cid.ID, parent oid.ID, pi iec.PartInfo) (object.Object, error) {
	o := s.me().lookup(oid.NewAddress(cnr, parent), []string{iec.AttributeRuleIdx, strconv.Itoa(pi.RuleIndex), iec.AttributePartIdx, strconv.Itoa(pi.Index)})
	if o == nil {
		return object.Object{}, apistatus.ErrObjectNotFound
	}
	return o.hdr, nil
}

func (s *simLocal) GetRange(_ context.Context, addr oid.Address, off, ln uint64) ([]byte, error) {
	o := s.me().store[addr]
	if o == nil {
		return nil, apistatus.ErrObjectNotFound
	}
	return cut(o.payload, off, ln), nil
}

// ListWithCursor: see zz_verif_policer27_test.go (C27 drives the real Run loop through it).

// ---------------------------------------------------------------------------------------
// network of one policer

type simNet struct {
	w        *world
	owner    int
	inNetmap bool
}

func (x *simNet) IsLocalNodeInNetmap() bool { return x.inNetmap }

func (x *simNet) IsLocalNodePublicKey(k []byte) bool { return bytes.Equal(k, x.w.nodes[x.owner].key) }

func (x *simNet) GetNodesForObject(addr oid.Address) ([][]netmap.NodeInfo, []uint, []iec.Rule, error) {
	w := x.w
	w.mu.Lock()
	defer w.mu.Unlock()
	pl := w.plByID[addr.Object()]
	if pl == nil {
		w.r.Report("harness", "placement requested for an unknown object", "")
		return nil, nil, nil, errors.New("no placement")
	}
	win := w.win[x.owner]
	conv := func(l []int) []netmap.NodeInfo {
		res := make([]netmap.NodeInfo, len(l))
		for i, n := range l {
			res[i] = w.nodeInfo(n)
			if win != nil && w.nodes[n].flagged {
				win.flagged[n] = true
				win.maint[n] = true
			}
		}
		return res
	}
	var lists [][]netmap.NodeInfo
	for _, l := range pl.repLists {
		lists = append(lists, conv(l))
	}
	for _, l := range pl.ecLists {
		lists = append(lists, conv(l))
	}
	return lists, append([]uint(nil), pl.copies...), append([]iec.Rule(nil), pl.ecRules...), nil
}

// ---------------------------------------------------------------------------------------
// recording wrapper around the REAL replicator (the policer's replicatorIface)

type recReplicator struct {
	w     *world
	owner int
	real  *replicator.Replicator
}

type recResult struct {
	x     *recReplicator
	inner replicator.TaskResult
	addr  oid.Address
	q     uint32
	nodes []netmap.NodeInfo
	seen  map[int]bool
	n     uint32
}

func (x *recReplicator) HandleTask(ctx context.Context, task replicator.Task, res replicator.TaskResult) {
	w := x.w
	rr := &recResult{x: x, inner: res, addr: replicator.ZZVerifTaskAddress(task), q: replicator.ZZVerifTaskQuantity(task), nodes: task.Nodes(), seen: map[int]bool{}}
	var ns []string
	for _, ni := range rr.nodes {
		if n := w.nodeOf(ni); n != nil {
			ns = append(ns, fmt.Sprintf("n%d", n.idx))
		}
	}
	nm := "unknown-object"
	if o := w.byAddr[rr.addr]; o != nil {
		nm = o.name
	}
	w.mu.Lock()
	if win := w.win[x.owner]; win != nil {
		win.tasks++
	}
	w.mu.Unlock()
	w.r.Logf("    n%d replication task %s copies=%d candidates=%v", x.owner, nm, rr.q, ns)
	x.real.HandleTask(ctx, task, rr)
	w.r.Logf("    n%d replication task %s done: %d acknowledged", x.owner, nm, rr.n)
}

func (rr *recResult) SubmitSuccessfulReplication(ni netmap.NodeInfo) {
	w := rr.x.w
	n := w.nodeOf(ni)
	w.mu.Lock()
	rr.n++
	w.acks++
	stored := n != nil && n.store[rr.addr] != nil
	if win := w.win[rr.x.owner]; win != nil && n != nil {
		win.ack[nodeObj{n.idx, rr.addr}] = true
		win.replOK = true
	}
	w.mu.Unlock()
	if w.checkAcct {
		asked := false
		for _, c := range rr.nodes {
			if bytes.Equal(c.PublicKey(), ni.PublicKey()) {
				asked = true
			}
		}
		switch {
		case n == nil || !asked:
			w.r.Report("replicator-accounting", "success reported for a node that was not in the task", "")
		case !stored:
			w.r.Report("replicator-accounting", "success reported for a node whose store did not receive the object", "task of n%d: success for n%d, which does not hold the object", rr.x.owner, n.idx)
		case rr.seen[n.idx]:
			w.r.Report("replicator-accounting", "success reported twice for one node", "n%d", n.idx)
		case rr.n > rr.q:
			w.r.Report("replicator-accounting", "more successful copies reported than the task asked for", "task of n%d asked for %d copies, %d successes reported", rr.x.owner, rr.q, rr.n)
		}
	}
	if n != nil {
		rr.seen[n.idx] = true
	}
	// the policer's own result handlers panic when they are told about more copies than they asked
	// for; that panic would take the process down from a policer goroutine: reported as a violation
	defer func() {
		if x := recover(); x != nil {
			w.r.Report("replicator-accounting", "more successful copies reported than the task asked for", "the policer's task result handler panicked (%v): task of n%d asked for %d copies, %d successes reported", x, rr.x.owner, rr.q, rr.n)
		}
	}()
	rr.inner.SubmitSuccessfulReplication(ni)
}

// ---------------------------------------------------------------------------------------
// a policer instance of node `owner`

type pnode struct {
	owner int
	p     *Policer
	st    *simLocal
	net   *simNet
}

func (w *world) newPolicer(owner int, inNetmap bool, batch uint32) *pnode {
	net := &simNet{w: w, owner: owner, inNetmap: inNetmap}
	st := &simLocal{w: w, owner: owner}
	eng, unreg := replicator.ZZVerifRegisterStorage(st)
	w.r.OnCleanup(unreg)
	ks := objutil.NewKeyStorage(zzKey, nil, nil)
	rep := replicator.New(
		replicator.WithLogger(zap.NewNop()),
		replicator.WithPutTimeout(w.putTimeout),
		replicator.WithRemoteSender(putsvc.NewRemoteSender(ks, &simCons{w: w, owner: owner})),
		replicator.WithLocalStorage(eng),
		replicator.WithLocalNodeKey(net),
	)
	p := New(zzSigner,
		WithHeadTimeout(w.headTimeout),
		WithLogger(zap.NewNop()),
		WithNetwork(net),
		WithReplicationCooldown(time.Second),
		WithObjectBatchSize(batch),
	)
	p.localStorage = st
	p.apiConns = &simConns{w: w, owner: owner}
	p.replicator = &recReplicator{w: w, owner: owner, real: rep}
	return &pnode{owner: owner, p: p, st: st, net: net}
}

// ---------------------------------------------------------------------------------------
// C26 oracle: written from the statement, over what was observable during the processing

func typeWord(o *simObj) string {
	if o.isPart {
		return "EC part"
	}
	return o.typ.String() + " object"
}

// confirmed: n (not the local node, not in maintenance) is a confirmed holder of a: its header
// was really read from n during this processing, or a replication to n was acknowledged and
// n's store really contains it now.
func (w *world) confirmed(win *window, owner, n int, a oid.Address) bool {
	if n == owner || win.flagged[n] || w.nodes[n].flagged {
		return false
	}
	k := nodeObj{n, a}
	return win.headOK[k] || (win.ack[k] && w.nodes[n].store[a] != nil)
}

// shape describes, for the violation signature, what the missing confirmations (shortfall > 0)
// could have been mistaken for: the kinds of the not confirmed nodes of the list.
func (w *world) shape(win *window, owner int, a oid.Address, list []int, shortfall int) string {
	m, u, nf := 0, 0, 0
	uAny := false
	seen := map[int]bool{}
	for _, n := range list {
		if seen[n] || n == owner {
			continue
		}
		seen[n] = true
		if win.notFound[n] {
			nf++ // even if a replication made it a confirmed holder afterwards
		}
		if win.unreach[n] {
			uAny = true // even if it answered differently on another call
		}
		if w.confirmed(win, owner, n, a) {
			continue
		}
		switch {
		case win.maint[n]:
			m++
		case win.unreach[n]:
			u++
		}
	}
	var fl []string
	switch {
	case m >= shortfall:
		fl = append(fl, "shortfall covered by nodes under maintenance")
	case u >= shortfall:
		fl = append(fl, "shortfall covered by unreachable nodes")
	case m+u >= shortfall:
		fl = append(fl, "shortfall covered by nodes under maintenance and unreachable nodes")
	default:
		fl = append(fl, "shortfall not covered by maintenance or unreachable nodes")
	}
	if nf > 0 {
		fl = append(fl, "a listed node had no copy")
	}
	if uAny && m >= shortfall {
		fl = append(fl, "a listed node was unreachable")
	}
	if win.replFail {
		fl = append(fl, "a replication failed")
	}
	return " [" + strings.Join(fl, "; ") + "]"
}

// checkRemoval is called (w.mu held) when the policer of `owner` asks its local storage to
// remove addr.
func (w *world) checkRemoval(owner int, addr oid.Address) {
	r := w.r
	o := w.byAddr[addr]
	win := w.win[owner]
	if o == nil || win == nil || win.obj != o {
		r.Report("policer-delete", "removal of an object other than the one being processed", "")
		return
	}
	pl := o.pl
	var all []int
	for i := range w.nodes {
		if pl.listed(i) {
			all = append(all, i)
		}
	}
	inContainer := pl.listed(owner)
	describe := func(list []int) string {
		var sb strings.Builder
		for _, n := range list {
			st := "-"
			switch {
			case n == owner:
				st = "LOCAL"
			case w.confirmed(win, owner, n, addr):
				st = "confirmed"
			case win.maint[n]:
				st = "maintenance"
			case win.unreach[n]:
				st = "unreachable"
			case win.notFound[n]:
				st = "no-copy"
			}
			fmt.Fprintf(&sb, " n%d:%s", n, st)
		}
		return sb.String()
	}
	count := func(list []int) int {
		c := 0
		seen := map[int]bool{}
		for _, n := range list {
			if !seen[n] && w.confirmed(win, owner, n, addr) {
				c++
			}
			seen[n] = true
		}
		return c
	}
	if !inContainer {
		r.Probe("removal by a node outside the container")
	}

	if o.isPart {
		r.Probe("EC part removal decided")
		list := pl.ecLists[o.rule]
		if count(list) < 1 {
			where := "its rule lists the local node"
			if !inList(list, owner) {
				where = "local node not in its rule's list"
			}
			r.Report("policer-delete", "EC part removed without a confirmed holder among its rule's nodes ("+where+")"+w.shape(win, owner, addr, list, 1),
				"%s of rule %d/%d removed from n%d; nodes of the rule:%s", o.name, pl.ecRules[o.rule].DataPartNum, pl.ecRules[o.rule].ParityPartNum, owner, describe(list))
		}
		return
	}

	if (o.typ == object.TypeLock || o.typ == object.TypeLink) && inContainer {
		r.Report("policer-delete", o.typ.String()+" object removed from a container node", "%s removed from n%d; container nodes:%s", o.name, owner, describe(all))
		return
	}
	listedInREP := false
	exact := false
	for i, list := range pl.repLists {
		if !inList(list, owner) {
			continue
		}
		listedInREP = true
		need := int(pl.copies[i])
		got := count(list)
		if got < need {
			r.Report("policer-delete", typeWord(o)+" removed: a REP rule listing the local node has fewer confirmed other holders than its copies number"+w.shape(win, owner, addr, list, need-got),
				"%s removed from n%d; REP rule #%d needs %d copies, confirmed other holders: %d; nodes of the rule:%s", o.name, owner, i, need, got, describe(list))
			return
		}
		if got == need {
			exact = true
		}
	}
	if listedInREP {
		r.Probe("removal by a container node with enough confirmed holders in every rule")
	}
	if exact {
		r.Probe("removal allowed with exactly the minimum confirmations")
	}
	if !listedInREP {
		// The statement's condition is vacuous here; still, maintenance / unreachable nodes never
		// count as confirmation for removal: with no confirmed holder at all the removal rests on
		// nothing else.
		if count(all) == 0 {
			where := "local node outside the container"
			if inContainer {
				where = "local node listed by EC rules only"
			}
			r.Report("policer-delete", typeWord(o)+" removed without any confirmed holder ("+where+")"+w.shape(win, owner, addr, all, 1),
				"%s removed from n%d; container nodes:%s", o.name, owner, describe(all))
		}
	}
}

// ---------------------------------------------------------------------------------------
// generation

type policyTpl struct {
	copies  []uint
	ecRules []iec.Rule
}

// drawPlacement draws the node lists of one object for the policy template; `eligible` are the
// node indexes that may appear.
func (w *world) drawPlacement(t *policyTpl, eligible []int, maxLen int) *placement {
	r := w.r
	pl := &placement{copies: append([]uint(nil), t.copies...), ecRules: append([]iec.Rule(nil), t.ecRules...)}
	pick := func(ln int) []int {
		perm := r.Perm(len(eligible))
		res := make([]int, 0, ln)
		for _, i := range perm[:ln] {
			res = append(res, eligible[i])
		}
		return res
	}
	for _, c := range t.copies {
		ln := int(c) + r.Intn(3)
		ln = min(ln, len(eligible), max(maxLen, int(c)))
		pl.repLists = append(pl.repLists, pick(ln))
	}
	for _, er := range t.ecRules {
		total := int(er.DataPartNum + er.ParityPartNum)
		ln := total + r.Intn(total+1)
		ln = min(ln, len(eligible))
		pl.ecLists = append(pl.ecLists, pick(ln))
	}
	return pl
}

func (pl *placement) String() string {
	var sb strings.Builder
	for i, l := range pl.repLists {
		fmt.Fprintf(&sb, " REP%d%v", pl.copies[i], l)
	}
	for i, l := range pl.ecLists {
		fmt.Fprintf(&sb, " EC%d/%d%v", pl.ecRules[i].DataPartNum, pl.ecRules[i].ParityPartNum, l)
	}
	return sb.String()
}

func propC26() *simkit.Property {
	return &simkit.Property{
		ID: "C26", Level: "exploration", Bubble: true, TapeLimit: 4000,
		Rule: "each run = one simulated cluster (3-8 nodes with in-memory stores), one generated storage policy (1-3 REP rules with 1-4 copies and/or 1-2 EC rules d/1, node lists of 1-5 (EC: up to 2x parts) nodes drawn per object, overlapping between rules, the local node anywhere in them, outside the container, or outside the network map) and 1-4 local objects (REGULAR / TOMBSTONE / LOCK / LINK, EC parts with their sibling parts spread over the cluster, 1-3 local shard copies) processed 1-2 times each by the real policer.processObject with the real Replicator.HandleTask behind it; every remote node answers HEAD/RANGE as ok / not-found / maintenance status / error / timeout (on the simulated clock) / slow, may carry the maintenance state in the network map, accepts / refuses / times out / loses the acknowledgement of replicated objects, and may change behaviour between and inside processings; the local storage records Delete / DeleteRedundantCopies and may fail. At every recorded removal the oracle recomputes, from the observable history of this processing only, the confirmed holders (header really read from the node, or replication acknowledged and the node's store really holds it; never nodes under maintenance or unreachable) and demands: for every REP rule listing the local node >= copies confirmed other holders in that rule's list; for an EC part >= 1 confirmed holder among its rule's nodes; LOCK/LINK never removed (nor their shard copies) while the local node is a container node; with no REP rule listing the local node at least one confirmed holder somewhere. distinct = trace digest; non-trivial = >=1 fault fired or >=1 removal decision reached",
		Run:  runC26,
		Assumptions: []string{
			"a node flagged as under maintenance in the network map also answers calls with the maintenance status (the converse is not assumed: a node may answer 'maintenance' before the map says so)",
			"simulated nodes never lie: 'ok' HEAD only if the store holds the object, an acknowledged put is stored (a stored put may lose its acknowledgement)",
			"EC rules are generated with one parity part (at most one part is re-created at a time, which keeps the run single-threaded); malformed local objects (EC attributes without EC rule, rule/part index out of range) and removed containers are not generated",
			"where no REP rule lists the local node the statement's condition is vacuous; the check then only demands that at least one confirmed (non-maintenance, reachable) holder exists, reported under its own signature",
		},
		Components: map[string]string{
			"policer.processObject / processNodes / processECPart / processECPartByRule / checkECParts / recreateECParts": "real",
			"replicator.Replicator.HandleTask + putsvc.RemoteSender.ReplicateObjectToNode":                              "real (its two engine calls are redirected to the simulated local store by rules/policer.json)",
			"policer.Run / shardPolicyWorker": "not used by C26 (processObject is called directly); real in C27",
			"local storage engine":            "fake: in-memory store of the local node, records Delete / DeleteRedundantCopies, injected errors",
			"remote HEAD / RANGE":             "fake apiConnections answered by the simulated nodes (behaviours from the tape, timeouts on the synctest clock)",
			"API client (ReplicateObject)":    "fake clientcore.MultiAddressClient writing into the simulated nodes' stores",
			"network map / placement":         "fake Network: generated node lists, maintenance flags",
		},
	}
}

func runC26(r *simkit.R) {
	n := 3 + r.Intn(6)
	w := newWorld(r, n)
	w.checkRemovals = true
	w.headTimeout = []time.Duration{5 * time.Second, time.Second}[r.Intn(2)]
	w.putTimeout = []time.Duration{10 * time.Second, time.Second}[r.Intn(2)]
	local := r.Intn(n)
	fl := r.Intn(4)
	w.faultsOn = fl > 0
	w.flipPct = []int{0, 0, 8, 25}[fl]
	w.localErrPct = []int{0, 0, 5, 15}[fl]
	localMode := r.Weighted(7, 2, 1) // by chance in the lists / outside the container / also outside the network map

	var eligible []int
	for i := 0; i < n; i++ {
		if i != local || localMode == 0 {
			eligible = append(eligible, i)
		}
	}
	// policy template
	tpl := &policyTpl{}
	kind := r.Weighted(6, 2, 2) // REP only / REP+EC / EC only
	if kind != 2 {
		for i, k := 0, 1+r.Intn(3); i < k; i++ {
			tpl.copies = append(tpl.copies, uint(min(1+r.Intn(4), len(eligible))))
		}
	}
	if kind != 0 {
		for i, k := 0, 1+r.Intn(2); i < k; i++ {
			d := min(1+r.Intn(3), len(eligible)-1)
			tpl.ecRules = append(tpl.ecRules, iec.Rule{DataPartNum: uint8(d), ParityPartNum: 1})
		}
	}
	pn := w.newPolicer(local, localMode != 2, 1)
	me := w.nodes[local]
	r.Logf("cluster of %d nodes, local n%d (mode %d), head timeout %v, put timeout %v, fault level %d", n, local, localMode, w.headTimeout, w.putTimeout, fl)

	if w.faultsOn {
		for _, nd := range w.nodes {
			if nd.idx != local {
				w.drawBehaviour(nd)
			}
		}
	}

	// objects held by the local node
	var mine []*simObj
	nobj := 1 + r.Intn(4)
	for i := 0; i < nobj; i++ {
		pl := w.drawPlacement(tpl, eligible, 5)
		if r.Bool(30) {
			// the local node as a backup node: last in every list that has it
			for _, ls := range [][][]int{pl.repLists, pl.ecLists} {
				for _, l := range ls {
					for k := range l {
						if l[k] == local {
							copy(l[k:], l[k+1:])
							l[len(l)-1] = local
							break
						}
					}
				}
			}
		}
		var o *simObj
		if len(tpl.ecRules) > 0 && (len(tpl.copies) == 0 && r.Bool(80) || len(tpl.copies) > 0 && r.Bool(50)) {
			k := r.Intn(len(tpl.ecRules))
			fam := w.newECFamily(k, pl)
			j := r.Intn(len(fam))
			o = fam[j]
			list := pl.ecLists[k]
			for pi, po := range fam {
				seq := nodeSeq(pi, len(fam), len(list))
				if pi == j {
					for _, li := range seq {
						if list[li] != local && r.Bool(30) {
							w.storeOn(w.nodes[list[li]], po)
						}
					}
					continue
				}
				switch r.Weighted(6, 2, 2) {
				case 0:
					w.storeOn(w.nodes[list[seq[0]]], po)
				case 1:
					w.storeOn(w.nodes[list[seq[r.Intn(len(seq))]]], po)
				}
			}
			r.Logf("object %s: EC part, placement%s", o.name, pl)
		} else {
			regW := 5
			if len(tpl.copies) == 0 {
				// an unsplit REGULAR object does not belong into an EC-only container ("lacking EC
				// attributes": the policer discards it as malformed); not generated
				regW = 0
			}
			typ := []object.Type{object.TypeRegular, object.TypeTombstone, object.TypeLock, object.TypeLink}[r.Weighted(regW, 2, 2, 2)]
			o = w.newPlain(typ, pl)
			holdPct := []int{50, 90, 15}[r.Intn(3)]
			for _, nd := range w.nodes {
				if nd.idx != local && r.Bool(holdPct) {
					w.storeOn(nd, o)
				}
			}
			r.Logf("object %s: %s, placement%s", o.name, typ, pl)
		}
		w.storeOn(me, o)
		me.shards[o.addr] = []string{"s0", "s1", "s2"}[:1+r.Weighted(6, 3, 1)]
		mine = append(mine, o)
	}

	ctx := context.Background()
	passes := nobj + r.Intn(nobj+1)
	for s := 0; s < passes; s++ {
		o := mine[s%nobj]
		if me.store[o.addr] == nil {
			continue
		}
		if w.faultsOn && s > 0 {
			for _, nd := range w.nodes {
				if nd.idx != local && r.Bool(20) {
					w.drawBehaviour(nd)
				}
			}
		}
		r.Step()
		win := newWindow(o)
		w.win[local] = win
		a := w.awa(local, o)
		r.Op("n%d processes %s (%s, shards %v); holders %v; behaviours:%s", local, o.name, typeWord(o), a.ShardIDs, w.holders(o.addr), w.behaviours())
		if o.isPart {
			r.Probe("EC part processed")
		}
		t0 := time.Now() // simulated clock
		pn.p.processObject(ctx, a)
		r.AddSimTime(time.Since(t0))
		if r.Violated() {
			r.Stop()
		}
		// probes (never violations)
		if len(win.maint) > 0 {
			r.Probe("maintenance node seen while deciding")
			if win.removed {
				r.Probe("removal decided although a maintenance node was seen")
			}
		}
		if win.replFail && !win.removed {
			r.Probe("replication failed then local copy kept")
		}
		if win.replOK && win.removed {
			r.Probe("removal after acknowledged replication")
		}
		if win.redundant {
			r.Probe("redundant shard copies dropped")
		}
		if !win.removed && !o.isPart && o.typ != object.TypeLock && o.typ != object.TypeLink {
			enough, listed := true, false
			for i, list := range o.pl.repLists {
				if !inList(list, local) {
					continue
				}
				listed = true
				c := 0
				for _, nd := range list {
					if w.confirmed(win, local, nd, o.addr) {
						c++
					}
				}
				if c < int(o.pl.copies[i]) {
					enough = false
				}
			}
			if listed && enough {
				r.Probe("converse: local copy kept although every rule listing the local node had enough confirmed holders")
			}
		}
		w.win[local] = nil
	}
	if w.fired > 0 || w.removals > 0 {
		r.Nontrivial()
	}
}

func nodeSeq(part, total, nodes int) []int {
	var res []int
	for i := range iec.NodeSequenceForPart(part, total, nodes) {
		res = append(res, i)
	}
	return res
}

func sortedInts(m map[int]bool) []int {
	var res []int
	for k := range m {
		res = append(res, k)
	}
	sort.Ints(res)
	return res
}
