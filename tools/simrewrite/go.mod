module verif/simrewrite

go 1.25.0
