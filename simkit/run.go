package simkit

import (
	"fmt"
	"hash/fnv"
	"sort"
	"strings"
	"sync"
	"time"
)

// Violation describes a property violation found in one run.
type Violation struct {
	Class   string `json:"class"`     // violation class, stable across shrinking
	Sig     string `json:"signature"` // what exactly fails (call site / input shape); matched against known findings
	Message string `json:"message"`
}

type stopRun struct{}

// R is the context of one simulated run.
type R struct {
	*Chooser
	Tier string
	Dir  string // scratch directory of this run (on /dev/shm), removed afterwards

	mu         sync.Mutex
	trace      []string
	traceCut   bool
	hash       uint64
	faults     map[string]int64
	probes     map[string]int64
	steps      int64
	simTime    time.Duration
	ops        int
	nontrivial bool
	viol       *Violation
	cleanups   []func()
	quiet      bool
}

const maxTraceLines = 400

func newR(ch *Chooser, tier, dir string) *R {
	return &R{Chooser: ch, Tier: tier, Dir: dir, faults: map[string]int64{}, probes: map[string]int64{}, hash: 1469598103934665603}
}

// Thorough reports whether the thorough tier is running.
func (r *R) Thorough() bool { return r.Tier == "thorough" }

// Logf appends a line to the run's trace; the trace digest identifies the run
// (schedule + operations + faults).  It never draws from the tape and never reads a clock.
func (r *R) Logf(format string, args ...any) {
	s := fmt.Sprintf(format, args...)
	if r.Dir != "" && strings.Contains(s, r.Dir) {
		// scratch paths carry the pid and a per-process run counter: not part of the run
		s = strings.ReplaceAll(s, r.Dir, "$RUN")
	}
	r.mu.Lock()
	h := fnv.New64a()
	h.Write([]byte(s))
	r.hash = (r.hash ^ h.Sum64()) * 1099511628211
	if len(r.trace) < maxTraceLines {
		r.trace = append(r.trace, s)
	} else {
		r.traceCut = true
	}
	r.mu.Unlock()
}

// Op counts a workload operation (used for the non-triviality rule) and logs it.
func (r *R) Op(format string, args ...any) {
	r.mu.Lock()
	r.ops++
	r.mu.Unlock()
	r.Logf(format, args...)
}

// Fired counts a fault that actually fired.
func (r *R) Fired(kind string) {
	r.mu.Lock()
	r.faults[kind]++
	r.mu.Unlock()
}

// Probe counts a rare-branch probe.
func (r *R) Probe(name string) {
	r.mu.Lock()
	r.probes[name]++
	r.mu.Unlock()
}

// Nontrivial marks the run as non-trivial by the check's own rule.
func (r *R) Nontrivial() { r.mu.Lock(); r.nontrivial = true; r.mu.Unlock() }

// AddSimTime accounts simulated time covered.
func (r *R) AddSimTime(d time.Duration) { r.mu.Lock(); r.simTime += d; r.mu.Unlock() }

// Step counts a scheduler step.
func (r *R) Step() { r.mu.Lock(); r.steps++; r.mu.Unlock() }

// OnCleanup registers a function run at the end of the run (LIFO), even after a violation.
func (r *R) OnCleanup(f func()) { r.mu.Lock(); r.cleanups = append(r.cleanups, f); r.mu.Unlock() }

// Violated reports whether a violation was already recorded.
func (r *R) Violated() bool { r.mu.Lock(); defer r.mu.Unlock(); return r.viol != nil }

// Report records a violation without unwinding (usable from any goroutine).
func (r *R) Report(class, sig, format string, args ...any) {
	r.mu.Lock()
	if r.viol == nil {
		r.viol = &Violation{Class: class, Sig: sig, Message: fmt.Sprintf(format, args...)}
	}
	r.mu.Unlock()
}

// Failf records a violation and unwinds the calling goroutine (must be the run's main
// goroutine or a kernel task).
func (r *R) Failf(class, sig, format string, args ...any) {
	r.Report(class, sig, format, args...)
	panic(stopRun{})
}

// Stop unwinds the run without a violation (e.g. precondition of the scenario not met).
func (r *R) Stop() { panic(stopRun{}) }

func (r *R) digest() uint64 { r.mu.Lock(); defer r.mu.Unlock(); return r.hash }

func sortedKeys(m map[string]int64) []string {
	ks := make([]string, 0, len(m))
	for k := range m {
		ks = append(ks, k)
	}
	sort.Strings(ks)
	return ks
}
