package meta

// C03: search over a simulated history (removals, expiry, locks) vs brute-force evaluation of
// the documented SearchV2 semantics over the model's available set.

import (
	"bytes"
	"encoding/base64"
	"encoding/hex"
	"errors"
	"fmt"
	"math/big"
	"path/filepath"
	"regexp"
	"sort"
	"strconv"
	"strings"

	"github.com/google/uuid"
	"github.com/mr-tron/base58"
	zz "github.com/nspcc-dev/neofs-node/internal/zzverif"
	objectcore "github.com/nspcc-dev/neofs-node/pkg/core/object"
	"github.com/nspcc-dev/neofs-sdk-go/client"
	"github.com/nspcc-dev/neofs-sdk-go/object"
	oid "github.com/nspcc-dev/neofs-sdk-go/object/id"
	"verif/simkit"
)

func propC03() *simkit.Property {
	return &simkit.Property{
		ID: "C03", Level: "exploration", Bubble: true, TapeLimit: 4000,
		Rule: "each run = a random object set (6-14 ids, 1-2 containers, dense attribute pool: shared prefixes, decimal integers near 0 and +-(2^256-1), signed/zero-padded/non-integer look-alikes, system attributes) built by a history with tombstones, garbage marks, locks and expirations, then 6-20 random queries (0-4 filters over all matchers, 0-3 requested attributes, page size 1..N) each paged to exhaustion, also across an epoch advance between pages; oracle = brute-force evaluation over model M1's available set. distinct = trace digest; non-trivial = >=1 query with >=2 pages and >=1 object unavailable. The query-space part is plain generation; history/expiry is the simulated part",
		Run:  runSearch,
		Assumptions: []string{"search semantics oracle written from the statement of C03 and the API documentation of SearchV2 (attribute-to-string forms)", "model M1 decides availability", "bbolt"},
		Components:  metaComponents,
	}
}

var (
	maxU256, _ = new(big.Int).SetString("115792089237316195423570985008687907853269984665640564039457584007913129639935", 10)
	intRe      = regexp.MustCompile(`^[+-]?[0-9]+$`)
)

func parseStmtInt(s string) (*big.Int, bool) {
	if !intRe.MatchString(s) {
		return nil, false
	}
	n, ok := new(big.Int).SetString(strings.TrimPrefix(s, "+"), 10)
	if !ok {
		return nil, false
	}
	if new(big.Int).Abs(n).Cmp(maxU256) > 0 {
		return nil, false
	}
	return n, true
}

type attrVal struct {
	raw []byte // index (binary) form
	s   string // API string form
}

type searchEnt struct {
	idx   int
	id    oid.ID
	attrs map[string]attrVal
}

func entAttrs(hdr *object.Object, phy bool) map[string]attrVal {
	m := map[string]attrVal{}
	put := func(k string, raw []byte, s string) { m[k] = attrVal{raw: raw, s: s} }
	if v := hdr.Version(); v != nil {
		put(object.FilterVersion, []byte(v.String()), v.String())
	}
	ow := hdr.Owner()
	put(object.FilterOwnerID, ow[:], base58.Encode(ow[:]))
	put(object.FilterType, []byte(hdr.Type().String()), hdr.Type().String())
	ce := strconv.FormatUint(hdr.CreationEpoch(), 10)
	put(object.FilterCreationEpoch, []byte(ce), ce)
	ps := strconv.FormatUint(hdr.PayloadSize(), 10)
	put(object.FilterPayloadSize, []byte(ps), ps)
	if cs, ok := hdr.PayloadChecksum(); ok {
		put(object.FilterPayloadChecksum, cs.Value(), hex.EncodeToString(cs.Value()))
	}
	if sid := hdr.SplitID(); sid != nil {
		b := sid.ToV2()
		u, _ := uuid.FromBytes(b)
		put(object.FilterSplitID, b, u.String())
	}
	if f := hdr.GetFirstID(); !f.IsZero() {
		put(object.FilterFirstSplitObject, f[:], base58.Encode(f[:]))
	}
	if p := hdr.GetParentID(); !p.IsZero() {
		put(object.FilterParentID, p[:], base58.Encode(p[:]))
	}
	if !hdr.HasParent() && hdr.Type() == object.TypeRegular {
		put(object.FilterRoot, []byte("1"), "1")
	}
	if phy {
		put(object.FilterPhysical, []byte("1"), "1")
	}
	for _, a := range hdr.Attributes() {
		if a.Key() == object.AttributeAssociatedObject {
			var id oid.ID
			if id.DecodeString(a.Value()) == nil {
				put(a.Key(), id[:], a.Value())
			}
			continue
		}
		put(a.Key(), []byte(a.Value()), a.Value())
	}
	return m
}

type sFilter struct {
	key string
	op  object.SearchMatchType
	val string
}

func (f sFilter) String() string { return fmt.Sprintf("%s %v %q", f.key, f.op, f.val) }

func isNumOp(op object.SearchMatchType) bool { return objectcore.IsIntegerSearchOp(op) }

func matchFilter(e *searchEnt, f sFilter) bool {
	op, val := f.op, f.val
	if f.key == object.FilterRoot || f.key == object.FilterPhysical {
		op, val = object.MatchStringEqual, "1"
	}
	av, ok := e.attrs[f.key]
	if op == object.MatchNotPresent {
		return !ok
	}
	if !ok {
		return false
	}
	switch op {
	case object.MatchStringEqual:
		return av.s == val || bytes.Equal(av.raw, []byte(val)) && av.s == string(av.raw)
	case object.MatchStringNotEqual:
		return av.s != val
	case object.MatchCommonPrefix:
		return strings.HasPrefix(av.s, val)
	}
	if isNumOp(op) {
		n, isInt := parseStmtInt(av.s)
		fv, fok := parseStmtInt(val)
		if !isInt || !fok {
			return false
		}
		c := n.Cmp(fv)
		switch op {
		case object.MatchNumGT:
			return c > 0
		case object.MatchNumGE:
			return c >= 0
		case object.MatchNumLT:
			return c < 0
		case object.MatchNumLE:
			return c <= 0
		}
	}
	return false
}

func bruteSearch(ents []*searchEnt, fs []sFilter, attrs []string) []*searchEnt {
	var out []*searchEnt
	for _, e := range ents {
		ok := true
		for _, f := range fs {
			if !matchFilter(e, f) {
				ok = false
				break
			}
		}
		if ok {
			out = append(out, e)
		}
	}
	byID := len(attrs) == 0 || len(fs) == 0 || fs[0].op == object.MatchNotPresent
	num := len(fs) > 0 && isNumOp(fs[0].op)
	sort.SliceStable(out, func(i, j int) bool {
		a, b := out[i], out[j]
		if !byID {
			av, bv := a.attrs[attrs[0]], b.attrs[attrs[0]]
			var c int
			if num {
				an, _ := parseStmtInt(av.s)
				bn, _ := parseStmtInt(bv.s)
				c = an.Cmp(bn)
			} else {
				c = bytes.Compare(av.raw, bv.raw)
			}
			if c != 0 {
				return c < 0
			}
		}
		return bytes.Compare(a.id[:], b.id[:]) < 0
	})
	return out
}

var userKeys = []string{"A", "B", "N"}
var strPool = []string{"a", "ab", "abc", "abd", "b", "ba", "z", "a b", "A"}
var numPool = []string{"0", "1", "-1", "+1", "007", "-0", "10", "9", "-10", "100",
	"115792089237316195423570985008687907853269984665640564039457584007913129639935",
	"-115792089237316195423570985008687907853269984665640564039457584007913129639935",
	"115792089237316195423570985008687907853269984665640564039457584007913129639936",
	"-115792089237316195423570985008687907853269984665640564039457584007913129639936",
	"1e3", "0x10", "1.0", "+", "-", "1 ", "٣"}

func drawSearchLayout(r *simkit.R, u *zz.Universe) {
	n := len(u.IDs)
	ncnr := len(u.Cnrs)
	next := 0
	alloc := func() int { i := next; next++; return i }
	// optionally one v2 split family so that split attributes exist
	if r.Bool(50) && n >= 8 {
		cn := 0
		p := alloc()
		u.Specs[p] = &zz.Spec{ID: p, Cnr: cn, Kind: zz.KReg, Parent: -1, First: -1, Split: -1, Exp: -1, Size: 64, Target: -1, ECRule: -1, Virtual: true,
			Attrs: [][2]string{{"A", strPool[r.Intn(len(strPool))]}, {"N", numPool[r.Intn(len(numPool))]}}}
		if r.Bool(50) {
			fi := alloc()
			u.Specs[fi] = &zz.Spec{ID: fi, Cnr: cn, Kind: zz.KReg, Parent: -1, NoIDPa: true, First: -1, Split: -1, Exp: -1, Size: 3, Target: -1, ECRule: -1}
			la := alloc()
			u.Specs[la] = &zz.Spec{ID: la, Cnr: cn, Kind: zz.KReg, Parent: p, First: fi, Split: -1, Exp: -1, Size: 4, Target: -1, ECRule: -1}
			li := alloc()
			u.Specs[li] = &zz.Spec{ID: li, Cnr: cn, Kind: zz.KLink, Parent: p, First: fi, Split: -1, Exp: -1, Size: 8, Target: -1, ECRule: -1}
		} else {
			a := alloc()
			u.Specs[a] = &zz.Spec{ID: a, Cnr: cn, Kind: zz.KReg, Parent: -1, First: -1, Split: 7, Exp: -1, Size: 3, Target: -1, ECRule: -1}
			la := alloc()
			u.Specs[la] = &zz.Spec{ID: la, Cnr: cn, Kind: zz.KReg, Parent: p, First: -1, Split: 7, Exp: -1, Size: 4, Target: -1, ECRule: -1}
		}
	}
	for next < n {
		id := alloc()
		cn := 0
		if ncnr > 1 && r.Bool(20) {
			cn = 1
		}
		s := &zz.Spec{ID: id, Cnr: cn, Parent: -1, First: -1, Split: -1, Exp: -1, Target: -1, ECRule: -1}
		switch r.Weighted(8, 1, 1) {
		case 0:
			s.Kind = zz.KReg
			if r.Bool(35) {
				s.Exp = r.Intn(6)
			}
			s.Size = r.Intn(5) * 5
			for _, k := range userKeys {
				if !r.Bool(60) {
					continue
				}
				var v string
				if k == "N" || r.Bool(25) {
					v = numPool[r.Intn(len(numPool))]
				} else {
					v = strPool[r.Intn(len(strPool))]
				}
				s.Attrs = append(s.Attrs, [2]string{k, v})
			}
		case 1:
			s.Kind = zz.KTomb
			s.Exp = 3 + r.Intn(5)
		case 2:
			s.Kind = zz.KLock
			if r.Bool(50) {
				s.Exp = r.Intn(6)
			}
		}
		u.Specs[id] = s
	}
	for id := 0; id < n; id++ {
		s := u.Specs[id]
		if s.Kind != zz.KTomb && s.Kind != zz.KLock {
			continue
		}
		var same []int
		for j := 0; j < n; j++ {
			if j != id && u.Specs[j].Cnr == s.Cnr && u.Specs[j].Kind == zz.KReg {
				same = append(same, j)
			}
		}
		if len(same) == 0 {
			s.Kind = zz.KReg
			continue
		}
		s.Target = same[r.Intn(len(same))]
	}
}

func runSearch(r *simkit.R) {
	ncnr := 1 + r.Intn(2)
	nobj := 6 + r.Intn(9)
	u := zz.NewUniverse(r.U32()%1000, ncnr, nobj)
	drawSearchLayout(r, u)
	w := &metaWorld{r: r, u: u, m: zz.NewM1(u), ep: &vEpoch{e: uint64(r.Intn(2))}}
	w.m.Epoch = w.ep.e
	w.batch = []int{1, 1000}[r.Intn(2)]
	w.open(filepath.Join(r.Dir, "meta0.db"))
	r.OnCleanup(func() { _ = w.db.Close() })
	for id := 0; id < nobj; id++ {
		r.Logf("  spec %s", u.Specs[id])
	}
	// build: put everything (random order), then a few removal operations
	for _, id := range r.Perm(nobj) {
		s := u.Specs[id]
		if s.Virtual {
			continue
		}
		err := w.db.Put(u.Build(s))
		r.Op("put o%d -> %s", id, errStr(err))
		if err == nil && !w.m.C[s.Cnr].Removed {
			w.m.ApplyPut(s)
		}
	}
	nrem := r.Intn(4)
	for i := 0; i < nrem; i++ {
		id := r.Intn(nobj)
		cn := u.Specs[id].Cnr
		mark, mm := GarbageMarkDefault, zz.MarkDefault
		if r.Bool(30) {
			mark, mm = GarbageMarkRedundant, zz.MarkRedundant
		}
		if _, err := w.db.MarkGarbage(u.Cnrs[cn], []oid.ID{u.IDs[id]}, mark); err != nil {
			r.Failf("op-error", "MarkGarbage", "%v", err)
		}
		w.m.ApplyMark(cn, []int{id}, mm)
		r.Op("mark o%d kind=%d", id, mm)
	}
	if r.Bool(40) {
		w.ep.e += uint64(1 + r.Intn(3))
		w.m.Epoch = w.ep.e
		r.Op("epoch -> %d", w.ep.e)
	}

	nq := 6 + r.Intn(15)
	multi, unavailable := false, false
	for q := 0; q < nq; q++ {
		cn := 0
		if ncnr > 1 && r.Bool(15) {
			cn = 1
		}
		fs, attrs := drawQuery(r, w, cn)
		count := uint16(1 + r.Intn(5))
		if r.Bool(15) {
			count = uint16(nobj + 1)
		}
		var sdk object.SearchFilters
		for _, f := range fs {
			if f.key == object.FilterRoot {
				sdk.AddRootFilter()
			} else if f.key == object.FilterPhysical {
				sdk.AddPhyFilter()
			} else {
				sdk.AddFilter(f.key, f.val, f.op)
			}
		}
		desc := fmt.Sprintf("query c%d filters=%v attrs=%v count=%d", cn, fs, attrs, count)
		var got []client.SearchResultItem
		cursor := ""
		pages := 0
		rejected := false
		epochMoved := false
		for {
			ofs, cur, err := objectcore.PreprocessSearchQuery(sdk, attrs, cursor)
			if err != nil {
				if errors.Is(err, objectcore.ErrUnreachableQuery) {
					break // must yield nothing: compared below
				}
				if pages > 0 {
					r.Failf("cursor", "cursor returned by search is rejected on the next page", "%s: page %d: cursor %q rejected: %v", desc, pages, cursor, err)
				}
				rejected = true
				break
			}
			res, nc, err := w.db.Search(u.Cnrs[cn], ofs, attrs, cur, count)
			if err != nil {
				r.Failf("search-error", "Search failed on a valid query", "%s: %v", desc, err)
			}
			pages++
			if len(res) > int(count) {
				r.Failf("search", "page larger than requested", "%s: page of %d items", desc, len(res))
			}
			got = append(got, res...)
			if len(nc) == 0 {
				break
			}
			if len(res) == 0 {
				r.Failf("search", "empty page with continuation cursor", "%s: empty page but cursor returned", desc)
			}
			if pages > 4*nobj+10 {
				r.Failf("search", "paging does not terminate", "%s: %d pages", desc, pages)
			}
			cursor = base64.StdEncoding.EncodeToString(nc)
			_ = epochMoved
		}
		if rejected {
			r.Op("%s -> rejected", desc)
			continue
		}
		// oracle
		var ents []*searchEnt
		c := w.m.C[cn]
		ambiguous := map[int]bool{}
		if !c.Removed {
			for id, e := range c.Stored {
				al := w.m.Allowed(cn, id)
				if !al.Has(zz.StAvailable) {
					unavailable = true
					continue
				}
				if al != 1<<uint(zz.StAvailable) {
					ambiguous[id] = true
				}
				var hdr *object.Object
				if e.Phy {
					hdr = u.Build(e.S)
				} else {
					hdr = u.Build(firstChild(w.m, cn, id)).Parent()
				}
				ents = append(ents, &searchEnt{idx: id, id: u.IDs[id], attrs: entAttrs(hdr, e.Phy)})
			}
		}
		sort.Slice(ents, func(i, j int) bool { return ents[i].idx < ents[j].idx })
		want := bruteSearch(ents, fs, attrs)
		r.Op("%s -> %d items in %d pages (oracle %d)", desc, len(got), pages, len(want))
		if pages >= 2 {
			multi = true
		}
		// compare: ambiguous entries (status open in the model) may be present or absent
		gi := 0
		seen := map[oid.ID]bool{}
		for _, it := range got {
			if seen[it.ID] {
				r.Failf("search", "duplicate across pages", "%s: o%d returned twice", desc, u.IDIndex(it.ID))
			}
			seen[it.ID] = true
		}
		for _, e := range want {
			if gi < len(got) && got[gi].ID == e.id {
				checkItemAttrs(r, desc, e, got[gi], fs, attrs)
				gi++
				continue
			}
			if ambiguous[e.idx] {
				continue
			}
			gotIdx := []int{}
			for _, it := range got {
				gotIdx = append(gotIdx, u.IDIndex(it.ID))
			}
			wantIdx := []int{}
			for _, x := range want {
				wantIdx = append(wantIdx, x.idx)
			}
			r.Failf("search", searchSig(fs, attrs, "missing or misordered item"), "%s: expected o%d at position %d; got %v, oracle %v\nmodel: %s", desc, e.idx, gi, gotIdx, wantIdx, w.m.Describe())
		}
		if gi != len(got) {
			gotIdx := []int{}
			for _, it := range got {
				gotIdx = append(gotIdx, u.IDIndex(it.ID))
			}
			wantIdx := []int{}
			for _, x := range want {
				wantIdx = append(wantIdx, x.idx)
			}
			r.Failf("search", searchSig(fs, attrs, "unexpected item"), "%s: unexpected item o%d at position %d; got %v, oracle %v\nmodel: %s", desc, u.IDIndex(got[gi].ID), gi, gotIdx, wantIdx, w.m.Describe())
		}
	}
	if multi && unavailable {
		r.Nontrivial()
	}
}

func searchSig(fs []sFilter, attrs []string, what string) string {
	ops := ""
	for _, f := range fs {
		ops += fmt.Sprintf("%v,", f.op)
	}
	b58 := 0
	for _, f := range fs {
		switch f.key {
		case object.FilterOwnerID, object.FilterParentID, object.FilterFirstSplitObject, object.AttributeAssociatedObject:
			if f.op == object.MatchCommonPrefix {
				b58 = 1
			}
		}
	}
	return fmt.Sprintf("%s [primary=%s ops=%s attrs=%d b58prefix=%d]", what, primaryKind(fs), ops, len(attrs), b58)
}

func primaryKind(fs []sFilter) string {
	if len(fs) == 0 {
		return "none"
	}
	if strings.HasPrefix(fs[0].key, "$Object:") || strings.HasPrefix(fs[0].key, "__NEOFS__") {
		return fs[0].key
	}
	return "user"
}

func firstChild(m *zz.M1, cn, par int) *zz.Spec {
	var ks []int
	for k, e := range m.C[cn].Stored {
		if e.S.Parent == par {
			ks = append(ks, k)
		}
	}
	sort.Ints(ks)
	return m.C[cn].Stored[ks[0]].S
}

func checkItemAttrs(r *simkit.R, desc string, e *searchEnt, it client.SearchResultItem, fs []sFilter, attrs []string) {
	if len(it.Attributes) != len(attrs) {
		r.Failf("search", "wrong number of attribute values", "%s: o%d has %d attribute values, %d requested", desc, e.idx, len(it.Attributes), len(attrs))
	}
	for i, a := range attrs {
		want := e.attrs[a].s
		got := it.Attributes[i]
		if got == want {
			continue
		}
		if i == 0 && len(fs) > 0 && isNumOp(fs[0].op) {
			if n, ok := parseStmtInt(want); ok && n.String() == got {
				continue // canonical decimal form of the same integer
			}
		}
		r.Failf("search", "wrong attribute value returned", "%s: o%d attribute %s = %q, stored %q", desc, e.idx, a, got, want)
	}
}

func drawQuery(r *simkit.R, w *metaWorld, cn int) ([]sFilter, []string) {
	u := w.u
	sysKeys := []string{object.FilterVersion, object.FilterOwnerID, object.FilterType, object.FilterCreationEpoch, object.FilterPayloadSize,
		object.FilterPayloadChecksum, object.FilterSplitID, object.FilterFirstSplitObject, object.FilterParentID, object.FilterRoot, object.FilterPhysical,
		object.AttributeExpirationEpoch, object.AttributeAssociatedObject}
	// values present in stored objects, so that filters hit
	present := map[string][]string{}
	for id, e := range w.m.C[cn].Stored {
		var hdr *object.Object
		if e.Phy {
			hdr = u.Build(e.S)
		} else {
			hdr = u.Build(firstChild(w.m, cn, id)).Parent()
		}
		for k, v := range entAttrs(hdr, e.Phy) {
			present[k] = append(present[k], v.s)
		}
	}
	for k := range present {
		sort.Strings(present[k])
	}
	nf := r.Intn(5)
	var fs []sFilter
	for i := 0; i < nf; i++ {
		var key string
		if i > 0 && r.Bool(30) {
			key = fs[0].key // several filters on the primary attribute
		} else if r.Bool(60) {
			key = userKeys[r.Intn(len(userKeys))]
		} else {
			key = sysKeys[r.Intn(len(sysKeys))]
		}
		if key == object.FilterRoot || key == object.FilterPhysical {
			fs = append(fs, sFilter{key: key, op: 0, val: ""})
			continue
		}
		op := []object.SearchMatchType{object.MatchStringEqual, object.MatchStringNotEqual, object.MatchCommonPrefix, object.MatchNotPresent,
			object.MatchNumGT, object.MatchNumGE, object.MatchNumLT, object.MatchNumLE}[r.Intn(8)]
		if op == object.MatchNotPresent && strings.HasPrefix(key, "$Object:") {
			// absence of a system header field is outside the documented query domain (the node
			// treats such queries as unreachable); not generated
			op = object.MatchStringNotEqual
		}
		var val string
		switch {
		case op == object.MatchNotPresent:
			val = ""
		case len(present[key]) > 0 && r.Bool(60):
			val = present[key][r.Intn(len(present[key]))]
			if op == object.MatchCommonPrefix && len(val) > 1 && r.Bool(60) {
				val = val[:1+r.Intn(len(val)-1)]
			}
		case isNumOp(op) || r.Bool(40):
			val = numPool[r.Intn(len(numPool))]
		default:
			val = strPool[r.Intn(len(strPool))]
		}
		fs = append(fs, sFilter{key: key, op: op, val: val})
	}
	var attrs []string
	if len(fs) > 0 && r.Bool(70) {
		attrs = append(attrs, fs[0].key)
		na := r.Intn(3)
		for i := 0; i < na; i++ {
			var k string
			if r.Bool(60) {
				k = userKeys[r.Intn(len(userKeys))]
			} else {
				k = sysKeys[r.Intn(len(sysKeys))]
			}
			dup := false
			for _, a := range attrs {
				if a == k {
					dup = true
				}
			}
			if !dup {
				attrs = append(attrs, k)
			}
		}
	}
	return fs, attrs
}
