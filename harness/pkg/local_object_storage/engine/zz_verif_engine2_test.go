package engine

import (
	"bytes"
	"fmt"
	"strings"
	"time"

	"github.com/nspcc-dev/neofs-node/pkg/local_object_storage/shard/mode"
	"verif/simkit"
)

// ---------------------------------------------------------------------------------------
// C20: engine reads find every stored object despite shard order, modes and failures

func propC20() *simkit.Property {
	return &simkit.Property{
		ID: "C20", Level: "exploration", Bubble: true, TapeLimit: 4000,
		Rule: "each run = an engine with 1-4 shards (error threshold 0-3, GC batch/interval drawn) and a history of <=14 operations by 1-3 concurrent tasks: engine Put of regular objects (some are EC parts placed by their parent ID), tombstones (broadcast), Delete (garbage mark), Drop, Get, Head, per-shard mode switches (read-write, read-only, degraded-read-only, degraded), one shard addition, simulated-clock advances (GC passes).  Every engine->shard call is a scheduling point and may be failed by the simulator (read and write errors); the shard-table order is re-drawn at every step.  Oracle: per object the recorded history (invoke/return stamped with the kernel's event sequence) must be linearizable against a set-valued register model {absent, present, tombstoned}: a read returns the object exactly when it is present (identical bytes); 'not found' of a present object is excused only if the simulator failed a read of that very operation; a mutating call may fail only when a shard call of it was failed or some shard was not read-write during it.  distinct = trace digest; non-trivial = >=1 read judged after >=1 mode switch or injected error",
		Run:  runC20,
		Assumptions: []string{"write-cache disabled (flush races are C16/C09)", "bbolt batching off (size 1)"},
		Components:  engineComponents,
		DeadlockClass: "hang",
	}
}

type regOut struct {
	res     string // ok | gone | removed | err
	excused bool   // failure may be due to an injected error / non-read-write shard
	bad     string
}

const (
	stAbsent = 1 << iota
	stPresent
	stTomb
)

// regStep: set-valued register model; state = bitmask of possible abstract states.
func regStep(state, in, out any) (bool, any) {
	st := state.(int)
	kind := in.(string)
	o := out.(regOut)
	next := 0
	for _, s := range []int{stAbsent, stPresent, stTomb} {
		if st&s == 0 {
			continue
		}
		switch kind {
		case "put":
			switch {
			case o.res == "ok":
				// (an acknowledged put of a tombstoned object is tolerated as a no-op: the
				// property speaks about reads; the object must stay unreadable)
				if s != stTomb {
					next |= stPresent
				} else {
					next |= stTomb
				}
			case o.res == "removed":
				if s == stTomb {
					next |= s
				}
			default:
				// a failed mutation may or may not have taken effect (the property is about reads)
				next |= s
				if s != stTomb {
					next |= stPresent
				}
			}
		case "tomb":
			if o.res == "ok" {
				next |= stTomb
			} else {
				next |= s | stTomb
			}
		case "mark", "drop":
			after := stAbsent
			if s == stTomb {
				after = stTomb
			}
			if o.res == "ok" {
				next |= after
			} else {
				next |= s | after
			}
		case "get", "head":
			switch o.res {
			case "ok":
				if s == stPresent {
					next |= s
				}
			case "gone", "removed":
				if s != stPresent || o.excused {
					next |= s
				}
			default:
				if o.excused {
					next |= s
				}
			}
		}
	}
	return next != 0, next
}

func stName(st int) string {
	var n []string
	if st&stAbsent != 0 {
		n = append(n, "absent")
	}
	if st&stPresent != 0 {
		n = append(n, "present")
	}
	if st&stTomb != 0 {
		n = append(n, "tombstoned")
	}
	return strings.Join(n, "|")
}

func runC20(r *simkit.R) {
	cfg := drawEnCfg(r, 1, 4)
	nreg := 3 + r.Intn(3)
	w := newEnWorld(r, cfg, nreg+3)
	w.layout(nreg, 2, 0, r.Bool(50))
	w.start()
	r.Logf("config %s", cfg)
	for id := 0; id < nreg+2; id++ {
		r.Logf("  spec %s", w.u.Specs[id])
	}
	faultPct := []int{0, 0, 6, 15}[r.Intn(4)]
	modes := r.Bool(60)
	nops := 3 + r.Intn(12)
	var ops []*enOp
	added := false
	for i := 0; i < nops; i++ {
		var op *enOp
		switch r.Weighted(30, 8, 8, 6, 25, 8, 10, 3) {
		case 0:
			op = &enOp{kind: "put", id: r.Intn(nreg)}
		case 1:
			op = &enOp{kind: "tomb", id: nreg + r.Intn(2)}
		case 2:
			op = &enOp{kind: "mark", id: r.Intn(nreg)}
		case 3:
			op = &enOp{kind: "drop", id: r.Intn(nreg)}
		case 4:
			op = &enOp{kind: "get", id: r.Intn(nreg)}
		case 5:
			op = &enOp{kind: "head", id: r.Intn(nreg)}
		case 6:
			if !modes {
				op = &enOp{kind: "get", id: r.Intn(nreg)}
				break
			}
			op = &enOp{kind: "mode", sh: r.Intn(cfg.nshards), m: []mode.Mode{mode.ReadWrite, mode.ReadOnly, mode.DegradedReadOnly, mode.ReadWrite, mode.Degraded}[r.Intn(5)], flag: r.Bool(50)}
		case 7:
			if added || cfg.nshards >= 4 {
				op = &enOp{kind: "get", id: r.Intn(nreg)}
				break
			}
			added = true
			op = &enOp{kind: "x:addshard"}
		}
		ops = append(ops, op)
	}

	byTask := map[*simkit.Task]*enOp{}
	inFlight := map[*enOp]bool{}
	var lin []simkit.LinOp
	next := 0
	disturbed := false // a mode switch or an injected error happened
	notRW := func() bool {
		for i := range w.shards {
			if w.modeOf(i) != mode.ReadWrite {
				return true
			}
		}
		return false
	}
	target := func(op *enOp) int {
		if op.kind == "tomb" {
			return w.u.Specs[op.id].Target
		}
		return op.id
	}
	res := w.sched(enHooks{
		maxConc: 1 + r.Intn(3),
		next: func() (string, func(*simkit.Task)) {
			if next >= len(ops) {
				return "", nil
			}
			op := ops[next]
			next++
			if op.kind == "x:addshard" {
				return op.kind, func(*simkit.Task) {
					op.err = w.addShard()
					r.Op("addshard -> %v", errS(op.err))
				}
			}
			return op.kind, func(t *simkit.Task) {
				byTask[t] = op
				inFlight[op] = true
				if notRW() {
					op.flag2 = true
				}
				w.exec(op)
			}
		},
		verdict: func(key string) int {
			if faultPct == 0 || !r.Bool(faultPct) {
				return vOK
			}
			v := vErr
			f := strings.Split(key, ":")
			if (f[1] == "put" || f[1] == "delete" || f[1] == "mark") && r.Bool(40) {
				v = vAfterErr
			}
			r.Fired("shard call fails: " + f[1])
			disturbed = true
			// the operations this call may belong to: every in-flight operation on that object
			for op := range inFlight {
				if op.kind == "mode" {
					continue
				}
				if strings.Contains(f[2], short(w.addr(op.id).Object())) || strings.Contains(f[2], short(w.addr(target(op)).Object())) {
					op.faulted = true
				}
			}
			return v
		},
		done: func(t *simkit.Task) {
			op := byTask[t]
			if op == nil {
				return
			}
			delete(inFlight, op)
			r.Op("%s -> %v", op, errS(op.err))
			if op.kind == "mode" {
				if op.err == nil {
					disturbed = true
					r.Fired("shard mode switch to " + op.m.String())
				}
				// every operation in flight during a mode switch may have met a non-read-write shard
				for o := range inFlight {
					o.flag2 = true
				}
				return
			}
			if notRW() {
				op.flag2 = true
			}
			out := regOut{res: "err", excused: op.faulted}
			switch op.kind {
			case "put", "tomb", "mark", "drop":
				out.excused = false
				if op.faulted {
					out.bad = "a shard call of it had failed"
				} else if op.flag2 && op.kind == "tomb" {
					out.bad = "a shard was not read-write during it"
				} else if op.kind == "tomb" {
					for o := range inFlight {
						if o.kind == "tomb" && o.id == op.id {
							out.bad = "another broadcast of the same tombstone was still in flight"
						}
					}
				}
				if op.kind == "put" && op.err == nil {
					for _, h := range w.holders(op.id) {
						if w.modeOf(h) == mode.Degraded {
							out.bad = "its blob sits on a shard that is in degraded read-write mode (stored without metadata)"
						}
					}
				}
			case "get", "head":
				if op.err == nil {
					for i := range w.shards {
						if w.modeOf(i).NoMetabase() {
							out.bad = "another shard is in a degraded (no-metabase) mode: the engine re-reads the remaining shards ignoring their metadata"
						}
					}
					for _, h := range w.holders(op.id) {
						if w.modeOf(h).NoMetabase() {
							out.bad = "a shard holding its blob is in a degraded (no-metabase) mode"
						}
					}
				}
			}
			switch {
			case op.err == nil:
				out.res = "ok"
				if op.kind == "get" && !bytes.Equal(op.val, w.bin(op.id)) {
					r.Failf("read", "Get returned bytes that differ from what was stored", "%s returned wrong bytes", op)
				}
			case isRemoved(op.err):
				out.res = "removed"
			case isGone(op.err):
				out.res = "gone"
			}
			if (op.kind == "get" || op.kind == "head") && disturbed {
				r.Nontrivial()
			}
			lin = append(lin, simkit.LinOp{Key: fmt.Sprintf("o%d", target(op)), In: op.kind, Out: out, Call: t.Call, Ret: t.Ret})
			w.r.Logf("    [%s key=o%d out=%+v]", op.kind, target(op), out)
		},
	})
	if res == "hang" || res == "steps" {
		r.Failf("hang", "engine operations did not finish ("+res+")", "operations did not finish (%s)", res)
	}
	if res != "" {
		return
	}
	bad, unknown := simkit.CheckLinearizable(lin, func(string) any { return stAbsent }, regStep, 20*time.Second)
	if unknown {
		r.Probe("linearizability check timed out (inconclusive)")
	}
	if bad != "" {
		r.Failf("lin", "history of one object is not linearizable: "+describeLin(lin, bad), "object %s: no linearization of its history agrees with the register model:\n%s", bad, dumpLin(lin, bad))
	}
}

// describeLin: a compact, schedule-independent classification of a non-linearizable
// per-object history: replays it sequentially (by return order) and names the first
// operation whose outcome the model rejects.
func describeLin(lin []simkit.LinOp, key string) string {
	st := stAbsent
	lastMut := ""
	for _, o := range lin {
		if o.Key != key {
			continue
		}
		ok, nx := regStep(st, o.In, o.Out)
		out := o.Out.(regOut)
		if !ok {
			sig := fmt.Sprintf("%s returns %s while the object is %s", o.In, out.res, stName(st))
			switch {
			case out.bad != "":
				sig += " [" + out.bad + "]"
			case lastMut != "":
				sig += " [" + lastMut + "]"
			}
			return sig
		}
		if k := o.In.(string); out.res == "ok" && k != "get" && k != "head" && st != stTomb {
			// (while the object is tombstoned, later acknowledged calls change nothing: the
			// diagnosis stays with the call that established the state)
			lastMut = ""
			if out.bad != "" {
				lastMut = "the acknowledged " + k + ": " + out.bad
			}
		} else if k == "put" && out.res == "ok" && st == stTomb && out.bad != "" {
			lastMut = "a put of the tombstoned object was acknowledged: " + out.bad
		}
		st = nx.(int)
	}
	return "concurrent operations admit no order"
}

func dumpLin(lin []simkit.LinOp, key string) string {
	var b strings.Builder
	for _, o := range lin {
		if o.Key == key {
			fmt.Fprintf(&b, "  [%d,%d] %v -> %+v\n", o.Call, o.Ret, o.In, o.Out)
		}
	}
	return b.String()
}
