package shard

import (
	"bytes"
	"errors"
	"fmt"
	"os"
	"path/filepath"
	"sort"
	"strings"
	"time"

	zz "github.com/nspcc-dev/neofs-node/internal/zzverif"
	meta "github.com/nspcc-dev/neofs-node/pkg/local_object_storage/metabase"
	apistatus "github.com/nspcc-dev/neofs-sdk-go/client/status"
	cid "github.com/nspcc-dev/neofs-sdk-go/container/id"
	"github.com/nspcc-dev/neofs-sdk-go/object"
	oid "github.com/nspcc-dev/neofs-sdk-go/object/id"
	"verif/simkit"
)

// ---------------------------------------------------------------------------------------
// C47 (shard part): container data is discarded only when long unpaid

func propC47() *simkit.Property {
	return &simkit.Property{
		ID: "C47", Level: "exploration", Bubble: true, TapeLimit: 3000,
		Rule: "each run = one shard holding objects of 2 containers and a history of 4-14 new-epoch events (epochs 0..10 delivered in order, repeated, skipped or out of order) with per-container unpaid-since values -1..12 (also ahead of the processed epoch), payments on/off and payment-check errors changing between events; after each event: a container's objects may be discarded only if payments are on, the check succeeded, unpaid-since >= 0 and processed epoch - unpaid-since >= 3 computed as integers. Engine start-up cleanup and the policer path are not part of this world yet. distinct = trace digest; non-trivial = >=1 event with an unpaid mark ahead of the processed epoch or a payment-check error",
		Run:  runC47,
		Assumptions: []string{"only the 'discards only if' direction is judged", "cmd/neofs-node/container.go (the real payment checker) is not executed; the shard's ContainerPayments seam is simulated"},
		Components:  shardComponents,
		DeadlockClass: "hang",
	}
}

func runC47(r *simkit.R) {
	cfg := drawShCfg(r, 2)
	w := newShWorld(r, cfg, 4)
	w.u = zz.NewUniverse(r.U32()%1000, 2, 4)
	for id := 0; id < 4; id++ {
		w.u.Specs[id] = &zz.Spec{ID: id, Cnr: id % 2, Kind: zz.KReg, Parent: -1, First: -1, Split: -1, Exp: -1, Size: 20, Target: -1, ECRule: -1}
	}
	w.pay.disabled = false
	w.open(w.dir)
	r.OnCleanup(func() { w.close() })
	for id := 0; id < 4; id++ {
		w.seqOp(&shOp{kind: "put", id: id})
	}
	discarded := map[int]bool{}
	interesting := false
	nev := 4 + r.Intn(11)
	epoch := uint64(r.Intn(3))
	for i := 0; i < nev; i++ {
		switch r.Intn(5) {
		case 0: // repeat
		case 1:
			epoch += uint64(1 + r.Intn(3))
		case 2:
			if epoch > 0 {
				epoch -= uint64(1 + r.Intn(int(min(epoch, 3))))
			}
		default:
			epoch++
		}
		if epoch > 10 {
			epoch = 10
		}
		w.pay.disabled = r.Bool(20)
		type st struct {
			unpaid int64
			err    bool
		}
		var sts [2]st
		for cn := 0; cn < 2; cn++ {
			sts[cn] = st{unpaid: int64(r.Intn(14)) - 1, err: r.Bool(15)}
			w.pay.unpaid[w.u.Cnrs[cn]] = sts[cn].unpaid
			w.pay.errs[w.u.Cnrs[cn]] = sts[cn].err
			if sts[cn].err || sts[cn].unpaid > int64(epoch) {
				interesting = true
			}
		}
		e := epoch
		w.exclusive("epoch", func() { w.sh.NotificationChannel() <- EventNewEpoch(e) })
		w.settle(300 * time.Millisecond)
		r.Op("epoch %d payments-disabled=%v c0=%+v c1=%+v", epoch, w.pay.disabled, sts[0], sts[1])
		for cn := 0; cn < 2; cn++ {
			if discarded[cn] {
				continue
			}
			gone := false
			w.exclusive("check", func() {
				for id := cn; id < 4; id += 2 {
					if _, err := w.sh.Get(w.addr(id), false); err != nil && errors.Is(err, apistatus.ErrObjectNotFound) {
						gone = true
					}
				}
			})
			if !gone {
				continue
			}
			discarded[cn] = true
			s := sts[cn]
			allowed := !w.pay.disabled && !s.err && s.unpaid >= 0 && int64(epoch)-s.unpaid >= 3
			if !allowed {
				why := "unpaid for less than 3 epochs"
				switch {
				case w.pay.disabled:
					why = "payments are disabled"
				case s.err:
					why = "the payment check failed"
				case s.unpaid < 0:
					why = "the container is paid"
				case s.unpaid > int64(epoch):
					why = "the unpaid mark is ahead of the processed epoch"
				}
				r.Failf("discard", "container discarded although "+why, "processing epoch %d with unpaid-since %d (payments disabled=%v, check error=%v): container c%d was marked for removal although %s", epoch, s.unpaid, w.pay.disabled, s.err, cn, why)
			}
		}
	}
	if interesting {
		r.Nontrivial()
	}
	_ = cid.ID{}
}

// ---------------------------------------------------------------------------------------
// C07: a live lock protects its object

func propC07() *simkit.Property {
	return &simkit.Property{
		ID: "C07", Level: "exploration", Bubble: true, TapeLimit: 4000,
		Rule: "each run = one shard and a history of 10-40 operations over 3-4 objects (with expirations), 3 locks (with/without expiration) and 3 tombstones aimed at them: puts, locks, tombstones, forced garbage marks, reads, epoch ticks (lock/object expiry lands between a tombstone attempt and a GC pass) and GC passes on the simulated clock with small batch sizes; lock and tombstone puts of the same target run as concurrent tasks ordered by the seeded scheduler; about a third of the runs also carry one size-split object (three stored parts, virtual parent with/without expiration) whose lock, tombstone and forced mark name the parent: while its lock is live the tombstone is rejected and every stored part stays readable and in place through expiry handling and GC. Oracle (tracked from acknowledged results): while a live lock (accepted, unexpired at the current epoch) holds on X and X was not force-marked: tombstones on X are rejected, Get never reports removed/expired, GC does not delete X's bytes; a lock for a tombstoned object and a tombstone for a lock object are rejected; a concurrent lock/tombstone pair is never accepted both. distinct = trace digest; non-trivial = >=1 GC pass ran while a live lock protected an expired object, or >=1 concurrent lock/tombstone pair",
		Run:  runC07,
		Assumptions: []string{"the expired-objects callback marks unlocked expired objects as the engine does (engine-wide lock check is the ENGINE world's)", "a forced mark (MarkGarbage) ends the obligation, as the statement says"},
		Components:  shardComponents,
		DeadlockClass: "hang",
	}
}

func runC07(r *simkit.R) {
	cfg := drawShCfg(r, 2)
	cfg.rmBatch = []int{1, 2, 100}[r.Intn(3)]
	nreg := 3 + r.Intn(2)
	// (about a third of the runs carry one size-split object: three stored parts, the parent known
	// through the last part's header; its lock and its tombstone name the parent)
	fam := r.Bool(35)
	nids := nreg + 9
	if fam {
		nids += 6
	}
	w := newShWorld(r, cfg, nids)
	w.layoutSimple(nreg, 3, 3, func() int { return []int{10, 300, 2500}[r.Intn(3)] })
	famP, famLock, famTomb := nreg+9, nreg+13, nreg+14
	famParts := []int{nreg + 10, nreg + 11, nreg + 12}
	if fam {
		sz := func() int { return []int{10, 300, 2500}[r.Intn(3)] }
		pexp, lexp := -1, -1
		if r.Bool(40) {
			pexp = 1 + r.Intn(4)
		}
		if r.Bool(50) {
			lexp = 1 + r.Intn(4)
		}
		w.u.Specs[famP] = &zz.Spec{ID: famP, Cnr: 0, Kind: zz.KReg, Parent: -1, First: -1, Split: -1, Exp: pexp, Size: 0, Target: -1, ECRule: -1, Virtual: true, Attrs: [][2]string{{"FileName", "big"}}}
		w.u.Specs[famParts[0]] = &zz.Spec{ID: famParts[0], Cnr: 0, Kind: zz.KReg, Parent: -1, NoIDPa: true, First: -1, Split: -1, Exp: -1, Size: sz(), Target: -1, ECRule: -1}
		w.u.Specs[famParts[1]] = &zz.Spec{ID: famParts[1], Cnr: 0, Kind: zz.KReg, Parent: -1, First: famParts[0], Split: -1, Exp: -1, Size: sz(), Target: -1, ECRule: -1}
		w.u.Specs[famParts[2]] = &zz.Spec{ID: famParts[2], Cnr: 0, Kind: zz.KReg, Parent: famP, First: famParts[0], Split: -1, Exp: -1, Size: sz(), Target: -1, ECRule: -1}
		w.u.Specs[famLock] = &zz.Spec{ID: famLock, Cnr: 0, Kind: zz.KLock, Parent: -1, First: -1, Split: -1, Exp: lexp, Target: famP, ECRule: -1}
		w.u.Specs[famTomb] = &zz.Spec{ID: famTomb, Cnr: 0, Kind: zz.KTomb, Parent: -1, First: -1, Split: -1, Exp: 2 + r.Intn(4), Target: famP, ECRule: -1}
	}
	famStored := map[int]bool{}
	famLockAcc, famForced, famTombAcked, famTombed, famMayGone := false, false, false, false, false
	famW := 0
	if fam {
		famW = 1
	}
	famLive := func() bool {
		s := w.u.Specs[famLock]
		return fam && famLockAcc && (s.Exp < 0 || w.ep.e <= uint64(s.Exp))
	}
	// one container so that every lock/tombstone can hit every object
	for id := range w.u.IDs {
		w.u.Specs[id].Cnr = 0
	}
	w.u = w.u
	w.open(w.dir)
	r.OnCleanup(func() { w.close() })
	r.Logf("config %s", cfg)
	for id := range w.u.IDs {
		r.Logf("  spec %s", w.u.Specs[id])
	}
	tombs := []int{nreg, nreg + 1, nreg + 2}
	locks := []int{nreg + 3, nreg + 4, nreg + 5}
	stored := map[int]bool{}      // put acknowledged
	forced := map[int]bool{}      // forced mark acknowledged
	tombedBy := map[int][]int{}   // tombstones acknowledged for X
	mayGone := map[int]bool{}     // X was expired and unprotected at some point: GC may have collected it
	tombed := map[int]bool{}      // (recomputed) an unexpired acknowledged tombstone targets X
	tombAcked := map[int]bool{}   // tombstone object acknowledged at least once
	lockAcc := map[int]bool{}     // lock object accepted
	lockStored := map[int]bool{}  // lock objects stored (cannot be tombstoned)
	liveLock := func(x int) bool {
		for _, l := range locks {
			s := w.u.Specs[l]
			if lockAcc[l] && s.Target == x && (s.Exp < 0 || w.ep.e <= uint64(s.Exp)) {
				return true
			}
		}
		return false
	}
	interesting := false
	refresh := func() {
		for x := 0; x < nreg; x++ {
			tombed[x] = false
			for _, t := range tombedBy[x] {
				if !w.expiredSpec(t) {
					tombed[x] = true
				}
			}
			if stored[x] && w.expiredSpec(x) && !liveLock(x) {
				mayGone[x] = true
			}
		}
		if fam {
			famTombed = famTombAcked && !w.expiredSpec(famTomb)
			if w.expiredSpec(famP) && !famLive() {
				famMayGone = true // the big object was expired and unprotected at some point
			}
		}
	}
	nops := 10 + r.Intn(31)
	for i := 0; i < nops; i++ {
		refresh()
		switch r.Weighted(22, 14, 14, 6, 12, 12, 12, 8, 12*famW, 7*famW, 7*famW, 2*famW) {
		case 8: // a part of the big object
			op := &shOp{kind: "put", id: famParts[r.Intn(3)]}
			w.seqOp(op)
			if op.err == nil {
				famStored[op.id] = true
			}
		case 9: // lock of the big object (names the parent)
			op := &shOp{kind: "lock", id: famLock}
			w.seqOp(op)
			if op.err == nil {
				if famTombed && !famLockAcc {
					r.Failf("lock", "lock accepted for an already tombstoned object", "%s accepted although a tombstone for the split object o%d was acknowledged earlier", w.u.Specs[famLock], famP)
				}
				if !w.expiredSpec(famLock) {
					famLockAcc = true
				}
			}
		case 10: // tombstone of the big object
			protected := famLive() && !famForced && !famTombAcked
			op := &shOp{kind: "tomb", id: famTomb}
			w.seqOp(op)
			if op.err == nil {
				if protected {
					r.Failf("lock", "tombstone accepted for an object protected by a live lock", "%s accepted at epoch %d although a live lock holds on the split object o%d", w.u.Specs[famTomb], w.ep.e, famP)
				}
				famTombAcked = true
			}
		case 11: // forced mark of the big object
			op := &shOp{kind: "mark", id: famP}
			w.seqOp(op)
			if op.err == nil {
				famForced = true
			}
		case 0:
			op := &shOp{kind: "put", id: r.Intn(nreg)}
			w.seqOp(op)
			if op.err == nil {
				stored[op.id] = true
				if !w.expiredSpec(op.id) {
					mayGone[op.id] = false
				}
			}
		case 1: // lock
			l := locks[r.Intn(3)]
			x := w.u.Specs[l].Target
			op := &shOp{kind: "lock", id: l}
			w.seqOp(op)
			if op.err == nil {
				if tombed[x] && !lockAcc[l] {
					r.Failf("lock", "lock accepted for an already tombstoned object", "%s accepted although a tombstone for o%d was acknowledged earlier", w.u.Specs[l], x)
				}
				if !w.expiredSpec(l) {
					lockAcc[l] = true
				}
				lockStored[l] = true
			}
		case 2: // tombstone
			t := tombs[r.Intn(3)]
			x := w.u.Specs[t].Target
			// (a tombstone object that is already stored is a duplicate: its put changes nothing)
			protected := liveLock(x) && !forced[x] && !tombAcked[t]
			op := &shOp{kind: "tomb", id: t}
			w.seqOp(op)
			if op.err == nil {
				tombAcked[t] = true
				if protected {
					r.Failf("lock", "tombstone accepted for an object protected by a live lock", "%s accepted at epoch %d although a live lock holds on o%d", w.u.Specs[t], w.ep.e, x)
				}
				tombedBy[x] = append(tombedBy[x], t)
			}
		case 3: // tombstone aimed at a lock object
			l := locks[r.Intn(3)]
			if !lockStored[l] || w.expiredSpec(l) { // (an expired lock may have been collected already)
				continue
			}
			// a dedicated, never stored tombstone ID per lock
			ts := &zz.Spec{ID: l + 3, Cnr: 0, Kind: zz.KTomb, Parent: -1, First: -1, Split: -1, Exp: 9, Target: l, ECRule: -1}
			var err error
			w.exclusive("tomb-of-lock", func() { err = w.sh.Put(w.u.Build(ts), nil) })
			r.Op("tombstone aimed at lock o%d -> %v", l, errS(err))
			if err == nil {
				r.Failf("lock", "lock object tombstoned", "a tombstone targeting the lock object o%d was accepted", l)
			}
		case 4: // concurrent lock / tombstone on the same target
			l := locks[r.Intn(3)]
			x := w.u.Specs[l].Target
			var t int = -1
			for _, c := range tombs {
				if w.u.Specs[c].Target == x {
					t = c
				}
			}
			if t < 0 || lockStored[l] || tombed[x] || liveLock(x) || w.expiredSpec(l) || tombAcked[t] || w.expiredSpec(t) { // (an expired tombstone may be collected at once)
				continue
			}
			lop, top := &shOp{kind: "lock", id: l}, &shOp{kind: "tomb", id: t}
			pair := []*shOp{lop, top}
			n := 0
			res := w.sched(shHooks{maxConc: 2, next: func() (string, func(*simkit.Task)) {
				if n >= 2 {
					return "", nil
				}
				op := pair[n]
				n++
				return op.kind, func(*simkit.Task) { w.exec(op) }
			}})
			if res != "" {
				r.Failf("hang", "concurrent lock/tombstone did not finish", "%s", res)
			}
			r.Op("concurrent %s -> %v || %s -> %v", lop, errS(lop.err), top, errS(top.err))
			interesting = true
			if lop.err == nil && top.err == nil {
				r.Failf("lock", "concurrent lock and tombstone of one object both accepted", "lock o%d and tombstone o%d for o%d ran concurrently and both succeeded", l, t, x)
			}
			if lop.err == nil {
				lockAcc[l], lockStored[l] = true, true
			}
			if top.err == nil {
				tombedBy[x] = append(tombedBy[x], t)
				tombAcked[t] = true
			}
		case 5: // forced mark
			x := r.Intn(nreg)
			op := &shOp{kind: "mark", id: x}
			w.seqOp(op)
			if op.err == nil {
				forced[x] = true
			}
		case 6: // epoch tick
			w.seqOp(&shOp{kind: "epoch"})
			w.settle(200 * time.Millisecond)
		case 7: // GC passes
			for x := 0; x < nreg; x++ {
				if stored[x] && liveLock(x) && !forced[x] && w.expiredSpec(x) {
					interesting = true
				}
			}
			w.settle(2*cfg.gcInterval + 500*time.Millisecond)
			r.Op("gc passes (epoch %d)", w.ep.e)
		}
		// invariant after every step
		refresh()
		for x := 0; x < nreg; x++ {
			if !stored[x] || forced[x] || len(tombedBy[x]) > 0 || mayGone[x] || !liveLock(x) {
				continue
			}
			var gerr error
			var ok bool
			var inB, inW bool
			w.exclusive("check", func() {
				var o *object.Object
				o, gerr = w.sh.Get(w.addr(x), false)
				ok = gerr == nil && bytes.Equal(o.Marshal(), w.bin(x))
				inB, inW = w.physical(x)
			})
			if !ok {
				what := "not readable"
				switch {
				case errors.Is(gerr, meta.ErrObjectIsExpired):
					what = "reported expired"
				case errors.Is(gerr, apistatus.ErrObjectAlreadyRemoved):
					what = "reported removed"
				case !inB && !inW:
					what = "physically deleted"
				}
				r.Failf("lock", "locked object "+what, "epoch %d: o%d (%s) is protected by a live lock and was never force-marked, but it is %s: %v (blob=%v cache=%v)", w.ep.e, x, w.u.Specs[x], what, gerr, inB, inW)
			}
		}
		// the locked big object keeps every stored part
		if famLive() && !famForced && !famTombAcked && !famMayGone {
			if w.expiredSpec(famP) {
				interesting = true
				r.Probe("expired split object protected by a live lock")
			}
			for _, x := range famParts {
				if !famStored[x] {
					continue
				}
				var gerr error
				var ok, inB, inW bool
				w.exclusive("check-part", func() {
					var o *object.Object
					o, gerr = w.sh.Get(w.addr(x), false)
					ok = gerr == nil && bytes.Equal(o.Marshal(), w.bin(x))
					inB, inW = w.physical(x)
				})
				if !ok {
					what := "not readable"
					switch {
					case errors.Is(gerr, meta.ErrObjectIsExpired):
						what = "reported expired"
					case errors.Is(gerr, apistatus.ErrObjectAlreadyRemoved):
						what = "reported removed"
					case !inB && !inW:
						what = "physically deleted"
					}
					r.Failf("lock", "part of a locked split object "+what, "epoch %d: part o%d (%s) of the split object o%d, which is protected by a live lock and was never force-marked, is %s: %v (blob=%v cache=%v)", w.ep.e, x, w.u.Specs[x], famP, what, gerr, inB, inW)
				}
			}
		}
	}
	if interesting {
		r.Nontrivial()
	}
}

func (w *shWorld) expiredSpec(id int) bool {
	s := w.u.Specs[id]
	return s.Exp >= 0 && w.ep.e > uint64(s.Exp)
}

// ---------------------------------------------------------------------------------------
// C44: garbage collection eventually removes everything that should be removed

func propC44() *simkit.Property {
	return &simkit.Property{
		ID: "C44", Level: "exploration", Bubble: true, TapeLimit: 4000,
		Rule: "each run = one shard (GC batch size 1..5 smaller than the garbage volume, with/without write-cache) and a history of puts (with expirations), tombstones and locks (with expirations), forced marks and container removals over 6-10 objects in 2 containers, in about a third of the runs plus one size-split family (three parts, virtual parent) removed through its parent or with its container; then epochs advance past every expiration and GC ticks run on the simulated clock until two consecutive observations are identical (budget 120 passes). Oracle: every object that is tombstoned, marked, expired and unlocked, or in a removed container is gone from blob storage, write-cache and metadata; expired tombstones and locks are gone; removed containers vanish from the metadata; objects with no removal reason are still readable with identical bytes. distinct = trace digest; non-trivial = garbage volume > GC batch size and >=1 retained object",
		Run:  runC44,
		Assumptions: []string{"liveness budget: 120 GC periods of simulated time after the last operation", "expired-objects callback = the engine's behaviour for one shard"},
		Components:  shardComponents,
		DeadlockClass: "hang",
	}
}

func runC44(r *simkit.R) {
	cfg := drawShCfg(r, 2)
	cfg.rmBatch = 1 + r.Intn(5)
	cfg.gcInterval = 1300 * time.Millisecond
	nreg := 6 + r.Intn(5)
	// (about a third of the runs carry one size-split family: a virtual parent known through
	// the headers of its stored parts, removed as a whole by a tombstone or mark of the parent)
	fam := r.Bool(35)
	nids := nreg + 6
	if fam {
		nids += 5
	}
	w := newShWorld(r, cfg, nids)
	w.u = zz.NewUniverse(r.U32()%1000, 2, nids)
	w.layoutSimple(nreg, 3, 3, func() int { return []int{10, 300, 1500}[r.Intn(3)] })
	famP, famTS := nreg+6, nreg+10
	famParts := []int{nreg + 7, nreg + 8, nreg + 9}
	if fam {
		fc := r.Intn(2)
		sz := func() int { return []int{10, 300, 1500}[r.Intn(3)] }
		w.u.Specs[famP] = &zz.Spec{ID: famP, Cnr: fc, Kind: zz.KReg, Parent: -1, First: -1, Split: -1, Exp: -1, Size: 0, Target: -1, ECRule: -1, Virtual: true, Attrs: [][2]string{{"FileName", "big"}}}
		w.u.Specs[famParts[0]] = &zz.Spec{ID: famParts[0], Cnr: fc, Kind: zz.KReg, Parent: -1, NoIDPa: true, First: -1, Split: -1, Exp: -1, Size: sz(), Target: -1, ECRule: -1}
		w.u.Specs[famParts[1]] = &zz.Spec{ID: famParts[1], Cnr: fc, Kind: zz.KReg, Parent: -1, First: famParts[0], Split: -1, Exp: -1, Size: sz(), Target: -1, ECRule: -1}
		w.u.Specs[famParts[2]] = &zz.Spec{ID: famParts[2], Cnr: fc, Kind: zz.KReg, Parent: famP, First: famParts[0], Split: -1, Exp: -1, Size: sz(), Target: -1, ECRule: -1}
		w.u.Specs[famTS] = &zz.Spec{ID: famTS, Cnr: fc, Kind: zz.KTomb, Parent: -1, First: -1, Split: -1, Exp: 2 + r.Intn(4), Target: famP, ECRule: -1}
	}
	famStored, famGone := map[int]bool{}, map[int]bool{}
	famTouched := false // a removal of the parent was attempted (whatever the outcome)
	famW := 0
	if fam {
		famW = 1
	}
	w.open(w.dir)
	r.OnCleanup(func() { w.close() })
	r.Logf("config %s", cfg)
	stored, marked, tombed := map[int]bool{}, map[int]bool{}, map[int]bool{}
	markedEver := map[int]bool{}
	lateLock := map[int]bool{} // locked only after it had expired: it may have been collected already
	lockOn := map[int][]int{}
	cnrRemoved := map[int]bool{}
	auxStored := map[int]bool{}
	nops := 10 + r.Intn(25)
	for i := 0; i < nops; i++ {
		switch r.Weighted(45, 14, 10, 14, 4, 8, 14*famW, 6*famW) {
		case 6:
			op := &shOp{kind: "put", id: famParts[r.Intn(3)]}
			w.seqOp(op)
			if op.err == nil && !cnrRemoved[w.u.Specs[op.id].Cnr] {
				famStored[op.id] = true
			}
		case 7:
			// removal of the whole family through its parent: tombstone or mark
			op := &shOp{kind: "tomb", id: famTS}
			if r.Bool(40) {
				op = &shOp{kind: "mark", id: famP}
			}
			famTouched = true
			// (a tombstone that is already stored is acknowledged without being processed again)
			repeat := op.kind == "tomb" && auxStored[famTS]
			w.seqOp(op)
			if op.err == nil {
				if op.kind == "tomb" {
					auxStored[famTS] = true
				}
				// (the parent is known to the shard only through the part that carries its header)
				if famStored[famParts[2]] && !repeat {
					for id := range famStored {
						famGone[id] = true
					}
					r.Probe("split family removed through its parent")
				}
			}
		case 0:
			op := &shOp{kind: "put", id: r.Intn(nreg)}
			w.seqOp(op)
			if op.err == nil && !cnrRemoved[w.u.Specs[op.id].Cnr] {
				stored[op.id] = true
			}
		case 1:
			t := nreg + r.Intn(3)
			op := &shOp{kind: "tomb", id: t}
			w.seqOp(op)
			if op.err == nil {
				tombed[w.u.Specs[t].Target] = true
				auxStored[t] = true
			}
		case 2:
			l := nreg + 3 + r.Intn(3)
			op := &shOp{kind: "lock", id: l}
			w.seqOp(op)
			if op.err == nil {
				x := w.u.Specs[l].Target
				if xs := w.u.Specs[x]; x < nreg && !(xs.Exp >= 0 && w.ep.e > uint64(xs.Exp)) {
					lockOn[x] = append(lockOn[x], l)
				} else if x < nreg {
					lateLock[x] = true
				}
				auxStored[l] = true
			}
		case 3:
			op := &shOp{kind: "mark", id: r.Intn(nreg)}
			w.seqOp(op)
			// (a mark of an address the shard does not hold yet may be a no-op: only marks of
			// stored objects are counted as removal reasons)
			if op.err == nil && stored[op.id] {
				marked[op.id] = true
			}
			markedEver[op.id] = true
		case 4:
			cn := r.Intn(2)
			var err error
			w.exclusive("inhume-container", func() { err = w.sh.InhumeContainer(w.u.Cnrs[cn]) })
			r.Op("remove container c%d -> %v", cn, errS(err))
			if err == nil {
				cnrRemoved[cn] = true
			}
		case 5:
			w.seqOp(&shOp{kind: "epoch"})
		}
	}
	// advance past every expiration (max 4 + margin), letting GC run in between
	for w.ep.e < 8 {
		w.seqOp(&shOp{kind: "epoch"})
		w.settle(2 * cfg.gcInterval)
	}
	observe := func() string {
		var sb strings.Builder
		w.exclusive("observe", func() {
			for id := range w.u.IDs {
				inB, inW := w.physical(id)
				ex, err := w.sh.metaBase.Exists(w.addr(id), true)
				fmt.Fprintf(&sb, "%d:%v%v%v%v;", id, inB, inW, ex, err != nil)
			}
			g, _ := w.sh.metaBase.GetGarbage(1000)
			ng := 0
			for _, b := range g {
				ng += 1 + len(b.Objects)
			}
			fmt.Fprintf(&sb, "g%d", ng)
		})
		if os.Getenv("VERIF_DEBUG") != "" {
			fmt.Println("DEBUG observe:", sb.String())
		}
		return sb.String()
	}
	prev := ""
	quiet := 0
	// quiescence = the state did not change over 4 consecutive GC periods (a pass may be spent on
	// expired-object bookkeeping only); budget 120 periods
	for pass := 0; pass < 120 && quiet < 4; pass++ {
		w.settle(cfg.gcInterval + 200*time.Millisecond)
		cur := observe()
		if cur == prev {
			quiet++
		} else {
			quiet = 0
		}
		prev = cur
	}
	if quiet < 4 {
		r.Failf("gc", "garbage collection does not reach quiescence", "after 120 GC periods the shard state still changes")
	}
	garbage := 0
	retained := 0
	for id := 0; id < nreg; id++ {
		s := w.u.Specs[id]
		lockedForever := false
		for _, l := range lockOn[id] {
			if w.u.Specs[l].Exp < 0 && !cnrRemoved[s.Cnr] {
				lockedForever = true
			}
		}
		removable := tombed[id] || marked[id] || cnrRemoved[s.Cnr] || (s.Exp >= 0 && !lockedForever)
		if !removable && markedEver[id] {
			continue // marked while absent, stored later: the statement does not decide
		}
		if lateLock[id] {
			continue // lock arrived after expiry: either outcome
		}
		var inB, inW, ex bool
		var gerr error
		w.exclusive("final", func() {
			inB, inW = w.physical(id)
			ex, _ = w.sh.metaBase.Exists(w.addr(id), true)
			var o *object.Object
			o, gerr = w.sh.Get(w.addr(id), false)
			if gerr == nil && !bytes.Equal(o.Marshal(), w.bin(id)) {
				gerr = errors.New("wrong bytes")
			}
		})
		switch {
		case removable:
			garbage++
			if inB || inW || ex {
				why := "expired and unlocked"
				switch {
				case cnrRemoved[s.Cnr]:
					why = "in a removed container"
				case tombed[id]:
					why = "tombstoned"
				case marked[id]:
					why = "marked as garbage"
				}
				r.Failf("gc", "object that should be removed is still there: "+why, "o%d (%s) is %s; after GC quiescence: blob=%v cache=%v metadata=%v (GC batch size %d)", id, s, why, inB, inW, ex, cfg.rmBatch)
			}
		case stored[id]:
			retained++
			if gerr != nil {
				r.Failf("gc", "retained object deleted by garbage collection", "o%d (%s) has no removal reason (locks: %v) but after GC quiescence: %v (blob=%v cache=%v)", id, s, lockOn[id], gerr, inB, inW)
			}
		}
	}
	if fam {
		for _, id := range famParts {
			s := w.u.Specs[id]
			if !famStored[id] {
				continue
			}
			removable := famGone[id] || cnrRemoved[s.Cnr]
			if !removable && famTouched {
				continue // stored after (or without) an effective removal of the parent: not decided
			}
			var inB, inW, ex bool
			var gerr error
			w.exclusive("final-family", func() {
				inB, inW = w.physical(id)
				ex, _ = w.sh.metaBase.Exists(w.addr(id), true)
				var o *object.Object
				o, gerr = w.sh.Get(w.addr(id), false)
				if gerr == nil && !bytes.Equal(o.Marshal(), w.bin(id)) {
					gerr = errors.New("wrong bytes")
				}
			})
			if removable {
				garbage++
				if inB || inW || ex {
					why := "its parent was tombstoned or marked while it was stored"
					if cnrRemoved[s.Cnr] {
						why = "in a removed container"
					}
					r.Failf("gc", "part of a split object that should be removed is still there: "+why, "o%d (%s): %s; after GC quiescence: blob=%v cache=%v metadata=%v (GC batch size %d)", id, s, why, inB, inW, ex, cfg.rmBatch)
				}
			} else if gerr != nil {
				r.Failf("gc", "retained object deleted by garbage collection", "part o%d (%s) of a split object nobody removed; after GC quiescence: %v (blob=%v cache=%v)", id, s, gerr, inB, inW)
			}
		}
	}
	auxIDs := []int{}
	for id := nreg; id < nreg+6; id++ {
		auxIDs = append(auxIDs, id)
	}
	if fam {
		auxIDs = append(auxIDs, famTS)
	}
	for _, id := range auxIDs {
		s := w.u.Specs[id]
		if !auxStored[id] || s.Exp < 0 {
			continue
		}
		var inB, inW, ex bool
		w.exclusive("final-aux", func() {
			inB, inW = w.physical(id)
			ex, _ = w.sh.metaBase.Exists(w.addr(id), true)
		})
		if inB || inW || ex {
			r.Failf("gc", "expired "+s.Kind.String()+" object is not removed", "o%d (%s) expired at epoch %d, now epoch %d; blob=%v cache=%v metadata=%v", id, s, s.Exp, w.ep.e, inB, inW, ex)
		}
	}
	for cn := 0; cn < 2; cn++ {
		if !cnrRemoved[cn] {
			continue
		}
		var cnrs []cid.ID
		w.exclusive("containers", func() { cnrs, _ = w.sh.metaBase.Containers() })
		for _, c := range cnrs {
			if c == w.u.Cnrs[cn] {
				r.Failf("gc", "removed container stays in the metadata", "container c%d was removed and is empty, but the metabase still lists it", cn)
			}
		}
	}
	if garbage > cfg.rmBatch && retained > 0 {
		r.Nontrivial()
	}
}

// ---------------------------------------------------------------------------------------
// C18: rebuilding metadata from blobs gives the same statuses in any blob order

func propC18() *simkit.Property {
	return &simkit.Property{
		ID: "C18", Level: "exploration", Bubble: true, TapeLimit: 4000,
		Rule: "each run = a blob set produced by a real incremental history on a shard (regular objects, a v1 split object known through its last part's parent header, in 30% of the runs with one more part that carries no parent header, tombstones and locks with and without expirations, some objects physically collected by GC so that only reachable sets occur), flushed to blob storage; then the metabase is rebuilt with ResyncFromBlobstor on copies of the shard with the blob enumeration order permuted (all permutations when <=5 blobs, else 8 seed-chosen ones). Oracle: every address gets the same status class (available / removed / expired / not found, and locked yes/no) in every permutation, equal to the status that follows from the stored objects (tombstone in blobs => removed, unexpired lock in blobs => locked, expiration attribute => expired); afterwards GC passes reclaim the blob of every removed object. distinct = (history digest, permutation); non-trivial = >=1 permutation enumerates a tombstone or lock before its target",
		Run:  runC18,
		Assumptions: []string{"statuses are derived from what the blobs contain (garbage marks are not stored in blobs and are legitimately lost)"},
		Components:  shardComponents,
		DeadlockClass: "hang",
	}
}

func runC18(r *simkit.R) {
	cfg := drawShCfg(r, 0)
	cfg.rmBatch = 100
	nreg := 3 + r.Intn(3)
	// a few runs carry more blobs than one resynchronisation batch (1000): the batch boundary
	// must not lose or reorder anything
	nfill := 0
	if r.Bool(3) {
		nfill = 1000 + r.Intn(6)
		r.Probe("more blobs than one resync batch")
	}
	w := newShWorld(r, cfg, nreg+5+nfill)
	w.u = zz.NewUniverse(r.U32()%1000, 1, nreg+5+nfill)
	w.layoutSimple(nreg, 2, 2, func() int { return []int{10, 300}[r.Intn(2)] })
	for id := nreg + 5; id < nreg+5+nfill; id++ {
		w.u.Specs[id] = &zz.Spec{ID: id, Cnr: 0, Kind: zz.KReg, Parent: -1, First: -1, Split: -1, Exp: -1, Size: 1, Target: -1, ECRule: -1}
	}
	// one split family: parent (virtual) + last part carrying the parent header
	par, part := nreg+4, nreg-1
	w.u.Specs[par] = &zz.Spec{ID: par, Cnr: 0, Kind: zz.KReg, Parent: -1, First: -1, Split: -1, Exp: -1, Size: 64, Target: -1, ECRule: -1, Virtual: true}
	w.u.Specs[part] = &zz.Spec{ID: part, Cnr: 0, Kind: zz.KReg, Parent: par, First: -1, Split: 3, Exp: -1, Size: 12, Target: -1, ECRule: -1}
	// in 30% of the runs the family has one more part that carries no parent header (a middle
	// part): only the split ID it shares with the last part ties it to the parent
	mid := -1
	if r.Bool(30) {
		mid = nreg - 2
		w.u.Specs[mid] = &zz.Spec{ID: mid, Cnr: 0, Kind: zz.KReg, Parent: -1, First: -1, Split: 3, Exp: -1, Size: 20, Target: -1, ECRule: -1}
	}
	if r.Bool(50) {
		// aim one tombstone / lock at the parent
		w.u.Specs[nreg+r.Intn(4)].Target = par
	}
	// tombstones and locks address whole objects, never a single split part
	for id := nreg; id < nreg+4; id++ {
		if t := w.u.Specs[id].Target; t == part || t == mid {
			w.u.Specs[id].Target = par
		}
	}
	w.open(w.dir)
	r.OnCleanup(func() { w.close() })
	nops := 6 + r.Intn(14)
	for i := 0; i < nops; i++ {
		switch r.Weighted(50, 15, 12, 8, 8) {
		case 0:
			w.seqOp(&shOp{kind: "put", id: r.Intn(nreg)})
		case 1:
			w.seqOp(&shOp{kind: "tomb", id: nreg + r.Intn(2)})
		case 2:
			w.seqOp(&shOp{kind: "lock", id: nreg + 2 + r.Intn(2)})
		case 3:
			w.seqOp(&shOp{kind: "epoch"})
		case 4:
			w.settle(2 * cfg.gcInterval) // GC may collect tombstoned objects physically
		}
	}
	if nfill > 0 {
		w.exclusive("bulk-put", func() {
			for id := nreg + 5; id < nreg+5+nfill; id++ {
				if err := w.sh.Put(w.u.Build(w.u.Specs[id]), nil); err != nil {
					r.Failf("infra", "bulk put", "%v", err)
				}
			}
		})
	}
	w.settle(500 * time.Millisecond)
	// what the blobs contain
	var blobs []int
	w.exclusive("list-blobs", func() {
		for id := range w.u.IDs {
			if inB, _ := w.physical(id); inB {
				blobs = append(blobs, id)
			}
		}
	})
	has := map[int]bool{}
	for _, id := range blobs {
		has[id] = true
	}
	if nfill > 0 {
		r.Op("blob set: %d blobs at epoch %d", len(blobs), w.ep.e)
	} else {
		r.Op("blob set: %v at epoch %d", blobs, w.ep.e)
	}
	// freeze the source: every permutation starts from the same image (the source shard's own
	// GC would otherwise keep collecting while the simulated clock advances)
	base := w.snapshot("base")
	w.close()
	w.open(w.snapshot("idle")) // keeps the world's cleanup valid; not used below
	w.dir = base
	type status struct {
		class  string
		locked bool
	}
	classOf := func(s *Shard, id int) status {
		a := w.addr(id)
		ex, err := s.metaBase.Exists(a, false)
		locked, _ := s.metaBase.IsLocked(a)
		var c string
		switch {
		case err == nil && ex:
			c = "available"
		case err == nil:
			c = "missing"
		case errors.Is(err, apistatus.ErrObjectAlreadyRemoved):
			c = "removed"
		case errors.Is(err, meta.ErrObjectIsExpired):
			c = "expired"
		case errors.Is(err, apistatus.ErrObjectNotFound):
			c = "not-found"
		default:
			var pe interface{ Unwrap() error }
			_ = pe
			c = "available" // parent of stored parts (split info / EC parts)
		}
		return status{c, locked}
	}
	// expected from the stored objects
	expect := func(id int) (classes []string, locked bool) {
		tomb, lock := false, false
		for _, b := range blobs {
			s := w.u.Specs[b]
			if s.Kind == zz.KTomb && s.Target == id {
				tomb = true
			}
			if s.Kind == zz.KLock && s.Target == id && !(s.Exp >= 0 && w.ep.e > uint64(s.Exp)) {
				lock = true
			}
		}
		sp := w.u.Specs[id]
		present := has[id] || (id == par && has[part])
		exp := sp.Exp >= 0 && w.ep.e > uint64(sp.Exp)
		switch {
		case tomb && lock:
			classes = []string{"removed", "available", "missing"}
		case tomb:
			// (a removed object whose blob is enumerated after its tombstone is skipped: "missing")
			classes = []string{"removed", "missing"}
			if exp {
				classes = append(classes, "expired")
			}
		case id == par:
			classes = []string{"available", "missing", "removed", "not-found"} // virtual: exists only through an indexed child
		case !present:
			classes = []string{"missing"}
		case exp && !lock:
			// (resync may skip an already expired object: "missing" is the same unavailability)
			classes = []string{"expired", "missing"}
		default:
			classes = []string{"available"}
		}
		if id == mid && present && has[part] {
			// the middle part shares the fate of the parent the last part ties it to
			ptomb, plock := false, false
			for _, b := range blobs {
				bs := w.u.Specs[b]
				if bs.Kind == zz.KTomb && bs.Target == par {
					ptomb = true
				}
				if bs.Kind == zz.KLock && bs.Target == par && !(bs.Exp >= 0 && w.ep.e > uint64(bs.Exp)) {
					plock = true
				}
			}
			switch {
			case ptomb && plock:
				classes = []string{"removed", "available", "missing"}
			case ptomb:
				classes = []string{"removed", "missing"}
			}
		}
		if id == part && present {
			// a child may report its own or its parent's worse status
			pc, _ := expectParent(w, blobs, par)
			classes = append(classes, pc...)
			if len(pc) > 0 {
				classes = append(classes, "missing")
			}
		}
		return classes, lock
	}
	tag := func(id int) string {
		if id == mid {
			return " [part of a split object tied to its tombstoned parent only through the split ID it shares with the last part]"
		}
		return ""
	}
	nperm := 8
	if len(blobs) <= 5 {
		nperm = 1
		for i := 2; i <= len(blobs); i++ {
			nperm *= i
		}
	}
	if nfill > 0 {
		nperm = 2
	}
	inverted := false
	var first map[int]status
	for p := 0; p < nperm && p < 24; p++ {
		perm := r.Perm(len(blobs))
		if nfill > 0 && len(blobs) > 1001 {
			// put a tombstone / lock (or, failing that, any early object) exactly behind the first batch
			sortedB := append([]int(nil), blobs...)
			sort.Slice(sortedB, func(i, j int) bool { return w.addr(sortedB[i]).String() < w.addr(sortedB[j]).String() })
			want := -1
			for i, id := range sortedB {
				if k := w.u.Specs[id].Kind; (k == zz.KTomb || k == zz.KLock) && (want < 0 || r.Bool(50)) {
					want = i
				}
			}
			if want < 0 {
				want = 0
			}
			for j := range perm {
				if perm[j] == want {
					perm[1000], perm[j] = perm[j], perm[1000]
					break
				}
			}
		}
		w.iterPerm = func(n int) []int {
			if n == len(perm) {
				return perm
			}
			q := make([]int, n)
			for i := range q {
				q[i] = i
			}
			return q
		}
		dir := w.snapshot(fmt.Sprintf("perm%d", p))
		w2 := &shWorld{r: r, k: w.k, cfg: w.cfg, ep: w.ep, pay: w.pay, u: w.u, bins: w.bins, dir: dir, iterPerm: w.iterPerm}
		w2.open(dir)
		var rerr error
		w2.exclusive("resync", func() { rerr = w2.sh.metaBase.ResyncFromBlobstor(w2.sh.blobStor, nil) })
		if rerr != nil {
			w2.close()
			r.Failf("resync", "resync fails", "ResyncFromBlobstor: %v", rerr)
		}
		// order of enumeration (sorted by address string, then permuted)
		sorted := append([]int(nil), blobs...)
		sort.Slice(sorted, func(i, j int) bool { return w.addr(sorted[i]).String() < w.addr(sorted[j]).String() })
		order := make([]int, len(sorted))
		for i, j := range perm {
			order[i] = sorted[j]
		}
		pos := map[int]int{}
		for i, id := range order {
			pos[id] = i
		}
		for _, id := range order {
			s := w.u.Specs[id]
			if (s.Kind == zz.KTomb || s.Kind == zz.KLock) && has[s.Target] && pos[id] < pos[s.Target] {
				inverted = true
				r.Probe("tombstone/lock enumerated before its target")
			}
		}
		got := map[int]status{}
		w2.exclusive("statuses", func() {
			for id := range w.u.IDs {
				got[id] = classOf(w2.sh, id)
			}
		})
		if nfill > 0 {
			r.Op("permutation of %d blobs (o%d behind the first batch)", len(order), order[1000])
		} else {
			r.Op("permutation %v -> %v", order, fmtStatuses(got))
		}
		for id := range w.u.IDs {
			want, wl := expect(id)
			okc := false
			for _, c := range want {
				if c == got[id].class || (c == "missing" && got[id].class == "not-found") {
					okc = true
				}
			}
			if !okc {
				w2.close()
				r.Failf("resync", fmt.Sprintf("status after resync differs from what the blobs imply: %s instead of %s (%s)%s", got[id].class, strings.Join(want, "/"), w.u.Specs[id].Kind, tag(id)), "blob order %v: o%d (%s) is reported %s, the stored objects imply %v", order, id, w.u.Specs[id], got[id].class, want)
			}
			if got[id].locked != wl && got[id].class != "missing" {
				w2.close()
				r.Failf("resync", "lock status after resync differs from what the blobs imply", "blob order %v: o%d locked=%v, the stored objects imply locked=%v", order, id, got[id].locked, wl)
			}
		}
		if first == nil {
			first = got
		} else {
			for id := range w.u.IDs {
				if got[id] != first[id] && !(unavailable(got[id].class) && unavailable(first[id].class)) {
					w2.close()
					r.Failf("resync", "status depends on the blob enumeration order"+tag(id), "o%d (%s): %+v in one order, %+v in another (order %v)", id, w.u.Specs[id], first[id], got[id], order)
				}
			}
		}
		// GC reclaims the payload of removed objects
		w2.settle(3*cfg.gcInterval + time.Second)
		var leak, leakTag string
		w2.exclusive("reclaim", func() {
			for _, id := range blobs {
				want, _ := expect(id)
				if want[0] != "removed" || len(want) > 2 {
					continue
				}
				if inB, _ := w2.physical(id); inB {
					leak = fmt.Sprintf("o%d (%s) is removed by a tombstone but its blob is still there after GC passes (blob order %v)", id, w.u.Specs[id], order)
					leakTag = tag(id)
				}
			}
		})
		w2.close()
		if leak != "" {
			r.Failf("resync", "payload of a removed object is not reclaimed after resync"+leakTag, "%s", leak)
		}
	}
	w.iterPerm = nil
	if inverted {
		r.Nontrivial()
	}
	_ = filepath.Join
	_ = oid.ID{}
}

func unavailable(c string) bool { return c == "missing" || c == "removed" || c == "not-found" || c == "expired" }

func expectParent(w *shWorld, blobs []int, par int) ([]string, bool) {
	tomb := false
	for _, b := range blobs {
		s := w.u.Specs[b]
		if s.Kind == zz.KTomb && s.Target == par {
			tomb = true
		}
	}
	if tomb {
		return []string{"removed", "not-found"}, false
	}
	return nil, false
}

func fmtStatuses[T any](m map[int]T) string {
	var ks []int
	for k := range m {
		ks = append(ks, k)
	}
	sort.Ints(ks)
	var sb strings.Builder
	for _, k := range ks {
		fmt.Fprintf(&sb, "o%d=%v ", k, m[k])
	}
	return sb.String()
}
