package simkit

import (
	"time"

	"github.com/anishathalye/porcupine"
)

// LinOp is one recorded operation of a concurrent history.
type LinOp struct {
	Client int
	Key    string
	In     any
	Out    any
	Call   uint64
	Ret    uint64
}

// CheckLinearizable checks the history per key against a sequential model.
// step(state, in, out) returns (legal, newState); states must be comparable with ==.
// Returns "" if linearizable, "unknown" on timeout (never reported), else the offending key.
func CheckLinearizable(ops []LinOp, init func(key string) any, step func(state, in, out any) (bool, any), timeout time.Duration) (badKey string, unknown bool) {
	byKey := map[string][]porcupine.Operation{}
	var keys []string
	for _, o := range ops {
		if _, ok := byKey[o.Key]; !ok {
			keys = append(keys, o.Key)
		}
		byKey[o.Key] = append(byKey[o.Key], porcupine.Operation{ClientId: o.Client, Input: o.In, Call: int64(o.Call), Output: o.Out, Return: int64(o.Ret)})
	}
	for _, key := range keys {
		m := porcupine.Model{
			Init: func() any { return init(key) },
			Step: func(st, in, out any) (bool, any) { return step(st, in, out) },
		}
		// porcupine needs distinct client ids for overlapping ops; assign per-op ids lazily
		hist := byKey[key]
		for i := range hist {
			hist[i].ClientId = i
		}
		res := porcupine.CheckOperationsTimeout(m, hist, timeout)
		switch res {
		case porcupine.Illegal:
			return key, false
		case porcupine.Unknown:
			unknown = true
		}
	}
	return "", unknown
}
