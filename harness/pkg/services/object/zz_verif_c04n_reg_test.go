//go:build verif

package object

import (
	"testing"

	"verif/simkit"
)

// TestVerifC04n runs the node-level part of C04 on its own (the driver runs '^TestVerif$': the
// coordinator adds `simkit.Main(t, propC04n())` to TestVerif in zz_verif_objsvc_test.go).
func TestVerifC04n(t *testing.T) { simkit.Main(t, propC04n()) }
