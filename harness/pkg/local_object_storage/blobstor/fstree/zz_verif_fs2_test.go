package fstree

import (
	"bytes"
	"errors"
	"fmt"
	"io/fs"
	"os"
	"path/filepath"
	"sort"
	"strings"
	"time"

	"github.com/nspcc-dev/neofs-node/internal/zzverif/simfs"
	"github.com/nspcc-dev/neofs-node/pkg/local_object_storage/blobstor/common"
	"github.com/nspcc-dev/neofs-sdk-go/object"
	oid "github.com/nspcc-dev/neofs-sdk-go/object/id"
	"verif/simkit"
)

// ---------------------------------------------------------------------------------------
// C11 (file-tree part): range reads of objects stored in every file format

func propC11() *simkit.Property {
	return &simkit.Property{
		ID: "C11", Level: "exploration", Bubble: true, TapeLimit: 4000,
		Rule: "each run = one FSTree configuration with 3-7 objects stored as single file, combined file (Put and PutBatch) and legacy zstd-compressed file, payload lengths 0..~100KiB (around the 40KiB header buffer), then 40-120 range requests in all five modes with boundary-directed (0,1,len-1,len,len+1, buffer boundary +-1, 2^63+-1, 2^64-1) and random operands through GetRangeStream(with/without header), ReadPayloadRange(with header interception) and ReadObjectParts; thorough tier adds the exhaustive table for payload lengths 0..64 x all (off,len) in every mode. Oracle: slice of the stored payload or out-of-range exactly when unsatisfiable. distinct = trace digest; non-trivial = >=1 combined and >=1 compressed or large object read. This is input generation riding on the simulated world; the flush-in-progress part lives in the shard world (C16)",
		Run:  runC11,
		Assumptions: []string{"range oracle written from the statement (HTTP-like semantics); for a zero-length payload 'from 0' and 'suffix n' are accepted either way"},
		Components:  fsComponents,
	}
}

func runC11(r *simkit.R) {
	cfg := drawFsCfg(r, false)
	cfg.generic = r.Bool(15)
	nobj := 3 + r.Intn(5)
	w := newFsWorld(r, cfg, nobj+41)
	w.root = filepath.Join(r.Dir, "t")
	w.t = w.openTree(w.root)
	r.OnCleanup(func() { _ = w.t.Close() })
	r.Logf("config %s", cfg)
	type stored struct {
		id      int
		bin, pl []byte
		form    string
	}
	var objs []stored
	batch := map[oid.Address][]byte{}
	combined, special := false, false
	for id := 0; id < nobj; id++ {
		var sz int
		switch r.Intn(7) {
		case 0:
			sz = 0
		case 1:
			sz = 1 + r.Intn(64)
		case 2:
			sz = 40960 - 300 + r.Intn(600)
		case 3:
			sz = 20480 - 200 + r.Intn(400)
		case 4:
			sz = 60000 + r.Intn(45000)
		default:
			sz = r.Intn(5000)
		}
		bin := w.objBytes(id, sz, id+1)
		var o object.Object
		_ = o.Unmarshal(bin)
		st := stored{id: id, bin: bin, pl: o.Payload()}
		switch r.Weighted(4, 3, 2) {
		case 0:
			st.form = "put"
			if err := w.t.Put(w.addr(id), bin); err != nil {
				r.Failf("infra", "put", "put: %v", err)
			}
			if len(bin) <= cfg.threshold && cfg.countLimit >= 2 && !cfg.generic {
				st.form = "put(combined)"
				combined = true
			}
		case 1:
			st.form = "batch"
			batch[w.addr(id)] = bin
			if !cfg.generic {
				combined = true
			}
		case 2:
			st.form = "zstd"
			
			p := w.t.treePath(w.addr(id))
			_ = os.MkdirAll(filepath.Dir(p), 0o700)
			if err := os.WriteFile(p, simfs.ZstdEncode(bin), 0o600); err != nil {
				r.Failf("infra", "write", "%v", err)
			}
			special = true
		}
		if sz > 40960 {
			special = true
		}
		objs = append(objs, st)
		r.Logf("o%d payload=%d form=%s", id, sz, st.form)
	}
	if r.Bool(40) {
		// fillers: the combined file of the batch grows beyond the header buffer, so objects sit
		// at every position of a long combined file
		nf := 15 + r.Intn(26)
		for j := 0; j < nf; j++ {
			id := nobj + j
			sz := 300 + r.Intn(1200)
			bin := w.objBytes(id, sz, id+1)
			var o object.Object
			_ = o.Unmarshal(bin)
			batch[w.addr(id)] = bin
			objs = append(objs, stored{id: id, bin: bin, pl: o.Payload(), form: "batch(filler)"})
		}
		combined = !cfg.generic
		r.Probe("long combined file (batch beyond the header buffer)")
	}
	if len(batch) > 0 {
		if err := w.t.PutBatch(batch); err != nil {
			r.Failf("infra", "putbatch", "putbatch: %v", err)
		}
	}
	// let the sync batch timer fire so that combined files are complete
	w.k.Sleep(50 * 1e6)
	nreq := 40 + r.Intn(81)
	for i := 0; i < nreq; i++ {
		st := objs[r.Intn(len(objs))]
		rng := drawRange(r.Chooser, uint64(len(st.pl)))
		r.Op("range o%d(%s,%d) %s", st.id, st.form, len(st.pl), rngStr(rng))
		checkRanges(r, w.t, w.addr(st.id), st.bin, st.pl, rng, fmt.Sprintf("o%d stored as %s", st.id, st.form))
	}
	if r.Thorough() && r.Bool(10) {
		// exhaustive table: payload lengths 0..64, all operands 0..len+2 in every mode
		for n := 0; n <= 64; n += 1 + r.Intn(3) {
			id := 0
			bin := w.objBytes(id, n, 1000+n)
			if err := w.t.Delete(w.addr(id)); err != nil && !isNotFound(err) {
				r.Failf("infra", "delete", "%v", err)
			}
			if err := w.t.Put(w.addr(id), bin); err != nil {
				r.Failf("infra", "put", "%v", err)
			}
			w.k.Sleep(20 * 1e6)
			var o object.Object
			_ = o.Unmarshal(bin)
			for a := uint64(0); a <= uint64(n)+2; a++ {
				for b := uint64(0); b <= uint64(n)+2; b++ {
					for _, rng := range []common.PayloadRange{common.NewPayloadRange(a, b), common.NewPayloadRangeBounds(a, b)} {
						checkRanges(r, w.t, w.addr(id), bin, o.Payload(), rng, fmt.Sprintf("table len=%d", n))
					}
				}
				checkRanges(r, w.t, w.addr(id), bin, o.Payload(), common.NewPayloadRangeFrom(a), fmt.Sprintf("table len=%d", n))
				checkRanges(r, w.t, w.addr(id), bin, o.Payload(), common.NewPayloadRangeSuffix(a), fmt.Sprintf("table len=%d", n))
			}
		}
		r.Probe("exhaustive 0..64 table executed")
	}
	if combined && special {
		r.Nontrivial()
	}
}

// ---------------------------------------------------------------------------------------
// shared write workload for C12 / C13

type wop struct {
	kind string // put putbatch delete
	ids  []int
	data [][]byte
	err  error
	call uint64
	ret  uint64
	done bool
}

func (o *wop) String() string {
	szs := []int{}
	for _, d := range o.data {
		szs = append(szs, len(d))
	}
	return fmt.Sprintf("%s%v sizes=%v", o.kind, o.ids, szs)
}

func drawWorkload(r *simkit.R, w *fsWorld, nops, nids int, withDelete bool, maxSize int) []*wop {
	var ops []*wop
	used := map[int]bool{}
	ver := 0
	size := func() int {
		switch r.Intn(5) {
		case 0:
			return 1 + r.Intn(60)
		case 1:
			return max(1, w.cfg.threshold-150+r.Intn(300))
		case 2:
			return min(maxSize, w.cfg.threshold+1+r.Intn(2000))
		default:
			return r.Intn(min(maxSize, 1200))
		}
	}
	fresh := func() int {
		for try := 0; try < 20; try++ {
			id := r.Intn(nids)
			if !used[id] {
				used[id] = true
				return id
			}
		}
		return -1
	}
	for i := 0; i < nops; i++ {
		op := &wop{}
		switch {
		case withDelete && len(ops) > 0 && r.Bool(20):
			op.kind = "delete"
			prev := ops[r.Intn(len(ops))]
			op.ids = []int{prev.ids[0]}
		case r.Bool(25):
			op.kind = "putbatch"
			n := 1 + r.Intn(4)
			for j := 0; j < n; j++ {
				if id := fresh(); id >= 0 {
					ver++
					op.ids = append(op.ids, id)
					op.data = append(op.data, w.objBytes(id, min(size(), w.cfg.threshold), ver))
				}
			}
			if len(op.ids) == 0 {
				continue
			}
		default:
			op.kind = "put"
			id := fresh()
			if id < 0 {
				continue
			}
			ver++
			op.ids = []int{id}
			op.data = [][]byte{w.objBytes(id, size(), ver)}
			if r.Bool(10) {
				// duplicate write of the same object (same bytes): the EEXIST path
				ops = append(ops, op)
				op = &wop{kind: "put", ids: []int{id}, data: op.data}
			}
		}
		ops = append(ops, op)
	}
	return ops
}

func (w *fsWorld) execW(t *FSTree, op *wop) {
	switch op.kind {
	case "put":
		op.err = t.Put(w.addr(op.ids[0]), op.data[0])
	case "putbatch":
		m := map[oid.Address][]byte{}
		for i, id := range op.ids {
			m[w.addr(id)] = op.data[i]
		}
		op.err = t.PutBatch(m)
	case "delete":
		op.err = t.Delete(w.addr(op.ids[0]))
	}
}

func copyTree(dst, src string) error {
	return filepath.WalkDir(src, func(p string, d fs.DirEntry, err error) error {
		if err != nil {
			return err
		}
		rel, _ := filepath.Rel(src, p)
		if d.IsDir() {
			return os.MkdirAll(filepath.Join(dst, rel), 0o700)
		}
		b, err := os.ReadFile(p)
		if err != nil {
			if os.IsNotExist(err) {
				return nil
			}
			return err
		}
		return os.WriteFile(filepath.Join(dst, rel), b, 0o600)
	})
}

// ---------------------------------------------------------------------------------------
// C12: crash at every syscall boundary of a sampled workload

func propC12() *simkit.Property {
	return &simkit.Property{
		ID: "C12", Level: "fault_enumeration", Bubble: true, TapeLimit: 3000,
		Rule: "each run = one FSTree configuration (linux or generic writer, depth, combined limits) and a workload of 1-8 objects (Put, PutBatch, Delete, duplicate Put) by 1-3 concurrent writers under a seeded schedule; at EVERY writer syscall boundary of that execution (before each granted open/write/writev/linkat/fdatasync/close/openfile/rename/remove/mkdir) the tree is snapshotted by byte copy = what the kernel holds if the process dies there; every snapshot is reopened (Open/Init, CleanUpTmp in half of them) and read back. distinct = (workload digest, boundary); non-trivial = snapshot taken while >=1 write was in flight",
		Run:  runC12,
		Assumptions: []string{"process-crash model: bytes handed to the kernel survive, un-linked O_TMPFILE data does not; power loss is out of scope", "tmpfs semantics of linkat/rename equal those of the production file systems"},
		Components:  fsComponents,
		DeadlockClass: "hang",
	}
}

func runC12(r *simkit.R) {
	cfg := drawFsCfg(r, true)
	cfg.generic = r.Bool(35)
	nids := 10
	w := newFsWorld(r, cfg, nids)
	w.root = filepath.Join(r.Dir, "t")
	w.t = w.openTree(w.root)
	r.OnCleanup(func() { _ = w.t.Close() })
	ops := drawWorkload(r, w, 1+r.Intn(8), nids, true, 3000)
	maxConc := 1 + r.Intn(3)
	r.Logf("config %s conc=%d", cfg, maxConc)
	for _, op := range ops {
		r.Logf("  op %s", op)
	}
	type snap struct {
		dir      string
		idx      int
		acked    []*wop // in ack order
		inflight []*wop
		call     string
	}
	var snaps []snap
	var acked []*wop
	started := map[*wop]bool{}
	byTask := map[*simkit.Task]*wop{}
	next := 0
	res := w.sched(schedHooks{
		maxConc: maxConc,
		next: func() (string, func(*simkit.Task)) {
			if next >= len(ops) {
				return "", nil
			}
			op := ops[next]
			next++
			started[op] = true
			return op.kind, func(t *simkit.Task) { byTask[t] = op; w.execW(w.t, op) }
		},
		done: func(t *simkit.Task) {
			op := byTask[t]
			op.done = true
			op.call, op.ret = t.Call, t.Ret
			acked = append(acked, op)
		},
		boundary: func(idx int) {
			if len(snaps) >= 120 {
				return
			}
			d := filepath.Join(r.Dir, fmt.Sprintf("snap%d", idx))
			if err := copyTree(d, w.root); err != nil {
				r.Failf("infra", "snapshot", "snapshot: %v", err)
			}
			s := snap{dir: d, idx: idx, acked: append([]*wop(nil), acked...)}
			for _, op := range ops {
				if started[op] && !op.done {
					s.inflight = append(s.inflight, op)
				}
			}
			snaps = append(snaps, s)
			r.Fired("crash point (tree snapshot at a syscall boundary)")
		},
	})
	if res == "hang" || res == "steps" {
		r.Failf("hang", "write did not return ("+res+")", "fault-free run: operations did not finish (%s)", res)
	}
	if res != "" {
		return
	}
	for _, op := range ops {
		r.Op("%s -> %v", op, op.err)
		if op.err != nil && !(op.kind == "delete" && isNotFound(op.err)) {
			sig := "operation failed without faults"
			if errors.Is(op.err, fs.ErrNotExist) && op.kind != "delete" {
				for _, d := range ops {
					if d.kind == "delete" && d.err == nil {
						sig = "put fails with ENOENT after a delete unlinked an object of the still open combined file"
					}
				}
			}
			r.Failf("crash", sig, "%s: %v", op, op.err)
		}
	}
	// final state is one more "crash point"
	fd := filepath.Join(r.Dir, "snapfinal")
	_ = w.t.Close()
	if err := copyTree(fd, w.root); err != nil {
		r.Failf("infra", "snapshot", "%v", err)
	}
	snaps = append(snaps, snap{dir: fd, idx: -1, acked: append([]*wop(nil), acked...)})
	for _, s := range snaps {
		if len(s.inflight) > 0 {
			r.Nontrivial()
		}
		w.verifySnapshot(s.dir, s.idx, s.acked, s.inflight, r.Bool(50))
		_ = os.RemoveAll(s.dir)
	}
}

// verifySnapshot reopens a crash image and checks the C12 oracle.
func (w *fsWorld) verifySnapshot(dir string, idx int, acked, inflight []*wop, cleanup bool) {
	r := w.r
	t := w.openTree(dir)
	defer func() { _ = t.Close(); w.sfs.Root = w.root }()
	if cleanup {
		if err := t.CleanUpTmp(); err != nil {
			r.Failf("crash", "CleanUpTmp failed on a crash image", "boundary %d: CleanUpTmp: %v", idx, err)
		}
	}
	// expected per address: must[id] = version required (0 = must be absent, -1 unconstrained);
	// may[id] = set of versions allowed besides
	must := map[int]int{}
	may := map[int]map[int]bool{}
	allow := func(id, v int) {
		if may[id] == nil {
			may[id] = map[int]bool{}
		}
		may[id][v] = true
	}
	// Acknowledged operations on one address may have overlapped; any of them that is not
	// strictly followed (in event-sequence stamps) by another acknowledged one may be the last.
	type eff struct {
		op  *wop
		out int
	}
	byID := map[int][]eff{}
	for _, op := range acked {
		if op.err != nil {
			continue
		}
		for i, id := range op.ids {
			out := 0
			if op.kind != "delete" {
				out = w.verOf(op.data[i])
			}
			byID[id] = append(byID[id], eff{op, out})
		}
	}
	for id, effs := range byID {
		outs := map[int]bool{}
		for _, e := range effs {
			followed := false
			for _, f := range effs {
				if f.op != e.op && f.op.call > e.op.ret {
					followed = true
				}
			}
			if !followed {
				outs[e.out] = true
			}
		}
		if len(outs) == 1 {
			for o := range outs {
				must[id] = o
			}
		} else {
			for o := range outs {
				allow(id, o)
			}
		}
	}
	for _, op := range inflight {
		for i, id := range op.ids {
			if cur, ok := must[id]; ok {
				allow(id, cur)
			} else {
				allow(id, 0)
			}
			delete(must, id)
			if op.kind == "delete" {
				allow(id, 0)
			} else {
				allow(id, w.verOf(op.data[i]))
			}
		}
	}
	got := map[int]int{}
	for id := range w.u.IDs {
		b, err := t.GetBytes(w.addr(id))
		switch {
		case err == nil:
			got[id] = w.verOf(b)
		case isNotFound(err):
			got[id] = 0
		default:
			r.Failf("crash", "read fails on a crash image", "boundary %d: GetBytes(o%d): %v", idx, id, err)
		}
		v := got[id]
		if v < 0 {
			r.Failf("crash", "partial or foreign bytes readable after crash", "boundary %d: o%d reads %d bytes that are no version ever written", idx, id, len(b))
		}
		if want, ok := must[id]; ok {
			if v != want {
				r.Failf("crash", "acknowledged state lost after crash", "boundary %d: o%d reads version %d, the acknowledged state is version %d (0 = absent)\n  acknowledged before the crash: %v\n  in flight: %v\n  writer syscalls so far:%s", idx, id, v, want, acked, inflight, w.callsTail())
			}
		} else if m := may[id]; m != nil {
			if !m[v] {
				r.Failf("crash", "unexpected version after crash", "boundary %d: o%d reads version %d, allowed %v", idx, id, v, m)
			}
		} else if v != 0 {
			r.Failf("crash", "object readable that was never written", "boundary %d: o%d reads version %d", idx, id, v)
		}
		if v > 0 {
			// the other read paths agree
			o, err := t.Get(w.addr(id))
			if err != nil || !bytes.Equal(o.Marshal(), b) {
				r.Failf("crash", "Get disagrees with GetBytes on a crash image", "boundary %d: o%d: %v", idx, id, err)
			}
			if _, err := t.Head(w.addr(id)); err != nil {
				r.Failf("crash", "Head fails on a crash image", "boundary %d: o%d: %v", idx, id, err)
			}
		}
	}
	seen := map[int]int{}
	err := t.Iterate(func(a oid.Address, data []byte) error {
		id := w.u.IDIndex(a.Object())
		seen[id]++
		if id < 0 || w.verOf(data) != got[id] {
			r.Report("crash", "iteration yields a temporary or wrong object after crash", "boundary %d: iterate yields o%d with version %d, direct read %d", idx, id, w.verOf(data), got[id])
		}
		return nil
	}, nil)
	if err != nil {
		r.Failf("crash", "iteration fails on a crash image", "boundary %d: %v", idx, err)
	}
	for id, v := range got {
		if (v > 0) != (seen[id] == 1) {
			r.Failf("crash", "iteration and reads disagree after crash", "boundary %d: o%d version %d listed %d times", idx, id, v, seen[id])
		}
	}
	if cleanup {
		_ = filepath.WalkDir(dir, func(p string, d fs.DirEntry, err error) error {
			if err == nil && !d.IsDir() && strings.Contains(d.Name(), "#") {
				r.Report("crash", "temporary file survives CleanUpTmp", "boundary %d: %s", idx, p)
			}
			return nil
		})
	}
	// the recovered tree keeps serving: re-store what was in flight
	for _, op := range inflight {
		if op.kind == "delete" {
			continue
		}
		for i, id := range op.ids {
			if err := t.Put(w.addr(id), op.data[i]); err != nil {
				r.Failf("crash", "write fails after recovery", "boundary %d: re-put o%d: %v", idx, id, err)
			}
			b, err := t.GetBytes(w.addr(id))
			if err != nil || !bytes.Equal(b, op.data[i]) {
				// an older complete version under the same address may legitimately win (EEXIST is success)
				if err != nil || w.verOf(b) <= 0 {
					r.Failf("crash", "re-stored object unreadable after recovery", "boundary %d: o%d: %v", idx, id, err)
				}
			}
		}
	}
}

// ---------------------------------------------------------------------------------------
// C13: every single (and sampled pairs of) failing file-system call

func propC13() *simkit.Property {
	return &simkit.Property{
		ID: "C13", Level: "fault_enumeration", Bubble: true, TapeLimit: 3000,
		Rule: "each run = one FSTree configuration and a workload of concurrent combined/single/batched writes (1-14 quick, up to 300 thorough; count/size limits drawn so that batches rotate); the workload is executed fault-free once to enumerate its K writer syscalls, then re-executed with a fault injected at EVERY call k (all k when K<=80, else 80 sampled; error ENOSPC/EIO/EMFILE/EEXIST/EACCES or short write by call kind) and, in the thorough tier, at sampled pairs (k1,k2); after each execution recovery writes are issued. Oracle: no panic, nothing hangs (120 s simulated), a write that returned success reads back identical, recovery writes succeed, no descriptor opened by the tree stays open after the writes and the batch timers are over. distinct = (workload digest, k, fault kind); non-trivial = execution in which the fault actually fired while >=2 writes were in flight",
		Run:  runC13,
		Assumptions: []string{"faults are injected at the syscall seam of the writers (simfs); reads are not faulted", "a failed batch may legitimately fail every write that shares it"},
		Components:  fsComponents,
		DeadlockClass: "hang",
	}
}

func faultFor(c *simkit.Chooser, kind string) (int, string) {
	switch kind {
	case "open", "openfile":
		v := []int{simfs.VEMFILE, simfs.VENOSPC, simfs.VEACCES}[c.Intn(3)]
		return v, []string{"", "ENOSPC", "EIO", "EMFILE", "EEXIST", "short", "EACCES"}[v]
	case "write", "writev", "fwrite":
		v := []int{simfs.VENOSPC, simfs.VShort, simfs.VEIO}[c.Intn(3)]
		return v, []string{"", "ENOSPC", "EIO", "EMFILE", "EEXIST", "short", "EACCES"}[v]
	case "linkat":
		// (a spurious EEXIST is not a fault a file system produces: EEXIST means the name exists)
		v := []int{simfs.VENOSPC, simfs.VEACCES, simfs.VEIO}[c.Intn(3)]
		return v, []string{"", "ENOSPC", "EIO", "EMFILE", "EEXIST", "short", "EACCES"}[v]
	case "rename", "mkdirall", "remove":
		v := []int{simfs.VENOSPC, simfs.VEIO}[c.Intn(2)]
		return v, []string{"", "ENOSPC", "EIO"}[v]
	default: // fdatasync, close, fclose
		return simfs.VEIO, "EIO"
	}
}

func runC13(r *simkit.R) {
	cfg := drawFsCfg(r, true)
	cfg.generic = r.Bool(15)
	cfg.noSync = r.Bool(15)
	nops := 1 + r.Intn(14)
	if r.Thorough() && r.Bool(8) {
		nops = 100 + r.Intn(200)
	}
	nids := nops*3 + 8
	w := newFsWorld(r, cfg, nids)
	ops0 := drawWorkload(r, w, nops, nids-6, false, 2500)
	maxConc := 1 + r.Intn(6)
	schedSeed := uint64(r.U32())
	r.Logf("config %s conc=%d ops=%d", cfg, maxConc, len(ops0))
	for i, op := range ops0 {
		if i < 30 {
			r.Logf("  op %s", op)
		}
	}
	execN := 0
	// exec runs the workload in a fresh tree with faults at the given call indexes.
	exec := func(faults map[int]bool, label string) (K int, kinds []string) {
		execN++
		root := filepath.Join(r.Dir, fmt.Sprintf("x%d", execN))
		w.root = root
		w.ch = simkit.NewChooser(schedSeed, 1<<20)
		fch := simkit.NewChooser(schedSeed^0x5bd1e995, 1<<16)
		t := w.openTree(root)
		ops := make([]*wop, len(ops0))
		for i, o := range ops0 {
			ops[i] = &wop{kind: o.kind, ids: o.ids, data: o.data}
		}
		byTask := map[*simkit.Task]*wop{}
		next := 0
		fired := 0
		inflightAtFault := 0
		var firedDesc []string
		res := w.sched(schedHooks{
			maxConc: maxConc,
			next: func() (string, func(*simkit.Task)) {
				if next >= len(ops) {
					return "", nil
				}
				op := ops[next]
				next++
				return op.kind, func(tk *simkit.Task) { byTask[tk] = op; w.execW(t, op) }
			},
			done: func(tk *simkit.Task) { byTask[tk].done = true },
			verdict: func(tk *simkit.Ticket, idx int) int {
				kind := strings.SplitN(strings.TrimPrefix(tk.Key, "sys:"), ":", 2)[0]
				kinds = append(kinds, kind)
				if !faults[idx] {
					return 0
				}
				v, name := faultFor(fch, kind)
				fired++
				inflightAtFault = max(inflightAtFault, w.k.Live())
				firedDesc = append(firedDesc, fmt.Sprintf("%s@%d=%s", kind, idx, name))
				r.Fired("syscall fault: " + kind + " " + name)
				return v
			},
		})
		K = len(kinds)
		sig := strings.Join(firedDesc, ",")
		if res == "hang" || res == "steps" {
			var stuck []string
			for _, op := range ops {
				if !op.done {
					stuck = append(stuck, op.String())
				}
			}
			r.Failf("hang", "writes never return after a failing "+faultSig(firedDesc), "%s: after fault(s) [%s] %d operation(s) did not return within 120 s of simulated time (%s): %v", label, sig, len(stuck), res, stuck)
		}
		if res != "" {
			return
		}
		if fired > 0 && inflightAtFault >= 2 {
			r.Nontrivial()
		}
		// recovery writes after the fault window
		w.k.SetPass(true)
		for j := 0; j < 3; j++ {
			id := nids - 1 - j - 3*(execN%2)
			data := w.objBytes(id, 10+j*(cfg.threshold/2), 100000+execN*10+j)
			if err := t.Put(w.addr(id), data); err != nil {
				r.Failf("fault", "write after the fault window fails ["+faultSig(firedDesc)+"]", "%s: after fault(s) [%s] a later Put fails: %v", label, sig, err)
			}
			b, err := t.GetBytes(w.addr(id))
			if err != nil || !bytes.Equal(b, data) {
				r.Failf("fault", "write after the fault window is unreadable", "%s: %v", label, err)
			}
		}
		// every descriptor the tree opened is closed again once the writes are over and the batch
		// timers have run (a failed batch must release its descriptor and its unlinked inode too)
		w.k.Sleep(3 * time.Second)
		if n := w.sfs.OpenFDs(); n != 0 {
			r.Failf("fault", "descriptors stay open after the writes finished ["+faultSig(firedDesc)+"]", "%s: after fault(s) [%s] %d descriptor(s) opened by the tree are still open at quiescence", label, sig, n)
		}
		if fired > 0 {
			// "the affected writes report an error": every intercepted call belongs to some write,
			// so a fault that fired must surface in at least one write's result
			failed := 0
			for _, op := range ops {
				if op.err != nil {
					failed++
				}
			}
			if failed == 0 {
				r.Failf("fault", "a failing call is swallowed: no write reports an error ["+faultSig(firedDesc)+"]", "%s: fault(s) [%s] fired but all %d writes report success", label, sig, len(ops))
			}
		}
		for _, op := range ops {
			if len(faults) == 0 && op.err != nil {
				r.Failf("fault", "write failed without faults", "%s: %s: %v", label, op, op.err)
			}
			for i, id := range op.ids {
				b, err := t.GetBytes(w.addr(id))
				if op.err == nil {
					if err != nil || !bytes.Equal(b, op.data[i]) {
						r.Failf("fault", "write reported success but cannot be read back ["+faultSig(firedDesc)+"]", "%s: after fault(s) [%s]: %s returned success, reading o%d back: err=%v identical=%v", label, sig, op, id, err, err == nil && bytes.Equal(b, op.data[i]))
					}
				} else if err == nil && !bytes.Equal(b, op.data[i]) {
					r.Failf("fault", "failed write left wrong bytes readable", "%s: after fault(s) [%s]: %s failed (%v) but o%d reads %d foreign bytes", label, sig, op, op.err, id, len(b))
				}
			}
		}
		if err := t.Close(); err != nil {
			_ = err // closing after faults may report the batch error; not part of the property
		}
		_ = os.RemoveAll(root)
		return
	}
	K, kinds := exec(nil, "fault-free")
	if r.Violated() {
		return
	}
	r.Op("fault-free execution: %d writer syscalls", K)
	idxs := make([]int, 0, K)
	for k := 1; k <= K; k++ {
		idxs = append(idxs, k)
	}
	if K > 80 {
		p := r.Perm(K)
		idxs = idxs[:0]
		for _, i := range p[:80] {
			idxs = append(idxs, i+1)
		}
		sort.Ints(idxs)
	}
	for _, k := range idxs {
		exec(map[int]bool{k: true}, fmt.Sprintf("single fault at call %d/%d (%s)", k, K, kinds[k-1]))
		if r.Violated() {
			return
		}
	}
	if r.Thorough() && K >= 2 {
		np := min(40, K*(K-1)/2)
		for i := 0; i < np; i++ {
			a := 1 + r.Intn(K)
			b := 1 + r.Intn(K+3)
			if a == b {
				continue
			}
			exec(map[int]bool{a: true, b: true}, fmt.Sprintf("double fault at calls %d,%d of %d", a, b, K))
			if r.Violated() {
				return
			}
		}
	}
}

func faultSig(fired []string) string {
	var ks []string
	for _, f := range fired {
		kind := strings.SplitN(f, "@", 2)[0]
		name := f[strings.Index(f, "=")+1:]
		ks = append(ks, kind+"="+name)
	}
	return strings.Join(ks, "+")
}
