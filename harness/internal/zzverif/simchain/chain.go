//go:build verif

// Package simchain is the simulated Neo chain pair (main chain + FS chain) behind the wrapped
// morph client (rules/morph.json, client.NewSimClient): a small state model that answers every
// read the inner-ring code performs in the formats the typed contract wrappers parse, records
// every state-changing client call as an Effect, and fails loudly (Infra) on any call it does
// not know.  Shared by the IR harnesses (C34 in pkg/morph/event, C35 in pkg/innerring).
package simchain

import (
	"context"
	"encoding/binary"
	"encoding/hex"
	"errors"
	"fmt"
	"math/big"
	"sort"
	"strings"
	"sync"
	"sync/atomic"
	"time"

	"github.com/nspcc-dev/neo-go/pkg/core/block"
	"github.com/nspcc-dev/neo-go/pkg/core/state"
	"github.com/nspcc-dev/neo-go/pkg/core/transaction"
	"github.com/nspcc-dev/neo-go/pkg/crypto/keys"
	"github.com/nspcc-dev/neo-go/pkg/encoding/fixedn"
	"github.com/nspcc-dev/neo-go/pkg/neorpc/result"
	"github.com/nspcc-dev/neo-go/pkg/smartcontract"
	"github.com/nspcc-dev/neo-go/pkg/smartcontract/scparser"
	"github.com/nspcc-dev/neo-go/pkg/smartcontract/trigger"
	"github.com/nspcc-dev/neo-go/pkg/util"
	"github.com/nspcc-dev/neo-go/pkg/vm/stackitem"
	containerrpc "github.com/nspcc-dev/neofs-contract/rpc/container"
	netmaprpc "github.com/nspcc-dev/neofs-contract/rpc/netmap"
	"github.com/nspcc-dev/neofs-node/pkg/morph/client"
	cid "github.com/nspcc-dev/neofs-sdk-go/container/id"
)

// ErrSim is the error returned by injected chain read failures.
var ErrSim = errors.New("simulated chain RPC failure")

// Effect is one recorded state-changing call of a simulated client.
type Effect struct {
	Seq      int64  // global event sequence number (per World)
	Chain    string // "fs" | "main"
	Via      string // client method: Invoke, NotaryInvoke, NotarySignAndInvokeTX, ...
	Contract util.Uint160
	Method   string // contract method ("" for raw transactions)
	Args     []any
	Tx       *transaction.Transaction // main transaction (NotarySignAndInvokeTX)
	Script   []byte                   // runAlphabetNotaryScript
	ByAlpha  bool                     // runAlphabetNotaryScript: invokedByAlpha
	At       time.Time                // clock of the run (fake clock in a bubble) when the call was made
	// Refused: the real client would have returned "own public key was not found among multisig keys" instead of
	// sending (the model itself accepts every call and answers success).
	Refused bool
	name    string // contract name for printing
	calls   string // decoded calls of Tx / Script
}

// NeedsAlpha reports whether the call exercises alphabet authority: the node signs (or co-signs) with
// its key a transaction that only an alphabet member may sign.  Calls that are explicitly meant for
// parties outside the alphabet are excluded: NotaryInvokeNotAlpha and CallWithAlphabetWitness (a request
// that asks the alphabet to sign, the sender's key is not part of the alphabet witness),
// runAlphabetNotaryScript with invokedByAlpha=false (same), and the notary deposits of the node's own GAS.
func (e Effect) NeedsAlpha() bool {
	switch e.Via {
	case "NotaryInvokeNotAlpha", "CallWithAlphabetWitness", "DepositNotary", "DepositEndlessNotary":
		return false
	case "runAlphabetNotaryScript":
		return e.ByAlpha
	}
	return true
}

// Key is the canonical identity of the effect (used for at-most-once checks and for the trace).
func (e Effect) Key() string {
	var b strings.Builder
	if e.calls != "" {
		fmt.Fprintf(&b, "%s:%s {%s}(", e.Chain, e.Via, e.calls)
	} else {
		fmt.Fprintf(&b, "%s:%s %s.%s(", e.Chain, e.Via, e.name, e.Method)
	}
	for i, a := range e.Args {
		if i > 0 {
			b.WriteString(",")
		}
		b.WriteString(Canon(a))
	}
	b.WriteString(")")
	if e.Tx != nil {
		b.WriteString(" tx=" + short(e.Tx.Hash().BytesBE()))
	}
	if e.Script != nil {
		b.WriteString(" script=" + short(e.Script))
	}
	return b.String()
}

// Short is the effect without arguments (stable across runs, for violation signatures).
func (e Effect) Short() string {
	if e.calls != "" {
		return fmt.Sprintf("%s:%s {%s}", e.Chain, e.Via, e.calls)
	}
	return fmt.Sprintf("%s:%s %s.%s", e.Chain, e.Via, e.name, e.Method)
}

// CallNames lists the contract calls of a script as "contract.method+contract.method" ("?" where it is not a plain call sequence).
func (w *World) CallNames(script []byte) string {
	var out []string
	ctx := scparser.NewContext(script, 0)
	for ctx.NextIP() < len(script) {
		h, m, _, _, err := scparser.GetAppCallFromContext(ctx)
		if err != nil {
			out = append(out, "?")
			break
		}
		out = append(out, w.ContractName(h)+"."+m)
	}
	return strings.Join(out, "+")
}

func short(b []byte) string {
	h := uint64(1469598103934665603)
	for _, c := range b {
		h = (h ^ uint64(c)) * 1099511628211
	}
	return fmt.Sprintf("#%d:%08x", len(b), uint32(h^(h>>32)))
}

// Canon prints a call argument deterministically.
func Canon(a any) string {
	switch v := a.(type) {
	case nil:
		return "nil"
	case []byte:
		if len(v) <= 8 {
			return "x" + hex.EncodeToString(v)
		}
		return short(v)
	case string:
		return fmt.Sprintf("%q", v)
	case bool, int, int8, int16, int32, int64, uint, uint8, uint16, uint32, uint64, fixedn.Fixed8:
		return fmt.Sprint(v)
	case *big.Int:
		return v.String()
	case util.Uint160:
		return "h160:" + v.StringLE()[:8]
	case util.Uint256:
		return "h256:" + v.StringLE()[:8]
	case *keys.PublicKey:
		if v == nil {
			return "key:nil"
		}
		return "key:" + KeyName(v)
	case keys.PublicKeys:
		s := make([]string, len(v))
		for i := range v {
			s[i] = KeyName(v[i])
		}
		return "keys[" + strings.Join(s, " ") + "]"
	case []any:
		s := make([]string, len(v))
		for i := range v {
			s[i] = Canon(v[i])
		}
		return "[" + strings.Join(s, ",") + "]"
	case *uint32:
		if v == nil {
			return "nil"
		}
		return fmt.Sprint(*v)
	}
	return fmt.Sprintf("<%T>", a)
}

// NodeRec is a storage node of the simulated network map.
type NodeRec struct {
	Key   *keys.PublicKey
	Addr  string
	Maint bool
}

// CnrRec is a container registered in the simulated Container contract.
type CnrRec struct {
	ID   cid.ID
	Info *containerrpc.ContainerInfo
}

// Chain is the model of one chain as seen through one morph client.
type Chain struct {
	W    *World
	Name string

	mu sync.Mutex

	Blocks     uint32 // BlockCount(): index of the next block
	BlockMs    int64
	Committee  keys.PublicKeys // Committee()
	IRList     keys.PublicKeys // NeoFSAlphabetList()
	FailComm   bool            // Committee() fails
	FailIRList bool            // NeoFSAlphabetList() fails

	Epoch          uint64
	EpochDur       uint64
	LastEpochBlock uint32
	BasicIncome    uint64
	Nodes          []NodeRec
	Cnrs           []CnrRec
	Votes          map[util.Uint160]*keys.PublicKey
	Gas            int64
	Deposit        int64
	NotaryOn       bool

	validWitness  map[string]bool // N3 witness scripts InvokeContainedScript accepts
	invalidScript map[string]bool // main-transaction scripts IsValidScript rejects
	pool          map[util.Uint256]*transaction.Transaction

	effects []Effect
	reads   map[string]int

	notifyCh chan *state.ContainedNotificationEvent
	headerCh chan *block.Header
	notaryCh chan *result.NotaryRequestEvent
	Subs     []string
}

// World is the pair of chains plus the contract address book and the node identity.
type World struct {
	FS, Main *Chain
	Node     *keys.PrivateKey

	Netmap, Balance, Container, Reputation, Proxy, NNS util.Uint160
	NeoFS, Processing, Designate                       util.Uint160
	Alphabet                                           []util.Uint160

	// ManagerOf, when set by the harness, returns the pool index of the reputation manager of peer at
	// epoch (computed with the real manager builder over the model's network map).
	ManagerOf func(epoch uint64, peer []byte) int

	names map[util.Uint160]string
	seq   atomic.Int64

	imu   sync.Mutex
	infra []string
}

// H is a fixed contract address derived from a name.
func H(name string) util.Uint160 {
	var h util.Uint160
	x := uint64(1469598103934665603)
	for i := 0; i < 20; i++ {
		for _, c := range []byte(name) {
			x = (x ^ uint64(c)) * 1099511628211
		}
		x = (x ^ uint64(i)) * 1099511628211
		h[i] = byte(x >> 24)
	}
	return h
}

// NewWorld creates the two chains; nAlpha alphabet contracts exist on the FS chain.
func NewWorld(node *keys.PrivateKey, nAlpha int) *World {
	w := &World{Node: node, names: map[util.Uint160]string{}}
	reg := func(n string) util.Uint160 { h := H(n); w.names[h] = n; return h }
	w.Netmap, w.Balance, w.Container, w.Reputation = reg("netmap"), reg("balance"), reg("container"), reg("reputation")
	w.Proxy, w.NNS, w.NeoFS, w.Processing, w.Designate = reg("proxy"), reg("nns"), reg("neofs"), reg("processing"), reg("rolemgmt")
	w.names[H("native-gas")], w.names[H("native-notary")] = "gas", "notary"
	for i := 0; i < nAlpha; i++ {
		w.Alphabet = append(w.Alphabet, reg(fmt.Sprintf("alphabet%d", i)))
	}
	mk := func(name string) *Chain {
		return &Chain{W: w, Name: name, Blocks: 100, BlockMs: 1000, Votes: map[util.Uint160]*keys.PublicKey{}, Gas: 1_0000_0000_00, NotaryOn: true,
			validWitness: map[string]bool{}, invalidScript: map[string]bool{}, pool: map[util.Uint256]*transaction.Transaction{}, reads: map[string]int{},
			EpochDur: 240, Epoch: 10, LastEpochBlock: 90, BasicIncome: 1000}
	}
	w.FS, w.Main = mk("fs"), mk("main")
	return w
}

// RegisterName names an extra contract address (for printing effects).
func (w *World) RegisterName(h util.Uint160, n string) { w.names[h] = n }

// ContractName returns the registered name of a contract address.
func (w *World) ContractName(h util.Uint160) string {
	if n, ok := w.names[h]; ok {
		return n
	}
	return "unknown:" + h.StringLE()[:8]
}

// Infra records an infrastructure error (a call the model does not know).  The harness must
// check InfraErr after every quiescence and abort the run loudly.
func (w *World) Infra(format string, args ...any) {
	w.imu.Lock()
	w.infra = append(w.infra, fmt.Sprintf(format, args...))
	w.imu.Unlock()
}

// InfraErr returns the recorded infrastructure errors ("" if none).
func (w *World) InfraErr() string {
	w.imu.Lock()
	defer w.imu.Unlock()
	return strings.Join(w.infra, "; ")
}

// Seq returns the current event sequence number.
func (w *World) Seq() int64 { return w.seq.Load() }

// Lock / Unlock give the harness exclusive access to the chain state.
func (c *Chain) Lock()   { c.mu.Lock() }
func (c *Chain) Unlock() { c.mu.Unlock() }

// EffectsSince returns the effects of both chains with Seq > since, sorted by canonical key
// (concurrent handlers record in scheduler order, which must not leak into the trace).
func (w *World) EffectsSince(since int64) []Effect {
	var out []Effect
	for _, c := range []*Chain{w.FS, w.Main} {
		c.mu.Lock()
		for _, e := range c.effects {
			if e.Seq > since {
				out = append(out, e)
			}
		}
		c.mu.Unlock()
	}
	sort.SliceStable(out, func(i, j int) bool { return out[i].Key() < out[j].Key() })
	return out
}

// AllowWitness makes InvokeContainedScript accept the given N3 witness (invocation+verification script).
func (c *Chain) AllowWitness(script []byte) { c.mu.Lock(); c.validWitness[string(script)] = true; c.mu.Unlock() }

// RejectScript makes IsValidScript answer false for the main-transaction script.
func (c *Chain) RejectScript(script []byte) { c.mu.Lock(); c.invalidScript[string(script)] = true; c.mu.Unlock() }

// PoolTx puts a transaction into the simulated notary pool (GetRawNotaryTransactionVerbose).
func (c *Chain) PoolTx(tx *transaction.Transaction) { c.mu.Lock(); c.pool[tx.Hash()] = tx; c.mu.Unlock() }

// Channels returns the subscription channels (created on first use).
func (c *Chain) Channels() (chan *state.ContainedNotificationEvent, chan *block.Header, chan *result.NotaryRequestEvent) {
	c.mu.Lock()
	defer c.mu.Unlock()
	if c.notifyCh == nil {
		c.notifyCh = make(chan *state.ContainedNotificationEvent, 64)
		c.headerCh = make(chan *block.Header, 64)
		c.notaryCh = make(chan *result.NotaryRequestEvent, 64)
	}
	return c.notifyCh, c.headerCh, c.notaryCh
}

// Header returns the header of block ind of the model (timestamp = ind * block time).
func (c *Chain) Header(ind uint32) *block.Header {
	return &block.Header{Index: ind, Timestamp: uint64(ind) * uint64(c.BlockMs)}
}

func cloneKeys(k keys.PublicKeys) keys.PublicKeys { return append(keys.PublicKeys(nil), k...) }

func (c *Chain) record(e Effect) {
	e.Seq = c.W.seq.Add(1)
	e.At = time.Now()
	e.Chain = c.Name
	e.name = c.W.ContractName(e.Contract)
	if e.Tx != nil {
		e.calls = c.W.CallNames(e.Tx.Script)
	} else if e.Script != nil {
		e.calls = c.W.CallNames(e.Script)
	}
	// The real client builds the alphabet multi-signature account from the committee it reads at that
	// moment and refuses (before anything is sent) when the node's own key is not in it.
	switch {
	case e.Via == "NotaryInvoke", e.Via == "NotarySignAndInvokeTX", e.Via == "UpdateNotaryList", e.Via == "UpdateNeoFSAlphabetList",
		e.Via == "runAlphabetNotaryScript" && e.ByAlpha:
		fs := c.W.FS
		if fs != c {
			fs.mu.Lock()
		}
		e.Refused = fs.FailComm || !containsKey(fs.Committee, c.W.Node.PublicKey())
		if fs != c {
			fs.mu.Unlock()
		}
	}
	c.effects = append(c.effects, e)
}

func containsKey(ks keys.PublicKeys, k *keys.PublicKey) bool {
	for i := range ks {
		if ks[i].Equal(k) {
			return true
		}
	}
	return false
}

func toAnySlice(v any) []any {
	if v == nil {
		return nil
	}
	if s, ok := v.([]any); ok {
		return s
	}
	return []any{v}
}

func asU64(a any) (uint64, bool) {
	switch v := a.(type) {
	case uint64:
		return v, true
	case int64:
		return uint64(v), true
	case uint32:
		return uint64(v), true
	case int:
		return uint64(v), true
	case *big.Int:
		return v.Uint64(), true
	}
	return 0, false
}

func halt(items ...stackitem.Item) *result.Invoke {
	return &result.Invoke{State: "HALT", Stack: items}
}

// MultisigScript is the verification script of the m-of-n account of the given keys (m = n*2/3+1).
func MultisigScript(ks keys.PublicKeys) []byte {
	s, err := smartcontract.CreateMultiSigRedeemScript(len(ks)*2/3+1, cloneKeys(ks))
	if err != nil {
		panic("simchain: multisig script: " + err.Error())
	}
	return s
}

// SimCall implements client.SimBackend.
func (c *Chain) SimCall(_ *client.Client, method string, a []any) ([]any, bool) {
	c.mu.Lock()
	defer c.mu.Unlock()
	c.reads[method]++
	w := c.W
	switch method {
	// ---- subscriptions / lifecycle
	case "Notifications":
		if c.notifyCh == nil {
			c.notifyCh = make(chan *state.ContainedNotificationEvent, 64)
			c.headerCh = make(chan *block.Header, 64)
			c.notaryCh = make(chan *result.NotaryRequestEvent, 64)
		}
		return []any{(<-chan *state.ContainedNotificationEvent)(c.notifyCh), (<-chan *block.Header)(c.headerCh), (<-chan *result.NotaryRequestEvent)(c.notaryCh)}, true
	case "ReceiveExecutionNotifications", "ReceiveHeaders", "ReceiveNotaryRequests", "ReceiveAllNotaryRequests", "UnsubscribeAll":
		c.Subs = append(c.Subs, method)
		return []any{nil}, true
	case "Close", "Reload":
		return []any{}, true
	case "EnableNotarySupport", "InitFSChainScope":
		return []any{nil}, true
	case "IsNotaryEnabled", "ProbeNotary":
		return []any{c.NotaryOn}, true

	// ---- plain reads
	case "Committee":
		if c.FailComm {
			return []any{nil, ErrSim}, true
		}
		return []any{cloneKeys(c.Committee), nil}, true
	case "NeoFSAlphabetList":
		if c.FailIRList {
			return []any{nil, ErrSim}, true
		}
		return []any{cloneKeys(c.IRList), nil}, true
	case "BlockCount":
		return []any{c.Blocks, nil}, true
	case "MsPerBlock":
		return []any{c.BlockMs, nil}, true
	case "MagicNumber":
		return []any{uint32(0x0F5C4A1A), nil}, true
	case "GetDesignateHash":
		return []any{w.Designate}, true
	case "NNSHash":
		return []any{w.NNS, nil}, true
	case "NNSContractAddress":
		name, _ := a[0].(string)
		for h, n := range w.names {
			if n+".neofs" == name || n == name {
				return []any{h, nil}, true
			}
		}
		return []any{util.Uint160{}, fmt.Errorf("NNS: %q not found", name)}, true
	case "GasBalance":
		return []any{c.Gas, nil}, true
	case "GetNotaryDeposit":
		return []any{c.Deposit, nil}, true
	case "TxHeight":
		return []any{c.Blocks - 1, nil}, true
	case "TxHalt":
		return []any{true, nil}, true
	case "GetBlockHeader":
		ind, _ := a[0].(uint32)
		return []any{c.Header(ind), nil}, true
	case "CalculateNonceAndVUB":
		h, _ := a[0].(util.Uint256)
		return []any{binary.LittleEndian.Uint32(h.BytesLE()), c.Blocks + 100, nil}, true
	case "AccountVote":
		addr, _ := a[0].(util.Uint160)
		return []any{c.Votes[addr], nil}, true
	case "IsValidScript":
		sc, _ := a[0].([]byte)
		return []any{!c.invalidScript[string(sc)], nil}, true
	case "InvokeContainedScript":
		tx, _ := a[0].(*transaction.Transaction)
		_, _ = a[2].(*trigger.Type)
		ok := tx != nil && c.validWitness[string(tx.Script)]
		return []any{halt(stackitem.NewBool(ok)), nil}, true
	case "GetRawNotaryPool":
		p := &result.RawNotaryPool{Hashes: map[util.Uint256][]util.Uint256{}}
		for h := range c.pool {
			p.Hashes[h] = nil
		}
		return []any{p, nil}, true
	case "GetRawNotaryTransactionVerbose":
		h, _ := a[0].(util.Uint256)
		tx, ok := c.pool[h]
		if !ok {
			return []any{nil, errors.New("unknown transaction")}, true
		}
		return []any{tx.Copy(), nil}, true
	case "TerminateSession":
		return []any{true, nil}, true
	case "TraverseIterator":
		return []any{nil, nil}, true

	// ---- contract reads
	case "TestInvoke":
		contract, _ := a[0].(util.Uint160)
		m, _ := a[1].(string)
		items, err := c.testInvoke(contract, m, toAnySlice(a[2]))
		return []any{items, err}, true
	case "TestInvokeIterator":
		contract, _ := a[0].(util.Uint160)
		m, _ := a[1].(string)
		items, err := c.testInvokeIterator(contract, m, toAnySlice(a[3]))
		return []any{items, err}, true
	case "InvokeFunction":
		contract, _ := a[0].(util.Uint160)
		m, _ := a[1].(string)
		if contract == w.Netmap && m == "listNodes" {
			return []any{halt(stackitem.NewInterop(result.Iterator{Values: c.nodeItems()})), nil}, true
		}
		w.Infra("%s: InvokeFunction %s.%s is not modelled", c.Name, w.ContractName(contract), m)
		return []any{nil, ErrSim}, true

	// ---- state-changing calls
	case "Invoke":
		contract, _ := a[1].(util.Uint160)
		m, _ := a[5].(string)
		c.record(Effect{Via: method, Contract: contract, Method: m, Args: toAnySlice(a[6])})
		return []any{nil}, true
	case "NotaryInvoke":
		_, _ = a[0].(context.Context)
		contract, _ := a[1].(util.Uint160)
		m, _ := a[6].(string)
		args := toAnySlice(a[7])
		c.record(Effect{Via: method, Contract: contract, Method: m, Args: args})
		c.apply(contract, m, args)
		return []any{util.Uint256{1}, nil}, true
	case "NotaryInvokeNotAlpha":
		contract, _ := a[0].(util.Uint160)
		m, _ := a[3].(string)
		c.record(Effect{Via: method, Contract: contract, Method: m, Args: toAnySlice(a[4])})
		return []any{nil}, true
	case "CallWithAlphabetWitness":
		contract, _ := a[1].(util.Uint160)
		m, _ := a[2].(string)
		c.record(Effect{Via: method, Contract: contract, Method: m, Args: toAnySlice(a[3])})
		return []any{nil}, true
	case "NotarySignAndInvokeTX":
		tx, _ := a[0].(*transaction.Transaction)
		if tx == nil {
			w.Infra("%s: NotarySignAndInvokeTX(nil)", c.Name)
			return []any{ErrSim}, true
		}
		c.record(Effect{Via: method, Tx: tx})
		return []any{nil}, true
	case "runAlphabetNotaryScript":
		sc, _ := a[1].([]byte)
		by, _ := a[4].(bool)
		c.record(Effect{Via: method, Script: sc, ByAlpha: by})
		return []any{nil}, true
	case "TransferGas":
		to, _ := a[0].(util.Uint160)
		amt, _ := a[1].(fixedn.Fixed8)
		c.record(Effect{Via: method, Contract: H("native-gas"), Method: "transfer", Args: []any{to, amt}})
		return []any{nil}, true
	case "UpdateNotaryList", "UpdateNeoFSAlphabetList":
		ks, _ := a[0].(keys.PublicKeys)
		c.record(Effect{Via: method, Contract: w.Designate, Method: "designateAsRole", Args: []any{cloneKeys(ks)}})
		return []any{nil}, true
	case "DepositNotary", "DepositEndlessNotary":
		amt, _ := a[1].(fixedn.Fixed8)
		c.record(Effect{Via: method, Contract: H("native-notary"), Method: "deposit", Args: []any{amt}})
		return []any{nil}, true
	}
	w.Infra("%s: client method %s is not modelled", c.Name, method)
	return nil, false
}

// apply makes the few writes whose result the node reads back visible (votes).
func (c *Chain) apply(contract util.Uint160, m string, args []any) {
	if m == "vote" && len(args) == 2 {
		if ks, ok := args[1].(keys.PublicKeys); ok && len(ks) > 0 {
			_ = ks // votes become visible only when the harness says the block was accepted (ApplyVotes)
		}
	}
}

func (c *Chain) nodeItems() []stackitem.Item {
	var out []stackitem.Item
	for _, n := range c.Nodes {
		st := netmaprpc.NodeStateOnline
		if n.Maint {
			st = netmaprpc.NodeStateMaintenance
		}
		n2 := netmaprpc.NetmapNode2{Addresses: []string{n.Addr}, Attributes: map[string]string{}, Key: n.Key, State: st}
		it, err := n2.ToStackItem()
		if err != nil {
			c.W.Infra("node item: %v", err)
			continue
		}
		out = append(out, it)
	}
	return out
}

func (c *Chain) testInvoke(contract util.Uint160, m string, args []any) ([]stackitem.Item, error) {
	w := c.W
	one := func(v int64) ([]stackitem.Item, error) { return []stackitem.Item{stackitem.NewBigInteger(big.NewInt(v))}, nil }
	switch contract {
	case w.Netmap:
		switch m {
		case "epoch":
			return one(int64(c.Epoch))
		case "lastEpochBlock":
			return one(int64(c.LastEpochBlock))
		case "getEpochBlock":
			if e, ok := asU64(args[0]); ok && e <= c.Epoch {
				return one(int64(c.LastEpochBlock))
			}
			return one(0)
		case "getEpochBlockByTime":
			return one(int64(c.LastEpochBlock))
		case "config":
			k, _ := args[0].([]byte)
			switch string(k) {
			case "EpochDuration":
				return one(int64(c.EpochDur))
			case "BasicIncomeRate":
				return one(int64(c.BasicIncome))
			}
			return []stackitem.Item{stackitem.Null{}}, nil
		}
	case w.Balance:
		if m == "decimals" {
			return one(12)
		}
	case w.Container:
		switch m {
		case "getInfo":
			id, _ := args[0].([]byte)
			for _, r := range c.Cnrs {
				if string(r.ID[:]) == string(id) {
					it, err := r.Info.ToStackItem()
					if err != nil {
						return nil, err
					}
					return []stackitem.Item{it}, nil
				}
			}
			return nil, errors.New("at instruction 0 (ABORTMSG): " + containerrpc.NotFoundError)
		}
	}
	w.Infra("%s: TestInvoke %s.%s is not modelled", c.Name, w.ContractName(contract), m)
	return nil, ErrSim
}

func (c *Chain) testInvokeIterator(contract util.Uint160, m string, _ []any) ([]stackitem.Item, error) {
	w := c.W
	if contract == w.Container && m == "tokens" {
		var out []stackitem.Item
		for _, r := range c.Cnrs {
			out = append(out, stackitem.NewByteArray(append([]byte(nil), r.ID[:]...)))
		}
		return out, nil
	}
	w.Infra("%s: TestInvokeIterator %s.%s is not modelled", c.Name, w.ContractName(contract), m)
	return nil, ErrSim
}
