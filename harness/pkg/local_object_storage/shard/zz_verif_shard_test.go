package shard

// Simulation harness of the SHARD world (see /verif/DESIGN.md §4): a real Shard (bbolt
// metabase, FSTree blob storage, write-cache with scheduler and workers, GC goroutines,
// mode switching) inside a synctest bubble.  The blob storage and the write-cache are
// reached through gate proxies: every call parks until the seeded scheduler grants it,
// optionally with a fault; crash = byte copy of the shard directory at such a boundary.

import (
	"bytes"
	"errors"
	"fmt"
	"io"
	"io/fs"
	"os"
	"path/filepath"
	"sort"
	"strings"
	"testing"
	"time"

	"github.com/nspcc-dev/bbolt"
	zz "github.com/nspcc-dev/neofs-node/internal/zzverif"
	"github.com/nspcc-dev/neofs-node/pkg/local_object_storage/blobstor/common"
	"github.com/nspcc-dev/neofs-node/pkg/local_object_storage/blobstor/fstree"
	meta "github.com/nspcc-dev/neofs-node/pkg/local_object_storage/metabase"
	"github.com/nspcc-dev/neofs-node/pkg/local_object_storage/shard/mode"
	"github.com/nspcc-dev/neofs-node/pkg/local_object_storage/writecache"
	apistatus "github.com/nspcc-dev/neofs-sdk-go/client/status"
	cid "github.com/nspcc-dev/neofs-sdk-go/container/id"
	"github.com/nspcc-dev/neofs-sdk-go/object"
	oid "github.com/nspcc-dev/neofs-sdk-go/object/id"
	"verif/simkit"
)

var shardComponents = map[string]string{
	"Shard (put/get/delete/mark/GC/modes/dump/restore)": "real",
	"metabase (bbolt)":                   "real file on /dev/shm; batch timers on the simulated clock",
	"blob storage (FSTree)":              "real, behind a gate proxy of common.Storage (per-call gate, injected errors, chosen iteration order)",
	"write-cache (scheduler, workers, FSTree)": "real, behind a gate proxy of writecache.Cache; its flushes reach the blob storage through the storage proxy",
	"GC goroutines, tickers, back-off delays":  "real code on the simulated clock",
	"epoch source / payments / expired-objects callback": "simulated (epoch stepped by the schedule; callback marks unlocked expired objects like the engine does)",
	"process crash / restart":            "simulated: byte copy of the shard directory at a gate boundary, reopened as a new Shard",
}

func TestVerif(t *testing.T) {
	simkit.Main(t, propC15())
	simkit.Main(t, propC16())
	simkit.Main(t, propC09())
	simkit.Main(t, propC14())
	simkit.Main(t, propC43())
	simkit.Main(t, propC46())
	simkit.Main(t, propC47())
	simkit.Main(t, propC07())
	simkit.Main(t, propC44())
	simkit.Main(t, propC18())
}

// ---------------------------------------------------------------------------------------
// proxies

const (
	vOK = iota
	vNoSpace
	vIOErr
)

var errSimIO = errors.New("simulated I/O error")

func verdictErr(v int) error {
	switch v {
	case vNoSpace:
		return common.ErrNoSpace
	case vIOErr:
		return errSimIO
	}
	return nil
}

func short(a oid.Address) string { return a.Object().String()[:6] }

type storProxy struct {
	common.Storage
	w *shWorld
}

func (p *storProxy) g(op string, a oid.Address) int {
	return p.w.k.Gate("blob:" + op + ":" + short(a))
}

func (p *storProxy) Put(a oid.Address, b []byte) error {
	if e := verdictErr(p.g("put", a)); e != nil {
		return e
	}
	err := p.Storage.Put(a, b)
	p.post("put", a)
	return err
}

// post is a second gate after a mutating call: the boundary "this component step is done,
// the next one has not started" (only when a run asks for it).
func (p *storProxy) post(op string, a oid.Address) {
	if p.w.postGates {
		p.w.k.Gate("blob:" + op + "-done:" + short(a))
	}
}

func (p *storProxy) PutBatch(m map[oid.Address][]byte) error {
	var ks []string
	for a := range m {
		ks = append(ks, short(a))
	}
	sort.Strings(ks)
	if e := verdictErr(p.w.k.Gate("blob:putbatch:" + strings.Join(ks, ","))); e != nil {
		return e
	}
	return p.Storage.PutBatch(m)
}

func (p *storProxy) Delete(a oid.Address) error {
	if e := verdictErr(p.g("delete", a)); e != nil {
		return e
	}
	err := p.Storage.Delete(a)
	p.post("delete", a)
	return err
}

func (p *storProxy) Get(a oid.Address) (*object.Object, error) {
	if e := verdictErr(p.g("get", a)); e != nil {
		return nil, e
	}
	return p.Storage.Get(a)
}

func (p *storProxy) GetBytes(a oid.Address) ([]byte, error) {
	if e := verdictErr(p.g("getbytes", a)); e != nil {
		return nil, e
	}
	return p.Storage.GetBytes(a)
}

func (p *storProxy) Head(a oid.Address) (*object.Object, error) {
	if e := verdictErr(p.g("head", a)); e != nil {
		return nil, e
	}
	return p.Storage.Head(a)
}

func (p *storProxy) GetStream(a oid.Address) (*object.Object, io.ReadCloser, error) {
	if e := verdictErr(p.g("getstream", a)); e != nil {
		return nil, nil, e
	}
	return p.Storage.GetStream(a)
}

func (p *storProxy) Iterate(h func(oid.Address, []byte) error, eh func(oid.Address, error) error) error {
	// collect, then replay in an order chosen by the run (directory order is not a contract)
	type kv struct {
		a oid.Address
		b []byte
	}
	var all []kv
	err := p.Storage.Iterate(func(a oid.Address, b []byte) error {
		all = append(all, kv{a, bytes.Clone(b)})
		return nil
	}, eh)
	if err != nil {
		return err
	}
	sort.Slice(all, func(i, j int) bool { return all[i].a.String() < all[j].a.String() })
	if p.w.iterPerm != nil {
		perm := p.w.iterPerm(len(all))
		re := make([]kv, len(all))
		for i, j := range perm {
			re[i] = all[j]
		}
		all = re
	}
	for _, e := range all {
		if err := h(e.a, e.b); err != nil {
			return err
		}
	}
	return nil
}

func (p *storProxy) Close() error {
	if p.w.gateSwitch {
		// (a mode switch in progress, holding the shard's write lock, is a scheduling point)
		p.w.k.Gate("blob:close")
	}
	if p.w.mf.blobClose {
		p.w.r.Fired("blob storage close fails")
		return errSimIO
	}
	return p.Storage.Close()
}

func (p *storProxy) Open(ro bool) error {
	if p.w.mf.blobOpen {
		p.w.r.Fired("blob storage open fails")
		return errSimIO
	}
	return p.Storage.Open(ro)
}

type wcProxy struct {
	writecache.Cache
	w *shWorld
}

func (p *wcProxy) SetMode(m mode.Mode) error {
	if p.w.gateSwitch {
		p.w.k.Gate("wc:setmode")
	}
	if p.w.mf.wcSwitch {
		p.w.r.Fired("write-cache mode switch fails")
		return errSimIO
	}
	return p.Cache.SetMode(m)
}

func (p *wcProxy) g(op string, a oid.Address) int {
	return p.w.k.Gate("wc:" + op + ":" + short(a))
}

func (p *wcProxy) Put(a oid.Address, o *object.Object, b []byte) error {
	if e := verdictErr(p.g("put", a)); e != nil {
		return e
	}
	return p.Cache.Put(a, o, b)
}

func (p *wcProxy) Delete(a oid.Address) error {
	p.g("delete", a)
	err := p.Cache.Delete(a)
	if p.w.postGates {
		p.w.k.Gate("wc:delete-done:" + short(a))
	}
	return err
}

func (p *wcProxy) Get(a oid.Address) (*object.Object, error) {
	p.g("get", a)
	return p.Cache.Get(a)
}

func (p *wcProxy) GetBytes(a oid.Address) ([]byte, error) {
	p.g("getbytes", a)
	return p.Cache.GetBytes(a)
}

// ---------------------------------------------------------------------------------------
// world

type vEpoch struct{ e uint64 }

func (e *vEpoch) CurrentEpoch() uint64 { return e.e }

type vPayments struct {
	disabled bool
	unpaid   map[cid.ID]int64
	errs     map[cid.ID]bool
}

func (p *vPayments) PaymentsDisabled() bool { return p.disabled }
func (p *vPayments) UnpaidSince(c cid.ID) (int64, error) {
	if p.errs[c] {
		return 0, errors.New("simulated payment check failure")
	}
	if v, ok := p.unpaid[c]; ok {
		return v, nil
	}
	return -1, nil
}

type vContainers struct{}

func (vContainers) Exists(cid.ID) (bool, error) { return true, nil }

type shCfg struct {
	wc          bool
	wcWorkers   int
	wcBatchCnt  int
	wcBatchSize uint64
	wcThreshold uint64
	wcMax       uint64
	rmBatch     int
	gcInterval  time.Duration
	boltBatch   int
	depth       uint64
}

func (c shCfg) String() string {
	return fmt.Sprintf("wc=%v workers=%d batchCount=%d batchSize=%d threshold=%d max=%d rmBatch=%d gc=%v boltBatch=%d depth=%d",
		c.wc, c.wcWorkers, c.wcBatchCnt, c.wcBatchSize, c.wcThreshold, c.wcMax, c.rmBatch, c.gcInterval, c.boltBatch, c.depth)
}

func drawShCfg(r *simkit.R, wc int) shCfg {
	c := shCfg{
		wcWorkers:   1 + r.Intn(4),
		wcBatchCnt:  []int{128, 1, 2, 3}[r.Intn(4)],
		wcBatchSize: []uint64{8 << 20, 600, 3000}[r.Intn(3)],
		wcThreshold: []uint64{128 << 10, 300, 1200}[r.Intn(3)],
		wcMax:       []uint64{1 << 30, 1 << 30, 6000}[r.Intn(3)],
		rmBatch:     []int{100, 1, 2, 5}[r.Intn(4)],
		// GC periods are not multiples of the write-cache tick (1 s): goroutines that wake at the
		// same simulated instant interleave by real I/O latency, which the simulator does not own
		gcInterval: []time.Duration{10900 * time.Millisecond, 1300 * time.Millisecond, 3700 * time.Millisecond}[r.Intn(3)],
		// bbolt batching is off (size 1): coalescing of concurrent Batch calls depends on real
		// timing inside bbolt; transaction sharing is exercised in the META world instead
		boltBatch: 1,
		depth:       uint64(1 + r.Intn(3)),
	}
	switch wc {
	case 0:
		c.wc = false
	case 1:
		c.wc = true
	default:
		c.wc = r.Bool(60)
	}
	return c
}

type shWorld struct {
	r   *simkit.R
	k   *simkit.Kernel
	cfg shCfg
	dir string
	gen int
	u   *zz.Universe
	sh  *Shard
	ep  *vEpoch
	pay *vPayments

	bins     map[int][]byte // id -> object binary (immutable content)
	iterPerm func(n int) []int
	// fault plan: returns verdict for a ticket key (scheduler goroutine only)
	fault func(key string) int
	// expired-objects callback collects here (marks unlocked expired objects like the engine)
	expiredSeen int
	mf          modeFaults // component failures injected into mode switches
	touched     map[int]bool
	postGates   bool // park also after mutating component calls
	gateSwitch  bool // park inside mode switches (component close / write-cache switch)
}

func newShWorld(r *simkit.R, cfg shCfg, nids int) *shWorld {
	w := &shWorld{r: r, cfg: cfg, ep: &vEpoch{}, pay: &vPayments{disabled: true, unpaid: map[cid.ID]int64{}, errs: map[cid.ID]bool{}}, bins: map[int][]byte{}}
	w.k = simkit.NewKernel(r)
	w.u = zz.NewUniverse(r.U32()%1000, 1+r.Intn(2), nids)
	w.dir = filepath.Join(r.Dir, "s0")
	r.OnCleanup(func() {
		w.k.Shutdown()
		time.Sleep(100 * time.Millisecond)
	})
	return w
}

func (w *shWorld) bin(id int) []byte {
	if b, ok := w.bins[id]; ok {
		return b
	}
	b := w.u.Build(w.u.Specs[id]).Marshal()
	w.bins[id] = b
	return b
}

func (w *shWorld) addr(id int) oid.Address { return w.u.Addr(w.u.Specs[id].Cnr, id) }

// mkShard constructs a Shard over dir (not opened).
func (w *shWorld) mkShard(dir string) *Shard {
	fst := fstree.New(fstree.WithPath(filepath.Join(dir, "blob")), fstree.WithDepth(w.cfg.depth), fstree.WithPerm(0o700),
		fstree.WithCombinedCountLimit(1), fstree.WithCombinedSizeThreshold(2048), fstree.WithCombinedWriteInterval(5*time.Millisecond), fstree.WithNoSync(true))
	sp := &storProxy{Storage: fst, w: w}
	s := New(
		WithBlobstor(sp),
		WithMetaBaseOptions(meta.WithPath(filepath.Join(dir, "meta.db")), meta.WithEpochState(w.ep), meta.WithContainers(vContainers{}),
			meta.WithBoltDBOptions(&bbolt.Options{NoSync: true, Timeout: time.Second}), meta.WithMaxBatchSize(w.cfg.boltBatch), meta.WithMaxBatchDelay(5*time.Millisecond)),
		WithWriteCache(w.cfg.wc),
		WithWriteCacheOptions(writecache.WithPath(filepath.Join(dir, "wc")), writecache.WithFlushWorkersCount(w.cfg.wcWorkers),
			writecache.WithMaxCacheSize(w.cfg.wcMax), writecache.WithMaxFlushBatchCount(w.cfg.wcBatchCnt), writecache.WithMaxFlushBatchSize(w.cfg.wcBatchSize),
			writecache.WithMaxFlushBatchThreshold(w.cfg.wcThreshold), writecache.WithNoSync(true)),
		WithRemoverBatchSize(w.cfg.rmBatch),
		WithGCRemoverSleepInterval(w.cfg.gcInterval),
		WithContainerPayments(w.pay),
		WithExpiredObjectsCallback(func(addrs []oid.Address) {
			w.expiredSeen += len(addrs)
			for _, a := range addrs {
				if locked, _ := s0(w).IsLocked(a); locked {
					continue
				}
				_ = s0(w).MarkGarbage(a.Container(), []oid.ID{a.Object()}, meta.GarbageMarkDefault)
			}
		}),
	)
	if w.cfg.wc {
		s.writeCache = &wcProxy{Cache: s.writeCache, w: w}
	}
	return s
}

func s0(w *shWorld) *Shard { return w.sh }

// exclusive runs f on a task goroutine with gates passing through, pumping simulated time.
func (w *shWorld) exclusive(name string, f func()) {
	if !w.k.RunExclusive(name, 5*time.Minute, f) {
		w.r.Failf("hang", "exclusive action did not finish: "+name, "%s did not finish within 5 minutes of simulated time", name)
	}
}

func (w *shWorld) open(dir string) {
	var err error
	w.exclusive("open", func() {
		s := w.mkShard(dir)
		w.sh = s
		if err = s.Open(); err != nil {
			return
		}
		err = s.Init()
	})
	if err != nil {
		w.r.Failf("restart", "shard does not open", "open/init of %s: %v", dir, err)
	}
	w.dir = dir
}

func (w *shWorld) close() {
	var err error
	w.exclusive("close", func() { err = w.sh.Close() })
	_ = err
}

func copyTree(dst, src string) error {
	return filepath.WalkDir(src, func(p string, d fs.DirEntry, err error) error {
		if err != nil {
			if os.IsNotExist(err) {
				return nil
			}
			return err
		}
		rel, _ := filepath.Rel(src, p)
		if d.IsDir() {
			return os.MkdirAll(filepath.Join(dst, rel), 0o700)
		}
		b, err := os.ReadFile(p)
		if err != nil {
			if os.IsNotExist(err) {
				return nil
			}
			return err
		}
		return os.WriteFile(filepath.Join(dst, rel), b, 0o600)
	})
}

// snapshot copies the shard directory (crash image).
func (w *shWorld) snapshot(tag string) string {
	w.gen++
	d := filepath.Join(w.r.Dir, fmt.Sprintf("snap%d-%s", w.gen, tag))
	if err := copyTree(d, w.dir); err != nil {
		w.r.Failf("infra", "snapshot", "snapshot: %v", err)
	}
	return d
}

type shHooks struct {
	maxConc  int
	next     func() (string, func(*simkit.Task))
	done     func(*simkit.Task)
	boundary func(key string)
	verdict  func(key string) int
	peek     func()
	// extra actions offered at every step (name, weight>0, action on the scheduler goroutine;
	// it must not call into the shard directly)
	maxSteps int
}

// sched: seeded scheduler over parked proxy tickets, workload operations and the clock.
func (w *shWorld) sched(h shHooks) string {
	w.k.SetPass(false)
	defer w.k.SetPass(true)
	more := true
	var pendName string
	var pend func(*simkit.Task)
	if h.maxSteps == 0 {
		h.maxSteps = 6000
	}
	for step := 0; ; step++ {
		w.r.Step()
		w.k.Quiesce()
		for _, t := range w.k.Collect() {
			if h.done != nil {
				h.done(t)
			}
		}
		if w.r.Violated() {
			return "violated"
		}
		if h.peek != nil && w.r.Bool(12) {
			// lock-free observation of the quiescent state by the scheduler itself (reads only)
			h.peek()
			if w.r.Violated() {
				return "violated"
			}
		}
		if more && pend == nil {
			pendName, pend = h.next()
			if pend == nil {
				more = false
			}
		}
		parked := w.k.Parked()
		canStart := pend != nil && w.k.Live() < h.maxConc
		if len(parked) == 0 && !canStart {
			if w.k.Live() == 0 {
				if pend == nil {
					return ""
				}
				canStart = true
			} else {
				if !w.k.Pump(3 * time.Minute) {
					return "hang"
				}
				continue
			}
		}
		if step > h.maxSteps {
			return "steps"
		}
		nopt := len(parked)
		startIdx, timeIdx := -1, -1
		if canStart {
			startIdx = nopt
			nopt++
		}
		if len(parked) > 0 || w.k.Live() > 0 {
			timeIdx = nopt
			nopt++
		}
		c := w.r.Intn(nopt)
		switch {
		case c == startIdx:
			if strings.HasPrefix(pendName, "x:") {
				// actions that need write locks (mode change, close, reopen, resync): drain what is
				// in flight, then run alone with gates passing through
				f := pend
				// what is in flight completes first and is reported before the action runs
				if !w.k.Drain(5 * time.Minute) {
					return "hang"
				}
				for _, t := range w.k.Collect() {
					if h.done != nil {
						h.done(t)
					}
				}
				if w.r.Violated() {
					return "violated"
				}
				if !w.k.RunExclusive(pendName, 5*time.Minute, func() { f(nil) }) {
					return "hang"
				}
				for _, t := range w.k.Collect() {
					if h.done != nil && t.Name != pendName {
						h.done(t)
					}
				}
				w.k.SetPass(false)
			} else {
				w.k.Go(pendName, pend)
			}
			pend = nil
		case c == timeIdx:
			d := []time.Duration{5 * time.Millisecond, 200 * time.Millisecond, 1100 * time.Millisecond, 11 * time.Second}[w.r.Intn(4)]
			w.k.Sleep(d)
		default:
			key := parked[c].Key
			w.r.Logf("  grant %s", key)
			if h.boundary != nil {
				h.boundary(key)
			}
			v := 0
			if h.verdict != nil {
				v = h.verdict(key)
			}
			w.k.Grant(parked[c], v)
		}
	}
}

// settle lets background activity (flushes, GC passes) run to quiescence with all gates
// granted fault-free: advances the simulated clock by total in steps.
func (w *shWorld) settle(total time.Duration) {
	w.k.SetPass(true)
	var done time.Duration
	for done < total {
		w.k.Sleep(500 * time.Millisecond)
		done += 500 * time.Millisecond
		w.k.Quiesce()
	}
}

func isNF(err error) bool {
	return errors.Is(err, apistatus.ErrObjectNotFound) || errors.Is(err, apistatus.ErrObjectAlreadyRemoved) || errors.Is(err, meta.ErrObjectIsExpired)
}

// physical reports where the bytes of id are physically present (bypassing the shard).
func (w *shWorld) physical(id int) (inBlob, inWC bool) {
	a := w.addr(id)
	if sp, ok := w.sh.blobStor.(*storProxy); ok {
		if ok2, _ := sp.Storage.Exists(a); ok2 {
			inBlob = true
		}
	}
	if w.cfg.wc {
		if p, ok := w.sh.writeCache.(*wcProxy); ok {
			if _, err := p.Cache.GetBytes(a); err == nil {
				inWC = true
			}
		}
	}
	return
}

// ---------------------------------------------------------------------------------------
// workload

type shOp struct {
	kind string // put tomb lock mark drop get getbytes getmeta head flush gc epoch
	id   int
	err  error
	val  []byte
	call uint64
	ret  uint64
	done bool

	started bool
	inWC    bool // (deletions) the object was in the write-cache when the operation started
}

func (o *shOp) String() string { return fmt.Sprintf("%s(o%d)", o.kind, o.id) }

func (w *shWorld) exec(op *shOp) {
	op.started = true
	s := w.sh
	a := w.addr(op.id)
	switch op.kind {
	case "put", "tomb", "lock":
		obj := w.u.Build(w.u.Specs[op.id])
		op.err = s.Put(obj, w.bin(op.id))
	case "mark":
		_, op.inWC = w.physical(op.id)
		op.err = s.MarkGarbage(a.Container(), []oid.ID{a.Object()}, meta.GarbageMarkDefault)
	case "drop":
		_, op.inWC = w.physical(op.id)
		op.err = s.Delete(a.Container(), []oid.ID{a.Object()})
	case "get":
		o, err := s.Get(a, false)
		op.err = err
		if err == nil {
			op.val = o.Marshal()
		}
	case "getbytes":
		op.val, op.err = s.GetBytes(a)
	case "getmeta":
		op.val, op.err = s.GetBytesWithMetadataLookup(a)
	case "getstream":
		o, rc, err := s.GetStream(a, false)
		op.err = err
		if err == nil {
			pl, e2 := io.ReadAll(rc)
			rc.Close()
			op.err = e2
			o.SetPayload(pl)
			op.val = o.Marshal()
		}
	case "head":
		o, err := s.Head(a, false)
		op.err = err
		if err == nil && o.GetID() != a.Object() {
			op.err = errors.New("head returned a foreign header")
		}
	case "flush":
		op.err = s.FlushWriteCache(false)
	case "epoch":
		w.ep.e++
		s.NotificationChannel() <- EventNewEpoch(w.ep.e)
	}
}

// layoutSimple: regular objects (some with expiration) plus tombstones and locks aimed at them.
func (w *shWorld) layoutSimple(nreg, ntomb, nlock int, sizes func() int) {
	u := w.u
	n := len(u.IDs)
	id := 0
	for ; id < nreg && id < n; id++ {
		s := &zz.Spec{ID: id, Cnr: w.r.Intn(len(u.Cnrs)), Kind: zz.KReg, Parent: -1, First: -1, Split: -1, Exp: -1, Size: sizes(), Target: -1, ECRule: -1}
		if w.r.Bool(25) {
			s.Exp = 1 + w.r.Intn(4)
		}
		u.Specs[id] = s
	}
	for j := 0; j < ntomb && id < n; j, id = j+1, id+1 {
		t := w.r.Intn(nreg)
		u.Specs[id] = &zz.Spec{ID: id, Cnr: u.Specs[t].Cnr, Kind: zz.KTomb, Parent: -1, First: -1, Split: -1, Exp: 2 + w.r.Intn(4), Target: t, ECRule: -1}
	}
	for j := 0; j < nlock && id < n; j, id = j+1, id+1 {
		t := w.r.Intn(nreg)
		e := -1
		if w.r.Bool(50) {
			e = 1 + w.r.Intn(4)
		}
		u.Specs[id] = &zz.Spec{ID: id, Cnr: u.Specs[t].Cnr, Kind: zz.KLock, Parent: -1, First: -1, Split: -1, Exp: e, Target: t, ECRule: -1}
	}
	for ; id < n; id++ {
		u.Specs[id] = &zz.Spec{ID: id, Cnr: 0, Kind: zz.KReg, Parent: -1, First: -1, Split: -1, Exp: -1, Size: 1, Target: -1, ECRule: -1}
	}
}

// ---------------------------------------------------------------------------------------
// C15: crash at every component-step boundary; metadata-available implies readable

func propC15() *simkit.Property {
	return &simkit.Property{
		ID: "C15", Level: "fault_enumeration", Bubble: true, TapeLimit: 3000,
		Rule: "each run = one shard configuration (with/without write-cache, flush workers 1-4, batch knobs, GC batch/interval, bolt batch size) and a history of <=10 operations (put, tombstone, lock, garbage mark, drop, explicit flush, epoch tick, GC passes through the simulated clock) by 1-2 concurrent tasks under a seeded schedule; at EVERY gate boundary (before each blob-storage / write-cache call made by foreground operations, flush workers and GC) and at every operation return the shard directory is snapshotted by byte copy; every snapshot is reopened as a new shard and for every address the metabase reports as available (Exists) the object must be readable in full with identical bytes. distinct = (history digest, boundary); non-trivial = snapshot taken with >=1 operation or flush in flight",
		Run:  runC15,
		Assumptions: []string{"bbolt transactions are atomic units (its own crash-safety is trusted); a byte copy taken at quiescence is a valid crash image (process-crash model)", "blob-storage-internal crash points are C12's subject"},
		Components:  shardComponents,
		DeadlockClass: "hang",
	}
}

func runC15(r *simkit.R) {
	cfg := drawShCfg(r, 2)
	nreg := 3 + r.Intn(4)
	w := newShWorld(r, cfg, nreg+4)
	w.layoutSimple(nreg, 2, 2, func() int { return []int{0, 40, 250, 700, 2500}[r.Intn(5)] })
	w.postGates = true
	w.open(w.dir)
	r.OnCleanup(func() { w.close() })
	r.Logf("config %s", cfg)
	nops := 2 + r.Intn(9)
	var ops []*shOp
	for i := 0; i < nops; i++ {
		var op *shOp
		switch r.Weighted(45, 10, 6, 10, 8, 8, 8) {
		case 0:
			op = &shOp{kind: "put", id: r.Intn(nreg)}
		case 1:
			op = &shOp{kind: "tomb", id: nreg + r.Intn(2)}
		case 2:
			op = &shOp{kind: "lock", id: nreg + 2 + r.Intn(2)}
		case 3:
			op = &shOp{kind: "mark", id: r.Intn(nreg)}
		case 4:
			op = &shOp{kind: "drop", id: r.Intn(nreg)}
		case 5:
			op = &shOp{kind: "flush"}
		case 6:
			op = &shOp{kind: "epoch"}
		}
		ops = append(ops, op)
	}
	type snap struct {
		dir, at string
		busy    bool
	}
	var snaps []snap
	take := func(at string) {
		if len(snaps) >= 70 {
			return
		}
		sn := snap{dir: w.snapshot("c"), at: at, busy: w.k.Live() > 0 || len(w.k.Parked()) > 0}
		for _, op := range ops {
			if op.started && !op.done && (op.kind == "drop" || op.kind == "mark") && op.inWC {
				sn.at += fmt.Sprintf(" {deleting o%d}", op.id)
			}
		}
		snaps = append(snaps, sn)
		r.Fired("crash point (shard directory snapshot)")
	}
	byTask := map[*simkit.Task]*shOp{}
	next := 0
	res := w.sched(shHooks{
		maxConc: 1 + r.Intn(2),
		next: func() (string, func(*simkit.Task)) {
			if next >= len(ops) {
				return "", nil
			}
			op := ops[next]
			next++
			return op.kind, func(t *simkit.Task) { byTask[t] = op; w.exec(op) }
		},
		done: func(t *simkit.Task) {
			op := byTask[t]
			op.done = true
			op.call, op.ret = t.Call, t.Ret
			r.Op("%s -> %v", op, op.err)
			take("return of " + op.String())
		},
		boundary: func(key string) { take("before " + key) },
	})
	if res == "hang" || res == "steps" {
		r.Failf("hang", "shard operations did not finish ("+res+")", "operations did not finish (%s)", res)
	}
	if res != "" {
		return
	}
	// background flush / GC after the last operation: more boundaries
	w.k.SetPass(false)
	for i := 0; i < 40; i++ {
		w.k.Sleep([]time.Duration{1100 * time.Millisecond, 11 * time.Second}[i%2])
		w.k.Quiesce()
		for _, t := range w.k.Parked() {
			take("before " + t.Key + " (background)")
			w.k.Grant(t, 0)
			w.k.Quiesce()
		}
	}
	w.k.SetPass(true)
	take("final")
	for _, s := range snaps {
		if s.busy {
			r.Nontrivial()
		}
		w.verifyCrashImage(s.dir, s.at, ops)
		_ = os.RemoveAll(s.dir)
	}
}

// verifyCrashImage: every address the metadata lists as available is readable in full.
func (w *shWorld) verifyCrashImage(dir, at string, ops []*shOp) {
	r := w.r
	saved := w.sh
	savedDir := w.dir
	defer func() { w.sh = saved; w.dir = savedDir }()
	w.open(dir)
	img := w.sh
	var errMsg, tag string
	w.exclusive("verify", func() {
		for id := range w.u.IDs {
			a := w.addr(id)
			ok, err := img.metaBase.Exists(a, false)
			if err != nil || !ok {
				continue
			}
			want := w.bin(id)
			o, err := img.Get(a, false)
			if err != nil {
				inB, inW := false, false
				if sp, ok := img.blobStor.(*storProxy); ok {
					inB, _ = sp.Storage.Exists(a)
				}
				_ = inW
				locked, _ := img.IsLocked(a)
				marked := false
				if bins, gerr := img.metaBase.GetGarbage(1000); gerr == nil {
					for _, b := range bins {
						for _, o := range b.Objects {
							if o == a.Object() {
								marked = true
							}
						}
					}
				}
				if locked && marked {
					tag = " [locked object carrying a forced garbage mark]"
				}
				if strings.Contains(at, fmt.Sprintf("{deleting o%d}", id)) {
					tag = " [a deletion of this address was in flight: its write-cache copy is removed before the metadata]"
				}
				// the garbage collector deletes marked addresses on its own schedule: a put of an
				// address whose removal was requested earlier races with that deletion as well
				{
					// (only a put that had not returned when the removal was invoked can meet that
					// asynchronous deletion)
					for _, p := range ops {
						if p.kind != "put" || p.id != id || !p.started {
							continue
						}
						for _, d := range ops {
							if !d.started || !(d.kind == "mark" && d.id == id || d.kind == "tomb" && w.u.Specs[d.id].Target == id) {
								continue
							}
							if tag == "" && d.call > 0 && (!p.done || d.call < p.ret) {
								tag = " [put raced with a delete of the same address]"
							}
						}
					}
				}
				for _, p := range ops {
					if p.kind != "put" || p.id != id {
						continue
					}
					for _, d := range ops {
						if (d.kind == "drop" || d.kind == "mark") && d.id == id && (d.call < p.ret || !p.done) && (p.call < d.ret || !d.done) && p.call > 0 && d.call > 0 {
							tag = " [put raced with a delete of the same address]"
						}
					}
				}
				errMsg = fmt.Sprintf("crash %s: after restart the metabase lists o%d (%s) as available but Get fails: %v (blob present: %v, locked: %v, garbage-marked: %v)", at, id, w.u.Specs[id].Kind, err, inB, locked, marked)
				return
			}
			if !bytes.Equal(o.Marshal(), want) {
				errMsg = fmt.Sprintf("crash %s: after restart o%d reads bytes that differ from what was stored", at, id)
				return
			}
			if b, err := img.GetBytesWithMetadataLookup(a); err != nil || !bytes.Equal(b, want) {
				errMsg = fmt.Sprintf("crash %s: after restart GetBytes(o%d) fails or differs: %v", at, id, err)
				return
			}
		}
	})
	w.close()
	if errMsg != "" {
		r.Failf("crash", "metadata lists an object as available that cannot be read after the crash ["+crashSite(at)+"]"+tag, "%s", errMsg)
	}
}

func crashSite(at string) string {
	f := strings.Fields(at)
	if len(f) >= 2 && f[0] == "before" {
		p := strings.Split(f[1], ":")
		if len(p) >= 2 {
			return "before " + p[0] + ":" + p[1]
		}
	}
	if len(f) >= 3 && f[0] == "return" {
		return "return of " + strings.SplitN(f[2], "(", 2)[0]
	}
	return at
}
