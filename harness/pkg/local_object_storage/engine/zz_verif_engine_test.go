package engine

// Simulation harness of the ENGINE world (see /verif/DESIGN.md): a real StorageEngine over
// 1-4 real shards (bbolt metabase + FSTree each, GC goroutines on the simulated clock) inside
// a synctest bubble.  The seam is the engine->shard call boundary: every call of
// Shard.Put/Exists/Get/Head/Delete/MarkGarbage/IsLocked enters through a build-time wrapper
// (rules/engine.json) that parks at a kernel gate BEFORE the shard takes its lock, so mode
// switches, broadcasts, evacuation and GC callbacks interleave shard visit by shard visit
// under the seeded scheduler, which may also fail a visit (shard error).  The order in which
// the engine walks its shard table (Go map order in production) is chosen from the tape.

import (
	"bytes"
	"context"
	"crypto/sha256"
	"errors"
	"fmt"
	"path/filepath"
	"sort"
	"strings"
	"sync"
	"sync/atomic"
	"testing"
	"time"

	"github.com/nspcc-dev/bbolt"
	zz "github.com/nspcc-dev/neofs-node/internal/zzverif"
	"github.com/nspcc-dev/neofs-node/internal/zzverif/simfs"
	objectcore "github.com/nspcc-dev/neofs-node/pkg/core/object"
	"github.com/nspcc-dev/neofs-node/pkg/local_object_storage/blobstor/common"
	"github.com/nspcc-dev/neofs-node/pkg/local_object_storage/blobstor/fstree"
	meta "github.com/nspcc-dev/neofs-node/pkg/local_object_storage/metabase"
	"github.com/nspcc-dev/neofs-node/pkg/local_object_storage/shard"
	"github.com/nspcc-dev/neofs-node/pkg/local_object_storage/shard/mode"
	apistatus "github.com/nspcc-dev/neofs-sdk-go/client/status"
	cid "github.com/nspcc-dev/neofs-sdk-go/container/id"
	"github.com/nspcc-dev/neofs-sdk-go/object"
	oid "github.com/nspcc-dev/neofs-sdk-go/object/id"
	"verif/simkit"
)

var engineComponents = map[string]string{
	"StorageEngine (put/broadcast/get/head/delete/drop/lock check/evacuate/mode switching/error counters)": "real",
	"Shard, metabase (bbolt), blob storage (FSTree), GC goroutines and tickers":                          "real; timers on the simulated clock; write-cache disabled in this world (its races are the SHARD world's subject)",
	"engine->shard calls": "real calls through a gate wrapper generated at build time (park before the shard lock; optional injected shard error)",
	"shard table iteration order": "simulated: permutation chosen from the tape at every scheduler step (production: Go map order)",
	"epoch source / container payments": "simulated (epoch stepped by the schedule)",
}

func TestVerif(t *testing.T) {
	simkit.Main(t, propC20())
	simkit.Main(t, propC08())
	simkit.Main(t, propC19())
	simkit.Main(t, propC06())
	simkit.Main(t, propC04())
	simkit.Main(t, propC47e())
}

const (
	vOK       = 0
	vErr      = 1 // the shard call fails without being executed
	vAfterErr = 2 // the shard call is executed, then an error is reported (mutating calls)
)

var errSimShard = errors.New("simulated shard I/O error")

type vEpoch struct{ e atomic.Uint64 }

func (e *vEpoch) CurrentEpoch() uint64 { return e.e.Load() }

type vPayments struct{}

func (vPayments) PaymentsDisabled() bool             { return true }
func (vPayments) UnpaidSince(cid.ID) (int64, error) { return -1, nil }

type vContainers struct{}

func (vContainers) Exists(cid.ID) (bool, error) { return true, nil }

// idStor pins the shard identifier (production: random UUID at first init).
type idStor struct {
	common.Storage
	id common.ID
}

func (s *idStor) Init(common.ID) error { return s.Storage.Init(s.id) }

type enShard struct {
	idx int
	dir string
	id  common.ID
	fst *fstree.FSTree
	sh  *shard.Shard
}

type enCfg struct {
	nshards    int
	threshold  uint32
	rmBatch    int
	gcInterval time.Duration
}

func (c enCfg) String() string {
	return fmt.Sprintf("shards=%d errorThreshold=%d rmBatch=%d gc=%v", c.nshards, c.threshold, c.rmBatch, c.gcInterval)
}

type enWorld struct {
	r   *simkit.R
	k   *simkit.Kernel
	cfg enCfg
	u   *zz.Universe
	e   *StorageEngine
	ep  *vEpoch

	mu     sync.RWMutex
	shards []*enShard
	byPtr  map[*shard.Shard]int

	bins map[int][]byte
	// gate bookkeeping (scheduler goroutine only)
	verdict func(key string) int
}

func short(id oid.ID) string { return id.String()[:6] }

func newEnWorld(r *simkit.R, cfg enCfg, nids int) *enWorld {
	w := &enWorld{r: r, cfg: cfg, ep: &vEpoch{}, byPtr: map[*shard.Shard]int{}, bins: map[int][]byte{}}
	w.k = simkit.NewKernel(r)
	w.k.Eligible = simfs.RWEligible
	simfs.InstallRW(w.k)
	w.u = zz.NewUniverse(r.U32()%1000, 1+r.Intn(2), nids)
	w.e = New(WithErrorThreshold(cfg.threshold))
	w.install()
	r.OnCleanup(func() {
		w.k.Shutdown()
		time.Sleep(100 * time.Millisecond)
		w.uninstall()
	})
	return w
}

func (w *enWorld) idx(s *shard.Shard) int {
	w.mu.RLock()
	defer w.mu.RUnlock()
	if i, ok := w.byPtr[s]; ok {
		return i
	}
	return -1
}

// gate parks the calling goroutine at the engine->shard boundary.
func (w *enWorld) gate(s *shard.Shard, op string, what string) int {
	i := w.idx(s)
	if i < 0 {
		return vOK
	}
	return w.k.Gate(fmt.Sprintf("s%d:%s:%s", i, op, what))
}

func idsKey(ids []oid.ID) string {
	ss := make([]string, len(ids))
	for i := range ids {
		ss[i] = short(ids[i])
	}
	return strings.Join(ss, ",")
}

func (w *enWorld) install() {
	shard.VerifHookPut = func(orig func(*object.Object, []byte) error, s *shard.Shard, o *object.Object, b []byte) error {
		switch w.gate(s, "put", short(o.GetID())) {
		case vErr:
			return errSimShard
		case vAfterErr:
			_ = orig(o, b)
			return errSimShard
		}
		return orig(o, b)
	}
	shard.VerifHookExists = func(orig func(oid.Address, bool) (bool, error), s *shard.Shard, a oid.Address, ign bool) (bool, error) {
		if w.gate(s, "exists", short(a.Object())) != vOK {
			return false, errSimShard
		}
		return orig(a, ign)
	}
	shard.VerifHookGet = func(orig func(oid.Address, bool) (*object.Object, error), s *shard.Shard, a oid.Address, skip bool) (*object.Object, error) {
		if w.gate(s, "get", short(a.Object())) != vOK {
			return nil, errSimShard
		}
		return orig(a, skip)
	}
	shard.VerifHookHead = func(orig func(oid.Address, bool) (*object.Object, error), s *shard.Shard, a oid.Address, raw bool) (*object.Object, error) {
		if w.gate(s, "head", short(a.Object())) != vOK {
			return nil, errSimShard
		}
		return orig(a, raw)
	}
	shard.VerifHookDelete = func(orig func(cid.ID, []oid.ID) error, s *shard.Shard, c cid.ID, ids []oid.ID) error {
		switch w.gate(s, "delete", idsKey(ids)) {
		case vErr:
			return errSimShard
		case vAfterErr:
			_ = orig(c, ids)
			return errSimShard
		}
		return orig(c, ids)
	}
	shard.VerifHookMarkGarbage = func(orig func(cid.ID, []oid.ID, meta.GarbageMark) error, s *shard.Shard, c cid.ID, ids []oid.ID, m meta.GarbageMark) error {
		switch w.gate(s, "mark", idsKey(ids)) {
		case vErr:
			return errSimShard
		case vAfterErr:
			_ = orig(c, ids, m)
			return errSimShard
		}
		return orig(c, ids, m)
	}
	shard.VerifHookListWithCursor = func(orig func(int, *shard.Cursor, ...string) ([]objectcore.AddressWithAttributes, *shard.Cursor, error), s *shard.Shard, n int, c *shard.Cursor, attrs ...string) ([]objectcore.AddressWithAttributes, *shard.Cursor, error) {
		if w.gate(s, "list", fmt.Sprint(n)) != vOK {
			return nil, nil, errSimShard
		}
		return orig(n, c, attrs...)
	}
	shard.VerifHookIsLocked = func(orig func(oid.Address) (bool, error), s *shard.Shard, a oid.Address) (bool, error) {
		if w.gate(s, "islocked", short(a.Object())) != vOK {
			return false, errSimShard
		}
		return orig(a)
	}
}

func (w *enWorld) uninstall() {
	shard.VerifHookPut, shard.VerifHookExists, shard.VerifHookGet, shard.VerifHookHead = nil, nil, nil, nil
	shard.VerifHookDelete, shard.VerifHookMarkGarbage, shard.VerifHookIsLocked = nil, nil, nil
	shard.VerifHookListWithCursor = nil
	simfs.OrderSeed.Store(0)
	simfs.InstallRW(nil)
}

func (w *enWorld) shardOpts(i int) (*enShard, []shard.Option) {
	dir := filepath.Join(w.r.Dir, fmt.Sprintf("s%d", i))
	h := sha256.Sum256([]byte(fmt.Sprintf("shard-%d-%d", w.u.Salt, i)))
	id, _ := common.NewIDFromBytes(h[:common.IDSize])
	fst := fstree.New(fstree.WithPath(filepath.Join(dir, "blob")), fstree.WithDepth(1), fstree.WithPerm(0o700),
		fstree.WithCombinedCountLimit(1), fstree.WithNoSync(true))
	es := &enShard{idx: i, dir: dir, id: id, fst: fst}
	return es, []shard.Option{
		shard.WithBlobstor(&idStor{Storage: fst, id: id}),
		shard.WithMetaBaseOptions(meta.WithPath(filepath.Join(dir, "meta.db")), meta.WithEpochState(w.ep), meta.WithContainers(vContainers{}),
			meta.WithBoltDBOptions(&bbolt.Options{NoSync: true, Timeout: time.Second}), meta.WithMaxBatchSize(1), meta.WithMaxBatchDelay(5*time.Millisecond)),
		shard.WithRemoverBatchSize(w.cfg.rmBatch),
		shard.WithGCRemoverSleepInterval(w.cfg.gcInterval),
		shard.WithContainerPayments(vPayments{}),
	}
}

// addShard attaches shard number len(w.shards) (exclusive action / setup only).
func (w *enWorld) addShard() error {
	i := len(w.shards)
	es, opts := w.shardOpts(i)
	id, err := w.e.AddShard(opts...)
	if err != nil {
		return err
	}
	es.sh = w.e.getShard(id.String()).Shard
	w.mu.Lock()
	w.shards = append(w.shards, es)
	w.byPtr[es.sh] = i
	w.mu.Unlock()
	return nil
}

func (w *enWorld) exclusive(name string, f func()) {
	if !w.k.RunExclusive(name, 5*time.Minute, f) {
		w.r.Failf("hang", "exclusive action did not finish: "+name, "%s did not finish within 5 minutes of simulated time", name)
	}
}

func (w *enWorld) start() {
	var err error
	w.exclusive("start", func() {
		for i := 0; i < w.cfg.nshards && err == nil; i++ {
			err = w.addShard()
		}
		if err == nil {
			err = w.e.Init()
		}
	})
	if err != nil {
		w.r.Failf("infra", "engine start", "engine start: %v", err)
	}
	w.r.OnCleanup(func() {
		w.exclusive("close", func() { _ = w.e.Close() })
	})
}

func (w *enWorld) bin(id int) []byte {
	if b, ok := w.bins[id]; ok {
		return b
	}
	b := w.u.Build(w.u.Specs[id]).Marshal()
	w.bins[id] = b
	return b
}

func (w *enWorld) addr(id int) oid.Address { return w.u.Addr(w.u.Specs[id].Cnr, id) }

// holders: shards whose blob storage physically holds the object (lock-free peek).
func (w *enWorld) holders(id int) []int {
	var hs []int
	a := w.addr(id)
	for _, s := range w.shards {
		if ok, _ := s.fst.Exists(a); ok {
			hs = append(hs, s.idx)
		}
	}
	return hs
}

func (w *enWorld) modeOf(i int) mode.Mode { return w.shards[i].sh.GetMode() }

func drawEnCfg(r *simkit.R, minShards, maxShards int) enCfg {
	return enCfg{
		nshards:    minShards + r.Intn(maxShards-minShards+1),
		threshold:  []uint32{0, 0, 1, 2, 3}[r.Intn(5)],
		rmBatch:    []int{100, 1, 2}[r.Intn(3)],
		gcInterval: []time.Duration{10900 * time.Millisecond, 1300 * time.Millisecond, 3700 * time.Millisecond}[r.Intn(3)],
	}
}

// ---------------------------------------------------------------------------------------
// scheduler

type enHooks struct {
	maxConc  int
	next     func() (string, func(*simkit.Task))
	done     func(*simkit.Task)
	boundary func(key string)
	verdict  func(key string) int
	peek     func()
	maxSteps int
}

func (w *enWorld) sched(h enHooks) string {
	w.k.SetPass(false)
	defer w.k.SetPass(true)
	more := true
	var pendName string
	var pend func(*simkit.Task)
	if h.maxSteps == 0 {
		h.maxSteps = 6000
	}
	collect := func() bool {
		for _, t := range w.k.Collect() {
			if h.done != nil {
				h.done(t)
			}
		}
		return w.r.Violated()
	}
	for step := 0; ; step++ {
		w.r.Step()
		w.k.Quiesce()
		if collect() {
			return "violated"
		}
		if h.peek != nil && w.r.Bool(10) {
			h.peek()
			if w.r.Violated() {
				return "violated"
			}
		}
		if more && pend == nil {
			pendName, pend = h.next()
			if pend == nil {
				more = false
			}
		}
		all := w.k.Parked()
		parked := all[:0:0]
		for _, t := range all {
			// (a lock waiter is offered only after some unlock happened since it parked)
			if simfs.RWEligible(t.Key) {
				parked = append(parked, t)
			}
		}
		canStart := pend != nil && w.k.Live() < h.maxConc
		if len(parked) == 0 && !canStart {
			if w.k.Live() == 0 && len(all) == 0 {
				if pend == nil {
					return ""
				}
				canStart = true
			} else {
				if !w.k.Pump(3 * time.Minute) {
					return "hang"
				}
				continue
			}
		}
		if step > h.maxSteps {
			return "steps"
		}
		nopt := len(parked)
		startIdx, timeIdx := -1, -1
		if canStart {
			startIdx = nopt
			nopt++
		}
		if len(parked) > 0 || w.k.Live() > 0 {
			timeIdx = nopt
			nopt++
		}
		c := w.r.Intn(nopt)
		// the shard-table order used by everything that runs during this step
		simfs.OrderSeed.Store(uint64(w.r.U32()) | 1<<40)
		switch {
		case c == startIdx:
			if strings.HasPrefix(pendName, "x:") {
				f := pend
				if !w.k.Drain(5 * time.Minute) {
					return "hang"
				}
				if collect() {
					return "violated"
				}
				if !w.k.RunExclusive(pendName, 5*time.Minute, func() { f(nil) }) {
					return "hang"
				}
				for _, t := range w.k.Collect() {
					if h.done != nil && t.Name != pendName {
						h.done(t)
					}
				}
				w.k.SetPass(false)
			} else {
				w.k.Go(pendName, pend)
			}
			pend = nil
		case c == timeIdx:
			d := []time.Duration{5 * time.Millisecond, 200 * time.Millisecond, 1400 * time.Millisecond, 11 * time.Second}[w.r.Intn(4)]
			w.k.Sleep(d)
		default:
			key := parked[c].Key
			v := 0
			if h.verdict != nil {
				v = h.verdict(key)
			}
			if v != 0 {
				w.r.Logf("  grant %s FAULT(%d)", key, v)
			} else {
				w.r.Logf("  grant %s", key)
			}
			if h.boundary != nil {
				h.boundary(key)
			}
			w.k.Grant(parked[c], v)
		}
	}
}

// failHang reports a schedule after which nothing can move any more.
func (w *enWorld) failHang(res string) {
	var wr, rd, other []string
	for _, t := range w.k.Parked() {
		k := t.Key
		if i := strings.LastIndexByte(k, '@'); i >= 0 && strings.HasPrefix(k, "rw") {
			k = k[:i]
		}
		switch {
		case strings.HasPrefix(k, "rwlock:"):
			wr = append(wr, strings.TrimPrefix(k, "rwlock:"))
		case strings.HasPrefix(k, "rwrlock:"):
			rd = append(rd, strings.TrimPrefix(k, "rwrlock:"))
		default:
			other = append(other, k)
		}
	}
	if res == "hang" && len(wr) > 0 && len(rd) > 0 {
		w.r.Failf("hang", fmt.Sprintf("deadlock on a shard mutex: a writer waits at %s while read-lock acquisitions wait behind it at %s", strings.Join(wr, ","), strings.Join(rd, ",")),
			"nothing can move: write-lock waiters %v, read-lock waiters %v, other parked calls %v (a goroutine that already holds the shard's read lock asks for it again behind a waiting writer)", wr, rd, other)
		return
	}
	w.r.Failf("hang", "engine operations did not finish ("+res+")", "operations did not finish (%s); parked: %v %v %v", res, wr, rd, other)
}

// settle lets background activity run to quiescence with all gates passing.
func (w *enWorld) settle(total time.Duration) {
	w.k.SetPass(true)
	var done time.Duration
	for done < total {
		w.k.Sleep(700 * time.Millisecond)
		done += 700 * time.Millisecond
		w.k.Quiesce()
	}
}

// ---------------------------------------------------------------------------------------
// workload

type enOp struct {
	kind string // put tomb lock mark drop get head islocked mode epoch addshard evacuate
	id   int
	sh   int
	m    mode.Mode
	srcs []int
	err  error
	val  []byte
	flag bool
	n    int
	b0   int // (evacuate / detach) scheduling-boundary counter when the evacuation was started

	call, ret uint64
	faulted   bool // a shard call of this operation was failed by the simulator
	tombSeen  bool // (reads) a tombstone broadcast of the object was in flight when the read started
	degSeen   bool // some shard was in a degraded (no-metabase) mode at some moment of the operation
	prev      mode.Mode
	flag2     bool // some shard was not read-write while the operation ran
	seen      []string
}

func (o *enOp) String() string {
	switch o.kind {
	case "mode":
		return fmt.Sprintf("mode(s%d,%s)", o.sh, o.m)
	case "epoch", "addshard":
		return o.kind
	case "evacuate":
		return fmt.Sprintf("evacuate(%v)", o.srcs)
	}
	return fmt.Sprintf("%s(o%d)", o.kind, o.id)
}

func (w *enWorld) exec(op *enOp) {
	ctx := context.Background()
	e := w.e
	switch op.kind {
	case "put", "tomb", "lock":
		op.err = e.Put(ctx, w.u.Build(w.u.Specs[op.id]), nil)
	case "mark":
		op.err = e.Delete(ctx, w.addr(op.id), GarbageMarkDefault)
	case "drop":
		op.err = e.Drop(ctx, w.addr(op.id))
	case "get":
		o, err := e.Get(ctx, w.addr(op.id))
		op.err = err
		if err == nil {
			op.val = o.Marshal()
		}
	case "head":
		o, err := e.Head(ctx, w.addr(op.id), false)
		op.err = err
		if err == nil && o.GetID() != w.addr(op.id).Object() {
			op.err = errors.New("head returned a foreign header")
		}
	case "dedup":
		op.err = e.DeleteRedundantCopies(ctx, w.addr(op.id), op.seen)
	case "islocked":
		op.flag, op.err = e.IsLocked(ctx, w.addr(op.id))
	case "mode":
		op.err = e.SetShardMode(w.shards[op.sh].id, op.m, op.flag)
	case "epoch":
		e.HandleNewEpoch(w.ep.e.Add(1))
	case "evacuate":
		var ids []common.ID
		for _, s := range op.srcs {
			ids = append(ids, w.shards[s].id)
		}
		op.n, op.err = e.Evacuate(ctx, ids, op.flag, nil)
	}
}

var ctxBG = context.Background()

func (w *enWorld) shardIDs(idx []int) []common.ID {
	var ids []common.ID
	for _, s := range idx {
		ids = append(ids, w.shards[s].id)
	}
	return ids
}

func errS(err error) string {
	if err == nil {
		return "ok"
	}
	s := err.Error()
	if len(s) > 90 {
		s = s[:90]
	}
	return "ERR(" + s + ")"
}

func isRemoved(err error) bool { return errors.Is(err, apistatus.ErrObjectAlreadyRemoved) }

func isGone(err error) bool {
	return errors.Is(err, apistatus.ErrObjectNotFound) || errors.Is(err, apistatus.ErrObjectAlreadyRemoved)
}

// layout: regular objects (a few of them EC parts of one parent, so that their shard choice
// follows the parent ID), tombstones and locks aimed at regular objects.
func (w *enWorld) layout(nreg, ntomb, nlock int, ec bool) {
	u := w.u
	n := len(u.IDs)
	plain := nreg
	if ec && nreg >= 3 {
		plain = nreg - 2
	}
	id := 0
	for ; id < nreg && id < n; id++ {
		u.Specs[id] = &zz.Spec{ID: id, Cnr: w.r.Intn(len(u.Cnrs)), Kind: zz.KReg, Parent: -1, First: -1, Split: -1, Exp: -1, Size: []int{0, 30, 300}[w.r.Intn(3)], Target: -1, ECRule: -1}
	}
	for j := 0; j < ntomb && id < n; j, id = j+1, id+1 {
		t := w.r.Intn(plain)
		u.Specs[id] = &zz.Spec{ID: id, Cnr: u.Specs[t].Cnr, Kind: zz.KTomb, Parent: -1, First: -1, Split: -1, Exp: 100, Target: t, ECRule: -1}
	}
	for j := 0; j < nlock && id < n; j, id = j+1, id+1 {
		t := w.r.Intn(plain)
		u.Specs[id] = &zz.Spec{ID: id, Cnr: u.Specs[t].Cnr, Kind: zz.KLock, Parent: -1, First: -1, Split: -1, Exp: 2 + w.r.Intn(4), Target: t, ECRule: -1}
	}
	for ; id < n; id++ {
		u.Specs[id] = &zz.Spec{ID: id, Cnr: 0, Kind: zz.KReg, Parent: -1, First: -1, Split: -1, Exp: -1, Size: 1, Target: -1, ECRule: -1}
	}
	if plain < nreg {
		// the last two regular objects are EC parts of one (never stored) parent: the engine
		// chooses their shard by the parent ID
		p := n - 1
		cn := u.Specs[plain].Cnr
		u.Specs[p] = &zz.Spec{ID: p, Cnr: cn, Kind: zz.KReg, Parent: -1, First: -1, Split: -1, Exp: -1, Size: 64, Target: -1, ECRule: -1, Virtual: true}
		for i := 0; i < 2; i++ {
			u.Specs[plain+i] = &zz.Spec{ID: plain + i, Cnr: cn, Kind: zz.KReg, Parent: p, First: -1, Split: -1, Exp: -1, Size: 16, Target: -1, ECRule: 0, ECPart: i}
		}
	}
}

func sortedInts(m map[int]bool) []int {
	var s []int
	for k := range m {
		s = append(s, k)
	}
	sort.Ints(s)
	return s
}

var _ = bytes.Equal
