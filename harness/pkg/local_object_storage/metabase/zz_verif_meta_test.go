package meta

// Simulation harness of the META world (injected at build time, see /verif/DESIGN.md §2, §4).
// Real code: meta.DB on a real bbolt file.  Simulated: epoch clock, container source,
// clean / dirty reopen, bbolt batch timers (fake clock of the synctest bubble).

import (
	"encoding/base64"
	"errors"
	"fmt"
	"io"
	"os"
	"path/filepath"
	"sort"
	"strconv"
	"testing"
	"time"

	"github.com/nspcc-dev/bbolt"
	iec "github.com/nspcc-dev/neofs-node/internal/ec"
	ierrors "github.com/nspcc-dev/neofs-node/internal/errors"
	zz "github.com/nspcc-dev/neofs-node/internal/zzverif"
	objectcore "github.com/nspcc-dev/neofs-node/pkg/core/object"
	"github.com/nspcc-dev/neofs-node/pkg/local_object_storage/blobstor/common"
	apistatus "github.com/nspcc-dev/neofs-sdk-go/client/status"
	cid "github.com/nspcc-dev/neofs-sdk-go/container/id"
	"github.com/nspcc-dev/neofs-sdk-go/object"
	oid "github.com/nspcc-dev/neofs-sdk-go/object/id"
	"verif/simkit"
)

type vEpoch struct{ e uint64 }

func (e *vEpoch) CurrentEpoch() uint64 { return e.e }

type vContainers struct{}

func (vContainers) Exists(cid.ID) (bool, error) { return true, nil }

var metaComponents = map[string]string{
	"metabase (meta.DB, all indexes, counters, search, listing)": "real",
	"bbolt":           "real (file on /dev/shm; batch timers on the simulated clock)",
	"epoch source":    "simulated clock (stepped by the schedule)",
	"container source": "stub (every container exists)",
	"process restart": "simulated: clean close+open, or dirty reopen of a byte copy taken between two operations",
}

func TestVerif(t *testing.T) {
	simkit.Main(t, &simkit.Property{
		ID: "C01", Level: "exploration", Bubble: true, TapeLimit: 3000,
		Rule: "each run = one random history (universe of 2-3 containers, 8-14 object IDs with split/EC families, tombstones, locks; 5-60 ops: put/dup-put/mark/inhume-container/delete/revive/epoch advance/clean+dirty reopen) drawn from the run seed; after every op all views of every address are compared with model M1. distinct = distinct trace digests (ops+results); non-trivial = >=5 ops and >=1 removal-type op (tombstone, mark, container removal, delete, revive) accepted",
		Run:  func(r *simkit.R) { runMetaHistory(r, true, false) },
		Assumptions: []string{"bbolt transactions are atomic and durable as documented (its own crash-safety is trusted)",
			"reference model M1 (harness/internal/zzverif/m1.go) is written from the property statements; where they leave an answer open it is set-valued",
			"testing/synctest fake clock"},
		Components: metaComponents,
	})
	simkit.Main(t, &simkit.Property{
		ID: "C02", Level: "exploration", Bubble: true, TapeLimit: 3000,
		Rule: "same histories as C01 (biased to duplicates, re-marking, tombstones of absent/child targets, revive, deleting parents through the last child, container removal); after every op per-type counters and container size/count are compared with a recount from model M1; at the end SyncCounters must change nothing. distinct = distinct trace digests; non-trivial = >=5 ops and >=1 accepted removal-type op",
		Run:  func(r *simkit.R) { runMetaHistory(r, false, true) },
		Assumptions: []string{"bbolt transactions are atomic", "model M1 recount is written from the statement of C02"},
		Components: metaComponents,
	})
	simkit.Main(t, propC03())
	simkit.Main(t, propC42())
}

// ---------------------------------------------------------------------------------------

type metaWorld struct {
	r     *simkit.R
	u     *zz.Universe
	m     *zz.M1
	db    *DB
	ep    *vEpoch
	path  string
	gen   int
	batch int
	ids   []int // non-virtual spec ids
}

func (w *metaWorld) open(path string) {
	w.db = New(WithPath(path), WithEpochState(w.ep), WithContainers(vContainers{}),
		WithBoltDBOptions(&bbolt.Options{NoSync: true, Timeout: time.Second}),
		WithMaxBatchSize(w.batch), WithMaxBatchDelay(5*time.Millisecond))
	if err := w.db.Open(false); err != nil {
		w.r.Failf("infra", "open", "open metabase: %v", err)
	}
	if err := w.db.Init(common.ID{}); err != nil {
		w.r.Failf("reopen", "init", "init metabase after reopen: %v", err)
	}
	w.path = path
}

func copyFile(dst, src string) error {
	in, err := os.Open(src)
	if err != nil {
		return err
	}
	defer in.Close()
	out, err := os.Create(dst)
	if err != nil {
		return err
	}
	if _, err := io.Copy(out, in); err != nil {
		out.Close()
		return err
	}
	return out.Close()
}

// drawLayout fills the universe with specs: families first, then singles.
func drawLayout(r *simkit.R, u *zz.Universe) {
	n := len(u.IDs)
	ncnr := len(u.Cnrs)
	next := 0
	alloc := func() int { i := next; next++; return i }
	expOrNone := func() int {
		if r.Bool(55) {
			return r.Intn(8)
		}
		return -1
	}
	nfam := r.Intn(3)
	for f := 0; f < nfam && next+5 <= n; f++ {
		cn := r.Intn(ncnr)
		kind := r.Intn(4)
		p := alloc()
		pexp := expOrNone()
		ps := &zz.Spec{ID: p, Cnr: cn, Kind: zz.KReg, Parent: -1, First: -1, Split: -1, Exp: pexp, Size: 64 + r.Intn(64), Target: -1, ECRule: -1, Virtual: true,
			Attrs: [][2]string{{"FileName", "fam" + strconv.Itoa(f)}}}
		u.Specs[p] = ps
		childExp := -1
		if r.Bool(50) {
			childExp = pexp // parts usually inherit nothing, sometimes the same expiration
		}
		switch kind {
		case 0: // v2 split: first, (middle), last, link
			fi := alloc()
			u.Specs[fi] = &zz.Spec{ID: fi, Cnr: cn, Kind: zz.KReg, Parent: -1, NoIDPa: true, First: -1, Split: -1, Exp: childExp, Size: 1 + r.Intn(40), Target: -1, ECRule: -1}
			if r.Bool(50) {
				mi := alloc()
				u.Specs[mi] = &zz.Spec{ID: mi, Cnr: cn, Kind: zz.KReg, Parent: -1, First: fi, Split: -1, Exp: childExp, Size: 1 + r.Intn(40), Target: -1, ECRule: -1}
			}
			la := alloc()
			u.Specs[la] = &zz.Spec{ID: la, Cnr: cn, Kind: zz.KReg, Parent: p, First: fi, Split: -1, Exp: childExp, Size: 1 + r.Intn(40), Target: -1, ECRule: -1}
			li := alloc()
			u.Specs[li] = &zz.Spec{ID: li, Cnr: cn, Kind: zz.KLink, Parent: p, First: fi, Split: -1, Exp: childExp, Size: 8, Target: -1, ECRule: -1}
		case 1: // v1 split: parts share a split ID; last and link carry the parent header
			sid := f
			a := alloc()
			u.Specs[a] = &zz.Spec{ID: a, Cnr: cn, Kind: zz.KReg, Parent: -1, First: -1, Split: sid, Exp: childExp, Size: 1 + r.Intn(40), Target: -1, ECRule: -1}
			la := alloc()
			u.Specs[la] = &zz.Spec{ID: la, Cnr: cn, Kind: zz.KReg, Parent: p, First: -1, Split: sid, Exp: childExp, Size: 1 + r.Intn(40), Target: -1, ECRule: -1}
			li := alloc()
			u.Specs[li] = &zz.Spec{ID: li, Cnr: cn, Kind: zz.KReg, Parent: p, First: -1, Split: sid, Exp: childExp, Size: 0, Target: -1, ECRule: -1}
		case 2: // EC parts of one rule
			np := 2 + r.Intn(2)
			for i := 0; i < np; i++ {
				e := alloc()
				u.Specs[e] = &zz.Spec{ID: e, Cnr: cn, Kind: zz.KReg, Parent: p, First: -1, Split: -1, Exp: pexp, Size: 16, Target: -1, ECRule: 0, ECPart: i}
			}
		case 3: // three levels: root -> size-split part (virtual, last of a v1 chain) -> its EC parts
			sp := alloc()
			u.Specs[sp] = &zz.Spec{ID: sp, Cnr: cn, Kind: zz.KReg, Parent: p, First: -1, Split: 40 + f, Exp: childExp, Size: 32, Target: -1, ECRule: -1, Virtual: true}
			np := 2 + r.Intn(2)
			for i := 0; i < np; i++ {
				e := alloc()
				u.Specs[e] = &zz.Spec{ID: e, Cnr: cn, Kind: zz.KReg, Parent: sp, First: -1, Split: -1, Exp: childExp, Size: 16, Target: -1, ECRule: 0, ECPart: i}
			}
		}
	}
	for next < n {
		id := alloc()
		cn := r.Intn(ncnr)
		s := &zz.Spec{ID: id, Cnr: cn, Parent: -1, First: -1, Split: -1, Exp: -1, Target: -1, ECRule: -1}
		switch r.Weighted(5, 3, 3) {
		case 0:
			s.Kind = zz.KReg
			s.Exp = expOrNone()
			s.Size = r.Intn(100)
			if r.Bool(30) {
				s.Attrs = [][2]string{{"k", strconv.Itoa(r.Intn(3))}}
			}
		case 1:
			s.Kind = zz.KTomb
			s.Exp = r.Intn(9) // tombstones carry an expiration
		case 2:
			s.Kind = zz.KLock
			s.Exp = expOrNone()
		}
		u.Specs[id] = s
	}
	// targets: prefer ids of the same container, any kind (so that forbidden combinations are tried)
	for id := 0; id < n; id++ {
		s := u.Specs[id]
		if s.Kind != zz.KTomb && s.Kind != zz.KLock {
			continue
		}
		var same []int
		for j := 0; j < n; j++ {
			if j != id && u.Specs[j].Cnr == s.Cnr {
				same = append(same, j)
			}
		}
		if len(same) == 0 {
			s.Target = (id + 1) % n
			s.Cnr = u.Specs[s.Target].Cnr
		} else {
			s.Target = same[r.Intn(len(same))]
		}
	}
}

func classify(exists bool, err error) (zz.Status, bool) {
	switch {
	case err == nil && exists:
		return zz.StAvailable, true
	case err == nil:
		return zz.StMissing, true
	case errors.Is(err, ierrors.ErrParentObject):
		return zz.StAvailable, true
	case errors.As(err, new(*object.SplitInfoError)):
		return zz.StAvailable, true
	case errors.As(err, new(iec.ErrParts)):
		return zz.StAvailable, true
	case errors.Is(err, apistatus.ErrObjectAlreadyRemoved):
		return zz.StRemoved, true
	case errors.Is(err, ErrObjectIsExpired):
		return zz.StExpired, true
	case errors.Is(err, apistatus.ErrObjectNotFound):
		return zz.StNotFound, true
	}
	return 0, false
}

// statusOK: NotFound and Missing are the same observable answer for reads that cannot
// distinguish them (Get returns "not found" for both).
func statusOK(allowed zz.StatusSet, got zz.Status, getLike bool) bool {
	if allowed.Has(got) {
		return true
	}
	if getLike && got == zz.StNotFound && allowed.Has(zz.StMissing) {
		return true
	}
	return false
}

func (w *metaWorld) checkViews(after string) {
	r, u, m, db := w.r, w.u, w.m, w.db
	for id := range u.IDs {
		s := u.Specs[id]
		cn := s.Cnr
		addr := u.Addr(cn, id)
		allowed := m.Allowed(cn, id)
		ex, err := db.Exists(addr, false)
		st, ok := classify(ex, err)
		if !ok {
			r.Failf("view-error", "Exists", "after %s: Exists(o%d) unexpected error: %v", after, id, err)
		}
		if !statusOK(allowed, st, false) {
			r.Failf("status", "Exists:"+st.String()+" not in "+allowed.String()+" ["+m.Facts(cn, id)+"]", "after %s: Exists(o%d/c%d) reports %s (err=%v), model allows %s\nmodel: %s", after, id, cn, st, err, allowed, m.Describe())
		}
		// ignoreExpiration: nothing (object or lock) expires
		save := m.Epoch
		m.Epoch = 0
		allowed0 := m.Allowed(cn, id)
		m.Epoch = save
		ex, err = db.Exists(addr, true)
		st, ok = classify(ex, err)
		if !ok || !statusOK(allowed0, st, false) {
			r.Failf("status", "Exists(ignoreExpiration):"+st.String()+" not in "+allowed0.String()+" ["+factsAt(m, 0, cn, id)+"]", "after %s: Exists(o%d/c%d, ignoreExpiration) reports %s (err=%v), model allows %s\nmodel: %s", after, id, cn, st, err, allowed0, m.Describe())
		}
		for _, raw := range []bool{false, true} {
			hdr, err := db.Get(addr, raw)
			st, ok = classify(err == nil, err)
			if !ok {
				r.Failf("view-error", "Get", "after %s: Get(o%d, raw=%v) unexpected error: %v", after, id, raw, err)
			}
			if st == zz.StMissing {
				st = zz.StNotFound
			}
			if !statusOK(allowed, st, true) {
				r.Failf("status", fmt.Sprintf("Get(raw=%v):%s not in %s [%s]", raw, st, allowed, m.Facts(cn, id)), "after %s: Get(o%d/c%d, raw=%v) reports %s (err=%v), model allows %s\nmodel: %s", after, id, cn, raw, st, err, allowed, m.Describe())
			}
			if err == nil {
				e := m.C[cn].Stored[id]
				if e == nil {
					r.Failf("status", "Get returns a header of an object that is not stored", "after %s: Get(o%d) returned a header but the model has no such entry\nmodel: %s", after, id, m.Describe())
				}
				want := u.Build(e.S)
				if hdr.GetID() != want.GetID() || hdr.GetContainerID() != want.GetContainerID() || hdr.Type() != want.Type() ||
					hdr.PayloadSize() != want.PayloadSize() || hdr.Owner() != want.Owner() || hdr.GetParentID() != want.GetParentID() ||
					hdr.GetFirstID() != want.GetFirstID() {
					r.Failf("header", "Get header fields", "after %s: Get(o%d) header differs from the stored object: got type=%v size=%d par=%v first=%v", after, id, hdr.Type(), hdr.PayloadSize(), hdr.GetParentID(), hdr.GetFirstID())
				}
				if !sameAttrs(hdr.Attributes(), want.Attributes()) {
					r.Failf("header", "Get header attributes", "after %s: Get(o%d) attributes differ: got %v want %v", after, id, attrStr(hdr.Attributes()), attrStr(want.Attributes()))
				}
			}
		}
		locked, err := db.IsLocked(addr)
		if err != nil {
			r.Failf("view-error", "IsLocked", "after %s: IsLocked(o%d): %v", after, id, err)
		}
		wantLocked := m.Locked(cn, id) && !m.C[cn].Removed
		if locked != wantLocked {
			r.Failf("locked", fmt.Sprintf("IsLocked=%v want %v [%s]", locked, wantLocked, m.Facts(cn, id)), "after %s: IsLocked(o%d/c%d)=%v, model says %v\nmodel: %s", after, id, cn, locked, wantLocked, m.Describe())
		}
	}
	w.checkSearch(after)
	w.checkListing(after)
	w.checkExpired(after)
	w.checkGarbage(after)
	w.checkEC(after)
}

func factsAt(m *zz.M1, epoch uint64, cn, id int) string {
	save := m.Epoch
	m.Epoch = epoch
	defer func() { m.Epoch = save }()
	return m.Facts(cn, id)
}

func attrStr(as []object.Attribute) string {
	var out []string
	for _, a := range as {
		out = append(out, a.Key()+"="+a.Value())
	}
	sort.Strings(out)
	return fmt.Sprint(out)
}

func sameAttrs(a, b []object.Attribute) bool { return attrStr(a) == attrStr(b) }

func (w *metaWorld) checkSearch(after string) {
	r, u, m := w.r, w.u, w.m
	page := uint16(1 + w.r.Intn(6))
	for cn := range u.Cnrs {
		got := map[int]int{}
		var cursor string
		for iter := 0; iter < 100; iter++ {
			fs, cur, err := objectcore.PreprocessSearchQuery(nil, nil, cursor)
			if err != nil {
				r.Failf("view-error", "Search cursor rejected", "after %s: unfiltered search cursor %q rejected: %v", after, cursor, err)
			}
			res, nc, err := w.db.Search(u.Cnrs[cn], fs, nil, cur, page)
			if err != nil {
				r.Failf("view-error", "Search", "after %s: Search(c%d): %v", after, cn, err)
			}
			for _, it := range res {
				got[u.IDIndex(it.ID)]++
			}
			if len(nc) == 0 {
				break
			}
			cursor = encodeCursor(nc)
		}
		for id, n := range got {
			if n != 1 {
				r.Failf("search", "duplicate in paged unfiltered search", "after %s: unfiltered search of c%d returned o%d %d times", after, cn, id, n)
			}
			if id < 0 || m.C[cn].Stored[id] == nil || u.Specs[id].Cnr != cn {
				r.Failf("search", "search returns an object that is not stored", "after %s: unfiltered search of c%d returned o%d which the model does not hold there\nmodel: %s", after, cn, id, m.Describe())
			}
			if al := m.Allowed(cn, id); !al.Has(zz.StAvailable) {
				r.Failf("search", "search returns unavailable object: model "+al.String(), "after %s: unfiltered search of c%d returned o%d whose status must be %s\nmodel: %s", after, cn, id, al, m.Describe())
			}
		}
		if m.C[cn].Removed {
			continue
		}
		for id := range m.C[cn].Stored {
			al := m.Allowed(cn, id)
			if al == 1<<uint(zz.StAvailable) && got[id] == 0 {
				r.Failf("search", "search misses an available object", "after %s: unfiltered search of c%d (page %d) misses available o%d\nmodel: %s", after, cn, page, id, m.Describe())
			}
		}
	}
}

func (w *metaWorld) checkListing(after string) {
	r, u, m := w.r, w.u, w.m
	count := 1 + r.Intn(5)
	want := m.Listed()
	got := map[[2]int]int{}
	var cur *Cursor
	for iter := 0; iter < 200; iter++ {
		res, nc, err := w.db.ListWithCursor(count, cur)
		if errors.Is(err, ErrEndOfListing) {
			break
		}
		if err != nil {
			r.Failf("view-error", "ListWithCursor", "after %s: ListWithCursor: %v", after, err)
		}
		if len(res) > count {
			r.Failf("listing", "page larger than requested", "after %s: ListWithCursor(%d) returned %d items", after, count, len(res))
		}
		for _, a := range res {
			k := [2]int{u.CnrIndex(a.Address.Container()), u.IDIndex(a.Address.Object())}
			got[k]++
			if k[0] >= 0 && k[1] >= 0 {
				if e := m.C[k[0]].Stored[k[1]]; e != nil && a.Type != u.Build(e.S).Type() {
					r.Failf("listing", "listed type differs", "after %s: listing reports type %v for o%d", after, a.Type, k[1])
				}
			}
		}
		cur = nc
	}
	for k, n := range got {
		if n != 1 {
			r.Failf("listing", "object listed more than once", "after %s: listing (page %d) yields o%d/c%d %d times", after, count, k[1], k[0], n)
		}
		if !want[k] {
			r.Failf("listing", "listing yields an object marked for removal or not stored", "after %s: listing yields o%d/c%d which must be omitted\nmodel: %s", after, k[1], k[0], m.Describe())
		}
	}
	for k := range want {
		if got[k] == 0 {
			r.Failf("listing", "listing omits an unmarked physical object", "after %s: listing (page %d) omits o%d/c%d\nmodel: %s", after, count, k[1], k[0], m.Describe())
		}
	}
}

func (w *metaWorld) checkExpired(after string) {
	r, u, m := w.r, w.u, w.m
	for _, ep := range []uint64{m.Epoch, m.Epoch + 2} {
		got := map[[2]int]int{}
		err := w.db.IterateExpired(ep, func(a oid.Address, typ object.Type) error {
			got[[2]int{u.CnrIndex(a.Container()), u.IDIndex(a.Object())}]++
			return nil
		})
		if err != nil {
			r.Failf("view-error", "IterateExpired", "after %s: IterateExpired: %v", after, err)
		}
		// lock liveness is judged at the iteration epoch
		save := m.Epoch
		m.Epoch = ep
		want := m.ExpiredIter(ep)
		m.Epoch = save
		for k, n := range got {
			if n != 1 || !want[k] {
				r.Failf("expired-iter", "expired iteration yields a non-expired, locked or foreign object", "after %s: IterateExpired(%d) yields o%d/c%d (x%d) which is not in the expected set\nmodel: %s", after, ep, k[1], k[0], n, m.Describe())
			}
		}
		for k := range want {
			if got[k] == 0 {
				r.Failf("expired-iter", "expired iteration misses an expired unlocked object", "after %s: IterateExpired(%d) misses o%d/c%d\nmodel: %s", after, ep, k[1], k[0], m.Describe())
			}
		}
	}
}

func (w *metaWorld) checkGarbage(after string) {
	r, u, m := w.r, w.u, w.m
	bins, err := w.db.GetGarbage(10000)
	if err != nil {
		r.Failf("view-error", "GetGarbage", "after %s: GetGarbage: %v", after, err)
	}
	got := map[int]map[int]bool{}
	for _, b := range bins {
		cn := u.CnrIndex(b.Container)
		if cn < 0 {
			r.Failf("garbage", "foreign container in garbage", "after %s: GetGarbage lists unknown container", after)
		}
		if got[cn] == nil {
			got[cn] = map[int]bool{}
		}
		for _, o := range b.Objects {
			got[cn][u.IDIndex(o)] = true
		}
	}
	for cn, c := range m.C {
		want := map[int]bool{}
		if c.Removed {
			for id := range c.Stored {
				want[id] = true
			}
		} else {
			for id, mk := range c.Marks {
				if mk != zz.MarkNone {
					want[id] = true
				}
			}
		}
		for id := range got[cn] {
			if !want[id] {
				r.Failf("garbage", "garbage lists an object that was never marked for removal", "after %s: GetGarbage lists o%d/c%d which carries no mark\nmodel: %s", after, id, cn, m.Describe())
			}
		}
		for id := range want {
			// (a virtual parent of size-split parts cannot be removed on its own: its records go with
			// its last child, and the collector is not handed such an ID — it may be omitted)
			splitParent := false
			if u.Specs[id] != nil && u.Specs[id].Virtual {
				for _, cs := range u.Specs {
					if cs != nil && cs.Parent == id && cs.ECRule < 0 {
						splitParent = true
					}
				}
			}
			if !got[cn][id] && splitParent {
				r.Probe("marked virtual split parent omitted from the garbage listing")
				continue
			}
			if !got[cn][id] {
				r.Failf("garbage", "garbage misses a marked object", "after %s: GetGarbage misses marked o%d/c%d\nmodel: %s", after, id, cn, m.Describe())
			}
		}
	}
}

func (w *metaWorld) checkEC(after string) {
	r, u, m := w.r, w.u, w.m
	for id := range u.IDs {
		s := u.Specs[id]
		if s.ECRule < 0 {
			continue
		}
		par := s.Parent
		cn := s.Cnr
		got, err := w.db.ResolveECPart(u.Cnrs[cn], u.IDs[par], iec.PartInfo{RuleIndex: s.ECRule, Index: s.ECPart})
		allowed := m.Allowed(cn, par)
		stored := m.C[cn].Stored[id] != nil
		if err == nil {
			if !allowed.Has(zz.StAvailable) && !allowed.Has(zz.StMissing) {
				r.Failf("status", "ResolveECPart succeeds for unavailable parent: "+allowed.String(), "after %s: ResolveECPart(parent o%d) succeeded, parent must be %s\nmodel: %s", after, par, allowed, m.Describe())
			}
			if !stored || got != u.IDs[id] {
				r.Failf("ec", "ResolveECPart returns a wrong part", "after %s: ResolveECPart(parent o%d, part %d) returned %v, stored=%v", after, par, s.ECPart, u.IDIndex(got), stored)
			}
			continue
		}
		st, ok := classify(false, err)
		if !ok {
			r.Failf("view-error", "ResolveECPart", "after %s: ResolveECPart: %v", after, err)
		}
		if st == zz.StNotFound && !stored {
			continue
		}
		if !statusOK(allowed, st, true) {
			r.Failf("status", "ResolveECPart:"+st.String()+" not in "+allowed.String(), "after %s: ResolveECPart(parent o%d part o%d) reports %s, parent allows %s, part stored=%v\nmodel: %s", after, par, id, st, allowed, stored, m.Describe())
		}
	}
}

func (w *metaWorld) checkCounters(after string) {
	r, u, m := w.r, w.u, w.m
	var sum zz.Counters
	for cn := range u.Cnrs {
		want := m.Recount(cn)
		sum.Phy += want.Phy
		sum.Root += want.Root
		sum.TS += want.TS
		sum.Lock += want.Lock
		sum.Link += want.Link
		info, err := w.db.GetContainerInfo(u.Cnrs[cn])
		if err != nil {
			r.Failf("view-error", "GetContainerInfo", "after %s: %v", after, err)
		}
		if info.ObjectsNumber != want.ObjectsNumber {
			sig := cntSig("ObjectsNumber", info.ObjectsNumber, want.ObjectsNumber) + w.explain(cn)
			d := int64(info.ObjectsNumber) - int64(want.ObjectsNumber)
			if d < 0 {
				d = -d
			}
			if d <= int64(m.C[cn].NonPhyMarkOps) {
				sig += " [explained: by at most the number of garbage keys created/removed for ids that are not stored physical objects]"
			}
			r.Failf("container-count", sig, "after %s: container c%d reports %d objects, %d stored physical objects are not marked for removal\nmodel: %s", after, cn, info.ObjectsNumber, want.ObjectsNumber, m.Describe())
		}
		if info.StorageSize != want.StorageSize {
			r.Failf("container-size", cntSig("StorageSize", info.StorageSize, want.StorageSize)+w.explain(cn), "after %s: container c%d reports payload size %d, stored unmarked physical payload is %d\nmodel: %s", after, cn, info.StorageSize, want.StorageSize, m.Describe())
		}
		if info.ObjectsNumber > 1<<62 || info.StorageSize > 1<<62 {
			r.Failf("wrap", "container counter wrapped", "after %s: container c%d counters wrapped: %+v", after, cn, info)
		}
	}
	c, err := w.db.ObjectCounters()
	if err != nil {
		r.Failf("view-error", "ObjectCounters", "after %s: %v", after, err)
	}
	type pair struct {
		name      string
		got, want uint64
	}
	for _, p := range []pair{{"Phy", c.Phy, sum.Phy}, {"Root", c.Root, sum.Root}, {"TS", c.TS, sum.TS}, {"Lock", c.Lock, sum.Lock}, {"Link", c.Link, sum.Link}} {
		if p.got > 1<<62 {
			r.Failf("wrap", p.name+" counter wrapped", "after %s: %s counter wrapped: %d", after, p.name, p.got)
		}
		if p.got != p.want {
			r.Failf("counter", cntSig(p.name, p.got, p.want)+w.explain(-1), "after %s: %s counter is %d, metadata indexes %d such objects\nmodel: %s", after, p.name, p.got, p.want, m.Describe())
		}
	}
}

func (w *metaWorld) explain(cn int) string {
	for i := range w.m.C {
		if (cn < 0 || i == cn) && w.m.C[i].PartialRevives > 0 {
			return " [explained: an object with several tombstones was revived, one tombstone was removed and the object stays tombstoned but is accounted as revived]"
		}
	}
	if cn >= 0 && w.m.C[cn].Reputs > 0 {
		return " [explained: an object was accepted and indexed while its address (or its parent) was hidden by a garbage mark]"
	}
	if cn < 0 {
		for i := range w.m.C {
			if w.m.C[i].Reputs > 0 {
				return " [explained: an object was accepted and indexed while its address (or its parent) was hidden by a garbage mark]"
			}
		}
	}
	return ""
}

func cntSig(name string, got, want uint64) string {
	d := "over"
	if got < want {
		d = "under"
	}
	return name + " " + d + "-counts"
}

func encodeCursor(b []byte) string { return base64.StdEncoding.EncodeToString(b) }

// ---------------------------------------------------------------------------------------

func runMetaHistory(r *simkit.R, views, counters bool) {
	ncnr := 2 + r.Intn(2)
	nobj := 8 + r.Intn(7)
	u := zz.NewUniverse(r.U32()%1000, ncnr, nobj)
	drawLayout(r, u)
	w := &metaWorld{r: r, u: u, m: zz.NewM1(u), ep: &vEpoch{e: uint64(r.Intn(3))}}
	w.m.Epoch = w.ep.e
	w.batch = []int{1, 2, 1000}[r.Intn(3)]
	for id, s := range u.Specs {
		if !s.Virtual {
			w.ids = append(w.ids, id)
		}
	}
	sort.Ints(w.ids)
	w.open(filepath.Join(r.Dir, "meta0.db"))
	r.OnCleanup(func() { _ = w.db.Close() })
	r.Logf("universe: %d containers, %d ids, epoch %d, bolt batch %d", ncnr, nobj, w.ep.e, w.batch)
	for id := 0; id < nobj; id++ {
		r.Logf("  spec %s%s", u.Specs[id], map[bool]string{true: " (virtual parent)", false: ""}[u.Specs[id].Virtual])
	}

	nops := 5 + r.Intn(56)
	removals := 0
	check := func(after string) {
		if views {
			w.checkViews(after)
		}
		if counters {
			w.checkCounters(after)
		}
	}
	for i := 0; i < nops; i++ {
		var after string
		switch r.Weighted(40, 10, 4, 12, 6, 10, 5) {
		case 0: // put (fresh or duplicate)
			id := w.ids[r.Intn(len(w.ids))]
			s := u.Specs[id]
			verdict, why := w.m.JudgePut(s)
			err := w.db.Put(u.Build(s))
			after = fmt.Sprintf("put %s -> %v", s, errStr(err))
			r.Op("%s", after)
			if err == nil && verdict == zz.PutMustReject {
				r.Failf("admission", "accepted: "+why, "%s accepted, but it is a %s\nmodel: %s", after, why, w.m.Describe())
			}
			if err != nil && verdict == zz.PutMustAccept {
				r.Failf("admission", "rejected: "+why, "%s rejected, but it is a %s\nmodel: %s", after, why, w.m.Describe())
			}
			if err == nil {
				if s.Kind == zz.KTomb && w.m.C[s.Cnr].Stored[id] == nil && !w.m.C[s.Cnr].Removed {
					removals++
				}
				if !w.m.C[s.Cnr].Removed {
					w.m.ApplyPut(s)
				}
			}
		case 1: // garbage mark
			cn := r.Intn(ncnr)
			k := 1 + r.Intn(3)
			var ids []int
			var oids []oid.ID
			for j := 0; j < k; j++ {
				id := r.Intn(nobj)
				if u.Specs[id].Cnr != cn || containsI(ids, id) {
					continue
				}
				ids = append(ids, id)
				oids = append(oids, u.IDs[id])
			}
			mark := GarbageMarkDefault
			mm := zz.MarkDefault
			if r.Bool(35) {
				mark, mm = GarbageMarkRedundant, zz.MarkRedundant
			}
			_, err := w.db.MarkGarbage(u.Cnrs[cn], oids, mark)
			after = fmt.Sprintf("mark c%d %v kind=%d -> %v", cn, ids, mm, errStr(err))
			r.Op("%s", after)
			if err != nil {
				r.Failf("op-error", "MarkGarbage", "%s: unexpected error", after)
			}
			if len(ids) > 0 {
				removals++
			}
			w.m.ApplyMark(cn, ids, mm)
		case 2: // container removal
			cn := r.Intn(ncnr)
			if r.Bool(30) && w.m.C[cn].Removed {
				err := w.db.DeleteContainer(u.Cnrs[cn])
				after = fmt.Sprintf("delete-container c%d -> %v", cn, errStr(err))
				r.Op("%s", after)
				if err != nil {
					r.Failf("op-error", "DeleteContainer", "%s", after)
				}
				w.m.ApplyDeleteContainer(cn)
			} else {
				_, err := w.db.InhumeContainer(u.Cnrs[cn])
				after = fmt.Sprintf("inhume-container c%d -> %v", cn, errStr(err))
				r.Op("%s", after)
				if err != nil {
					r.Failf("op-error", "InhumeContainer", "%s", after)
				}
				w.m.ApplyInhumeContainer(cn)
			}
			removals++
		case 3: // physical delete (what GC does)
			cn := r.Intn(ncnr)
			var ids []int
			var cand []int
			if r.Bool(70) {
				for id, mk := range w.m.C[cn].Marks {
					if mk != zz.MarkNone {
						cand = append(cand, id)
					}
				}
				sort.Ints(cand)
			}
			if len(cand) == 0 {
				for id := 0; id < nobj; id++ {
					if u.Specs[id].Cnr == cn {
						cand = append(cand, id)
					}
				}
			}
			if len(cand) == 0 {
				continue
			}
			k := 1 + r.Intn(3)
			var oids []oid.ID
			for j := 0; j < k; j++ {
				id := cand[r.Intn(len(cand))]
				if containsI(ids, id) {
					continue
				}
				ids = append(ids, id)
				oids = append(oids, u.IDs[id])
			}
			_, _, err := w.db.Delete(u.Cnrs[cn], oids)
			after = fmt.Sprintf("delete c%d %v -> %v", cn, ids, errStr(err))
			r.Op("%s", after)
			if err != nil {
				r.Failf("op-error", "Delete", "%s", after)
			}
			if w.m.C[cn].Removed {
				// deleting from a removed container: entries go one by one
				w.m.ApplyDelete(cn, ids)
			} else {
				w.m.ApplyDelete(cn, ids)
			}
			removals++
		case 4: // revive
			id := r.Intn(nobj)
			cn := u.Specs[id].Cnr
			st, err := w.db.ReviveObject(u.Addr(cn, id))
			after = fmt.Sprintf("revive o%d/c%d -> %v", id, cn, errStr(err))
			r.Op("%s", after)
			if err == nil {
				tomb := -1
				if st.StatusType() == ReviveStatusGraveyard {
					tomb = u.IDIndex(st.TombstoneAddress().Object())
				}
				w.m.ApplyRevive(cn, id, tomb)
				removals++
			}
		case 5: // epoch advance
			d := uint64(1 + r.Intn(3))
			w.ep.e += d
			w.m.Epoch = w.ep.e
			after = fmt.Sprintf("epoch -> %d", w.ep.e)
			r.Op("%s", after)
		case 6: // reopen: clean or dirty
			if r.Bool(50) {
				if err := w.db.Close(); err != nil {
					r.Failf("op-error", "Close", "close: %v", err)
				}
				w.open(w.path)
				after = "clean reopen"
			} else {
				w.gen++
				np := filepath.Join(r.Dir, fmt.Sprintf("meta%d.db", w.gen))
				if err := copyFile(np, w.path); err != nil {
					r.Failf("infra", "copy", "copy: %v", err)
				}
				old := w.db
				w.open(np)
				_ = old.Close()
				r.Fired("dirty-reopen")
				after = "dirty reopen (byte copy of the live database file)"
			}
			r.Op("%s", after)
		}
		check(after)
	}
	if counters {
		if err := w.db.SyncCounters(); err != nil {
			r.Failf("op-error", "SyncCounters", "SyncCounters: %v", err)
		}
		r.Op("SyncCounters")
		w.checkCounters("SyncCounters")
	}
	if nops >= 5 && removals > 0 {
		r.Nontrivial()
	}
}

func containsI(s []int, x int) bool {
	for _, v := range s {
		if v == x {
			return true
		}
	}
	return false
}

func errStr(err error) string {
	if err == nil {
		return "ok"
	}
	s := err.Error()
	if len(s) > 90 {
		s = s[:90]
	}
	return "ERR(" + s + ")"
}
