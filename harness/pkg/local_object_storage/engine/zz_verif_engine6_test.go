package engine

// C47 (engine part): container data is discarded only when the container is gone or long unpaid.
//
// World: a REAL StorageEngine over 1-3 REAL shards (bbolt metabase + FSTree, GC goroutines on the
// simulated clock).  The engine is started (New + AddShard... + Init) and restarted (Close + a new
// engine over the same directories) several times.  The container source handed to the engine
// (engine.WithContainersSource) is simulated: every call of Source.Get made by the start-up
// cleanup (StorageEngine.deleteNotFoundContainers runs one goroutine per shard) parks at a kernel
// gate; the scheduler decides which shard's query is answered next and what the answer is.
// Between starts the history may deliver new-epoch events through StorageEngine.HandleNewEpoch
// (payment checker of the shards simulated) and "container removed" chain events through
// StorageEngine.InhumeContainer.
//
// Telling the per-shard goroutines apart: the source is one object for all shards and the
// production code does not tell it who asks.  Every shard therefore holds one "own" container
// whose ID sorts before all others (never reported absent, never unpaid), so the first query of
// every goroutine identifies its shard; after that exactly one goroutine runs at a time between
// two queries, so a newly parked query always belongs to the goroutine granted last.

import (
	"context"
	"crypto/sha256"
	"errors"
	"fmt"
	"path/filepath"
	"sort"
	"strings"
	"sync"
	"time"

	"github.com/nspcc-dev/bbolt"
	zz "github.com/nspcc-dev/neofs-node/internal/zzverif"
	"github.com/nspcc-dev/neofs-node/pkg/local_object_storage/blobstor/common"
	"github.com/nspcc-dev/neofs-node/pkg/local_object_storage/blobstor/fstree"
	meta "github.com/nspcc-dev/neofs-node/pkg/local_object_storage/metabase"
	"github.com/nspcc-dev/neofs-node/pkg/local_object_storage/shard"
	"github.com/nspcc-dev/neofs-node/pkg/local_object_storage/shard/mode"
	apistatus "github.com/nspcc-dev/neofs-sdk-go/client/status"
	"github.com/nspcc-dev/neofs-sdk-go/container"
	cid "github.com/nspcc-dev/neofs-sdk-go/container/id"
	oid "github.com/nspcc-dev/neofs-sdk-go/object/id"
	"verif/simkit"
)

func propC47e() *simkit.Property {
	return &simkit.Property{
		ID: "C47", Level: "exploration", Bubble: true, TapeLimit: 3000,
		Rule: "each run (engine part) = a real engine over 1-3 real shards holding 3-9 objects (regular, tombstones, locks, some garbage-marked) of 2-3 containers spread over the shards, then a history of 2-7 steps: engine restart (Close + new engine over the same directories + Init; 1-4 per run, a shard may come up read-only), new-epoch event through HandleNewEpoch (epochs 0..10 in any order; per-container unpaid-since -1..12, payments on/off, per-shard payment-check errors) or a container-removal event (InhumeContainer). During every Init each Source.Get of the start-up cleanup is answered from the tape per shard and container: found / definitively not found (status value, status variable, wrapped with %w, pointer) / transient (network error, deadline exceeded plain and wrapped, canceled, errors whose TEXT says or equals 'container not found', object-not-found and eACL-not-found statuses); the order in which the shards' queries are answered is drawn too. After each step the per-shard, per-container view (Exists class + listing of every object) is compared with the view before: it may change at a start only for a container the source definitively reported absent during that start, at an epoch event only if payments are on, some shard's check succeeded, unpaid-since >= 0 and epoch - unpaid-since >= 3 as integers, at a removal event only for the removed container. distinct = trace digest; non-trivial = >=1 start in which a container holding objects got a transient or look-alike answer, or an epoch event with a payment-check error or an unpaid mark ahead of the epoch",
		Run:  runC47e,
		Assumptions: []string{
			"only the 'discards only if' direction is judged; 'reported absent but kept' (e.g. absence reported as a pointer status, read-only shard) is a probe",
			"a definitive answer given to any shard's query during a start permits the discard of that container on every shard during that start (the statement speaks about the source's report, not about who asked)",
			"cmd/neofs-node (the real cached container source, the real payment checker and the subscription that calls InhumeContainer on container removal) is not executed",
			"every shard holds one always-present, always-paid container of its own that sorts first (harness device to attribute the source's calls to shards)",
		},
		Components: map[string]string{
			"StorageEngine.Init / deleteNotFoundContainers / Close / AddShard / HandleNewEpoch / InhumeContainer": "real",
			"Shard (ListContainers, InhumeContainer, DeleteContainer, new-epoch handler, GC), metabase, FSTree":     "real; timers on the simulated clock; write-cache disabled",
			"container source (containercore.Source)":                                                              "simulated: scripted per-call answers behind a scheduler gate",
			"payment checker (shard.ContainerPayments)":                                                            "simulated per shard",
			"epoch source":                                                                                         "simulated",
		},
		DeadlockClass: "hang",
	}
}

// ---------------------------------------------------------------------------------------
// answers of the simulated container source

const (
	c47Found = iota
	c47Definitive
	c47Transient
)

type c47Flavour struct {
	name  string
	class int
	err   func() error
}

// a private error type whose text equals the status text
type c47TextErr struct{ s string }

func (e c47TextErr) Error() string { return e.s }

var c47Flavours = []c47Flavour{
	{"found", c47Found, func() error { return nil }},
	// definitive
	{"not found (status variable)", c47Definitive, func() error { return apistatus.ErrContainerNotFound }},
	{"not found (status value, as the chain client and the cache return it)", c47Definitive, func() error { return apistatus.ContainerNotFound{} }},
	{"not found (status wrapped twice with %w)", c47Definitive, func() error {
		return fmt.Errorf("select container nodes: %w", fmt.Errorf("read container by ID: %w", apistatus.ErrContainerNotFound))
	}},
	{"not found (pointer to the status)", c47Definitive, func() error { return new(apistatus.ContainerNotFound) }},
	// transient / look-alike
	{"network error", c47Transient, func() error { return errors.New("rpc error: connection refused") }},
	{"context deadline exceeded", c47Transient, func() error { return context.DeadlineExceeded }},
	{"wrapped context deadline exceeded", c47Transient, func() error {
		return fmt.Errorf("read container by ID: %w", context.DeadlineExceeded)
	}},
	{"context canceled", c47Transient, func() error { return context.Canceled }},
	{"error whose text says 'container not found'", c47Transient, func() error { return errors.New("invoke contract: container not found") }},
	{"error whose text equals the not-found status text", c47Transient, func() error { return c47TextErr{apistatus.ErrContainerNotFound.Error()} }},
	{"object-not-found status", c47Transient, func() error { return apistatus.ErrObjectNotFound }},
	{"eACL-not-found status", c47Transient, func() error { return apistatus.ErrEACLNotFound }},
	{"wrapped object-not-found status", c47Transient, func() error {
		return fmt.Errorf("read container by ID: %w", apistatus.ErrObjectNotFound)
	}},
}

func c47FlavoursOf(class int) []int {
	var res []int
	for i, f := range c47Flavours {
		if f.class == class {
			res = append(res, i)
		}
	}
	return res
}

type c47Src struct{ w *c47World }

func (s *c47Src) Get(id cid.ID) (container.Container, error) {
	w := s.w
	ci := w.u.CnrIndex(id)
	v := w.k.Gate(fmt.Sprintf("src:c%02d", ci))
	w.mu.Lock()
	w.srcCalls++
	w.mu.Unlock()
	if v < 0 || v >= len(c47Flavours) {
		v = 0
	}
	return container.Container{}, c47Flavours[v].err()
}

// metabase's own view of the container source (used by metabase migrations only)
type c47MetaCnrs struct{ w *c47World }

func (c c47MetaCnrs) Exists(cid.ID) (bool, error) {
	c.w.mu.Lock()
	c.w.metaCnrCalls++
	c.w.mu.Unlock()
	return true, nil
}

// payment checker of one shard
type c47Pay struct {
	w *c47World
	s int
}

func (p *c47Pay) PaymentsDisabled() bool {
	p.w.mu.Lock()
	defer p.w.mu.Unlock()
	return p.w.payOff
}

func (p *c47Pay) UnpaidSince(id cid.ID) (int64, error) {
	w := p.w
	ci := w.u.CnrIndex(id)
	w.mu.Lock()
	defer w.mu.Unlock()
	w.payCalls++
	if ci < 0 {
		return -1, nil
	}
	if w.payErr[[2]int{p.s, ci}] {
		return 0, errors.New("FS chain RPC call: connection lost")
	}
	if u, ok := w.payUnpaid[ci]; ok {
		return u, nil
	}
	return -1, nil
}

// ---------------------------------------------------------------------------------------
// world

type c47Shard struct {
	idx int
	dir string
	id  common.ID
	sh  *shard.Shard
	ro  bool
	pay *c47Pay
}

type c47Obj struct {
	id    int // index in the universe
	cnr   int
	shard int
}

type c47World struct {
	r  *simkit.R
	k  *simkit.Kernel
	u  *zz.Universe
	ep *vEpoch
	e  *StorageEngine

	nsh     int
	ncnr    int // containers in total: nsh own containers first, then the shared ones
	shards  []*c47Shard
	objs    []c47Obj
	marked  map[int]bool // objects the history garbage-marked itself
	rmBatch int
	gcInt   time.Duration
	batch   int

	mu           sync.Mutex
	srcCalls     int
	metaCnrCalls int
	payCalls     int
	payOff       bool
	payUnpaid    map[int]int64
	payErr       map[[2]int]bool
}

func (w *c47World) exclusive(name string, f func()) {
	if !w.k.RunExclusive(name, 5*time.Minute, f) {
		w.r.Failf("hang", "exclusive action did not finish: "+name, "%s did not finish within 5 minutes of simulated time", name)
	}
}

func (w *c47World) settle(total time.Duration) {
	w.k.SetPass(true)
	var done time.Duration
	for done < total {
		w.k.Sleep(350 * time.Millisecond)
		done += 350 * time.Millisecond
		w.k.Quiesce()
	}
}

func (w *c47World) shardOpts(s *c47Shard) []shard.Option {
	fst := fstree.New(fstree.WithPath(filepath.Join(s.dir, "blob")), fstree.WithDepth(1), fstree.WithPerm(0o700),
		fstree.WithCombinedCountLimit(1), fstree.WithNoSync(true))
	opts := []shard.Option{
		shard.WithBlobstor(&idStor{Storage: fst, id: s.id}),
		shard.WithMetaBaseOptions(meta.WithPath(filepath.Join(s.dir, "meta.db")), meta.WithEpochState(w.ep), meta.WithContainers(c47MetaCnrs{w}),
			meta.WithBoltDBOptions(&bbolt.Options{NoSync: true, Timeout: time.Second}), meta.WithMaxBatchSize(w.batch), meta.WithMaxBatchDelay(5*time.Millisecond)),
		shard.WithRemoverBatchSize(w.rmBatch),
		shard.WithGCRemoverSleepInterval(w.gcInt),
		shard.WithContainerPayments(s.pay),
	}
	if s.ro {
		opts = append(opts, shard.WithMode(mode.ReadOnly))
	}
	return opts
}

// open builds a new engine over the shard directories and attaches the shards (pass mode).
func (w *c47World) open() {
	var err error
	w.exclusive("open", func() {
		w.e = New(WithContainersSource(&c47Src{w}))
		for _, s := range w.shards {
			var id common.ID
			id, err = w.e.AddShard(w.shardOpts(s)...)
			if err != nil {
				return
			}
			s.sh = w.e.getShard(id.String()).Shard
		}
	})
	if err != nil {
		w.r.Failf("harness", "engine could not attach a shard", "attach: %v", err)
	}
}

func (w *c47World) closeEngine() {
	if w.e == nil {
		return
	}
	e := w.e
	w.e = nil
	w.exclusive("close", func() { _ = e.Close() })
}

type c47Given struct {
	shard   int
	flavour int
}

// initGated runs the real Init with every container-source query answered by the scheduler.
// Returns Init's error and, per container, the answers given.
func (w *c47World) initGated(start int) (error, map[int][]c47Given) {
	r := w.r
	given := map[int][]c47Given{}
	w.k.SetPass(false)
	defer w.k.SetPass(true)
	e := w.e
	task := w.k.Go("init", func(t *simkit.Task) { t.Err = e.Init() })
	owner := map[*simkit.Ticket]int{}
	inflight := -1
	first := true
	finished := func() bool {
		for _, t := range w.k.Collect() {
			if t == task {
				return true
			}
		}
		return false
	}
	// fresh returns the parked queries not attributed to a shard yet
	fresh := func() []*simkit.Ticket {
		var res []*simkit.Ticket
		for _, t := range w.k.Parked() {
			if _, ok := owner[t]; !ok {
				res = append(res, t)
			}
		}
		return res
	}
	for step := 0; ; step++ {
		r.Step()
		w.k.Quiesce()
		if finished() {
			return task.Err, given
		}
		if step > 400 {
			r.Failf("hang", "engine Init did not finish", "Init of start %d did not finish within 400 scheduler steps", start)
		}
		fr := fresh()
		if inflight >= 0 && len(fr) == 0 {
			// the goroutine granted last has not asked again: it has finished its shard, or it waits
			// for a timer (metabase batch delay).  Let the clock run a little.
			done := false
			for d := time.Millisecond; d <= 256*time.Millisecond && len(fr) == 0 && !done; d *= 4 {
				w.k.Sleep(d)
				w.k.Quiesce()
				done = finished()
				fr = fresh()
			}
			if done {
				return task.Err, given
			}
			if len(fr) == 0 {
				inflight = -1
			}
		}
		for _, t := range fr {
			ci := -1
			fmt.Sscanf(t.Key, "src:c%d", &ci)
			switch {
			case inflight >= 0 && len(fr) == 1:
				owner[t] = inflight
				inflight = -1
			case first && ci >= 0 && ci < w.nsh:
				if _, dup := ownerOf(owner, ci); dup {
					r.Failf("harness", "two goroutines asked for one shard's own container", "c%d", ci)
				}
				owner[t] = ci
			default:
				r.Failf("harness", "a container-source query could not be attributed to a shard", "query %s (in flight: %d, first round: %v, %d new queries)", t.Key, inflight, first, len(fr))
			}
		}
		first = false
		// shards whose query is parked
		type cand struct {
			s int
			t *simkit.Ticket
		}
		var cands []cand
		for _, t := range w.k.Parked() {
			if s, ok := owner[t]; ok {
				cands = append(cands, cand{s, t})
			}
		}
		sort.Slice(cands, func(i, j int) bool { return cands[i].s < cands[j].s })
		if len(cands) == 0 {
			if !w.k.Pump(2 * time.Second) {
				r.Failf("hang", "engine Init did not finish", "Init of start %d: nothing parked, nothing moves", start)
			}
			continue
		}
		c := cands[r.Intn(len(cands))]
		ci := -1
		fmt.Sscanf(c.t.Key, "src:c%d", &ci)
		fl := 0
		if ci >= w.nsh {
			switch r.Weighted(5, 3, 4) {
			case 1:
				fs := c47FlavoursOf(c47Definitive)
				fl = fs[r.Intn(len(fs))]
			case 2:
				fs := c47FlavoursOf(c47Transient)
				fl = fs[r.Intn(len(fs))]
			}
		}
		given[ci] = append(given[ci], c47Given{c.s, fl})
		r.Logf("  start %d: shard s%d asks for c%d -> %s", start, c.s, ci, c47Flavours[fl].name)
		if fl != 0 {
			r.Fired("source answer: " + c47Flavours[fl].name)
		}
		delete(owner, c.t)
		inflight = c.s
		w.k.Grant(c.t, fl)
	}
}

func ownerOf(m map[*simkit.Ticket]int, s int) (*simkit.Ticket, bool) {
	for t, x := range m {
		if x == s {
			return t, true
		}
	}
	return nil, false
}

func (w *c47World) addr(o c47Obj) oid.Address { return w.u.Addr(o.cnr, o.id) }

// snapshot: per (shard, container) the view of every object placed there.
func (w *c47World) snapshot() map[[2]int]string {
	res := map[[2]int]string{}
	w.exclusive("snapshot", func() {
		for _, s := range w.shards {
			listed := map[oid.Address]bool{}
			var cur *shard.Cursor
			for i := 0; i < 50; i++ {
				items, next, err := s.sh.ListWithCursor(100, cur)
				if err != nil {
					break
				}
				for _, it := range items {
					listed[it.Address] = true
				}
				cur = next
			}
			for _, o := range w.objs {
				if o.shard != s.idx {
					continue
				}
				a := w.addr(o)
				k := [2]int{s.idx, o.cnr}
				if w.marked[o.id] {
					// the history itself marked it as garbage (a forced mark: the GC removes it whenever
					// it gets to it, a locked one reads as available until then): not part of the view
					res[k] += fmt.Sprintf(" o%d=(garbage-marked)", o.id)
					continue
				}
				cl := ""
				ex, err := s.sh.Exists(a, false)
				switch {
				case err != nil:
					// (a garbage-marked object is "not found" until the GC has deleted it physically,
					// then plainly absent: one class)
					if cl = errClass(err); cl == "notfound" {
						cl = "gone"
					}
				case ex:
					cl = "available"
				default:
					cl = "gone"
				}
				if listed[a] {
					cl += "+listed"
				}
				res[k] += fmt.Sprintf(" o%d=%s", o.id, cl)
			}
		}
	})
	return res
}

func c47Cells(m map[[2]int]string) [][2]int {
	var ks [][2]int
	for k := range m {
		ks = append(ks, k)
	}
	sort.Slice(ks, func(i, j int) bool {
		if ks[i][0] != ks[j][0] {
			return ks[i][0] < ks[j][0]
		}
		return ks[i][1] < ks[j][1]
	})
	return ks
}

func c47Live(view string) bool { return strings.Contains(view, "=available") || strings.Contains(view, "=removed") }

func runC47e(r *simkit.R) {
	w := &c47World{r: r, ep: &vEpoch{}, payUnpaid: map[int]int64{}, payErr: map[[2]int]bool{}, marked: map[int]bool{}}
	w.k = simkit.NewKernel(r)
	w.nsh = 1 + r.Intn(3)
	nshared := 2 + r.Intn(2)
	w.ncnr = w.nsh + nshared
	nobj := 3 + r.Intn(7)
	w.rmBatch = []int{100, 1, 2}[r.Intn(3)]
	w.gcInt = []time.Duration{1300 * time.Millisecond, 3700 * time.Millisecond, 10900 * time.Millisecond}[r.Intn(3)]
	w.batch = []int{1, 1, 3}[r.Intn(3)]
	w.u = zz.NewUniverse(r.U32()%1000, w.ncnr, w.nsh+nobj)
	// own containers sort first, shared ones after them
	for i := range w.u.Cnrs {
		if i < w.nsh {
			w.u.Cnrs[i][0] = byte(i)
		} else {
			w.u.Cnrs[i][0] = 0x40 + byte(i)
		}
	}
	for i := 0; i < w.nsh; i++ {
		dir := filepath.Join(r.Dir, fmt.Sprintf("s%d", i))
		var id common.ID
		h := sha256.Sum256([]byte(fmt.Sprintf("c47-shard-%d-%d", w.u.Salt, i)))
		id, _ = common.NewIDFromBytes(h[:common.IDSize])
		s := &c47Shard{idx: i, dir: dir, id: id}
		s.pay = &c47Pay{w: w, s: i}
		w.shards = append(w.shards, s)
	}
	r.OnCleanup(func() {
		w.k.Shutdown()
		time.Sleep(50 * time.Millisecond)
		w.closeEngine()
		time.Sleep(100 * time.Millisecond)
	})
	r.Logf("engine with %d shards, %d shared containers, %d objects; rmBatch=%d gc=%v metabase batch=%d", w.nsh, nshared, nobj, w.rmBatch, w.gcInt, w.batch)

	// layout
	for s := 0; s < w.nsh; s++ {
		w.u.Specs[s] = &zz.Spec{ID: s, Cnr: s, Kind: zz.KReg, Parent: -1, First: -1, Split: -1, Exp: -1, Size: 8, Target: -1, ECRule: -1}
		w.objs = append(w.objs, c47Obj{id: s, cnr: s, shard: s})
	}
	var regs []int // positions in w.objs of regular shared objects
	var garbage []int
	for j := 0; j < nobj; j++ {
		id := w.nsh + j
		kind := zz.KReg
		if len(regs) > 0 {
			kind = []zz.Kind{zz.KReg, zz.KTomb, zz.KLock}[r.Weighted(6, 2, 2)]
		}
		if kind == zz.KReg {
			o := c47Obj{id: id, cnr: w.nsh + r.Intn(nshared), shard: r.Intn(w.nsh)}
			w.u.Specs[id] = &zz.Spec{ID: id, Cnr: o.cnr, Kind: zz.KReg, Parent: -1, First: -1, Split: -1, Exp: -1, Size: []int{0, 30, 300}[r.Intn(3)], Target: -1, ECRule: -1}
			regs = append(regs, len(w.objs))
			w.objs = append(w.objs, o)
			if r.Bool(15) {
				garbage = append(garbage, len(w.objs)-1)
			}
			continue
		}
		t := w.objs[regs[r.Intn(len(regs))]]
		w.u.Specs[id] = &zz.Spec{ID: id, Cnr: t.cnr, Kind: kind, Parent: -1, First: -1, Split: -1, Exp: 100, Target: t.id, ECRule: -1}
		w.objs = append(w.objs, c47Obj{id: id, cnr: t.cnr, shard: t.shard})
	}

	// first start: empty shards, nothing to ask
	w.open()
	if err, _ := w.initGated(0); err != nil {
		r.Failf("harness", "first engine start failed", "Init: %v", err)
	}
	w.exclusive("fill", func() {
		for _, o := range w.objs {
			if err := w.shards[o.shard].sh.Put(w.u.Build(w.u.Specs[o.id]), nil); err != nil {
				r.Logf("put of o%d into s%d: %s", o.id, o.shard, errS(err))
			}
		}
		for _, gi := range garbage {
			o := w.objs[gi]
			a := w.addr(o)
			w.marked[o.id] = true
			_ = w.shards[o.shard].sh.MarkGarbage(a.Container(), []oid.ID{a.Object()}, meta.GarbageMarkDefault)
		}
	})
	for _, o := range w.objs {
		r.Logf("s%d holds %s", o.shard, w.u.Specs[o.id])
	}
	for _, gi := range garbage {
		r.Logf("o%d is garbage-marked", w.objs[gi].id)
	}
	w.settle(2*w.gcInt + time.Second)
	before := w.snapshot()
	for _, k := range c47Cells(before) {
		r.Logf("view s%d/c%d:%s", k[0], k[1], before[k])
	}

	released := map[[2]int]bool{} // cells whose discard has been justified already
	interesting := false
	restarts := 0
	initFailed := false
	epoch := uint64(r.Intn(9))
	nsteps := 2 + r.Intn(6)
	for step := 0; step < nsteps; step++ {
		kind := 0
		if step > 0 {
			kind = r.Weighted(5, 3, 1)
		}
		if initFailed {
			// a node whose engine failed to start does not go on: the operator starts it again
			kind = 0
		}
		if kind == 0 && restarts >= 4 {
			if initFailed {
				break
			}
			kind = 1
		}
		var allowed func(cell [2]int) (bool, string)
		what := ""
		switch kind {
		case 0: // restart
			restarts++
			w.closeEngine()
			ro := -1
			for _, s := range w.shards {
				s.ro = false
			}
			if r.Bool(12) {
				ro = r.Intn(w.nsh)
				w.shards[ro].ro = true
				r.Fired("shard opened read-only")
			}
			r.Op("restart %d (read-only shard: %d)", restarts, ro)
			w.open()
			err, given := w.initGated(restarts)
			if err != nil {
				r.Logf("  Init failed: %s", c47InitErr(err))
				r.Probe("Init failed")
			}
			for ci, gs := range given {
				for _, g := range gs {
					if c47Flavours[g.flavour].class == c47Transient && c47HasLive(before, ci) {
						interesting = true
					}
				}
			}
			what = "start-up"
			allowed = func(cell [2]int) (bool, string) {
				var names []string
				seen := map[string]bool{}
				ok := false
				for _, g := range given[cell[1]] {
					f := c47Flavours[g.flavour]
					if f.class == c47Definitive {
						ok = true
					}
					if !seen[f.name] {
						seen[f.name] = true
						names = append(names, f.name)
					}
				}
				sort.Strings(names)
				if len(names) == 0 {
					return ok, "the source was not asked about the container"
				}
				return ok, "the source answered only: " + strings.Join(names, "; ")
			}
			initFailed = err != nil
			w.settle([]time.Duration{350 * time.Millisecond, 2*w.gcInt + time.Second}[r.Intn(2)])
			after := w.snapshot()
			for ci, gs := range given {
				for _, g := range gs {
					cell := [2]int{g.shard, ci}
					if c47Flavours[g.flavour].class == c47Definitive && before[cell] == after[cell] && c47Live(before[cell]) {
						why := ""
						switch {
						case w.shards[g.shard].ro:
							why = " [read-only shard]"
						case initFailed:
							why = " [Init failed on another shard]"
						}
						r.Probe("converse: reported absent but kept (" + c47Flavours[g.flavour].name + ")" + why)
					}
				}
			}
			w.judge(what, before, after, released, allowed)
			before = after
			continue
		case 1: // epoch event
			switch r.Intn(5) {
			case 0:
			case 1:
				epoch += uint64(1 + r.Intn(3))
			case 2:
				if epoch > 0 {
					epoch -= uint64(1 + r.Intn(int(min(epoch, 3))))
				}
			default:
				epoch++
			}
			if epoch > 10 {
				epoch = 10
			}
			w.mu.Lock()
			w.payOff = r.Bool(20)
			desc := ""
			anyOK := map[int]bool{}
			for ci := w.nsh; ci < w.ncnr; ci++ {
				u := int64(r.Intn(14)) - 1
				w.payUnpaid[ci] = u
				desc += fmt.Sprintf(" c%d:unpaid-since=%d", ci, u)
				if u > int64(epoch) {
					interesting = true
				}
				for s := 0; s < w.nsh; s++ {
					e := r.Bool(15)
					w.payErr[[2]int{s, ci}] = e
					if e {
						desc += fmt.Sprintf("(check fails on s%d)", s)
						interesting = true
					} else {
						anyOK[ci] = true
					}
				}
			}
			off := w.payOff
			unpaid := map[int]int64{}
			for k, v := range w.payUnpaid {
				unpaid[k] = v
			}
			w.mu.Unlock()
			if w.e == nil {
				continue
			}
			r.Op("epoch %d payments-disabled=%v%s", epoch, off, desc)
			ep := epoch
			w.ep.e.Store(ep)
			e := w.e
			w.exclusive("epoch", func() { e.HandleNewEpoch(ep) })
			what = "new-epoch event"
			allowed = func(cell [2]int) (bool, string) {
				u, has := unpaid[cell[1]]
				switch {
				case off:
					return false, "payments are disabled"
				case !has || u < 0:
					return false, "the container is paid"
				case !anyOK[cell[1]]:
					return false, "every payment check failed"
				case u > int64(ep):
					return false, "the unpaid mark is ahead of the processed epoch"
				case int64(ep)-u < 3:
					return false, "unpaid for less than 3 epochs"
				}
				return true, ""
			}
		case 2: // the container was removed in the chain: the node is told to drop it
			ci := w.nsh + r.Intn(nshared)
			if w.e == nil {
				continue
			}
			r.Op("container c%d removed (InhumeContainer)", ci)
			e := w.e
			w.exclusive("inhume-container", func() { _ = e.InhumeContainer(context.Background(), w.u.Cnrs[ci]) })
			what = "container-removal event of another container"
			allowed = func(cell [2]int) (bool, string) { return cell[1] == ci, "another container was removed" }
		}
		w.settle([]time.Duration{350 * time.Millisecond, 2*w.gcInt + time.Second}[r.Intn(2)])
		after := w.snapshot()
		w.judge(what, before, after, released, allowed)
		before = after
	}
	if w.metaCnrCalls > 0 {
		r.Probe("metabase asked its own container checker")
	}
	if interesting {
		r.Nontrivial()
	}
}

func c47HasLive(view map[[2]int]string, ci int) bool {
	for k, v := range view {
		if k[1] == ci && c47Live(v) {
			return true
		}
	}
	return false
}

func c47InitErr(err error) string {
	switch {
	case errors.Is(err, shard.ErrReadOnlyMode):
		return "container cleanup refused by a read-only shard"
	case errors.Is(err, shard.ErrDegradedMode):
		return "degraded shard"
	}
	return "other error"
}

// judge compares the views before and after a step.
func (w *c47World) judge(what string, before, after map[[2]int]string, released map[[2]int]bool, allowed func([2]int) (bool, string)) {
	r := w.r
	for _, cell := range c47Cells(before) {
		if before[cell] == after[cell] {
			continue
		}
		r.Logf("  view s%d/c%d:%s  ->%s", cell[0], cell[1], before[cell], after[cell])
		if released[cell] {
			continue
		}
		ok, why := allowed(cell)
		if ok {
			released[cell] = true
			r.Probe("container discarded with a permitted reason (" + what + ")")
			continue
		}
		own := ""
		if cell[1] < w.nsh {
			own = " (the shard's own, always present container)"
		}
		r.Failf("discard", "container data changed at "+what+" although "+why,
			"%s: the objects of container c%d%s on shard s%d changed although %s\nbefore:%s\nafter: %s", what, cell[1], own, cell[0], why, before[cell], after[cell])
	}
}
