//go:build verif

package object

import (
	"context"
	"fmt"
	"os"
	"testing"
	"time"

	"github.com/nspcc-dev/neofs-sdk-go/container/acl"
	protoobject "github.com/nspcc-dev/neofs-sdk-go/proto/object"
	protosession "github.com/nspcc-dev/neofs-sdk-go/proto/session"
	"github.com/nspcc-dev/neofs-sdk-go/version"

	"verif/simkit"
)

func propC45() *simkit.Property { return &simkit.Property{ID: "C45", Run: func(*simkit.R) {}} }
func propC31() *simkit.Property { return &simkit.Property{ID: "C31", Run: func(*simkit.R) {}} }

func TestProbe(t *testing.T) {
	if os.Getenv("VERIF_PROBE") == "" {
		t.Skip()
	}
	p := &simkit.Property{ID: "PROBE", PanicIsInfra: true, Run: func(r *simkit.R) {
		t0 := time.Now()
		w := newObjWorld(r, worldCfg{epoch: 10, withEngine: true})
		online := []bool{true, true, true, true, true}
		mem := map[int][]bool{0: {true, true, false, false, false}, 1: {false, true, true, false, false}}
		for e := uint64(8); e <= 12; e++ {
			w.chain.setEpochMembership(e, online, mem)
		}
		w.addContainer(0, acl.PublicRWExtended)
		w.addContainer(1, acl.PublicRWExtended)
		fmt.Println("world built in", time.Since(t0))
		lo := &simObject{obj: w.newObject(0, w.owner.signer(0), []byte("hello local payload"), [2]string{"Tag", "public"}), cnr: 0, local: true}
		w.seedObject(lo)
		ro := &simObject{obj: w.newObject(0, w.owner.signer(0), []byte("hello remote payload"), [2]string{"Tag", "public"}), cnr: 0}
		w.seedObject(ro)
		w.blobOn = true
		fmt.Println("seeded in", time.Since(t0))
		for _, i := range w.rpcs {
			fmt.Printf("rpc %s ss=%v cs=%v buffered=%v\n", i.name, i.serverStream, i.clientStream, i.usesBuffered)
		}
		for _, ver := range []version.Version{version.Current(), version.New(2, 17)} {
			for mode := 0; mode < 3; mode++ {
				for _, po := range []bool{false, true} {
					sh := &reqShape{rpc: "Get", cnr: 0, obj: lo, ttl: 1, ver: ver, rngMode: mode, pldOnly: po}
					mh := &protosession.RequestMetaHeader{Version: ver.ProtoMessage(), Ttl: 1}
					req := w.buildRequest(sh, mh)
					setVerifyHeader(req, signRequest(w.other.signer(0), req))
					out := callRPC(context.Background(), w.rpc("Get"), req)
					fmt.Printf("GET v=%s rng=%d pldOnly=%v: %v payload=%q\n", ver.String(), mode, po, out, out.payload)
				}
			}
		}
		for _, so := range []*simObject{lo, ro}[:0] {
			for _, ttl := range []uint32{1, 2} {
				mh := func() *protosession.RequestMetaHeader {
					return &protosession.RequestMetaHeader{Version: version.Current().ProtoMessage(), Ttl: ttl}
				}
				addr := so.obj.Address().ProtoMessage()
				greq := &protoobject.GetRequest{Body: &protoobject.GetRequest_Body{Address: addr}, MetaHeader: mh()}
				setVerifyHeader(greq, signRequest(w.other.signer(0), greq))
				m := w.rec.mark()
				out := callRPC(context.Background(), w.rpc("Get"), greq)
				fmt.Printf("GET local=%v ttl=%d: %v msg=%q payload=%q eff=%s\n", so.local, ttl, out, out.msg, out.payload, compact(w.rec.since(m)))

				hreq := &protoobject.HeadRequest{Body: &protoobject.HeadRequest_Body{Address: addr}, MetaHeader: mh()}
				setVerifyHeader(hreq, signRequest(w.other.signer(1), hreq))
				m = w.rec.mark()
				out = callRPC(context.Background(), w.rpc("Head"), hreq)
				fmt.Printf("HEAD local=%v ttl=%d: %v msg=%q eff=%s\n", so.local, ttl, out, out.msg, compact(w.rec.since(m)))

				rreq := &protoobject.GetRangeRequest{Body: &protoobject.GetRangeRequest_Body{Address: addr, Range: &protoobject.Range{Offset: 1, Length: 4}}, MetaHeader: mh()}
				setVerifyHeader(rreq, signRequest(w.other.signer(2), rreq))
				m = w.rec.mark()
				out = callRPC(context.Background(), w.rpc("GetRange"), rreq)
				fmt.Printf("RANGE local=%v ttl=%d: %v msg=%q payload=%q eff=%s\n", so.local, ttl, out, out.msg, out.payload, compact(w.rec.since(m)))
			}
		}
		fmt.Println("done in", time.Since(t0))
	}}
	os.Setenv("VERIF_PROP", "PROBE")
	os.Setenv("VERIF_MAXRUNS", "3")
	os.Setenv("VERIF_OUT", "/tmp/objsvc-build/probe.json")
	simkit.Main(t, p)
}
