package netmap

// In-package shims for the C38 harness (which lives in package netmap_test because the
// composite node validator imports this package): direct access to the synchronous process*
// entry points and to the worker pool.

import (
	netmapEvent "github.com/nspcc-dev/neofs-node/pkg/morph/event/netmap"
)

func (np *Processor) VerifProcessAddNode(ev netmapEvent.AddNode)       { np.processAddNode(ev) }
func (np *Processor) VerifProcessUpdatePeer(ev netmapEvent.UpdatePeer) { np.processUpdatePeer(ev) }
func (np *Processor) VerifProcessNewEpoch(ev netmapEvent.NewEpoch)     { np.processNewEpoch(ev) }
func (np *Processor) VerifProcessNewEpochTick()                        { np.processNewEpochTick() }
func (np *Processor) VerifReleasePool()                                { np.pool.Release() }
