package netmap_test

// C38: network map admission and epoch ticks follow the rules.
// Real netmap processor (handlers, worker pool, processAddNode / processUpdatePeer /
// processNewEpoch / processNewEpochTick), real CompositeValidator with real state / locode /
// structure / private-domain validators, real notary and notification parsers and typed netmap /
// container clients, over a simulated FS chain (nmChain).

import (
	"errors"
	"fmt"
	"math/big"
	"sort"
	"strings"
	"sync"
	"testing"
	"testing/synctest"
	"time"

	"github.com/nspcc-dev/neo-go/pkg/core/state"
	"github.com/nspcc-dev/neo-go/pkg/core/transaction"
	"github.com/nspcc-dev/neo-go/pkg/crypto/keys"
	"github.com/nspcc-dev/neo-go/pkg/neorpc/result"
	"github.com/nspcc-dev/neo-go/pkg/network/payload"
	"github.com/nspcc-dev/neo-go/pkg/smartcontract"
	"github.com/nspcc-dev/neo-go/pkg/smartcontract/scparser"
	"github.com/nspcc-dev/neo-go/pkg/util"
	"github.com/nspcc-dev/neo-go/pkg/vm/opcode"
	"github.com/nspcc-dev/neo-go/pkg/vm/stackitem"
	containerrpc "github.com/nspcc-dev/neofs-contract/rpc/container"
	netmaprpc "github.com/nspcc-dev/neofs-contract/rpc/netmap"
	irnetmap "github.com/nspcc-dev/neofs-node/pkg/innerring/processors/netmap"
	"github.com/nspcc-dev/neofs-node/pkg/innerring/processors/netmap/nodevalidation"
	"github.com/nspcc-dev/neofs-node/pkg/innerring/processors/netmap/nodevalidation/locode"
	"github.com/nspcc-dev/neofs-node/pkg/innerring/processors/netmap/nodevalidation/privatedomains"
	statevalidation "github.com/nspcc-dev/neofs-node/pkg/innerring/processors/netmap/nodevalidation/state"
	"github.com/nspcc-dev/neofs-node/pkg/innerring/processors/netmap/nodevalidation/structure"
	"github.com/nspcc-dev/neofs-node/pkg/morph/client"
	cntClient "github.com/nspcc-dev/neofs-node/pkg/morph/client/container"
	nmClient "github.com/nspcc-dev/neofs-node/pkg/morph/client/netmap"
	"github.com/nspcc-dev/neofs-node/pkg/morph/event"
	netmapEvent "github.com/nspcc-dev/neofs-node/pkg/morph/event/netmap"
	"github.com/nspcc-dev/neofs-sdk-go/container"
	"github.com/nspcc-dev/neofs-sdk-go/container/acl"
	cid "github.com/nspcc-dev/neofs-sdk-go/container/id"
	"github.com/nspcc-dev/neofs-sdk-go/netmap"
	"github.com/nspcc-dev/neofs-sdk-go/user"
	"go.uber.org/zap"
	"go.uber.org/zap/zaptest/observer"
	"verif/simkit"
)

func TestVerif(t *testing.T) {
	simkit.Main(t, &simkit.Property{
		ID: "C38", Level: "exploration", Bubble: true, TapeLimit: 4000,
		Rule: "each run = one netmap processor whose CompositeValidator holds a tape-chosen ordered subset of the real state / locode / structure / private-domain validators plus a scripted validator, pool size 1-3, netmap client with or without the alphabet option, over a simulated FS chain (netmap, epoch counter, config, 0-2 containers), and a history of 8-40 events: addNode notary requests (real call script -> real parser) whose node descriptor is valid or carries 1-2 planted defects (bad multiaddress of several shapes, locode attributes inconsistent with the UN/LOCODE record in each field, unknown locode, unregistered private domain, NNS failure, offline/garbage state, scripted refusal), with IsValidScript answered true / false / error; updateState requests; epoch timer ticks (single, duplicated, in bursts through the pool); NewEpoch notifications produced by the chain model when it accepts a newEpoch call or other nodes move the epoch, delivered late, duplicated and out of order; alphabet membership flipping and chain read failures between events; delivery through the exported handlers or straight to process*; distinct = trace digest; non-trivial = >=1 admission approved, >=1 defective admission refused and >=1 tick answered in the run",
		Run:  runC38,
		Assumptions: []string{
			"the availability (dials the node) and external (HTTP) validators are not executed: no real sockets in the simulation; the scripted validator stands in for them",
			"UN/LOCODE ground truth of the generator: RU MOW, SE STO and SG SIN (no subdivision) records as published (country, location, subdivision, continent)",
			"'current epoch' of a tick = the node's epoch state, which must equal the epoch number of the last processed NewEpoch notification (for a stale, out-of-order notification either the stale or the newer number is accepted)",
		},
		Components: map[string]string{
			"netmap.Processor (handlers, pool, processAddNode, processUpdatePeer, processNewEpoch, processNewEpochTick)": "real",
			"nodevalidation.CompositeValidator + state, locode (embedded UN/LOCODE db), structure (multiaddress), privatedomains": "real",
			"availability / external validators": "stub: scripted validator (tape decides accept / refuse)",
			"pkg/morph/event/netmap parsers, pkg/morph/client/netmap + container typed clients":  "real",
			"FS chain (netmap contract state, epoch counter, script validity, notary service, NNS domain records)": "simulated: nmChain behind the wrapped morph client",
			"epoch state, epoch timer reset, alphabet membership, governance / notary-deposit hooks":              "simulated, owned by the tape",
		},
	})
}

// ---- keys --------------------------------------------------------------------------------

var (
	keyMu    sync.Mutex
	keyCache = map[int]*keys.PrivateKey{}
)

func simKey(i int) *keys.PrivateKey {
	keyMu.Lock()
	defer keyMu.Unlock()
	if k, ok := keyCache[i]; ok {
		return k
	}
	b := make([]byte, 32)
	for j := range b {
		b[j] = byte(0x21 + 5*i)
	}
	b[0] = 0x02
	b[31] = byte(i + 1)
	k, err := keys.NewPrivateKeyFromBytes(b)
	if err != nil {
		panic(err)
	}
	keyCache[i] = k
	return k
}

// ---- chain model -------------------------------------------------------------------------

type nmEffect struct {
	method  string // client method
	cmethod string // contract method, if any
	epoch   uint64 // argument of newEpoch
	tx      util.Uint256
}

type nmChain struct {
	r               *simkit.R
	nmHash, cnrHash util.Uint160

	mu      sync.Mutex
	effects []nmEffect

	epoch    uint64
	nodeKeys []int
	duration int64
	cnrs     []container.Container
	height   uint32

	scriptAnswer int // IsValidScript: 0 true, 1 false, 2 error
	failTxHeight bool
	failNetMap   bool
	failConfig   bool
	failAlpha    bool // alphabet script submission fails
	failInvoke   bool // notary invocation fails
	scriptCalls  int
}

var errSimChain = errors.New("simulated chain RPC failure")

func (c *nmChain) record(e nmEffect) {
	c.mu.Lock()
	c.effects = append(c.effects, e)
	c.mu.Unlock()
}

func (c *nmChain) snapshot() []nmEffect {
	c.mu.Lock()
	defer c.mu.Unlock()
	return append([]nmEffect(nil), c.effects...)
}

func (c *nmChain) unknown(what string) {
	c.r.Report("infra", "unmodelled chain call", "the chain model has no answer for: %s", what)
	panic("verif: unmodelled chain call: " + what)
}

func (c *nmChain) nodeItem(k int) stackitem.Item {
	n := &netmaprpc.NetmapNode2{
		Addresses:  []string{fmt.Sprintf("/ip4/10.0.0.%d/tcp/8080", k+1)},
		Attributes: map[string]string{"Capacity": "100"},
		Key:        simKey(k).PublicKey(),
		State:      netmaprpc.NodeStateOnline,
	}
	it, err := n.ToStackItem()
	if err != nil {
		panic(err)
	}
	return it
}

func cnrItem(cnr container.Container) stackitem.Item {
	ver := cnr.Version()
	owner := cnr.Owner()
	ci := &containerrpc.ContainerInfo{
		Version:       &containerrpc.ContainerAPIVersion{Major: big.NewInt(int64(ver.Major())), Minor: big.NewInt(int64(ver.Minor()))},
		Owner:         owner.ScriptHash(),
		Nonce:         cnr.ProtoMessage().Nonce,
		BasicACL:      big.NewInt(int64(cnr.BasicACL().Bits())),
		Attributes:    []*containerrpc.ContainerAttribute{},
		StoragePolicy: cnr.PlacementPolicy().Marshal(),
	}
	it, err := ci.ToStackItem()
	if err != nil {
		panic(err)
	}
	return it
}

func (c *nmChain) SimCall(_ *client.Client, method string, args []any) ([]any, bool) {
	switch method {
	case "InvokeFunction":
		contract, op := args[0].(util.Uint160), args[1].(string)
		if contract == c.nmHash && op == "listNodes" {
			if c.failNetMap {
				return []any{nil, errSimChain}, true
			}
			items := []stackitem.Item{}
			for _, k := range c.nodeKeys {
				items = append(items, c.nodeItem(k))
			}
			return []any{&result.Invoke{State: "HALT", Stack: []stackitem.Item{stackitem.NewInterop(result.Iterator{Values: items})}}, nil}, true
		}
		c.unknown("InvokeFunction " + op)
	case "TerminateSession":
		return []any{true, nil}, true
	case "TestInvoke":
		contract, m := args[0].(util.Uint160), args[1].(string)
		va, _ := args[2].([]any)
		switch {
		case contract == c.nmHash && m == "config":
			if c.failConfig {
				return []any{nil, errSimChain}, true
			}
			if key, _ := va[0].([]byte); string(key) == "EpochDuration" {
				return []any{[]stackitem.Item{stackitem.Make(c.duration)}, nil}, true
			}
			return []any{[]stackitem.Item{stackitem.Null{}}, nil}, true
		case contract == c.cnrHash && m == "getInfo":
			raw, _ := va[0].([]byte)
			for _, cnr := range c.cnrs {
				id := cid.NewFromMarshalledContainer(cnr.Marshal())
				if string(id[:]) == string(raw) {
					return []any{[]stackitem.Item{cnrItem(cnr)}, nil}, true
				}
			}
			return []any{nil, errors.New("unhandled exception: \"" + containerrpc.NotFoundError + "\"")}, true
		}
		c.unknown("TestInvoke " + m)
	case "TestInvokeIterator":
		contract, m := args[0].(util.Uint160), args[1].(string)
		if contract == c.cnrHash && m == "tokens" {
			var items []stackitem.Item
			for _, cnr := range c.cnrs {
				id := cid.NewFromMarshalledContainer(cnr.Marshal())
				items = append(items, stackitem.NewByteArray(id[:]))
			}
			return []any{items, nil}, true
		}
		c.unknown("TestInvokeIterator " + m)
	case "TxHeight":
		if c.failTxHeight {
			return []any{uint32(0), errSimChain}, true
		}
		return []any{c.height, nil}, true
	case "MsPerBlock":
		return []any{int64(1000), nil}, true
	case "IsValidScript":
		c.mu.Lock()
		c.scriptCalls++
		c.mu.Unlock()
		switch c.scriptAnswer {
		case 1:
			return []any{false, nil}, true
		case 2:
			return []any{false, errSimChain}, true
		case 3: // a careless RPC layer: value and error together
			return []any{true, errSimChain}, true
		}
		return []any{true, nil}, true
	case "NotarySignAndInvokeTX":
		tx := args[0].(*transaction.Transaction)
		c.record(nmEffect{method: method, tx: tx.Hash()})
		if c.failInvoke {
			return []any{errSimChain}, true
		}
		return []any{nil}, true
	case "NotaryInvoke":
		e := nmEffect{method: method, cmethod: args[6].(string)}
		if va, _ := args[7].([]any); len(va) == 1 {
			if n, ok := va[0].(uint64); ok {
				e.epoch = n
			}
		}
		c.record(e)
		if c.failInvoke {
			return []any{util.Uint256{}, errSimChain}, true
		}
		return []any{util.Uint256{}, nil}, true
	case "NotaryInvokeNotAlpha":
		e := nmEffect{method: method, cmethod: args[3].(string)}
		if va, _ := args[4].([]any); len(va) == 1 {
			if n, ok := va[0].(uint64); ok {
				e.epoch = n
			}
		}
		c.record(e)
		if c.failInvoke {
			return []any{errSimChain}, true
		}
		return []any{nil}, true
	case "runAlphabetNotaryScript":
		c.record(nmEffect{method: method})
		if c.failAlpha {
			return []any{errSimChain}, true
		}
		return []any{nil}, true
	case "Invoke", "CallWithAlphabetWitness", "TransferGas", "UpdateNotaryList", "UpdateNeoFSAlphabetList", "SendRawTransaction", "SubmitP2PNotaryRequest":
		c.record(nmEffect{method: method})
		c.unknown("state-changing call " + method)
	}
	c.unknown(method)
	return nil, true
}

// ---- simulated node state ----------------------------------------------------------------

type simEpochState struct {
	mu       sync.Mutex
	counter  uint64
	duration uint64
	sets     int
}

func (s *simEpochState) SetEpochCounter(v uint64) {
	s.mu.Lock()
	s.counter = v
	s.sets++
	s.mu.Unlock()
}
func (s *simEpochState) EpochCounter() uint64 {
	s.mu.Lock()
	defer s.mu.Unlock()
	return s.counter
}
func (s *simEpochState) SetEpochDuration(v uint64) {
	s.mu.Lock()
	s.duration = v
	s.mu.Unlock()
}
func (s *simEpochState) EpochDuration() time.Duration {
	s.mu.Lock()
	defer s.mu.Unlock()
	return time.Duration(s.duration) * time.Second
}

type simTimer struct {
	mu     sync.Mutex
	resets []uint32
	fail   bool
}

func (t *simTimer) ResetEpochTimer(h uint32) error {
	t.mu.Lock()
	defer t.mu.Unlock()
	t.resets = append(t.resets, h)
	if t.fail {
		return errSimChain
	}
	return nil
}

type simAlpha struct{ v *bool }

func (a simAlpha) IsAlphabet() bool { return *a.v }

// simNNS is the NNS behind the private-domain validator.
type simNNS struct {
	records map[string]map[string]bool
	fail    *bool
}

func (n simNNS) CheckDomainRecord(domain, record string) error {
	if *n.fail {
		return errSimChain
	}
	if n.records[domain][record] {
		return nil
	}
	return privatedomains.ErrMissingDomainRecord
}

// scriptedValidator stands in for validators that need real sockets.
type scriptedValidator struct {
	accept *bool
	calls  *int
}

func (s scriptedValidator) Verify(netmap.NodeInfo) error {
	*s.calls++
	if *s.accept {
		return nil
	}
	return errors.New("scripted validator refuses the node")
}

// ---- node descriptors --------------------------------------------------------------------

type addrEntry struct {
	s     string
	valid bool
}

var addrTable = []addrEntry{
	{"/ip4/10.1.2.3/tcp/8080", true},
	{"/dns4/node.example.org/tcp/8080/tls", true},
	{"node.example.org:8080", true},
	{"grpcs://node.example.org:8082", true},
	{"/ip6/2001:db8::1/tcp/8080", true},
	{"/ip4/10.1.2.3/udp/8080", false},
	{"/ip4/10.1.2.3", false},
	{"certainly not an address", false},
	{"/ip4/10.1.2.3/tcp/8080/http", false},
	{"/dns4/node.example.org/tcp/8080/tls/tls", false},
}

type locRec struct {
	code, cc, country, location, subdivCode, subdiv, continent string
}

// ground truth of the generator (UN/LOCODE as published)
var locTable = []locRec{
	{"RU MOW", "RU", "Russia", "Moskva", "MOW", "Moskva", "Europe"},
	{"SE STO", "SE", "Sweden", "Stockholm", "AB", "Stockholms län", "Europe"},
	// a location without a subdivision: a descriptor must not claim one
	{"SG SIN", "SG", "Singapore", "Singapore", "", "", "Asia"},
}

var locAttrKeys = []string{"CountryCode", "Country", "Location", "SubDivCode", "SubDiv", "Continent"}

type nodeSpec struct {
	key       int
	addrs     []int
	state     int64
	loc       int // 0 none, i+1 = locTable[i]
	locDefect int // 0 none, 1..6 wrong attribute, 7 unknown locode, 8 attribute missing
	domain    int // 0 none, 1 domain lists the node, 2 domain does not list it
	scripted  bool
}

func (n *nodeSpec) String() string {
	var as []string
	for _, a := range n.addrs {
		as = append(as, addrTable[a].s)
	}
	return fmt.Sprintf("node{k%d addrs=%v state=%d loc=%d/%d domain=%d scripted-accept=%v}", n.key, as, n.state, n.loc, n.locDefect, n.domain, n.scripted)
}

func (n *nodeSpec) build() *netmaprpc.NetmapNode2 {
	node := &netmaprpc.NetmapNode2{Attributes: map[string]string{"Capacity": "100", "Price": "1"}, Key: simKey(n.key).PublicKey(), State: big.NewInt(n.state)}
	for _, a := range n.addrs {
		node.Addresses = append(node.Addresses, addrTable[a].s)
	}
	if n.loc > 0 {
		l := locTable[n.loc-1]
		vals := []string{l.cc, l.country, l.location, l.subdivCode, l.subdiv, l.continent}
		node.Attributes["UN-LOCODE"] = l.code
		for i, k := range locAttrKeys {
			if vals[i] != "" {
				node.Attributes[k] = vals[i]
			}
		}
		switch {
		case n.locDefect >= 1 && n.locDefect <= 6:
			node.Attributes[locAttrKeys[n.locDefect-1]] = vals[n.locDefect-1] + "x"
		case n.locDefect == 7:
			node.Attributes["UN-LOCODE"] = "ZZ QQQ"
		case n.locDefect == 8:
			delete(node.Attributes, "Location")
		}
	}
	switch n.domain {
	case 1:
		node.Attributes["VerifiedNodesDomain"] = "nodes.some-org.neofs"
	case 2:
		node.Attributes["VerifiedNodesDomain"] = "nodes.other-org.neofs"
	}
	return node
}

// ---- world -------------------------------------------------------------------------------

type valKind int

const (
	vState valKind = iota
	vLocode
	vStructure
	vDomains
	vScripted
	numVal
)

var valNames = []string{"state", "locode", "structure", "privatedomains", "scripted"}

type pendingEpoch struct {
	epoch uint64
	seq   int
}

type c38 struct {
	r       *simkit.R
	ch      *nmChain
	np      *irnetmap.Processor
	alpha   bool
	pool    int
	vals    []valKind
	es      *simEpochState
	timer   *simTimer
	nnsFail bool
	scrOK   bool
	scrCall int
	syncs   int
	deps    int
	queue   []pendingEpoch
	seq     uint32
	qseq    int

	addHandler, updHandler event.Handler
	epochHandler           event.Handler
	nodeLog                func() string
}

type simNE struct {
	sh     util.Uint160
	typ    event.NotaryType
	params []scparser.PushedItem
	raw    *payload.P2PNotaryRequest
}

func (e simNE) ScriptHash() util.Uint160       { return e.sh }
func (e simNE) Type() event.NotaryType         { return e.typ }
func (e simNE) Params() []scparser.PushedItem  { return e.params }
func (e simNE) Raw() *payload.P2PNotaryRequest { return e.raw }

func (w *c38) notary(method string, args ...any) (event.NotaryEvent, util.Uint256, error) {
	b := smartcontract.NewBuilder()
	b.InvokeMethod(w.ch.nmHash, method, args...)
	script, err := b.Script()
	if err != nil {
		return nil, util.Uint256{}, err
	}
	w.seq++
	tx := transaction.New(script, 1_0000_0000)
	tx.Nonce = w.seq
	tx.ValidUntilBlock = 100000
	tx.Signers = []transaction.Signer{{Account: util.Uint160{0xA1}}, {Account: util.Uint160{0xA2}, Scopes: transaction.Global}, {Account: util.Uint160{0xA3}}}
	tx.Scripts = []transaction.Witness{{}, {}, {}}
	fb := transaction.New([]byte{byte(opcode.RET)}, 0)
	fb.Nonce = w.seq
	fb.Signers = []transaction.Signer{{Account: util.Uint160{0xA3}}, {Account: util.Uint160{0xB1}}}
	fb.Scripts = []transaction.Witness{{}, {}}
	nr := &payload.P2PNotaryRequest{MainTransaction: tx, FallbackTransaction: fb}
	sh, m, _, params, err := scparser.ParseAppCall(script)
	if err != nil {
		return nil, util.Uint256{}, fmt.Errorf("script parser: %w", err)
	}
	return simNE{sh: sh, typ: event.NotaryTypeFromString(m), params: params, raw: nr}, tx.Hash(), nil
}

func (w *c38) wait() { synctest.Wait() }

// expectAccept is the generator's ground truth: does every configured validator accept the node?
func (w *c38) refusedBy(n *nodeSpec) []string {
	var why []string
	for _, v := range w.vals {
		switch v {
		case vStructure:
			for _, a := range n.addrs {
				if !addrTable[a].valid {
					why = append(why, "structure:bad-multiaddress")
					break
				}
			}
		case vLocode:
			if n.loc > 0 && n.locDefect != 0 {
				why = append(why, "locode:inconsistent")
			}
		case vDomains:
			if n.domain != 0 {
				if w.nnsFail {
					why = append(why, "privatedomains:nns-unreadable")
				} else if n.domain == 2 {
					why = append(why, "privatedomains:not-listed")
				}
			}
		case vScripted:
			if !n.scripted {
				why = append(why, "scripted:refused")
			}
		}
	}
	return why
}

func runC38(r *simkit.R) {
	ch := &nmChain{r: r, nmHash: util.Uint160{0xD1, 0xD2}, cnrHash: util.Uint160{0xC1, 0xC2}, duration: 240, height: 1000}
	w := &c38{r: r, ch: ch, alpha: true, scrOK: true, es: &simEpochState{}, timer: &simTimer{}}
	ch.epoch = uint64(3 + r.Intn(5))
	w.es.counter = ch.epoch
	for i, n := 0, r.Intn(5); i < n; i++ {
		ch.nodeKeys = append(ch.nodeKeys, 40+i)
	}
	for i, n := 0, r.Weighted(60, 25, 15); i < n; i++ {
		var cnr container.Container
		cnr.Init()
		cnr.SetOwner(user.NewFromECDSAPublicKey(simKey(30 + i).PrivateKey.PublicKey))
		cnr.SetBasicACL(acl.PublicRWExtended)
		var p netmap.PlacementPolicy
		if err := p.DecodeString("REP 1"); err != nil {
			panic(err)
		}
		cnr.SetPlacementPolicy(p)
		ch.cnrs = append(ch.cnrs, cnr)
	}
	w.pool = 1 + r.Intn(3)
	// validators: ordered subset
	perm := r.Perm(int(numVal))
	for _, p := range perm {
		if r.Bool(70) {
			w.vals = append(w.vals, valKind(p))
		}
	}
	nns := simNNS{fail: &w.nnsFail, records: map[string]map[string]bool{"nodes.some-org.neofs": {}, "nodes.other-org.neofs": {}}}
	for k := 0; k < 6; k++ {
		nns.records["nodes.some-org.neofs"]["address="+simKey(k).PublicKey().Address()] = true
	}
	nns.records["nodes.other-org.neofs"]["address="+simKey(20).PublicKey().Address()] = true
	var vlist []irnetmap.NodeValidator
	var vnames []string
	for _, v := range w.vals {
		vnames = append(vnames, valNames[v])
		switch v {
		case vState:
			vlist = append(vlist, statevalidation.New())
		case vLocode:
			vlist = append(vlist, locode.New())
		case vStructure:
			vlist = append(vlist, structure.New())
		case vDomains:
			vlist = append(vlist, privatedomains.New(nns))
		case vScripted:
			vlist = append(vlist, scriptedValidator{accept: &w.scrOK, calls: &w.scrCall})
		}
	}

	sc := client.NewSimClient(ch, simKey(60))
	r.OnCleanup(func() { client.ReleaseSimClient(sc) })
	asAlpha := !r.Bool(15)
	var nmOpts []nmClient.Option
	if asAlpha {
		nmOpts = append(nmOpts, nmClient.AsAlphabet())
	}
	nmc, err := nmClient.NewFromMorph(sc, ch.nmHash, nmOpts...)
	if err != nil {
		r.Failf("infra", "netmap client", "%v", err)
	}
	cc, err := cntClient.NewFromMorph(sc, ch.cnrHash, cntClient.AsAlphabet())
	if err != nil {
		r.Failf("infra", "container client", "%v", err)
	}
	obsCore, obsLogs := observer.New(zap.DebugLevel)
	w.nodeLog = func() string {
		var b strings.Builder
		for _, e := range obsLogs.TakeAll() {
			b.WriteString("\n      node log: " + e.Message)
			for _, f := range e.Context {
				if f.Key == "error" && f.Interface != nil {
					b.WriteString(fmt.Sprintf(": %v", f.Interface))
				}
			}
		}
		return b.String()
	}
	np, err := irnetmap.New(&irnetmap.Params{
		Log: zap.New(obsCore), PoolSize: w.pool, NetmapClient: nmc, EpochTimer: w.timer, EpochState: w.es,
		AlphabetState: simAlpha{&w.alpha}, ContainerWrapper: cc,
		AlphabetSyncHandler:  func(event.Event) { w.syncs++ },
		NotaryDepositHandler: func(event.Event) { w.deps++ },
		NodeValidator:        nodevalidation.New(vlist...),
	})
	if err != nil {
		r.Failf("infra", "processor", "%v", err)
	}
	w.np = np
	r.OnCleanup(func() {
		np.VerifReleasePool()
		time.Sleep(2 * time.Second)
		synctest.Wait()
	})
	for _, h := range np.ListenerNotaryHandlers() {
		switch h.RequestType().String() {
		case netmapEvent.AddNodeNotaryEvent:
			w.addHandler = h.Handler()
		case netmapEvent.UpdateStateNotaryEvent:
			w.updHandler = h.Handler()
		default:
			r.Failf("infra", "unknown registered request kind", "%q", h.RequestType().String())
		}
	}
	for _, h := range np.ListenerNotificationHandlers() {
		if h.GetType().String() == "NewEpoch" {
			w.epochHandler = h.Handler()
		}
	}
	if w.addHandler == nil || w.updHandler == nil || w.epochHandler == nil {
		r.Failf("infra", "handler not registered", "add=%v upd=%v epoch=%v", w.addHandler != nil, w.updHandler != nil, w.epochHandler != nil)
	}
	r.Logf("config validators=%v pool=%d asAlphabet=%v epoch=%d netmap=%d containers=%d", vnames, w.pool, asAlpha, ch.epoch, len(ch.nodeKeys), len(ch.cnrs))

	approved, refused, ticks := 0, 0, 0
	newEpochCalls := func(effs []nmEffect) (calls []uint64, other int) {
		for _, e := range effs {
			if (e.method == "NotaryInvoke" || e.method == "NotaryInvokeNotAlpha") && e.cmethod == "newEpoch" {
				calls = append(calls, e.epoch)
			} else {
				other++
			}
		}
		return
	}

	nEvents := 8 + r.Intn(33)
	for i := 0; i < nEvents && !r.Violated(); i++ {
		r.Step()
		ch.scriptAnswer, ch.failTxHeight, ch.failNetMap, ch.failConfig, ch.failAlpha, ch.failInvoke, w.nnsFail, w.timer.fail = 0, false, false, false, false, false, false, false
		before := len(ch.snapshot())
		switch r.Weighted(34, 20, 16, 8, 8, 7, 4, 3) {
		case 0: // ---- addNode request
			n := &nodeSpec{key: r.Intn(8), state: 1, scripted: true, addrs: []int{r.Intn(5)}}
			if r.Bool(30) {
				n.addrs = append(n.addrs, r.Intn(5))
			}
			if r.Bool(45) {
				n.loc = 1 + r.Intn(len(locTable))
			}
			if r.Bool(35) {
				n.domain = 1
			}
			if r.Bool(25) {
				n.state = 3
			}
			for d, nd := 0, r.Weighted(45, 40, 15); d < nd; d++ {
				switch r.Intn(7) {
				case 0:
					n.addrs[r.Intn(len(n.addrs))] = 5 + r.Intn(5)
				case 1:
					if n.loc == 0 {
						n.loc = 1 + r.Intn(len(locTable))
					}
					n.locDefect = 1 + r.Intn(8)
				case 2:
					n.domain = 2
				case 3:
					if n.domain == 0 {
						n.domain = 1
					}
					w.nnsFail = true
				case 4:
					n.state = []int64{2, 0, 7}[r.Intn(3)]
				case 5:
					n.scripted = false
				case 6:
					ch.scriptAnswer = 1 + r.Intn(3)
				}
			}
			if n.domain == 1 && n.key >= 6 {
				n.domain = 2 // keys k6,k7 are not listed in the domain
			}
			w.scrOK = n.scripted
			ne, txh, err := w.notary(netmapEvent.AddNodeNotaryEvent, n.build())
			if err != nil {
				r.Failf("infra", "addNode script", "%v", err)
			}
			ev, err := netmapEvent.ParseAddNodeNotary(ne)
			var why []string
			if ch.scriptAnswer != 0 {
				why = append(why, fmt.Sprintf("script-invalid:%d", ch.scriptAnswer))
			}
			if n.state != 1 && n.state != 3 {
				why = append(why, "state:not-online-or-maintenance")
			}
			why = append(why, w.refusedBy(n)...)
			if err != nil {
				r.Op("#%d addNode %s script=%d -> parser rejected", i, n, ch.scriptAnswer)
				if len(why) == 0 {
					r.Failf("nm-admission-missing", "valid node rejected by the event parser", "%s: %v", n, err)
				}
				continue
			}
			direct := r.Bool(50)
			burst := 1
			if !direct && r.Bool(15) {
				// the same request delivered twice; never more tasks than the pool holds (whether a full
				// non-blocking pool drops a task depends on goroutine timing, which the simulation does not own)
				burst = min(2, w.pool)
			}
			if direct {
				np.VerifProcessAddNode(ev.(netmapEvent.AddNode))
			} else {
				for j := 0; j < burst; j++ {
					w.addHandler(ev)
				}
			}
			w.wait()
			log := w.nodeLog()
			effs := ch.snapshot()[before:]
			nAppr := 0
			for _, e := range effs {
				if e.method == "NotarySignAndInvokeTX" && e.tx == txh {
					nAppr++
				} else {
					r.Failf("nm-unexpected-effect", "addNode: a call other than the approval of the request", "%s: %s %s%s", n, e.method, e.cmethod, log)
				}
			}
			r.Op("#%d addNode %s script=%d alpha=%v direct=%v x%d -> approvals=%d refused-by=%v", i, n, ch.scriptAnswer, w.alpha, direct, burst, nAppr, why)
			switch {
			case !w.alpha && nAppr > 0:
				r.Failf("nm-nonalpha-effect", "addNode approved by a non-alphabet node", "%s%s", n, log)
			case nAppr > burst:
				r.Failf("nm-admission-twice", "more approvals than deliveries", "%s: %d approvals for %d deliveries%s", n, nAppr, burst, log)
			case nAppr > 0 && len(why) > 0:
				sort.Strings(why)
				r.Failf("nm-admission-unsound", "approved although: "+strings.Join(why, "+"), "%s validators=%v approved although %v%s", n, vnames, why, log)
			case w.alpha && nAppr == 0 && len(why) == 0 && burst <= w.pool:
				r.Failf("nm-admission-missing", "valid node with a valid transaction not approved", "%s validators=%v%s", n, vnames, log)
			}
			if nAppr > 0 {
				approved++
				r.Probe("admission approved")
			} else if w.alpha && len(why) > 0 {
				refused++
				for _, y := range why {
					r.Probe("refused " + y)
				}
			}
			if ch.scriptAnswer != 0 {
				r.Fired(fmt.Sprintf("IsValidScript answer %d", ch.scriptAnswer))
			}
			if w.nnsFail {
				r.Fired("NNS read fails")
			}
		case 1: // ---- epoch timer tick(s)
			k := 1
			direct := r.Bool(40)
			if !direct && r.Bool(35) {
				k = min(2+r.Intn(2), w.pool)
			}
			if r.Bool(10) {
				ch.failInvoke = true
				r.Fired("notary invocation fails")
			}
			cur := w.es.EpochCounter()
			if direct {
				np.VerifProcessNewEpochTick()
			} else {
				for j := 0; j < k; j++ {
					np.HandleNewEpochTick()
				}
			}
			w.wait()
			log := w.nodeLog()
			effs := ch.snapshot()[before:]
			calls, other := newEpochCalls(effs)
			r.Op("#%d tick x%d direct=%v alpha=%v state-epoch=%d chain-epoch=%d -> newEpoch%v other=%d", i, k, direct, w.alpha, cur, ch.epoch, calls, other)
			if other > 0 {
				r.Failf("nm-unexpected-effect", "tick: a call other than newEpoch", "%d calls%s", other, log)
			}
			if !w.alpha && len(calls) > 0 {
				r.Failf("nm-nonalpha-effect", "tick answered by a non-alphabet node", "newEpoch%v%s", calls, log)
			}
			for _, c := range calls {
				if c != cur+1 {
					r.Failf("nm-tick-epoch", tickSig(c, cur), "the node's epoch is %d, it asked the chain for epoch %d (expected %d)%s", cur, c, cur+1, log)
				}
			}
			if len(calls) > k {
				r.Failf("nm-tick-epoch", "more newEpoch calls than ticks", "%d calls for %d ticks", len(calls), k)
			}
			if w.alpha && len(calls) == 0 && k <= w.pool {
				r.Failf("nm-tick-missing", "alphabet node ignores the epoch tick", "state epoch %d%s", cur, log)
			}
			if len(calls) > 0 {
				ticks++
				r.Probe("tick answered")
				if k > 1 && len(calls) > 1 {
					r.Probe("duplicate ticks answered")
				}
				// the network agrees (mostly) when the request is for the chain's next epoch
				if !ch.failInvoke && calls[0] == ch.epoch+1 && r.Bool(75) {
					ch.epoch++
					ch.height += 20
					w.qseq++
					w.queue = append(w.queue, pendingEpoch{ch.epoch, w.qseq})
					r.Logf("chain: epoch -> %d (notification queued)", ch.epoch)
				} else if calls[0] != ch.epoch+1 {
					r.Probe("tick asked for an epoch the chain is not at")
				}
			}
		case 2: // ---- deliver a NewEpoch notification
			if len(w.queue) == 0 {
				continue
			}
			idx := 0
			if len(w.queue) > 1 && r.Bool(35) {
				idx = 1 + r.Intn(len(w.queue)-1)
				r.Fired("notification out of order")
			}
			pe := w.queue[idx]
			if r.Bool(20) {
				r.Fired("notification duplicated")
			} else {
				w.queue = append(w.queue[:idx], w.queue[idx+1:]...)
			}
			switch r.Weighted(75, 7, 6, 6, 6) {
			case 1:
				ch.failTxHeight = true
			case 2:
				ch.failNetMap = true
			case 3:
				ch.failConfig = true
			case 4:
				w.timer.fail = true
			}
			if r.Bool(25) && len(ch.cnrs) > 0 {
				ch.failAlpha = true
			}
			var txh util.Uint256
			txh[0], txh[1] = byte(pe.epoch), 0xEE
			ev, err := netmapEvent.ParseNewEpoch(&state.ContainedNotificationEvent{Container: txh, NotificationEvent: state.NotificationEvent{
				ScriptHash: ch.nmHash, Name: "NewEpoch", Item: stackitem.NewArray([]stackitem.Item{stackitem.Make(pe.epoch)})}})
			if err != nil {
				r.Failf("infra", "NewEpoch parser", "%v", err)
			}
			prev := w.es.EpochCounter()
			syncs, deps := w.syncs, w.deps
			if r.Bool(50) {
				np.VerifProcessNewEpoch(ev.(netmapEvent.NewEpoch))
			} else {
				w.epochHandler(ev)
			}
			w.wait()
			// retries of failing placement updates run on the fake clock (back-off, up to 15 min per container)
			for j := 0; j < 60 && w.deps == deps && !ch.failNetMap; j++ {
				time.Sleep(5 * time.Minute)
				w.wait()
			}
			log := w.nodeLog()
			got := w.es.EpochCounter()
			effs := ch.snapshot()[before:]
			calls, _ := newEpochCalls(effs)
			// the number of placement-update attempts is not logged: the retry back-off is randomised by the library
			r.Op("#%d NewEpoch(%d) notification: state epoch %d -> %d, chain epoch %d", i, pe.epoch, prev, got, ch.epoch)
			if len(calls) > 0 {
				r.Failf("nm-unexpected-effect", "a NewEpoch notification makes the node ask for an epoch", "newEpoch%v%s", calls, log)
			}
			if got != pe.epoch && !(pe.epoch < prev && got == prev) {
				r.Failf("nm-epoch-state", "node's epoch differs from the notified epoch", "notified %d, previous %d, now %d%s", pe.epoch, prev, got, log)
			}
			if w.syncs != syncs+1 || w.deps != deps+1 {
				if !ch.failNetMap {
					r.Failf("infra", "NewEpoch processing did not finish", "sync %d->%d deposit %d->%d after 5 h of simulated time%s", syncs, w.syncs, deps, w.deps, log)
				}
				r.Probe("epoch processing cut short by a netmap read failure")
			}
			r.Probe("notification processed")
			if pe.epoch < prev {
				r.Probe("stale notification processed")
			}
		case 3: // ---- other nodes move the chain's epoch
			ch.epoch++
			ch.height += 20
			w.qseq++
			w.queue = append(w.queue, pendingEpoch{ch.epoch, w.qseq})
			r.Logf("chain: epoch -> %d by other nodes (notification queued)", ch.epoch)
		case 4: // ---- updateState request
			ne, txh, err := w.notary(netmapEvent.UpdateStateNotaryEvent, []int64{1, 2, 3}[r.Intn(3)], simKey(r.Intn(8)).PublicKey().Bytes())
			if err != nil {
				r.Failf("infra", "updateState script", "%v", err)
			}
			ev, err := netmapEvent.ParseUpdatePeerNotary(ne)
			if err != nil {
				r.Failf("infra", "updateState parser", "%v", err)
			}
			if r.Bool(50) {
				np.VerifProcessUpdatePeer(ev.(netmapEvent.UpdatePeer))
			} else {
				w.updHandler(ev)
			}
			w.wait()
			log := w.nodeLog()
			effs := ch.snapshot()[before:]
			r.Op("#%d updateState alpha=%v -> calls=%d", i, w.alpha, len(effs))
			for _, e := range effs {
				if !w.alpha {
					r.Failf("nm-nonalpha-effect", "updateState signed by a non-alphabet node", "%s%s", e.method, log)
				}
				if e.method != "NotarySignAndInvokeTX" || e.tx != txh {
					r.Failf("nm-unexpected-effect", "updateState: a call other than the approval of the request", "%s %s%s", e.method, e.cmethod, log)
				}
			}
			if len(effs) > 1 {
				r.Failf("nm-admission-twice", "updateState approved twice", "%d", len(effs))
			}
		case 5:
			w.alpha = !w.alpha
			r.Logf("alphabet -> %v", w.alpha)
		case 6:
			ch.nodeKeys = nil
			for j, n := 0, r.Intn(5); j < n; j++ {
				ch.nodeKeys = append(ch.nodeKeys, 40+r.Intn(6))
			}
			sort.Ints(ch.nodeKeys)
			r.Logf("chain: netmap -> %v", ch.nodeKeys)
		case 7:
			d := []time.Duration{time.Second, time.Minute, time.Hour}[r.Intn(3)]
			time.Sleep(d)
			w.wait() // the pool's stale-worker purge runs on the same clock: let it finish before the next delivery
			r.AddSimTime(d)
			r.Logf("time +%v", d)
		}
	}
	if approved > 0 && refused > 0 && ticks > 0 {
		r.Nontrivial()
	}
}

func tickSig(asked, cur uint64) string {
	switch {
	case asked == cur:
		return "tick asks for the current epoch"
	case asked == cur+2:
		return "tick asks for current+2"
	case asked > cur+2:
		return "tick asks for an epoch far ahead"
	}
	return "tick asks for a past epoch"
}

