package policer

// C27: repeated policer cycles restore the required replicas (bounded liveness) and the
// replicator's accounting.  Every simulated node runs the REAL Policer.Run loop (ticker,
// ListWithCursor cursor handling, batches, processObject) with the REAL Replicator.HandleTask;
// the fake local storage's ListWithCursor is the scheduler's gate: exactly one node runs at a
// time, in the order chosen by the tape.

import (
	"context"
	"fmt"
	"sort"
	"strings"
	"testing/synctest"
	"time"

	objectcore "github.com/nspcc-dev/neofs-node/pkg/core/object"
	"github.com/nspcc-dev/neofs-node/pkg/local_object_storage/engine"
	"github.com/nspcc-dev/neofs-sdk-go/object"
	oid "github.com/nspcc-dev/neofs-sdk-go/object/id"
	"verif/simkit"
)

// ListWithCursor lists the node's local objects in address order, `count` at a time, strictly
// after the cursor; end of listing = error, as the engine documents.  A cursor this storage did
// not issue (the policer starts from a random address) means "from the beginning" (plus a
// tape-chosen number of skipped objects for the very first call).
func (s *simLocal) ListWithCursor(ctx context.Context, count uint32, cur *engine.Cursor, _ ...string) ([]objectcore.AddressWithAttributes, *engine.Cursor, error) {
	w := s.w
	if s.gate != nil {
		w.mu.Lock()
		s.parked = true
		w.mu.Unlock()
		select {
		case <-s.gate:
		case <-ctx.Done():
			return nil, nil, ctx.Err()
		}
		w.mu.Lock()
		s.parked = false
		w.mu.Unlock()
	}
	w.mu.Lock()
	defer w.mu.Unlock()
	me := s.me()
	addrs := make([]oid.Address, 0, len(me.store))
	for a := range me.store {
		addrs = append(addrs, a)
	}
	sort.Slice(addrs, func(i, j int) bool { return addrs[i].Compare(addrs[j]) < 0 })
	start := 0
	if cur != nil && cur == s.lastCur {
		ca := oid.NewAddress(cur.ContainerID(), cur.ObjectID())
		for start < len(addrs) && addrs[start].Compare(ca) <= 0 {
			start++
		}
	} else if cur != nil && s.firstSkip > 0 {
		start = min(s.firstSkip, len(addrs))
		s.firstSkip = 0
	}
	s.calls++
	var res []objectcore.AddressWithAttributes
	var names []string
	for i := start; i < len(addrs) && uint32(len(res)) < count; i++ {
		o := me.store[addrs[i]]
		res = append(res, w.awa(s.owner, o))
		names = append(names, o.name)
	}
	if len(res) == 0 {
		s.lastEOL = true
		s.lastCur = nil
		w.r.Logf("  n%d lists its objects -> end of listing", s.owner)
		return nil, nil, engine.ErrEndOfListing
	}
	s.lastEOL = false
	last := res[len(res)-1].Address
	s.lastCur = engine.NewCursor(last.Container(), last.Object())
	w.r.Logf("  n%d lists its objects -> %v", s.owner, names)
	return res, s.lastCur, nil
}

func propC27() *simkit.Property {
	return &simkit.Property{
		ID: "C27", Level: "exploration", Bubble: true, TapeLimit: 6000,
		Rule: "each run = one simulated cluster of 3-6 nodes, every node running the real Policer.Run loop (batch size 1) with the real Replicator.HandleTask over a shared in-memory cluster state; stable placement: 1-3 REP rules with 1-3 copies, per-object node lists (overlapping between rules, not necessarily all nodes), 1-4 objects (REGULAR / TOMBSTONE / LOCK / LINK) with a random initial replica distribution (>= 1 copy on a container node); rounds: every node performs one full listing cycle, nodes in tape-chosen order; in a prefix of 0-3 rounds nodes answer HEAD / accept puts as ok / not-found / maintenance / error / timeout / slow / refused / ack-lost, carry the maintenance state in the network map, change behaviour inside a cycle, local storage calls fail; then all faults stop. Oracle: within R = nodes x objects x 3 further rounds every object must be stored on each of the first `copies` nodes of every rule's list, then one more full round must perform zero replication calls (and the copies must still be there); at all times a replication task never yields more reported successes than its copies number, never a success for a node whose store does not hold the object, for a node outside the task, or twice for one node. distinct = trace digest; non-trivial = >=1 fault fired or >=1 replication or removal happened",
		Run:  runC27,
		Assumptions: []string{
			"the liveness budget R = nodes x objects x 3 full rounds after the last fault is a budget of the property, not a constant of the code",
			"'primary nodes' = the first `copies` nodes of each rule's node list (Network.GetNodesForObject contract); 'stops replicating' = a further full round issues no replication call at all",
			"batch size 1 and one running node at a time: cycles of different nodes interleave at object granularity only",
			"a removal marks the copy as gone at once (the engine's GC delay is not modelled)",
		},
		Components: map[string]string{
			"policer.Run / shardPolicyWorker / processObject / processNodes / tryToReplicate": "real (one instance per simulated node)",
			"replicator.Replicator.HandleTask + putsvc.RemoteSender.ReplicateObjectToNode":   "real (engine calls redirected to the simulated store by rules/policer.json)",
			"local storage engine (ListWithCursor, Delete, ...)":                             "fake over the node's in-memory store; ListWithCursor is the scheduler's gate",
			"remote HEAD, API client, network map":                                           "fakes answered by the simulated nodes",
			"ticker / HEAD and PUT timeouts":                                                 "real code on the synctest clock",
		},
		DeadlockClass: "hang",
	}
}

type c27 struct {
	r    *simkit.R
	w    *world
	pns  []*pnode
	lost map[*simObj]bool // no copy left anywhere when the faults stopped
}

func (c *c27) waitParked(pn *pnode) {
	for i := 0; i < 400; i++ {
		synctest.Wait()
		c.w.mu.Lock()
		p := pn.st.parked
		c.w.mu.Unlock()
		if p {
			return
		}
		time.Sleep(500 * time.Millisecond)
		c.r.AddSimTime(500 * time.Millisecond)
	}
	c.r.Failf("hang", "a policer does not come back to its listing call", "n%d did not call ListWithCursor again within 200 s of simulated time", pn.owner)
}

// turn lets node n run one full listing cycle (until its storage reports the end of listing).
func (c *c27) turn(n int) {
	pn := c.pns[n]
	for i := 0; i < 3*len(c.w.objs)+4; i++ {
		c.waitParked(pn)
		c.r.Step()
		pn.st.gate <- struct{}{}
		c.waitParked(pn)
		if c.r.Violated() {
			c.r.Stop()
		}
		if pn.st.lastEOL {
			return
		}
	}
	c.r.Failf("policer-liveness", "a listing cycle never reaches the end of the listing", "n%d", n)
}

func (c *c27) round(tag string) {
	order := c.r.Perm(len(c.pns))
	c.r.Op("round %s: order %v", tag, order)
	for _, n := range order {
		if c.w.faultsOn {
			for _, nd := range c.w.nodes {
				if c.r.Bool(20) {
					c.w.drawBehaviour(nd)
				}
			}
			c.r.Logf(" behaviours:%s", c.w.behaviours())
		}
		c.turn(n)
	}
	c.r.Logf(" state after the round:%s", c.state())
}

func (c *c27) state() string {
	var sb strings.Builder
	for _, o := range c.w.objs {
		fmt.Fprintf(&sb, " %s%v", o.name, c.w.holders(o.addr))
	}
	return sb.String()
}

// missing lists "object: rule: node" for every primary node that does not hold the object.
func (c *c27) missing() []string {
	var res []string
	for _, o := range c.w.objs {
		if c.lost[o] {
			continue
		}
		for i, list := range o.pl.repLists {
			for _, n := range list[:min(int(o.pl.copies[i]), len(list))] {
				if c.w.nodes[n].store[o.addr] == nil {
					res = append(res, fmt.Sprintf("%s: REP rule #%d (%d copies, nodes %v): primary n%d has no copy", o.name, i, o.pl.copies[i], list, n))
				}
			}
		}
	}
	return res
}

func runC27(r *simkit.R) {
	n := 3 + r.Intn(4)
	w := newWorld(r, n)
	w.checkAcct = true
	w.headTimeout = []time.Duration{5 * time.Second, time.Second}[r.Intn(2)]
	w.putTimeout = []time.Duration{10 * time.Second, time.Second}[r.Intn(2)]
	faultRounds := r.Intn(4)
	fl := 0
	if faultRounds > 0 {
		fl = 1 + r.Intn(3)
	}
	w.flipPct = []int{0, 0, 8, 25}[fl]
	w.localErrPct = []int{0, 0, 5, 15}[fl]

	tpl := &policyTpl{}
	for i, k := 0, 1+r.Intn(3); i < k; i++ {
		tpl.copies = append(tpl.copies, uint(1+r.Intn(3)))
	}
	all := make([]int, n)
	for i := range all {
		all[i] = i
	}
	nobj := 1 + r.Intn(4)
	r.Logf("cluster of %d nodes, %d objects, %d rounds with faults (level %d), head timeout %v, put timeout %v", n, nobj, faultRounds, fl, w.headTimeout, w.putTimeout)
	for i := 0; i < nobj; i++ {
		pl := w.drawPlacement(tpl, all, n)
		typ := []object.Type{object.TypeRegular, object.TypeTombstone, object.TypeLock, object.TypeLink}[r.Weighted(6, 1, 1, 1)]
		o := w.newPlain(typ, pl)
		any := false
		for _, nd := range w.nodes {
			if r.Bool(35) {
				w.storeOn(nd, o)
				any = any || pl.listed(nd.idx)
			}
		}
		if !any {
			var cn []int
			for _, nd := range w.nodes {
				if pl.listed(nd.idx) {
					cn = append(cn, nd.idx)
				}
			}
			w.storeOn(w.nodes[cn[r.Intn(len(cn))]], o)
		}
		r.Logf("object %s: %s, placement%s, initial holders %v", o.name, typ, pl, w.holders(o.addr))
	}

	c := &c27{r: r, w: w, lost: map[*simObj]bool{}}
	ctx, cancel := context.WithCancel(context.Background())
	for i := 0; i < n; i++ {
		pn := w.newPolicer(i, true, 1)
		pn.st.gate = make(chan struct{})
		if faultRounds > 0 {
			// the policer starts listing at a random address: its first cycle is partial
			// (only while faults are on, so that every round counted by the oracle is a full one)
			pn.st.firstSkip = r.Intn(nobj + 1)
		}
		c.pns = append(c.pns, pn)
	}
	r.OnCleanup(func() {
		cancel()
		synctest.Wait()
	})
	for _, pn := range c.pns {
		go pn.p.Run(ctx)
	}

	w.faultsOn = faultRounds > 0
	for i := 0; i < faultRounds; i++ {
		c.round(fmt.Sprintf("F%d (faults on)", i))
	}
	w.faultsOn = false
	w.heal()
	r.Logf("faults stop; state:%s", c.state())
	// An object whose last copy was removed while nodes were failing cannot be restored by anybody:
	// that is a matter of C26 (removal safety, findings FP01/FP02), not of this liveness property,
	// whose premise is that a copy exists.  Such objects are left out (and counted).
	for _, o := range w.objs {
		if len(w.holders(o.addr)) == 0 {
			c.lost[o] = true
			r.Probe("an object lost its last copy during the fault phase (left out of the liveness oracle, see C26)")
			r.Logf("%s has no copy left: left out", o.name)
		}
	}

	// Bounded liveness.  R = nodes x objects x 3 full rounds to get every primary node its copy;
	// by round R+1 at the latest a full round must have been quiet (zero replication calls) with
	// all primary copies in place.  The statement does not say that the very first round after
	// the primaries are satisfied must already be quiet, so a late extra replication is accepted
	// (counted as a probe) as long as the quiet round comes within the budget.
	budget := n * nobj * 3
	rounds, satisfiedAt := 0, -1
	if len(c.missing()) == 0 {
		satisfiedAt = 0
	}
	for {
		if rounds > budget {
			r.Failf("policer-liveness", "replication goes on after every primary node holds its copy", "every primary node held its copy after round %d, yet each of the %d rounds since then issued replication calls (budget nodes x objects x 3 + 1 = %d rounds); state now:%s", satisfiedAt, rounds-satisfiedAt, budget+1, c.state())
		}
		before, removalsBefore := w.putCalls, w.removals
		c.round(fmt.Sprintf("R%d", rounds))
		rounds++
		m := c.missing()
		if len(m) == 0 && satisfiedAt < 0 {
			satisfiedAt = rounds
		}
		if len(m) > 0 && satisfiedAt >= 0 {
			r.Failf("policer-liveness", "a primary copy disappears again after all primary nodes had their copies", "after round %d: %s", rounds, strings.Join(m, "; "))
		}
		if len(m) > 0 && rounds >= budget {
			r.Failf("policer-liveness", "primary nodes still lack copies after the round budget", "%d full rounds after the last fault (budget nodes x objects x 3 = %d) still: %s", rounds, budget, strings.Join(m, "; "))
		}
		if len(m) == 0 {
			if w.putCalls == before {
				if w.removals > removalsBefore {
					r.Probe("redundant copies removed in the quiet round")
				}
				break
			}
			if satisfiedAt < rounds {
				r.Probe("replication issued although every primary node already held its copy")
			}
		}
	}
	r.Logf("primary copies in place after round %d, quiet round %d", satisfiedAt, rounds)
	if satisfiedAt > 0 {
		r.Probe("replicas restored after faults stopped")
	}
	if satisfiedAt > 2 {
		r.Probe("restoring needed more than two rounds")
	}
	// one more round: still quiet, still in place
	before := w.putCalls
	c.round("extra")
	if d := w.putCalls - before; d != 0 {
		r.Failf("policer-liveness", "replication resumes after a quiet round", "a full round without replication was followed by a round with %d replication calls; state now:%s", d, c.state())
	}
	if m := c.missing(); len(m) > 0 {
		r.Failf("policer-liveness", "a primary copy disappears again after all primary nodes had their copies", "after the extra round: %s", strings.Join(m, "; "))
	}
	if w.fired > 0 || w.putCalls > 0 || w.removals > 0 {
		r.Nontrivial()
	}
}
