package innerring

// C35: inner ring nodes outside the alphabet never act with alphabet authority.
//
// A real Server value (all processors built by their real constructors, the real listeners, timers and
// innerRingIndexer) runs over two simulated chains (internal/zzverif/simchain behind the wrapped morph
// client).  Every registered notification / notary / timer handler plus the startup and explicit actions
// is fired while the node's alphabet membership changes underneath the index cache.

import (
	"context"

	"github.com/nspcc-dev/neofs-sdk-go/container/acl"
	"fmt"
	"math/big"
	"os"
	"path/filepath"
	"reflect"
	"sort"
	"strings"
	"testing"
	"testing/synctest"
	"time"
	"unsafe"

	"github.com/nspcc-dev/neo-go/pkg/core/native/noderoles"
	"github.com/nspcc-dev/neo-go/pkg/core/state"
	"github.com/nspcc-dev/neo-go/pkg/crypto/keys"
	"github.com/nspcc-dev/neo-go/pkg/encoding/fixedn"
	"github.com/nspcc-dev/neo-go/pkg/network/payload"
	"github.com/nspcc-dev/neo-go/pkg/util"
	"github.com/nspcc-dev/neo-go/pkg/vm/stackitem"
	zsim "github.com/nspcc-dev/neofs-node/internal/zzverif/simchain"
	"github.com/nspcc-dev/neofs-node/pkg/innerring/config"
	"github.com/nspcc-dev/neofs-node/pkg/innerring/processors/alphabet"
	"github.com/nspcc-dev/neofs-node/pkg/innerring/processors/balance"
	"github.com/nspcc-dev/neofs-node/pkg/innerring/processors/container"
	"github.com/nspcc-dev/neofs-node/pkg/innerring/processors/governance"
	"github.com/nspcc-dev/neofs-node/pkg/innerring/processors/neofs"
	"github.com/nspcc-dev/neofs-node/pkg/innerring/processors/netmap"
	nodevalidator "github.com/nspcc-dev/neofs-node/pkg/innerring/processors/netmap/nodevalidation"
	"github.com/nspcc-dev/neofs-node/pkg/innerring/processors/netmap/nodevalidation/privatedomains"
	statevalidation "github.com/nspcc-dev/neofs-node/pkg/innerring/processors/netmap/nodevalidation/state"
	addrvalidator "github.com/nspcc-dev/neofs-node/pkg/innerring/processors/netmap/nodevalidation/structure"
	"github.com/nspcc-dev/neofs-node/pkg/innerring/processors/reputation"
	"github.com/nspcc-dev/neofs-node/pkg/innerring/processors/settlement"
	"github.com/nspcc-dev/neofs-node/pkg/morph/client"
	balanceClient "github.com/nspcc-dev/neofs-node/pkg/morph/client/balance"
	cntClient "github.com/nspcc-dev/neofs-node/pkg/morph/client/container"
	neofsClient "github.com/nspcc-dev/neofs-node/pkg/morph/client/neofs"
	nmClient "github.com/nspcc-dev/neofs-node/pkg/morph/client/netmap"
	repClient "github.com/nspcc-dev/neofs-node/pkg/morph/client/reputation"
	control "github.com/nspcc-dev/neofs-node/pkg/services/control/ir"
	reputationcommon "github.com/nspcc-dev/neofs-node/pkg/services/reputation/common"
	"github.com/nspcc-dev/neofs-node/pkg/util/precision"
	utilstate "github.com/nspcc-dev/neofs-node/pkg/util/state"
	sdknetmap "github.com/nspcc-dev/neofs-sdk-go/netmap"
	sdkreputation "github.com/nspcc-dev/neofs-sdk-go/reputation"
	"github.com/panjf2000/ants/v2"
	"go.uber.org/zap"
	"go.uber.org/zap/zaptest/observer"
	"verif/simkit"
)

func TestVerif(t *testing.T) {
	simkit.Main(t, &simkit.Property{
		ID: "C35", Level: "exploration", Bubble: true, TapeLimit: 1200, PanicIsInfra: true,
		Rule: "each run = one inner ring Server (real processors alphabet/balance/container/governance/neofs/netmap/reputation/settlement built by their constructors, real FS-chain and main-chain listeners, epoch timers, innerRingIndexer with cache timeout 0/2s/30s) started by the real Server.Start over two simulated chains, then a history of 4-14 steps: deliver a valid event for one of the handlers enumerated from the processors' ListenerNotificationHandlers/ListenerNotaryHandlers/TimersHandlers tables (through the subscription channels of the real listener), re-deliver the previous event, fire the epoch timers by a block header, run an explicit action (RequestNotary newEpoch/setConfig/removeNode, SignNotary, restartFSChain), change the node's standing on the chain (alphabet member at a tape-chosen index / inner ring node beyond the alphabet range / absent from both lists, each with or without failing Committee / NeoFSAlphabetList reads) or advance the fake clock (0.1 s, just below / just above the index cache timeout). Oracle: a state-changing call of the morph client that needs alphabet authority (NotaryInvoke, NotarySignAndInvokeTX, runAlphabetNotaryScript as alphabet, Invoke, TransferGas, UpdateNotaryList, UpdateNeoFSAlphabetList) may be made by the inner ring code only if the node's key is in the FS-chain committee at that moment or was within the index cache timeout before it; the calls are observed where they enter the morph client, i.e. this judges the inner ring's own membership guards: class ir-nonalpha-send = nothing below the guard would stop the transaction (Invoke, TransferGas), class ir-nonalpha-attempt = the real client would still refuse to build the alphabet multi-signature account for a key outside the committee it reads at that moment (notary calls; recorded per call as clientWouldRefuse). Calls that by construction do not use alphabet authority are not judged: NotaryInvokeNotAlpha, CallWithAlphabetWitness, runAlphabetNotaryScript(invokedByAlpha=false), DepositNotary, DepositEndlessNotary. A single delivery never records the same call twice; a re-delivered notary request is never co-signed again; a re-delivered Deposit never transfers GAS again in the same epoch. census runs fire every enumerated handler once in stable member state and require >=1 alphabet call from each (reach). distinct = trace digest; non-trivial = >=1 trigger fired while the node was not a member and >=1 while it was",
		Run:  runC35,
		Assumptions: []string{
			"the Server is assembled in-package by the harness following innerring.New from the client creation on (wallet, config files, control/metrics services, local consensus and contract auto-deployment are not run); Start, the listeners, processors, timers and the indexer are the real code",
			"alphabet membership = key in the FS-chain committee (Committee()); inner ring lists are consistent: committee members come first in the NeoFSAlphabet role list and there are as many alphabet contracts as committee members",
			"a call made while the node's key is in the committee is never judged, even if its index lookups fail at that moment",
			"node validators: state, structure, locode, private domains (no node announces a verified domain) are real; the availability validator (dials the node) is replaced by a pass-through",
			"chain writes always succeed (also those the real client would refuse: the refusal is recorded, not enacted, so that no retry storm blurs which trigger made a call); metadata chain (experimental) is off",
			"a run ends at its first violation, also a listed one: 70% of the runs start with the configured validators already voted for and 45% of the NewEpoch notifications leave the network map unchanged so that findings F-IR-1 / F-IR-2 do not mask the rest of the history",
			"reach: census runs (1/3 of the runs) fail as infrastructure error when a handler does not produce its alphabet call in member state; listed gap: restartFSChain has no chain-mutating call; not fired: handlers of the experimental metadata chain, Server.New (wallet/config/deploy), gRPC control service (its two actions are called as methods)",
		},
		Components: map[string]string{
			"innerring.Server.Start / initConfigFromBlockchain / voteForFSChainValidator / RequestNotary / SignNotary / restartFSChain / notaryHandler": "real",
			"innerRingIndexer (cache on the fake clock)":                 "real",
			"processors alphabet, balance, container, governance, neofs, netmap, reputation, settlement": "real (real constructors, real worker pools)",
			"event.Listener (FS chain, main chain), notary preparator, all parsers":                      "real",
			"timers.EpochTimers":          "real, driven by simulated block headers",
			"morph client (both chains)": "simulated: chain model answers reads, records every state-changing call",
			"persistent state":            "real bbolt file in the run directory",
		},
	})
}

// ---- world ---------------------------------------------------------------------------------------

type boundProc struct {
	name  string
	p     ContractProcessor
	chain string // "fs" | "main"
}

type trigger struct {
	name  string // "notif:netmap.NewEpoch", "notary:container.put", "timer:epoch", "action:SignNotary", ...
	procs string // processors whose handlers it reaches
	chain string
	fire  func(h *irWorld)
}

type irWorld struct {
	r  *simkit.R
	w  *zsim.World
	s  *Server
	to time.Duration // index cache timeout

	procs    []boundProc
	triggers []trigger

	nComm      int
	mapChanges bool
	inCensus   bool
	member     bool
	everMember bool
	memberEnd  time.Time

	salt      uint32
	lastFire  func(h *irWorld)
	lastName  string
	signedTx  map[util.Uint256]bool
	gasTo     map[string]bool
	firedIn   [2]int
	cancel    context.CancelFunc
	reachGaps map[string]string
}

var dumpLog = func() {}

func infraf(format string, args ...any) {
	dumpLog()
	panic("INFRA(C35): " + fmt.Sprintf(format, args...))
}

type (
	nmSDKNodeInfo = sdknetmap.NodeInfo
	repPeerID     = sdkreputation.PeerID
)

func simkitWait() { synctest.Wait() }

type passValidator struct{}

func (passValidator) Verify(_ nmSDKNodeInfo) error { return nil }

type noNNS struct{}

func (noNNS) CheckDomainRecord(string, string) error { return privatedomains.ErrMissingDomainRecord }

func poolOf(p any) *ants.Pool {
	v := reflect.ValueOf(p).Elem().FieldByName("pool")
	if !v.IsValid() {
		return nil
	}
	return *(**ants.Pool)(unsafe.Pointer(v.UnsafeAddr()))
}

func buildServer(h *irWorld, validators keys.PublicKeys) {
	r, w := h.r, h.w
	log := zap.NewNop()
	switch os.Getenv("VERIF_IRLOG") { // debugging aid: the node's own log
	case "":
	case "mem":
		core, logs := observer.New(zap.DebugLevel)
		log = zap.New(core)
		dumpLog = func() {
			for _, e := range logs.All() {
				fmt.Fprintf(os.Stderr, "NODELOG %s %s %v\n", e.Level, e.Message, e.ContextMap())
			}
		}
	default:
		log, _ = zap.NewDevelopment()
	}
	s := &Server{log: log}
	h.s = s
	s.setHealthStatus(control.HealthStatus_HEALTH_STATUS_UNDEFINED)
	var err error
	s.persistate, err = utilstate.NewPersistentStorage(filepath.Join(r.Dir, "state.db"), false)
	if err != nil {
		infraf("persistent state: %v", err)
	}
	s.registerCloser(s.persistate.Close)
	s.key = w.Node
	s.predefinedValidators = validators
	s.fsChainClient = client.NewSimClient(w.FS, w.Node)
	s.mainnetClient = client.NewSimClient(w.Main, w.Node)
	r.OnCleanup(func() { client.ReleaseSimClient(s.fsChainClient); client.ReleaseSimClient(s.mainnetClient) })
	if s.fsChainListener, err = createListener(s.fsChainClient, chainParams{log: log, name: cfgFSChainName}); err != nil {
		infraf("listener: %v", err)
	}
	if s.mainnetListener, err = createListener(s.mainnetClient, chainParams{log: log, name: mainnetPrefix}); err != nil {
		infraf("listener: %v", err)
	}
	s.withoutMainNet = false
	s.mainNotaryConfig = &notaryConfig{disabled: !s.mainnetClient.ProbeNotary()}
	s.contracts = &contracts{neofs: w.NeoFS, netmap: w.Netmap, balance: w.Balance, container: w.Container, proxy: w.Proxy,
		processing: w.Processing, reputation: w.Reputation, alphabet: w.Alphabet}
	if err = s.fsChainClient.EnableNotarySupport(client.WithProxyContract(s.contracts.proxy)); err != nil {
		infraf("notary: %v", err)
	}
	s.fsChainListener.EnableNotarySupport(s.contracts.proxy, s.key.PublicKey().GetScriptHash(), s.fsChainClient.Committee, s.fsChainClient)
	s.pubKey = s.key.PublicKey().Bytes()

	must := func(err error) {
		if err != nil {
			infraf("assembling the server: %v", err)
		}
	}
	cnrClient, err := cntClient.NewFromMorph(s.fsChainClient, s.contracts.container, cntClient.AsAlphabet())
	must(err)
	s.netmapClient, err = nmClient.NewFromMorph(s.fsChainClient, s.contracts.netmap, nmClient.AsAlphabet())
	must(err)
	s.balanceClient, err = balanceClient.NewFromMorph(s.fsChainClient, s.contracts.balance, balanceClient.AsAlphabet())
	must(err)
	s.precision, err = s.balanceClient.Decimals()
	must(err)
	reputationClient, err := repClient.NewFromMorph(s.fsChainClient, s.contracts.reputation, repClient.AsAlphabet())
	must(err)
	neofsCli, err := neofsClient.NewFromMorph(s.mainnetClient, s.contracts.neofs, 0, neofsClient.TryNotary(), neofsClient.AsAlphabet())
	must(err)

	irf := NewIRFetcherWithNotary(s.fsChainClient)
	s.statusIndex = newInnerRingIndexer(s.fsChainClient, irf, s.key.PublicKey(), h.to)

	settlementProcessor := settlement.New(settlement.Prm{State: s, ContainerClient: cnrClient, NetmapClient: s.netmapClient, BalanceClient: s.balanceClient},
		settlement.WithLogger(log))
	locodeValidator, err := s.newLocodeValidator()
	must(err)

	bind := func(name string, p ContractProcessor, chain string) {
		if chain == "fs" {
			must(bindFSChainProcessor(p, s))
		} else {
			must(bindMainnetProcessor(p, s))
		}
		h.procs = append(h.procs, boundProc{name, p, chain})
		if pl := poolOf(p); pl != nil {
			// not ReleaseTimeout: it spins (never durably blocked) until the pool's helper goroutines were scheduled
			r.OnCleanup(pl.Release)
		} else {
			infraf("processor %s has no worker pool field to release", name)
		}
	}

	governanceProcessor, err := governance.New(&governance.Params{Log: log, NeoFSClient: neofsCli, NetmapClient: s.netmapClient, AlphabetState: s,
		EpochState: s, Voter: s, IRFetcher: irf, FSChainClient: s.fsChainClient, MainnetClient: s.mainnetClient})
	must(err)
	bind("governance", governanceProcessor, "main")

	s.netmapProcessor, err = netmap.New(&netmap.Params{Log: log, PoolSize: 4, NetmapClient: s.netmapClient, EpochTimer: s, EpochState: s,
		AlphabetState: s, ContainerWrapper: cnrClient, NotaryDepositHandler: s.onlyAlphabetEventHandler(s.notaryHandler),
		AlphabetSyncHandler: governanceProcessor.HandleAlphabetSync,
		NodeValidator:       nodevalidator.New(statevalidation.New(), addrvalidator.New(), passValidator{}, privatedomains.New(noNNS{}), locodeValidator)})
	must(err)
	bind("netmap", s.netmapProcessor, "fs")

	containerProcessor, err := container.New(&container.Params{Log: log, PoolSize: 4, AlphabetState: s, ContainerClient: cnrClient,
		NetworkState: s.netmapClient, ChainTime: &s.chainTime})
	must(err)
	bind("container", containerProcessor, "fs")

	conv := precision.NewConverter(s.precision)
	balanceProcessor, err := balance.New(&balance.Params{Log: log, PoolSize: 4, NeoFSClient: neofsCli, BalanceSC: s.contracts.balance, AlphabetState: s, Converter: conv})
	must(err)
	bind("balance", balanceProcessor, "fs")

	neofsProcessor, err := neofs.New(&neofs.Params{Log: log, PoolSize: 4, NeoFSContract: s.contracts.neofs, BalanceClient: s.balanceClient,
		NetmapClient: s.netmapClient, FSChainClient: s.fsChainClient, EpochState: s, AlphabetState: s, Converter: conv,
		MintEmitCacheSize: 100, MintEmitThreshold: 1, MintEmitValue: fixedn.Fixed8(2000_0000), GasBalanceThreshold: 1})
	must(err)
	bind("neofs", neofsProcessor, "main")

	alphabetProcessor, err := alphabet.New(&alphabet.Params{Log: log, PoolSize: 4, AlphabetContracts: s.contracts.alphabet, NetmapClient: s.netmapClient,
		FSChainClient: s.fsChainClient, IRList: s, StorageEmission: 4000})
	must(err)
	bind("alphabet", alphabetProcessor, "fs")

	reputationProcessor, err := reputation.New(&reputation.Params{Log: log, PoolSize: 4, EpochState: s, AlphabetState: s, ReputationWrapper: reputationClient,
		ManagerBuilder: reputationcommon.NewManagerBuilder(reputationcommon.ManagersPrm{NetMapSource: s.netmapClient})})
	must(err)
	bind("reputation", reputationProcessor, "fs")

	cfg := &config.Config{}
	cfg.Timers.CollectBasicIncome.Mul, cfg.Timers.CollectBasicIncome.Div = 1, 2
	initTimers(s, cfg, settlementProcessor)

	mb := reputationcommon.NewManagerBuilder(reputationcommon.ManagersPrm{NetMapSource: s.netmapClient})
	w.ManagerOf = func(epoch uint64, peer []byte) int {
		var pid repPeerID
		pid.SetPublicKey(peer)
		mm, err := mb.BuildManagers(epoch, pid)
		if err != nil || len(mm) == 0 {
			infraf("cannot compute the reputation manager: %v", err)
		}
		for i := 0; i < zsim.NKeys; i++ {
			if string(zsim.Pub(i).Bytes()) == string(mm[0].PublicKey()) {
				return i
			}
		}
		infraf("reputation manager is not a pool key")
		return 0
	}
}

// ---- triggers --------------------------------------------------------------------------------------

func (h *irWorld) nextSalt() uint32 { h.salt++; return h.salt }

func (h *irWorld) chainOf(name string) *zsim.Chain {
	if name == "main" {
		return h.w.Main
	}
	return h.w.FS
}

func item(vs ...any) *stackitem.Array {
	var its []stackitem.Item
	for _, v := range vs {
		switch x := v.(type) {
		case int:
			its = append(its, stackitem.NewBigInteger(big.NewInt(int64(x))))
		case []byte:
			its = append(its, stackitem.NewByteArray(x))
		case util.Uint160:
			its = append(its, stackitem.NewByteArray(x.BytesBE()))
		case stackitem.Item:
			its = append(its, x)
		default:
			infraf("item: unsupported %T", v)
		}
	}
	return stackitem.NewArray(its)
}

// notification builds a valid notification of the given "<contract>.<EventName>" kind.
func (h *irWorld) notification(kind string, contract util.Uint160, name string) *state.ContainedNotificationEvent {
	salt := h.nextSalt()
	ev := &state.ContainedNotificationEvent{NotificationEvent: state.NotificationEvent{ScriptHash: contract, Name: name}}
	ev.Container = util.Uint256{byte(salt), byte(salt >> 8), 0xee}
	user := zsim.UserID(zsim.KOwner).ScriptHash()
	id := []byte(fmt.Sprintf("request-id-%08d-0123456789abcdef", salt))
	switch kind {
	case "netmap.NewEpoch":
		fs := h.w.FS
		fs.Lock()
		fs.Epoch++
		fs.LastEpochBlock = fs.Blocks - 1
		e := fs.Epoch
		// usually a storage node joins (or all but one leave) with the epoch: the network map differs from the
		// processor's snapshot and container placements have to be updated
		if !h.mapChanges {
		} else if len(fs.Nodes) < zsim.KSNLast-zsim.KSNFirst {
			n := len(fs.Nodes)
			fs.Nodes = append(fs.Nodes, zsim.NodeRec{Key: zsim.Pub(zsim.KSNFirst + n), Addr: fmt.Sprintf("/ip4/10.0.0.%d/tcp/8080", n+1)})
		} else {
			fs.Nodes = fs.Nodes[:1]
		}
		fs.Unlock()
		ev.Item = item(int(e))
	case "balance.Lock":
		ev.Item = item(id, user, util.Uint160{byte(salt), 7}, 500+int(salt), 100)
	case "neofs.Deposit":
		ev.Item = item(user, 1000+int(salt), zsim.UserID(zsim.KStranger).ScriptHash(), id)
	case "neofs.Withdraw":
		ev.Item = item(user, 700+int(salt), id)
	case "neofs.Cheque":
		ev.Item = item(id, user, 300+int(salt), util.Uint160{byte(salt), 9})
	case "neofs.SetConfig":
		ev.Item = item(id, []byte("ContainerFee"), []byte{byte(salt)})
	case "rolemgmt.Designation":
		ev.Item = item(int(noderoles.NeoFSAlphabet), 10, stackitem.NewArray(nil), stackitem.NewArray(nil))
	default:
		infraf("no generator for notification %s (a handler is registered for it)", kind)
	}
	return ev
}

func (h *irWorld) enumerate() {
	w := h.w
	for _, bp := range h.procs {
		bp := bp
		parsers := map[string]bool{}
		for _, pi := range bp.p.ListenerNotificationParsers() {
			parsers[pi.ScriptHash().StringLE()+"/"+pi.GetType().String()] = true
		}
		for _, hi := range bp.p.ListenerNotificationHandlers() {
			contract, typ := hi.ScriptHash(), hi.GetType().String()
			if !parsers[contract.StringLE()+"/"+typ] {
				infraf("%s registers a handler for %s without a parser", bp.name, typ)
			}
			kind := w.ContractName(contract) + "." + typ
			// several processors may subscribe to one notification (NewEpoch: alphabet and netmap): one trigger, all handlers run
			name, dup := "notif:"+kind, false
			for i := range h.triggers {
				if h.triggers[i].name == name && h.triggers[i].chain == bp.chain {
					h.triggers[i].procs += "+" + bp.name
					dup = true
				}
			}
			if dup {
				continue
			}
			h.triggers = append(h.triggers, trigger{name: name, procs: bp.name, chain: bp.chain, fire: func(h *irWorld) {
				h.mapChanges = h.inCensus || !h.r.Bool(45) // zero draw: the network map changes with the epoch
				ev := h.notification(kind, contract, typ)
				h.pushNotification(bp.chain, ev)
				h.lastFire = func(h *irWorld) { h.pushNotification(bp.chain, ev) }
			}})
		}
		for _, hi := range bp.p.ListenerNotaryHandlers() {
			contract, typ := hi.ScriptHash(), hi.RequestType().String()
			kind := w.ContractName(contract) + "." + typ
			known := false
			for _, k := range zsim.CallKinds {
				known = known || k == kind
			}
			if !known {
				infraf("no generator for notary request %s (a handler is registered for it by %s)", kind, bp.name)
			}
			h.triggers = append(h.triggers, trigger{name: "notary:" + kind, procs: bp.name, chain: bp.chain, fire: func(h *irWorld) {
				nr := h.request(kind)
				h.pushNotary(bp.chain, nr)
				h.lastFire = func(h *irWorld) { h.pushNotary(bp.chain, nr) }
			}})
		}
		for _, hi := range bp.p.TimersHandlers() {
			infraf("%s registers a timer handler (%s) the harness cannot fire", bp.name, hi.GetType().String())
		}
	}
	sort.SliceStable(h.triggers, func(i, j int) bool { return h.triggers[i].name < h.triggers[j].name })
	// the two timer handlers wired by initTimers fire from block headers
	h.triggers = append(h.triggers,
		trigger{name: "timer:epoch+basic-income", chain: "fs", fire: func(h *irWorld) { h.tick(); h.lastFire = nil }},
		trigger{name: "action:RequestNotary.newEpoch", chain: "fs", fire: func(h *irWorld) { h.action(func() { _, _ = h.s.RequestNotary("newEpoch") }) }},
		trigger{name: "action:RequestNotary.setConfig", chain: "fs", fire: func(h *irWorld) {
			v := fmt.Sprint(h.nextSalt())
			h.action(func() { _, _ = h.s.RequestNotary("setConfig", []byte("MaxObjectSize"), []byte(v)) })
		}},
		trigger{name: "action:RequestNotary.removeNode", chain: "fs", fire: func(h *irWorld) {
			k := zsim.Pub(zsim.KSNFirst + int(h.nextSalt())%3).Bytes()
			h.action(func() { _, _ = h.s.RequestNotary("removeNode", k) })
		}},
		trigger{name: "action:SignNotary", chain: "fs", fire: func(h *irWorld) {
			nr := h.request("netmap.updateState")
			h.w.FS.PoolTx(nr.MainTransaction)
			hash := nr.MainTransaction.Hash()
			h.action(func() { _ = h.s.SignNotary(hash) })
		}},
		trigger{name: "action:restartFSChain", chain: "fs", fire: func(h *irWorld) { h.action(func() { _ = h.s.restartFSChain() }) }},
	)
}

// request builds a well-formed notary request with one valid call of the kind, for the committee the chain shows now.
func (h *irWorld) request(kind string) *payload.P2PNotaryRequest {
	salt := h.nextSalt()
	call := h.w.BuildCall(kind, 0, salt)
	calls := []zsim.Call{call}
	if kind == "container.createV2" && salt%3 != 0 {
		// the creation request may carry the eACL of the new container as a second call: one event,
		// one main transaction (it must still be co-signed once)
		_, _, id := zsim.NewContainer(zsim.KOwner, salt, 1, acl.PublicRWExtended, "", "")
		calls = append(calls, zsim.Call{Contract: h.w.Container, Method: "putEACL", Args: h.w.EACLArgs(id, zsim.KOwner, salt)})
		h.r.Probe("createV2 request with the optional putEACL call")
	}
	fs := h.w.FS
	fs.Lock()
	comm := append(keys.PublicKeys(nil), fs.Committee...)
	nvb := fs.Blocks + 20
	fs.Unlock()
	return h.w.BuildRequest(calls, comm, zsim.ReqShape{NVB: nvb, Nonce: salt, Invoker: salt%2 == 0})
}

func (h *irWorld) pushNotification(chain string, ev *state.ContainedNotificationEvent) {
	ch, _, _ := h.chainOf(chain).Channels()
	ch <- ev
}

func (h *irWorld) pushNotary(chain string, nr *payload.P2PNotaryRequest) {
	_, _, ch := h.chainOf(chain).Channels()
	ch <- zsim.NotaryEvent(nr)
}

// action runs an explicit Server method on its own goroutine (never on the scheduler goroutine).
func (h *irWorld) action(f func()) {
	done := make(chan struct{})
	go func() { defer close(done); f() }()
	h.settle()
	select {
	case <-done:
	default:
		infraf("an explicit action did not return")
	}
	h.lastFire = nil
}

// tick moves the FS chain past the next epoch boundary and announces the block header.
func (h *irWorld) tick() {
	fs := h.w.FS
	fs.Lock()
	fs.Blocks += uint32(fs.EpochDur) + 2
	hd := fs.Header(fs.Blocks - 1)
	fs.Unlock()
	_, ch, _ := fs.Channels()
	ch <- hd
}

func (h *irWorld) settle() {
	for i := 0; i < 3; i++ {
		simkitWait()
		time.Sleep(time.Millisecond)
	}
	simkitWait()
	if e := h.w.InfraErr(); e != "" {
		infraf("chain model: %s", e)
	}
}

// ---- node standing ---------------------------------------------------------------------------------

var standings = []string{"member", "outsider", "ir-non-alphabet", "outsider+committee-read-fails", "outsider+irlist-read-fails", "member+irlist-read-fails"}

func (h *irWorld) setStanding(st, pos int) {
	fs := h.w.FS
	others := []int{}
	for i := zsim.KIRFirst; len(others) < h.nComm; i++ {
		others = append(others, i)
	}
	isMember := st == 0 || st == 5
	var comm []int
	if isMember {
		comm = append(comm, others[:h.nComm-1]...)
		pos %= h.nComm
		comm = append(comm[:pos], append([]int{zsim.KNode}, comm[pos:]...)...)
	} else {
		comm = others
	}
	ir := append([]int(nil), comm...)
	if st == 2 {
		ir = append(ir, zsim.KNode)
	}
	fs.Lock()
	fs.Committee, fs.IRList = zsim.PubList(comm...), zsim.PubList(ir...)
	fs.FailComm, fs.FailIRList = st == 3, st == 4 || st == 5
	fs.Unlock()
	now := time.Now()
	if h.member && !isMember {
		h.memberEnd = now
	}
	h.member = isMember
	h.everMember = h.everMember || isMember
	h.r.Logf("standing: %s committee=%s irlist=%s", standings[st], zsim.Canon(zsim.PubList(comm...)), zsim.Canon(zsim.PubList(ir...)))
}

// ---- oracle ----------------------------------------------------------------------------------------

func (h *irWorld) justified(at time.Time) bool {
	return h.member || (h.everMember && at.Sub(h.memberEnd) < h.to)
}

func (h *irWorld) judge(trig string, since int64, redelivery bool) int {
	r := h.r
	effs := h.w.EffectsSince(since)
	seen := map[string]bool{}
	alpha := 0
	for _, e := range effs {
		key := e.Key()
		na := e.NeedsAlpha()
		r.Logf("    effect %s alpha=%v clientWouldRefuse=%v", key, na, e.Refused)
		if !na {
			continue
		}
		alpha++
		kind := trigKind(trig)
		if !h.justified(e.At) {
			why := "its key is not in the committee"
			if h.everMember {
				why = fmt.Sprintf("its key left the committee %v ago (index cache timeout %v)", e.At.Sub(h.memberEnd), h.to)
			}
			// two layers: the inner ring's own guard lets the call through (what this check is about); for notary
			// calls the real morph client then refuses to build the alphabet account for a key outside the committee
			how, class := "[sent: nothing below the inner ring guard stops it]", "ir-nonalpha-send"
			if e.Refused {
				how, class = "[attempt: only the morph client's own multisig-account check would stop it]", "ir-nonalpha-attempt"
			}
			r.Failf(class, kind+" -> "+e.Short()+" "+how,
				"trigger %s: the node called %s although %s; committee=%s read failures: committee=%v irlist=%v", trig, key, why,
				zsim.Canon(h.w.FS.Committee), h.w.FS.FailComm, h.w.FS.FailIRList)
		}
		if seen[key] {
			r.Failf("ir-duplicate-effect", kind+" -> "+e.Short()+" twice on one delivery", "trigger %s: one delivery recorded %s twice", trig, key)
		}
		seen[key] = true
		if e.Via == "NotarySignAndInvokeTX" {
			if h.signedTx[e.Tx.Hash()] {
				r.Failf("ir-duplicate-effect", kind+" -> main transaction co-signed again on re-delivery", "trigger %s (re-delivery=%v): main transaction co-signed a second time: %s", trig, redelivery, key)
			}
			h.signedTx[e.Tx.Hash()] = true
		}
		if e.Via == "TransferGas" && strings.Contains(trig, "neofs.Deposit") {
			k := fmt.Sprintf("%d/%s", h.s.EpochCounter(), zsim.Canon(e.Args[0]))
			if h.gasTo[k] {
				r.Failf("ir-duplicate-effect", kind+" -> second GAS emission to one receiver in one epoch", "trigger %s (re-delivery=%v): %s", trig, redelivery, key)
			}
			h.gasTo[k] = true
		}
	}
	return alpha
}

func trigKind(t string) string {
	if i := strings.LastIndex(t, " (again)"); i >= 0 {
		t = t[:i]
	}
	return t
}

// ---- run -------------------------------------------------------------------------------------------

func runC35(r *simkit.R) {
	h := &irWorld{r: r, signedTx: map[util.Uint256]bool{}, gasTo: map[string]bool{}}
	// runs last: let the released pools' and stopped listeners' goroutines finish inside the bubble
	r.OnCleanup(func() {
		for i := 0; i < 3; i++ {
			time.Sleep(600 * time.Millisecond)
			synctest.Wait()
		}
	})
	mode := r.Intn(3) // 1 = census
	h.nComm = []int{4, 1, 5, 6}[r.Intn(4)]
	if mode == 1 {
		h.nComm = 4
	}
	h.to = []time.Duration{2 * time.Second, 0, 30 * time.Second}[r.Intn(3)]
	nNodes := 1 + r.Intn(3)
	nCnrs := 1 + r.Intn(2)
	h.w = zsim.NewWorld(zsim.Key(zsim.KNode), h.nComm)
	h.w.SeedFS(nNodes, nCnrs)
	h.w.FS.EpochDur = 10
	st0 := 0
	if mode != 1 {
		st0 = r.Intn(len(standings))
	}
	r.Logf("config committee=%d cacheTimeout=%v nodes=%d containers=%d mode=%d", h.nComm, h.to, nNodes, nCnrs, mode)
	h.setStanding(st0, r.Intn(7))
	// main chain: the alphabet list announced there differs in one key so that governance has work to do
	main := []int{zsim.KIRLast}
	for i := zsim.KIRFirst; len(main) < max(h.nComm, 2); i++ {
		main = append(main, i)
	}
	h.w.Main.IRList = zsim.PubList(main...)
	h.w.Main.Committee = zsim.PubList(main...)
	validators := zsim.PubList(zsim.KIRFirst, zsim.KIRFirst+1)[:min(2, h.nComm)]
	if mode != 1 && r.Bool(70) {
		// the configured validators already have the votes of the alphabet contracts: no vote at startup
		for i, v := range validators {
			h.w.FS.Votes[h.w.Alphabet[i]] = v
		}
		r.Logf("configured validators are already voted for")
	}

	buildServer(h, validators)
	h.enumerate()

	ctx, cancel := context.WithCancel(context.Background())
	intErr := make(chan error, 8)
	stopped := false
	stop := func() {
		if stopped {
			return
		}
		stopped = true
		cancel()
		h.s.Stop()
		for i := 0; i < 5; i++ {
			simkitWait()
			time.Sleep(10 * time.Millisecond)
		}
	}
	r.OnCleanup(stop)

	// --- startup
	mark := h.w.Seq()
	startErr := make(chan error, 1)
	go func() { startErr <- h.s.Start(ctx, intErr) }()
	h.settle()
	select {
	case err := <-startErr:
		r.Op("startup in standing %q -> %v", standings[st0], errStr(err))
	default:
		infraf("Server.Start did not return")
	}
	n := h.judge("startup", mark, false)
	h.count(n, "startup")

	if mode == 1 {
		if n == 0 {
			infraf("reach gap: startup produced no alphabet call while the node is an alphabet member")
		}
		h.inCensus = true
		h.census()
		h.inCensus = false
	}

	steps := 4 + r.Intn(11)
	for i := 0; i < steps; i++ {
		r.Step()
		switch r.Weighted(6, 2, 2, 2) {
		case 0:
			t := h.triggers[r.Intn(len(h.triggers))]
			h.fire(t.name, t.fire, false)
		case 1:
			if h.lastFire != nil {
				h.fire(h.lastName+" (again)", h.lastFire, true)
			} else {
				t := h.triggers[r.Intn(len(h.triggers))]
				h.fire(t.name, t.fire, false)
			}
		case 2:
			h.setStanding(r.Intn(len(standings)), r.Intn(7))
		case 3:
			d := []time.Duration{100 * time.Millisecond, h.to - 50*time.Millisecond, h.to + 50*time.Millisecond}[r.Intn(3)]
			if d <= 0 {
				d = 50 * time.Millisecond
			}
			time.Sleep(d)
			r.AddSimTime(d)
			r.Logf("clock +%v", d)
			h.settle()
		}
	}
	select {
	case err := <-intErr:
		infraf("the server reported an internal error: %v", err)
	default:
	}
	if h.firedIn[0] > 0 && h.firedIn[1] > 0 {
		r.Nontrivial()
	}
	stop()
}

func (h *irWorld) count(alpha int, trig string) {
	if h.member {
		h.firedIn[0]++
		if alpha > 0 {
			h.r.Probe("acts as member: " + trigKind(trig))
		}
	} else {
		h.firedIn[1]++
		h.r.Fired("trigger while not a member")
		if !h.justified(time.Now()) {
			h.r.Fired("trigger while not a member and outside the cache window")
		} else {
			h.r.Fired("trigger inside the stale cache window")
		}
	}
}

func (h *irWorld) fire(name string, f func(h *irWorld), again bool) int {
	mark := h.w.Seq()
	keep := h.lastFire
	f(h)
	if again {
		h.lastFire = keep
	} else if h.lastFire != nil {
		h.lastName = name
	}
	h.settle()
	h.r.Op("fire %s (member=%v)", name, h.member)
	n := h.judge(name, mark, again)
	h.count(n, name)
	return n
}

// census: every enumerated trigger once, in stable member state; each must reach >= 1 alphabet call.
func (h *irWorld) census() {
	gaps := map[string]string{
		"action:restartFSChain": "re-reads the configuration only; it has no chain-mutating call",
	}
	// what the two handlers sharing the NewEpoch notification must each reach
	expect := map[string][]string{
		"notif:netmap.NewEpoch": {"fs:Invoke alphabet", "fs:runAlphabetNotaryScript"},
	}
	for _, t := range h.triggers {
		if strings.HasPrefix(t.name, "timer:") {
			// make sure the timers are armed
			h.action(func() { _ = h.s.ResetEpochTimer(0) })
		}
		mark := h.w.Seq()
		n := h.fire(t.name, t.fire, false)
		for _, want := range expect[t.name] {
			got := 0
			for _, e := range h.w.EffectsSince(mark) {
				if strings.HasPrefix(e.Short(), want) {
					got++
				}
			}
			if got == 0 {
				n = 0
			}
		}
		if t.name == "notif:netmap.NewEpoch" && t.procs != "netmap+alphabet" {
			infraf("the NewEpoch notification now reaches %q: update the reach expectations", t.procs)
		}
		if n == 0 {
			if _, ok := gaps[t.name]; ok {
				h.r.Probe("reach gap (listed): " + t.name)
				continue
			}
			infraf("reach gap: trigger %s produced no (expected) alphabet call while the node is an alphabet member (committee %d)", t.name, h.nComm)
		}
	}
	h.r.Probe("census completed")
}

func errStr(err error) string {
	if err == nil {
		return "ok"
	}
	return "ERR(" + err.Error() + ")"
}
