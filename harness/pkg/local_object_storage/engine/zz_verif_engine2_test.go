package engine

import (
	"bytes"
	"fmt"
	"sort"
	"strings"
	"time"

	"github.com/nspcc-dev/neofs-node/pkg/local_object_storage/shard/mode"
	"verif/simkit"
)

// ---------------------------------------------------------------------------------------
// C20: engine reads find every stored object despite shard order, modes and failures

func propC20() *simkit.Property {
	return &simkit.Property{
		ID: "C20", Level: "exploration", Bubble: true, TapeLimit: 4000,
		Rule: "each run = an engine with 1-4 shards (error threshold 0-3, GC batch/interval drawn) and a history of <=14 operations by 1-3 concurrent tasks: engine Put of regular objects (some are EC parts placed by their parent ID), tombstones (broadcast), Delete (garbage mark), Drop, Get, Head, per-shard mode switches (read-write, read-only, degraded-read-only, degraded), one shard addition, simulated-clock advances (GC passes).  Every engine->shard call is a scheduling point and may be failed by the simulator (read and write errors); the shard-table order is re-drawn at every step.  Oracle: per object the recorded history (invoke/return stamped with the kernel's event sequence) must be linearizable against a set-valued register model {absent, present, tombstoned}: a read returns the object exactly when it is present (identical bytes); 'not found' of a present object is excused only if the simulator failed a read of that very operation; a mutating call may fail only when a shard call of it was failed or some shard was not read-write during it.  distinct = trace digest; non-trivial = >=1 read judged after >=1 mode switch or injected error",
		Run:  runC20,
		Assumptions: []string{"write-cache disabled (flush races are C16/C09)", "bbolt batching off (size 1)"},
		Components:  engineComponents,
		DeadlockClass: "hang",
	}
}

type regOut struct {
	res        string // ok | gone | removed | err
	excused    bool   // failure may be due to an injected error / non-read-write shard
	duringTomb bool   // (reads) a tombstone broadcast of the object was in flight at some moment of the read
	bad        string
}

const (
	stAbsent = 1 << iota
	stPresent
	stTomb
)

// regStep: set-valued register model; state = bitmask of possible abstract states.
func regStep(state, in, out any) (bool, any) {
	st := state.(int)
	kind := in.(string)
	o := out.(regOut)
	next := 0
	for _, s := range []int{stAbsent, stPresent, stTomb} {
		if st&s == 0 {
			continue
		}
		switch kind {
		case "put":
			switch {
			case o.res == "ok":
				// (an acknowledged put of a tombstoned object is tolerated as a no-op: the
				// property speaks about reads; the object must stay unreadable)
				if s != stTomb {
					next |= stPresent
				} else {
					next |= stTomb
				}
			case o.res == "removed":
				if s == stTomb {
					next |= s
				}
			default:
				// a failed mutation may or may not have taken effect (the property is about reads)
				next |= s
				if s != stTomb {
					next |= stPresent
				}
			}
		case "tomb":
			if o.res == "ok" {
				next |= stTomb
			} else {
				next |= s | stTomb
			}
		case "dedup":
			// removing redundant copies must never remove the object
			next |= s
		case "mark", "drop":
			after := stAbsent
			if s == stTomb {
				after = stTomb
			}
			if o.res == "ok" {
				next |= after
			} else {
				next |= s | after
			}
		case "get", "head":
			switch o.res {
			case "ok":
				if s == stPresent || s == stTomb && o.duringTomb {
					next |= s
				}
			case "gone", "removed":
				if s != stPresent || o.excused {
					next |= s
				}
			default:
				if o.excused {
					next |= s
				}
			}
		}
	}
	return next != 0, next
}

func stName(st int) string {
	var n []string
	if st&stAbsent != 0 {
		n = append(n, "absent")
	}
	if st&stPresent != 0 {
		n = append(n, "present")
	}
	if st&stTomb != 0 {
		n = append(n, "tombstoned")
	}
	return strings.Join(n, "|")
}

func runC20(r *simkit.R) {
	cfg := drawEnCfg(r, 1, 4)
	nreg := 3 + r.Intn(3)
	w := newEnWorld(r, cfg, nreg+3)
	w.layout(nreg, 2, 0, r.Bool(50))
	w.start()
	r.Logf("config %s", cfg)
	for id := 0; id < nreg+2; id++ {
		r.Logf("  spec %s", w.u.Specs[id])
	}
	faultPct := []int{0, 0, 6, 15}[r.Intn(4)]
	modes := r.Bool(60)
	// (swarm: half of the runs with mode switches stay out of the degraded, no-metabase modes, whose
	// known weaknesses F28/F31/F32 otherwise colour most histories)
	degradedModes := r.Bool(50)
	nops := 3 + r.Intn(12)
	// in some runs a few objects start with copies on several shards (left by earlier placement
	// changes, as the policer finds them): stored directly through the shards
	var lin []simkit.LinOp
	if len(w.shards) >= 2 && r.Bool(35) {
		w.exclusive("populate", func() {
			for k, m := 0, 1+r.Intn(2); k < m; k++ {
				id := r.Intn(nreg)
				if w.u.Specs[id].ECRule >= 0 {
					continue
				}
				call := w.k.Seq()
				n := 0
				for _, i := range r.Perm(len(w.shards))[:2+r.Intn(len(w.shards)-1)] {
					if err := w.shards[i].sh.Put(w.u.Build(w.u.Specs[id]), nil); err == nil {
						n++
						r.Logf("  populate o%d on s%d", id, i)
					}
				}
				if n > 0 {
					lin = append(lin, simkit.LinOp{Key: fmt.Sprintf("o%d", id), In: "put", Out: regOut{res: "ok"}, Call: call, Ret: w.k.Seq()})
				}
			}
		})
	}
	var ops []*enOp
	added := false
	for i := 0; i < nops; i++ {
		var op *enOp
		switch r.Weighted(30, 8, 8, 6, 25, 8, 10, 3, 5) {
		case 8:
			// the policer's clean-up of redundant local copies (shard list taken when the task starts)
			op = &enOp{kind: "dedup", id: r.Intn(nreg)}
		case 0:
			op = &enOp{kind: "put", id: r.Intn(nreg)}
		case 1:
			op = &enOp{kind: "tomb", id: nreg + r.Intn(2)}
		case 2:
			op = &enOp{kind: "mark", id: r.Intn(nreg)}
		case 3:
			op = &enOp{kind: "drop", id: r.Intn(nreg)}
		case 4:
			op = &enOp{kind: "get", id: r.Intn(nreg)}
		case 5:
			op = &enOp{kind: "head", id: r.Intn(nreg)}
		case 6:
			if !modes {
				op = &enOp{kind: "get", id: r.Intn(nreg)}
				break
			}
			op = &enOp{kind: "mode", sh: r.Intn(cfg.nshards), m: []mode.Mode{mode.ReadWrite, mode.ReadOnly, mode.DegradedReadOnly, mode.ReadWrite, mode.Degraded}[r.Intn(5)], flag: r.Bool(50)}
			if !degradedModes && op.m.NoMetabase() {
				op.m = mode.ReadOnly
			}
		case 7:
			if added || cfg.nshards >= 4 {
				op = &enOp{kind: "get", id: r.Intn(nreg)}
				break
			}
			added = true
			op = &enOp{kind: "x:addshard"}
		}
		ops = append(ops, op)
	}

	byTask := map[*simkit.Task]*enOp{}
	inFlight := map[*enOp]bool{}
	unindexed := map[int]bool{} // object -> a put of it was acknowledged by a shard in degraded read-write mode
	taintFrom := map[int]uint64{}
	markedOn := map[[2]string]bool{} // (object, shard) -> a removal mark was written there at some time
	lastPutOn := map[int]string{}    // object -> shard of its last Put visit
	tainted := map[int]bool{}   // object -> a mutation of it FAILED after the simulator failed one of its shard calls / met a non-read-write shard
	next := 0
	final := false // the closing phase: GC has settled, every object is read once more, nothing is failed
	disturbed := false // a mode switch or an injected error happened
	notRW := func() bool {
		for i := range w.shards {
			if w.modeOf(i) != mode.ReadWrite {
				return true
			}
		}
		return false
	}
	target := func(op *enOp) int {
		if op.kind == "tomb" {
			return w.u.Specs[op.id].Target
		}
		return op.id
	}
	hooks := enHooks{
		maxConc: 1 + r.Intn(3),
		next: func() (string, func(*simkit.Task)) {
			if next >= len(ops) {
				return "", nil
			}
			op := ops[next]
			next++
			if op.kind == "x:addshard" {
				return op.kind, func(*simkit.Task) {
					op.err = w.addShard()
					r.Op("addshard -> %v", errS(op.err))
				}
			}
			if op.kind == "dedup" {
				for _, h := range w.holders(op.id) {
					op.seen = append(op.seen, w.shards[h].id.String())
				}
				if len(op.seen) < 2 {
					op.kind, op.seen = "get", nil
				} else {
					r.Probe("redundant copies clean-up with >= 2 holder shards")
				}
			}
			return op.kind, func(t *simkit.Task) {
				byTask[t] = op
				if op.kind == "get" || op.kind == "head" {
					for o := range inFlight {
						if o.kind == "tomb" && target(o) == target(op) {
							op.tombSeen = true
						}
					}
				}
				inFlight[op] = true
				if notRW() {
					op.flag2 = true
				}
				for i := range w.shards {
					if w.modeOf(i).NoMetabase() {
						op.degSeen = true
					}
				}
				if op.kind == "mode" {
					op.prev = w.modeOf(op.sh)
				}
				w.exec(op)
			}
		},
		verdict: func(key string) int {
			// (bookkeeping for the diagnosis: which shard took a removal mark / a put of which object)
			if kf := strings.Split(key, ":"); len(kf) == 3 && (kf[1] == "mark" || kf[1] == "put") {
				for x := 0; x < nreg; x++ {
					if strings.Contains(kf[2], short(w.addr(x).Object())) {
						if kf[1] == "mark" {
							markedOn[[2]string{fmt.Sprint(x), kf[0]}] = true
						} else {
							lastPutOn[x] = kf[0]
						}
					}
				}
			}
			if final || faultPct == 0 || !r.Bool(faultPct) {
				return vOK
			}
			v := vErr
			f := strings.Split(key, ":")
			if (f[1] == "put" || f[1] == "delete" || f[1] == "mark") && r.Bool(40) {
				v = vAfterErr
			}
			r.Fired("shard call fails: " + f[1])
			disturbed = true
			// the operations this call may belong to: every in-flight operation on that object
			for op := range inFlight {
				if op.kind == "mode" {
					continue
				}
				if strings.Contains(f[2], short(w.addr(op.id).Object())) || strings.Contains(f[2], short(w.addr(target(op)).Object())) {
					op.faulted = true
					if v == vAfterErr {
						op.flag = true // a shard call of it took effect although it reported a failure
					}
				}
			}
			return v
		},
		done: func(t *simkit.Task) {
			op := byTask[t]
			if op == nil {
				return
			}
			delete(inFlight, op)
			r.Op("%s -> %v", op, errS(op.err))
			if op.kind == "tomb" {
				for o := range inFlight {
					if (o.kind == "get" || o.kind == "head") && target(o) == target(op) {
						o.tombSeen = true
					}
				}
			}
			if op.kind == "mode" {
				if op.err == nil {
					disturbed = true
					r.Fired("shard mode switch to " + op.m.String())
				}
				// every operation in flight during a mode switch may have met a non-read-write shard
				for o := range inFlight {
					o.flag2 = true
					if op.m.NoMetabase() || op.prev.NoMetabase() {
						o.degSeen = true
					}
				}
				return
			}
			if notRW() {
				op.flag2 = true
			}
			out := regOut{res: "err", excused: op.faulted}
			switch op.kind {
			case "put", "tomb", "mark", "drop", "dedup":
				out.excused = false
				if op.faulted {
					out.bad = "a shard call of it had failed"
				} else if op.flag2 && (op.kind == "tomb" || op.kind == "put") {
					out.bad = "a shard was not read-write during it"
				} else if op.kind == "tomb" {
					for o := range inFlight {
						if o.kind == "tomb" && o.id == op.id {
							out.bad = "another broadcast of the same tombstone was still in flight"
						}
					}
				}
				if op.kind == "put" && op.err == nil && markedOn[[2]string{fmt.Sprint(op.id), lastPutOn[op.id]}] {
					// (metabase Put to an address that carries a garbage mark reports success while the
					// object stays hidden and is collected: findings F04 / F17 of the shard worlds)
					out.bad = "its address carried a removal mark on the shard that stored it"
				}
				if op.kind == "put" && op.err == nil {
					for _, h := range w.holders(op.id) {
						if w.modeOf(h) == mode.Degraded {
							out.bad = "its blob sits on a shard that is in degraded read-write mode (stored without metadata)"
						} else if w.modeOf(h).NoMetabase() {
							// acknowledged because a blob is there (written in degraded read-write mode, or of
							// an object whose removal mark the shard cannot see without its metabase)
							out.bad = "its blob sits on a shard that is in degraded read-write mode (stored without metadata)"
						}
						if w.modeOf(h) == mode.Degraded {
							unindexed[op.id] = true
						}
					}
				}
			case "get", "head":
				if op.err == nil {
					for i := range w.shards {
						if w.modeOf(i).NoMetabase() {
							out.bad = "another shard is in a degraded (no-metabase) mode: the engine re-reads the remaining shards ignoring their metadata"
						}
					}
					for _, h := range w.holders(op.id) {
						if w.modeOf(h).NoMetabase() {
							out.bad = "a shard holding its blob is in a degraded (no-metabase) mode"
						}
					}
					if out.bad == "" && op.degSeen {
						// (the mode was left while the read was running)
						out.bad = "another shard is in a degraded (no-metabase) mode: the engine re-reads the remaining shards ignoring their metadata"
						if len(w.shards) == 1 || len(w.holders(op.id)) > 0 {
							out.bad = "a shard holding its blob is in a degraded (no-metabase) mode"
						}
					}
				}
			}
			switch {
			case op.err == nil:
				out.res = "ok"
				if op.kind == "get" && !bytes.Equal(op.val, w.bin(op.id)) {
					r.Failf("read", "Get returned bytes that differ from what was stored", "%s returned wrong bytes", op)
				}
			case isRemoved(op.err):
				out.res = "removed"
			case isGone(op.err):
				out.res = "gone"
			}
			if (op.kind == "get" || op.kind == "head") && disturbed {
				r.Nontrivial()
			}
			x := target(op)
			switch op.kind {
			case "get", "head":
				// a tombstone broadcast that overlaps the read has reached some shards and not others:
				// the statement does not say which answer such a read gets
				if op.tombSeen {
					out.duringTomb = true
				}
				for o := range inFlight {
					if o.kind == "tomb" && target(o) == x {
						out.duringTomb = true
					}
				}
			default:
				// a mutation that FAILED after one of its shard calls was failed (or a shard was not
				// read-write) may have taken effect on some shards only, and so did one whose shard
				// call took effect although it reported a failure (the engine repeats it elsewhere);
				// from then on the shards disagree about the object and no single register
				// describes it: not judged any more
				if op.err != nil && !isRemoved(op.err) && (op.faulted || op.flag2) || op.flag && op.kind != "mode" {
					if !tainted[x] {
						r.Probe("object not judged any more: a mutation of it failed half-way")
						taintFrom[x] = t.Call
					}
					tainted[x] = true
				}
			}
			if tainted[x] {
				// (operations that returned before the offending mutation was invoked stay judged:
				// the history is cut there at the end of the run)
				w.r.Logf("    [%s key=o%d out=%+v (not judged)]", op.kind, x, out)
			}
			lin = append(lin, simkit.LinOp{Key: fmt.Sprintf("o%d", target(op)), In: op.kind, Out: out, Call: t.Call, Ret: t.Ret})
			w.r.Logf("    [%s key=o%d out=%+v]", op.kind, target(op), out)
		},
	}
	res := w.sched(hooks)
	if res == "hang" || res == "steps" {
		w.failHang(res)
	}
	if res != "" {
		return
	}
	// closing phase: let GC passes run, then read every object once more (delayed effects of
	// removal marks, e.g. of the redundant-copies clean-up, show only after a GC pass)
	w.settle(25 * time.Second)
	final = true
	for id := 0; id < nreg; id++ {
		ops = append(ops, &enOp{kind: "get", id: id})
	}
	hooks.maxConc = 1
	res = w.sched(hooks)
	if res == "hang" || res == "steps" {
		w.failHang(res)
	}
	if res != "" {
		return
	}
	if len(tainted) > 0 {
		// cut each tainted object's history at the last quiescent moment before the offending
		// mutation was invoked: an operation that overlaps a dropped one is dropped too (it may
		// have seen, or be explained by, what the dropped one did)
		cut := map[string]uint64{}
		for x, from := range taintFrom {
			key := fmt.Sprintf("o%d", x)
			for changed := true; changed; {
				changed = false
				for _, o := range lin {
					if o.Key == key && o.Ret >= from && o.Call < from {
						from, changed = o.Call, true
					}
				}
			}
			cut[key] = from
		}
		kept := lin[:0:0]
		for _, o := range lin {
			if from, ok := cut[o.Key]; ok && o.Ret >= from {
				continue
			}
			kept = append(kept, o)
		}
		lin = kept
	}
	// a drop or mark is a sequence of per-shard removals, not one atomic step: while it runs, a put
	// overlapping it may land on a shard the removal has already visited or on one it visits
	// later.  Each further shard visit is one more point inside the removal's interval at which
	// the object may disappear again (only for removals that overlap a put of the same object).
	var extra []simkit.LinOp
	for _, o := range lin {
		if k := o.In.(string); k != "drop" && k != "mark" {
			continue
		}
		overlaps := false
		for _, p := range lin {
			if p.Key == o.Key && p.In.(string) == "put" && p.Call < o.Ret && o.Call < p.Ret {
				overlaps = true
			}
		}
		if !overlaps {
			continue
		}
		r.Probe("removal overlaps a put of the same object: judged as one step per shard")
		for i := 1; i < len(w.shards); i++ {
			extra = append(extra, simkit.LinOp{Key: o.Key, In: o.In, Out: regOut{res: "err", bad: "(a further per-shard step of the removal running at that time)"}, Call: o.Call, Ret: o.Ret})
		}
	}
	lin = append(lin, extra...)
	bad, unknown := simkit.CheckLinearizable(lin, func(string) any { return stAbsent }, regStep, 20*time.Second)
	if unknown {
		r.Probe("linearizability check timed out (inconclusive)")
	}
	if bad != "" {
		r.Failf("lin", "history of one object is not linearizable: "+describeLin(lin, bad), "object %s: no linearization of its history agrees with the register model:\n%s", bad, dumpLin(lin, bad))
	}
}

// linReach returns the union of the abstract states the register model can be in after ALL
// the given operations (of one object) were linearized in some order that respects their
// real-time precedence; 0 = the operations admit no linearization.  (Own small search, used
// for the diagnosis only; the verdict itself is porcupine's.)
func linReach(all []simkit.LinOp, upto int) int {
	// required: the operations that returned not later than all[upto]; optional (pending): those
	// invoked before that moment that returned later — they may take effect at any point after
	// their invocation, or not yet.
	horizon := all[upto].Ret
	var ops []simkit.LinOp
	required := 0
	for _, o := range all {
		switch {
		case o.Ret <= horizon:
			required |= 1 << len(ops)
			ops = append(ops, o)
		case o.Call < horizon:
			o.Ret = ^uint64(0) - 1
			ops = append(ops, o)
		}
	}
	n := len(ops)
	if n > 20 {
		return stAbsent | stPresent | stTomb
	}
	type key struct{ done, st int }
	seen := map[key]bool{}
	res := 0
	var dfs func(done, st int)
	dfs = func(done, st int) {
		if done&required == required {
			res |= st
		}
		k := key{done, st}
		if seen[k] {
			return
		}
		seen[k] = true
		// the earliest return among the operations not linearized yet: only operations invoked
		// before it may come next
		minRet := ^uint64(0)
		for i := 0; i < n; i++ {
			if done&(1<<i) == 0 && ops[i].Ret < minRet {
				minRet = ops[i].Ret
			}
		}
		for i := 0; i < n; i++ {
			if done&(1<<i) != 0 || ops[i].Call > minRet {
				continue
			}
			// try each single possible state separately (the model is set-valued)
			for _, one := range []int{stAbsent, stPresent, stTomb} {
				if st&one == 0 {
					continue
				}
				if ok, nx := regStep(one, ops[i].In, ops[i].Out); ok {
					dfs(done|1<<i, nx.(int))
				}
			}
		}
	}
	dfs(0, stAbsent)
	return res
}

// describeLin: a compact, schedule-independent classification of a non-linearizable
// per-object history: the shortest prefix (in return order) that admits no linearization
// names the offending operation; the state quoted is what the operations before it can leave.
func describeLin(lin []simkit.LinOp, key string) string {
	var ops []simkit.LinOp
	for _, o := range lin {
		if o.Key == key {
			ops = append(ops, o)
		}
	}
	// A read served while a shard was in a degraded (no-metabase) mode may have returned a removed
	// object (findings F28/F32); taken at face value it makes the model believe the object is
	// present and a LATER, correct answer gets the blame.  If the history without those reads is
	// linearizable, the first of them is the offending observation.
	var rest []simkit.LinOp
	var first *simkit.LinOp
	for i, o := range ops {
		out := o.Out.(regOut)
		if k := o.In.(string); (k == "get" || k == "head") && out.res == "ok" && out.bad != "" {
			if first == nil {
				first = &ops[i]
			}
			continue
		}
		rest = append(rest, o)
	}
	if first != nil && (len(rest) == 0 || linReach(rest, len(rest)-1) != 0) {
		return fmt.Sprintf("%s returns ok while the object is absent|tombstoned [%s]", first.In, first.Out.(regOut).bad)
	}
	st := stAbsent
	lastMut := ""
	tombDone := false
	// the culprit = the operation closing the shortest non-linearizable prefix; acknowledged
	// mutations that had not returned when it was invoked are concurrent with it and do not
	// replace the root established before
	culpritCall := ^uint64(0)
	for i := range ops {
		if linReach(ops, i) == 0 {
			culpritCall = ops[i].Call
			break
		}
	}
	for i, o := range ops {
		out := o.Out.(regOut)
		nx := linReach(ops, i)
		if nx == 0 {
			sig := fmt.Sprintf("%s returns %s while the object is %s", o.In, out.res, stName(st))
			switch {
			case out.bad != "":
				sig += " [" + out.bad + "]"
			case lastMut != "":
				sig += " [" + lastMut + "]"
			}
			return sig
		}
		if k := o.In.(string); out.res == "ok" && k != "get" && k != "head" && k != "dedup" {
			switch pre := o.Ret < culpritCall; {
			case !tombDone && !pre:
				// (concurrent with the culprit: does not replace the root established before)
			case !tombDone:
				// the diagnosis stays with the last acknowledged mutation; once a tombstone was
				// acknowledged, with that tombstone (later acknowledged calls change nothing)
				if k == "put" && out.bad == "a shard was not read-write during it" && strings.Contains(lastMut, "stored without metadata") {
					// (a put that merely met a read-only shard does not repair an earlier put that a
					// degraded shard acknowledged without indexing it: that one stays the root)
					break
				}
				lastMut = ""
				if out.bad != "" {
					lastMut = "the acknowledged " + k + ": " + out.bad
				}
				if k == "tomb" {
					tombDone = true
				}
			case k == "put" && st == stTomb && out.bad != "":
				lastMut = "a put of the tombstoned object was acknowledged: " + out.bad
			}
		}
		st = nx
	}
	return "concurrent operations admit no order"
}

func dumpLin(lin []simkit.LinOp, key string) string {
	var b strings.Builder
	for _, o := range lin {
		if o.Key == key {
			fmt.Fprintf(&b, "  [%d,%d] %v -> %+v\n", o.Call, o.Ret, o.In, o.Out)
		}
	}
	return b.String()
}

// ---------------------------------------------------------------------------------------
// C08: an object locked through the engine stays retrievable until the lock expires

func propC08() *simkit.Property {
	return &simkit.Property{
		ID: "C08", Level: "exploration", Bubble: true, TapeLimit: 4000,
		Rule: "each run = an engine with 2-3 shards (error threshold 0-3) and a history of <=16 operations by 1-3 concurrent tasks: engine Put of regular objects, LOCK objects (expiring at epoch 2-5) and TOMBSTONE objects aimed at them (both broadcast shard by shard in a drawn shard order), Get, per-shard mode switches (read-only, degraded-read-only, read-write), evacuation of the currently read-only shards, epoch advances (expiry handling, lock clean-up) and simulated-clock advances (GC passes); every engine->shard call is a scheduling point and Put visits may be failed by the simulator (before or after taking effect).  Oracle: once Put of a lock returned nil for an object whose own Put had been acknowledged (and no tombstone of it had been acknowledged by then), every Get of that object invoked afterwards and returning while the epoch is not past the lock's expiration must return the stored bytes; the same is checked for all such objects at the end of the run after GC has settled.  distinct = trace digest; non-trivial = >=1 protected read judged after a tombstone attempt, mode switch, injected failure, evacuation or epoch advance",
		Run:  runC08,
		Assumptions: []string{"write-cache disabled", "only Put visits are failed (the property's history injects put failures); reads are never failed, so a failed Get is never excused"},
		Components:  engineComponents,
		DeadlockClass: "hang",
	}
}

func runC08(r *simkit.R) {
	cfg := drawEnCfg(r, 2, 3)
	nreg := 2 + r.Intn(2)
	ntomb, nlock := 2, 2
	w := newEnWorld(r, cfg, nreg+ntomb+nlock)
	w.layout(nreg, ntomb, nlock, false)
	// in half of the runs objects carry their own expiration epoch, earlier than their locks':
	// the lock must keep them retrievable past it (expired-object collection must honour locks)
	expiring := r.Bool(50)
	if expiring {
		for id := 0; id < nreg; id++ {
			if r.Bool(60) {
				w.u.Specs[id].Exp = 1 + r.Intn(2)
			}
		}
		for id := nreg + ntomb; id < nreg+ntomb+nlock; id++ {
			l := w.u.Specs[id]
			if e := w.u.Specs[l.Target].Exp; e >= 0 && l.Exp <= e {
				l.Exp = e + 1 + r.Intn(2)
			}
		}
	}
	w.start()
	r.Logf("config %s", cfg)
	for id := 0; id < nreg+ntomb+nlock; id++ {
		r.Logf("  spec %s", w.u.Specs[id])
	}
	faultPct := []int{0, 0, 8, 20}[r.Intn(4)]
	nops := 4 + r.Intn(13)
	epochW := 8
	if expiring {
		epochW = 16
	}
	var ops []*enOp
	for i := 0; i < nops; i++ {
		var op *enOp
		switch r.Weighted(22, 14, 14, 24, 12, epochW, 4, 2) {
		case 0:
			op = &enOp{kind: "put", id: r.Intn(nreg)}
		case 1:
			op = &enOp{kind: "lock", id: nreg + ntomb + r.Intn(nlock)}
		case 2:
			op = &enOp{kind: "tomb", id: nreg + r.Intn(ntomb)}
		case 3:
			op = &enOp{kind: "get", id: r.Intn(nreg)}
		case 4:
			op = &enOp{kind: "mode", sh: r.Intn(cfg.nshards), m: []mode.Mode{mode.ReadWrite, mode.ReadOnly, mode.DegradedReadOnly, mode.ReadWrite}[r.Intn(4)], flag: r.Bool(50)}
		case 5:
			op = &enOp{kind: "epoch"}
		case 6:
			op = &enOp{kind: "evacuate"}
		case 7:
			op = &enOp{kind: "islocked", id: r.Intn(nreg)}
		}
		ops = append(ops, op)
	}

	byTask := map[*simkit.Task]*enOp{}
	putAcked := map[int]uint64{}  // object -> return stamp of its first acknowledged put
	tombAcked := map[int]bool{}   // object -> some tombstone of it was acknowledged
	armed := map[int]uint64{}     // object -> stamp from which reads must succeed
	armedBy := map[int]int{}      // object -> lock spec id
	partial := map[int]bool{}     // object -> its lock did not reach every shard holding it
	partialAny := map[int]bool{}  // object -> its lock did not reach some shard (not holding the object)
	rolledBack := map[int]bool{}  // object -> a tombstone of it was deleted again by a broadcast rollback
	pendingArm := map[int]int{}   // object already past its own expiration when the lock was acknowledged -> lock; armed by the next successful Get
	lockAckAt := map[int]int{}    // object -> boundary counter when its lock was acknowledged
	gcCheckAt := map[int]int{}    // object -> boundary counter of the last lock check made by the expired-objects handling
	gcFirstCheckAt := map[int]int{}
	gcPending := map[int][]int{} // object -> lock checks of the handling since its previous removal
	gcVerdict := map[int]int{}   // object -> classification of the first removal after the lock's acknowledgement
	gcDeleteAt := map[int]int{}   // object -> boundary counter of the last physical removal by the expired-objects handling
	detached := map[int]bool{}    // shard index -> removed from the engine after its evacuation
	roSince := map[int]int{}      // shard index -> boundary counter since which it has been read-only (by operator switches)
	nbound := 0
	tombMaybe := map[int]bool{}   // object -> a tombstone visit of it took effect although it was reported as failed (injected)
	dupLock := map[int]bool{}     // object -> its lock was acknowledged while another broadcast of the same lock was in flight
	inFlight := map[*enOp]bool{}
	disturbed := false
	next := 0
	// the protecting lock has not expired
	live := func(x int) bool {
		l, ok := armedBy[x]
		return ok && w.ep.CurrentEpoch() <= uint64(w.u.Specs[l].Exp)
	}
	var history []string
	judge := func(x int, call uint64, err error, val []byte, where string) {
		from, ok := armed[x]
		if !ok || call < from || !live(x) {
			return
		}
		if disturbed {
			r.Nontrivial()
		}
		if err == nil && bytes.Equal(val, w.bin(x)) {
			return
		}
		what := "Get fails"
		switch {
		case err == nil:
			what = "Get returns other bytes"
		case isRemoved(err):
			what = "Get reports it as already removed"
		case isGone(err):
			what = "Get reports it as not found"
		}
		diag := w.diagnoseC08(x, armedBy[x], history)
		if rolledBack[x] {
			diag = "a tombstone of it had been stored on a shard and then rolled back by the failed broadcast"
		}
		if at, ok := gcDeleteAt[x]; ok && at > lockAckAt[x] {
			// (also when the lock reached only some shards: the handling asks every shard, one
			// holder of the lock is enough)
			// the expired-objects handling removed it physically after the lock was acknowledged
			// (several shards' GCs may run the handling for the same object at once: a removal
			// belongs to SOME earlier lock check of that object)
			switch v := gcVerdict[x]; {
			case v != 1 && dupLock[x]:
				// (the acknowledged duplicate relied on a copy that the first broadcast's rollback
				// may have deleted again: the handling rightly found no lock)
				diag = "the lock was acknowledged because a shard already held it while another broadcast of the same lock was still in flight"
			case v == 0:
				diag = "the expired-objects handling removed it without any lock check"
			case v == 2:
				diag = "the expired-objects handling removed it although its lock check ran after the lock was acknowledged"
			default:
				diag = "the lock was acknowledged between the lock check and the removal by the expired-objects handling"
			}
		} else if partial[x] {
			diag = "the lock was acknowledged although a shard holding the object did not store it"
		} else if dupLock[x] {
			diag = "the lock was acknowledged because a shard already held it while another broadcast of the same lock was still in flight"
		} else if partialAny[x] && !rolledBack[x] {
			diag = "the lock was acknowledged although a shard did not store it"
		}
		r.Failf("lock", fmt.Sprintf("locked object is not retrievable: %s [%s]", what, diag), "o%d is protected by lock o%d (accepted by the engine, expires after epoch %d, current epoch %d) but at %s %s: %v", x, armedBy[x], w.u.Specs[armedBy[x]].Exp, w.ep.CurrentEpoch(), where, what, err)
	}
	res := w.sched(enHooks{
		maxConc: 1 + r.Intn(3),
		next: func() (string, func(*simkit.Task)) {
			if next >= len(ops) {
				return "", nil
			}
			op := ops[next]
			next++
			if op.kind == "evacuate" {
				op.b0 = nbound
				att := 0
				for i := range w.shards {
					if detached[i] {
						continue
					}
					att++
					if w.modeOf(i).ReadOnly() {
						op.srcs = append(op.srcs, i)
					}
				}
				if len(op.srcs) == 0 || len(op.srcs) == att {
					op.kind = "get"
					op.id = r.Intn(nreg)
				}
			}
			if op.kind == "x:detach" {
				return op.kind, func(*simkit.Task) {
					// the operator completes the procedure: the evacuated shards are removed from the engine
					// (only shards that have been read-only since before the evacuation started and
					// still are: a shard made writable in between may have received objects since)
					var ids []string
					var gone []int
					for _, i := range op.srcs {
						if since, ok := roSince[i]; !ok || since > op.b0 || !w.modeOf(i).ReadOnly() {
							continue
						}
						ids = append(ids, w.shards[i].id.String())
						detached[i] = true
						gone = append(gone, i)
					}
					op.srcs = gone
					if len(ids) == 0 {
						r.Op("detach skipped: the evacuated shards did not stay read-only")
						return
					}
					w.e.removeShards(ids...)
					disturbed = true
					history = append(history, "detach")
					r.Fired("evacuated shards removed from the engine")
					r.Op("detach %v", op.srcs)
				}
			}
			if op.kind == "mode" && detached[op.sh] {
				op.kind, op.id = "get", r.Intn(nreg)
			}
			return op.kind, func(t *simkit.Task) { byTask[t] = op; inFlight[op] = true; w.exec(op) }
		},
		boundary: func(key string) {
			nbound++
			f := strings.Split(key, ":")
			// calls of the expired-objects handling (engine callback of the shard GC): lock checks
			// and physical removals of regular objects that no workload operation makes
			if f[1] == "islocked" || f[1] == "delete" {
				for x := 0; x < nreg; x++ {
					if !strings.Contains(f[2], short(w.addr(x).Object())) {
						continue
					}
					byWorkload := false
					for o := range inFlight {
						if o.kind == "islocked" && o.id == x {
							byWorkload = true
						}
					}
					_ = byWorkload // (a workload IsLocked in flight does not say whose gate this is: every lock check counts)
					if f[1] == "islocked" {
						if _, ok := gcFirstCheckAt[x]; !ok {
							gcFirstCheckAt[x] = nbound
						}
						gcCheckAt[x] = nbound
						gcPending[x] = append(gcPending[x], nbound)
					} else if f[1] == "delete" {
						// which lock checks does this removal follow (since the previous removal)?
						// 0 none, 1 some check older than the lock's acknowledgement, 2 only newer ones
						v := 0
						if ack, ok := lockAckAt[x]; ok && len(gcPending[x]) > 0 {
							v = 2
							for _, c := range gcPending[x] {
								if c <= ack {
									v = 1
								}
							}
						} else if len(gcPending[x]) > 0 {
							v = 1
						}
						if _, ok := lockAckAt[x]; ok && (gcVerdict[x] == 0 || gcDeleteAt[x] <= lockAckAt[x]) {
							gcVerdict[x] = v
						}
						// (the handling removes the object from every shard, whether it holds a copy or not,
						// and several shards' collectors may run it for one object at once: the checks
						// are never forgotten, a removal belongs to SOME earlier check of the run)
						gcDeleteAt[x] = nbound
						r.Probe("expired-objects handling removes an object physically")
					}
				}
			}
			// Shard.Delete of a tombstone object = rollback of a failed tombstone broadcast
			if f[1] != "delete" {
				return
			}
			for ts := nreg; ts < nreg+ntomb; ts++ {
				if strings.Contains(f[2], short(w.addr(ts).Object())) {
					rolledBack[w.u.Specs[ts].Target] = true
					r.Probe("tombstone broadcast rolled back on a shard")
				}
			}
		},
		verdict: func(key string) int {
			f := strings.Split(key, ":")
			if f[1] != "put" || faultPct == 0 || !r.Bool(faultPct) {
				return vOK
			}
			disturbed = true
			if r.Bool(40) {
				r.Fired("shard put fails after taking effect")
				history = append(history, "putfault-after")
				for ts := nreg; ts < nreg+ntomb; ts++ {
					if strings.Contains(f[2], short(w.addr(ts).Object())) {
						// the tombstone is in effect on that shard whatever the broadcast reports
						tombMaybe[w.u.Specs[ts].Target] = true
					}
				}
				return vAfterErr
			}
			r.Fired("shard put fails")
			history = append(history, "putfault")
			return vErr
		},
		done: func(t *simkit.Task) {
			op := byTask[t]
			if op == nil {
				return
			}
			delete(inFlight, op)
			r.Op("%s -> %v", op, errS(op.err))
			switch op.kind {
			case "put":
				if op.err == nil {
					if _, ok := putAcked[op.id]; !ok {
						putAcked[op.id] = t.Ret
					}
				}
			case "tomb":
				disturbed = true
				x := w.u.Specs[op.id].Target
				if op.err == nil {
					tombAcked[x] = true
					history = append(history, fmt.Sprintf("tomb-ok(o%d)", x))
				} else {
					history = append(history, fmt.Sprintf("tomb-fail(o%d)", x))
				}
			case "lock":
				x := w.u.Specs[op.id].Target
				if op.err != nil {
					break
				}
				pa, stored := putAcked[x]
				if !stored || pa > t.Call || tombAcked[x] || tombMaybe[x] {
					// (a tombstone that took effect on a shard although its broadcast reported a failure
					// leaves it open whether the engine still "stores" the object: not judged)
					break
				}
				if e := w.u.Specs[x].Exp; e >= 0 && w.ep.CurrentEpoch() > uint64(e) && (len(w.holders(x)) == 0 || gcCheckAt[x] > gcDeleteAt[x]) {
					// already past its own expiration and either physically gone or possibly between the
					// lock check and the removal of the expired-objects handling: whether the engine still
					// "stores" it is only known once a Get has succeeded under the lock
					if _, ok := armed[x]; !ok {
						pendingArm[x] = op.id
						lockAckAt[x] = nbound
					}
					break
				}
				if _, ok := armed[x]; !ok {
					armed[x] = t.Ret
					armedBy[x] = op.id
					lockAckAt[x] = nbound
					for o := range inFlight {
						if o.kind == "lock" && o.id == op.id {
							dupLock[x] = true
							r.Probe("lock acknowledged while another broadcast of the same lock was in flight")
						}
					}
					// did every shard that holds the object store the lock?
					for _, s := range w.shards {
						hasX, _ := s.fst.Exists(w.addr(x))
						hasL, _ := s.fst.Exists(w.addr(op.id))
						if hasX && !hasL {
							partial[x] = true
							r.Probe("lock acknowledged although a shard holding the object did not store it")
						} else if !hasL {
							// (that shard will accept a tombstone of the object later)
							partialAny[x] = true
							r.Probe("lock acknowledged although some shard did not store it")
						}
					}
					history = append(history, fmt.Sprintf("lock-ok(o%d)", x))
					r.Probe("lock accepted for a stored object")
				} else if w.u.Specs[op.id].Exp > w.u.Specs[armedBy[x]].Exp {
					armedBy[x] = op.id
					// (the longer-living lock takes over the protection: did IT reach every holder?)
					for _, s := range w.shards {
						hasX, _ := s.fst.Exists(w.addr(x))
						hasL, _ := s.fst.Exists(w.addr(op.id))
						if hasX && !hasL {
							partial[x] = true
							r.Probe("lock acknowledged although a shard holding the object did not store it")
						} else if !hasL {
							partialAny[x] = true
						}
					}
				}
			case "mode":
				if op.err == nil {
					disturbed = true
					r.Fired("shard mode switch to " + op.m.String())
					history = append(history, "mode")
					if op.m.ReadOnly() {
						if _, ok := roSince[op.sh]; !ok {
							roSince[op.sh] = nbound
						}
					} else {
						delete(roSince, op.sh)
					}
				} else {
					delete(roSince, op.sh) // (a switch that failed half-way: not the operator's clean procedure)
				}
			case "epoch":
				disturbed = true
				r.Fired("epoch advance")
				history = append(history, "epoch")
			case "evacuate":
				disturbed = true
				r.Fired("evacuation")
				history = append(history, "evacuate")
				r.Logf("    evacuated %d", op.n)
				if op.err == nil && r.Bool(50) {
					ops = append(ops[:next], append([]*enOp{{kind: "x:detach", srcs: op.srcs, b0: op.b0}}, ops[next:]...)...)
				}
			case "get":
				if l, ok := pendingArm[op.id]; ok && op.err == nil && bytes.Equal(op.val, w.bin(op.id)) && w.ep.CurrentEpoch() <= uint64(w.u.Specs[l].Exp) {
					if _, done := armed[op.id]; !done {
						armed[op.id] = t.Ret
						armedBy[op.id] = l
						r.Probe("lock accepted for an object past its own expiration and still retrievable")
					}
					delete(pendingArm, op.id)
				}
				judge(op.id, t.Call, op.err, op.val, "a Get of the history")
			}
		},
	})
	if res == "hang" || res == "steps" {
		w.failHang(res)
	}
	if res != "" {
		return
	}
	// GC settles; protected objects must still be there
	w.settle(25 * time.Second)
	for x := range armed {
		x := x
		var o *enOp
		w.exclusive("final-get", func() {
			o = &enOp{kind: "get", id: x}
			w.exec(o)
		})
		r.Logf("final get(o%d) -> %v", x, errS(o.err))
		judge(x, ^uint64(0), o.err, o.val, "the end of the run (after GC settled)")
	}
}

// diagnoseC08 names the circumstances of a failed protected read (kept coarse on purpose:
// it only separates mechanisms, never excuses a failure).
func (w *enWorld) diagnoseC08(x, lock int, history []string) string {
	var holders, lockHolders []string
	for _, s := range w.shards {
		if ok, _ := s.fst.Exists(w.addr(x)); ok {
			holders = append(holders, fmt.Sprintf("%s", s.sh.GetMode()))
		}
		if ok, _ := s.fst.Exists(w.addr(lock)); ok {
			lockHolders = append(lockHolders, "x")
		}
	}
	d := fmt.Sprintf("object on %d of %d shards, lock object on %d", len(holders), len(w.shards), len(lockHolders))
	seen := map[string]bool{}
	var ev []string
	after := false
	for _, h := range history {
		if strings.HasPrefix(h, fmt.Sprintf("lock-ok(o%d)", x)) {
			after = true
		}
		k := h
		if i := strings.IndexByte(h, '('); i >= 0 {
			if !strings.HasSuffix(h, fmt.Sprintf("(o%d)", x)) {
				continue
			}
			k = h[:i]
		}
		if !after && k != "mode" && k != "putfault" && k != "putfault-after" {
			continue
		}
		if !seen[k] {
			seen[k] = true
			ev = append(ev, k)
		}
	}
	sort.Strings(ev)
	return d + "; events: " + strings.Join(ev, ",")
}
