//go:build verif

package simchain

import (
	"github.com/nspcc-dev/neo-go/pkg/core/mempoolevent"
	"github.com/nspcc-dev/neo-go/pkg/core/transaction"
	"github.com/nspcc-dev/neo-go/pkg/crypto/hash"
	"github.com/nspcc-dev/neo-go/pkg/crypto/keys"
	"github.com/nspcc-dev/neo-go/pkg/io"
	"github.com/nspcc-dev/neo-go/pkg/neorpc/result"
	"github.com/nspcc-dev/neo-go/pkg/network/payload"
	"github.com/nspcc-dev/neo-go/pkg/smartcontract/callflag"
	"github.com/nspcc-dev/neo-go/pkg/util"
	"github.com/nspcc-dev/neo-go/pkg/vm/emit"
	"github.com/nspcc-dev/neo-go/pkg/vm/opcode"
)

// ReqShape says how the envelope of a notary request deviates from a well-formed one.  The zero value
// is the canonical request a storage node / client library produces: signers [proxy, alphabet multisig,
// notary], matching witnesses (empty proxy witness, alphabet witness with the multisig verification script
// and no signatures yet, empty notary placeholder), one NotaryAssisted attribute with NKeys = alphabet size,
// fallback with [NotaryAssisted(0), NotValidBefore, Conflicts(main)] signed by [notary, sender].
type ReqShape struct {
	Invoker bool // 4 signers: proxy, alphabet, invoker (simple signature account), notary; NKeys+1

	// structural defects (each makes the main transaction NOT have "the required signers, witnesses, attributes")
	Defect string // "" | one of Defects

	AlphaSigned   bool              // the alphabet witness already carries signatures of other members (legitimate)
	DummyNotary   bool              // 66-byte dummy notary invocation script (legitimate, older clients)
	AlphaScope    transaction.WitnessScope // scope of the alphabet signer (not judged; the statement is silent)
	NVB           uint32            // fallback NotValidBefore height
	FallbackOwner util.Uint160      // second signer of the fallback (the sender of the request)
	TrailingOps   []opcode.Opcode   // extra opcodes after the last call
	Nonce         uint32
}

// Defects is the list of structural defects Build understands.
var Defects = []string{
	"witness-count-2",        // only two witnesses / signers
	"witness-count-5",        // five witnesses / signers
	"signers-vs-witnesses",   // three witnesses but four signers
	"signers-swapped",        // alphabet account first, proxy second (signers and witnesses)
	"alpha-signer-foreign",   // second signer is the multisig account of other keys
	"alpha-signer-stale",     // second signer / witness built for an alphabet of different size
	"alpha-witness-foreign",  // second witness has another verification script
	"alpha-witness-missing",  // second witness has no verification script at all
	"proxy-witness-nonempty", // first witness is not empty
	"notary-witness-script",  // notary placeholder has a verification script
	"notary-witness-garbage", // notary placeholder invocation script is neither empty nor the dummy
	"invoker-witness-empty",  // four witnesses but the invoker's is empty
	"attr-none",              // no attributes
	"attr-two",               // two attributes
	"attr-wrong-type",        // single attribute of another type
	"attr-nkeys-low",         // NotaryAssisted with fewer keys than the alphabet (+invoker)
	"attr-nkeys-high",        // NotaryAssisted with more keys
	"fb-attr-count",          // fallback with two attributes
	"fb-no-nvb",              // fallback without NotValidBefore
	"fb-two-nvb",             // fallback with two NotValidBefore attributes
}

var dummyInvocation = append([]byte{byte(opcode.PUSHDATA1), 64}, make([]byte, 64)...)

// Script emits the calls one after another (as smartcontract.Builder does) plus trailing opcodes.
func Script(calls []Call, trailing []opcode.Opcode) []byte {
	bw := io.NewBufBinWriter()
	for _, c := range calls {
		emit.AppCall(bw.BinWriter, c.Contract, c.Method, callflag.All, c.Args...)
	}
	if len(trailing) > 0 {
		emit.Opcodes(bw.BinWriter, trailing...)
	}
	if bw.Err != nil {
		panic("simchain: script: " + bw.Err.Error())
	}
	return bw.Bytes()
}

// BuildRequest assembles a notary request around the calls for the given alphabet (the committee the
// sender saw) in the given shape.
func (w *World) BuildRequest(calls []Call, alphabet keys.PublicKeys, sh ReqShape) *payload.P2PNotaryRequest {
	script := Script(calls, sh.TrailingOps)
	alphaScript := MultisigScript(alphabet)
	alphaAcc := hash.Hash160(alphaScript)
	notaryAcc := H("native-notary")
	invokerKey := Pub(KSNFirst)
	invokerScript := invokerKey.GetVerificationScript()

	signers := []transaction.Signer{
		{Account: w.Proxy, Scopes: transaction.None},
		{Account: alphaAcc, Scopes: sh.AlphaScope},
	}
	wits := []transaction.Witness{
		{},
		{InvocationScript: []byte{}, VerificationScript: alphaScript},
	}
	if sh.AlphaSigned {
		wits[1].InvocationScript = append([]byte{byte(opcode.PUSHDATA1), 64}, Sign(KIRFirst, script)[:64]...)
	}
	nKeys := len(alphabet)
	if sh.Invoker {
		signers = append(signers, transaction.Signer{Account: invokerKey.GetScriptHash(), Scopes: transaction.CalledByEntry})
		wits = append(wits, transaction.Witness{InvocationScript: append([]byte{byte(opcode.PUSHDATA1), 64}, Sign(KSNFirst, script)[:64]...), VerificationScript: invokerScript})
		nKeys++
	}
	signers = append(signers, transaction.Signer{Account: notaryAcc, Scopes: transaction.None})
	notaryWit := transaction.Witness{InvocationScript: []byte{}}
	if sh.DummyNotary {
		notaryWit.InvocationScript = append([]byte(nil), dummyInvocation...)
	}
	wits = append(wits, notaryWit)
	attrs := []transaction.Attribute{{Type: transaction.NotaryAssistedT, Value: &transaction.NotaryAssisted{NKeys: uint8(nKeys)}}}
	last := len(wits) - 1

	other := PubList(KIRLast, KIRLast-1, KIRLast-2, KIRLast-3)[:max(1, min(4, len(alphabet)))]
	otherScript := MultisigScript(other)
	switch sh.Defect {
	case "":
	case "witness-count-2":
		signers, wits = signers[:2], wits[:2]
	case "witness-count-5":
		signers = append(signers, transaction.Signer{Account: H("extra"), Scopes: transaction.None})
		wits = append(wits, transaction.Witness{InvocationScript: []byte{}})
	case "signers-vs-witnesses":
		signers = append(signers, transaction.Signer{Account: H("extra"), Scopes: transaction.None})
	case "signers-swapped":
		signers[0], signers[1] = signers[1], signers[0]
		wits[0], wits[1] = wits[1], wits[0]
	case "alpha-signer-foreign":
		signers[1].Account = hash.Hash160(otherScript)
	case "alpha-signer-stale":
		stale := append(append(keys.PublicKeys(nil), alphabet...), Pub(KStranger))
		ss := MultisigScript(stale)
		signers[1].Account = hash.Hash160(ss)
		wits[1].VerificationScript = ss
	case "alpha-witness-foreign":
		wits[1].VerificationScript = otherScript
	case "alpha-witness-missing":
		wits[1].VerificationScript = nil
	case "proxy-witness-nonempty":
		wits[0].InvocationScript = []byte{byte(opcode.PUSH1)}
	case "notary-witness-script":
		wits[last].VerificationScript = []byte{byte(opcode.PUSH1)}
	case "notary-witness-garbage":
		wits[last].InvocationScript = append([]byte{byte(opcode.PUSHDATA1), 64, 1}, make([]byte, 63)...)
	case "invoker-witness-empty":
		if !sh.Invoker {
			panic("simchain: invoker-witness-empty needs an invoker")
		}
		wits[2] = transaction.Witness{}
	case "attr-none":
		attrs = nil
	case "attr-two":
		attrs = append(attrs, transaction.Attribute{Type: transaction.HighPriority})
	case "attr-wrong-type":
		attrs = []transaction.Attribute{{Type: transaction.NotValidBeforeT, Value: &transaction.NotValidBefore{Height: sh.NVB}}}
	case "attr-nkeys-low":
		attrs[0].Value = &transaction.NotaryAssisted{NKeys: uint8(nKeys - 1)}
	case "attr-nkeys-high":
		attrs[0].Value = &transaction.NotaryAssisted{NKeys: uint8(nKeys + 1)}
	case "fb-attr-count", "fb-no-nvb", "fb-two-nvb":
	default:
		panic("simchain: unknown request defect " + sh.Defect)
	}

	main := transaction.New(script, 1_0000_0000)
	main.Nonce = sh.Nonce
	main.ValidUntilBlock = sh.NVB + 50
	main.Signers = signers
	main.Scripts = wits
	main.Attributes = attrs

	fbOwner := sh.FallbackOwner
	if fbOwner == (util.Uint160{}) {
		fbOwner = Pub(KSNFirst).GetScriptHash()
	}
	fb := transaction.New([]byte{byte(opcode.RET)}, 0)
	fb.Nonce = sh.Nonce
	fb.ValidUntilBlock = main.ValidUntilBlock
	fb.Signers = []transaction.Signer{{Account: notaryAcc, Scopes: transaction.None}, {Account: fbOwner, Scopes: transaction.None}}
	fb.Scripts = []transaction.Witness{{InvocationScript: append([]byte(nil), dummyInvocation...)}, {InvocationScript: []byte{byte(opcode.PUSH1)}, VerificationScript: []byte{byte(opcode.PUSH1)}}}
	nvb := transaction.Attribute{Type: transaction.NotValidBeforeT, Value: &transaction.NotValidBefore{Height: sh.NVB}}
	fb.Attributes = []transaction.Attribute{
		{Type: transaction.NotaryAssistedT, Value: &transaction.NotaryAssisted{NKeys: 0}},
		nvb,
		{Type: transaction.ConflictsT, Value: &transaction.Conflicts{Hash: main.Hash()}},
	}
	switch sh.Defect {
	case "fb-attr-count":
		fb.Attributes = fb.Attributes[:2]
	case "fb-no-nvb":
		fb.Attributes[1] = transaction.Attribute{Type: transaction.HighPriority}
	case "fb-two-nvb":
		fb.Attributes[2] = nvb
	}
	return &payload.P2PNotaryRequest{MainTransaction: main, FallbackTransaction: fb}
}

// NotaryEvent wraps a request the way the RPC subscription delivers it.
func NotaryEvent(nr *payload.P2PNotaryRequest) *result.NotaryRequestEvent {
	return &result.NotaryRequestEvent{Type: mempoolevent.TransactionAdded, NotaryRequest: nr}
}
