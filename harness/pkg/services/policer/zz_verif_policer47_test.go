package policer

// C47 (policer part): a local object is removed "because its container is gone" only when the
// container source definitively reported the container as absent.
//
// The REAL Policer.processObject runs for local objects of 2-3 containers inside the simulated
// cluster of the policer world (zz_verif_policer_test.go).  The policy lookup
// (Network.GetNodesForObject) is, per run, either
//   - the REAL placement.Service (pkg/services/object/placement: container read, network map
//     read, policy application, both caches, the real error wrapping) over a simulated container
//     source and a simulated network-map source, or
//   - a scripted Network whose lookup error is taken from the same menu directly.
// Every Delete of the local storage is recorded with the processing it happened in.

import (
	"context"
	"errors"
	"fmt"
	"sort"
	"strings"
	"time"

	iec "github.com/nspcc-dev/neofs-node/internal/ec"
	containercore "github.com/nspcc-dev/neofs-node/pkg/core/container"
	"github.com/nspcc-dev/neofs-node/pkg/local_object_storage/engine"
	placementsvc "github.com/nspcc-dev/neofs-node/pkg/services/object/placement"
	apistatus "github.com/nspcc-dev/neofs-sdk-go/client/status"
	"github.com/nspcc-dev/neofs-sdk-go/container"
	cid "github.com/nspcc-dev/neofs-sdk-go/container/id"
	"github.com/nspcc-dev/neofs-sdk-go/netmap"
	"github.com/nspcc-dev/neofs-sdk-go/object"
	oid "github.com/nspcc-dev/neofs-sdk-go/object/id"
	"verif/simkit"
)

func propC47p() *simkit.Property {
	return &simkit.Property{
		ID: "C47", Level: "exploration", Bubble: true, TapeLimit: 3000,
		Rule: "each run (policer part) = a simulated cluster of 3-6 nodes, 2-3 containers (REP 1-2, in the scripted mode also EC d/1) and 2-5 local objects (REGULAR / TOMBSTONE / LOCK / LINK, EC parts) also held by some remote nodes, processed 3-12 times by the real policer.processObject. The policy lookup is the real placement.Service over a simulated container source and network-map source (epoch steps, cache hits, network maps too small for the policy) or a scripted Network. Per processing the container source answers found / definitively not found (status variable, status value, wrapped with %w, pointer) / transient (network error, deadline exceeded plain and wrapped, canceled, errors whose TEXT says or equals 'container not found', object-not-found and eACL-not-found statuses), the network-map source may fail (epoch read, map read), the policy may not be satisfiable; remote nodes answer HEAD ok / not-found / maintenance / error / timeout and the local storage may fail. Oracle: a Delete on the local storage in a processing whose policy lookup failed is allowed only if the container source definitively reported the container absent in that processing; never for another address than the processed one; removals after a successful lookup are the redundancy logic (C26) and are not judged here. distinct = trace digest; non-trivial = >=1 processing whose lookup failed for a reason other than a definitive not-found",
		Run:  runC47p,
		Assumptions: []string{
			"only the 'removes only if' direction is judged; 'reported absent but kept' (absence reported as a pointer status) is a probe",
			"cmd/neofs-node (the cached container source, the wiring of placement.Service into the policer) is not executed",
			"removals decided after a successful policy lookup belong to C26 and are only counted",
		},
		Components: map[string]string{
			"policer.processObject (container-not-found branch, placement error branch, redundancy logic behind it)": "real",
			"containercore.IsErrNotFound": "real",
			"placement.Service.GetNodesForObject (container read, netmap read, policy application, caches, error wrapping)": "real in half of the runs; otherwise a scripted Network",
			"container source / network-map source": "simulated: scripted answers",
			"local storage engine":                  "fake: in-memory store of the local node, records Delete with its garbage mark, injected errors",
			"remote nodes, replicator":              "as in the policer world (C26): simulated nodes, real Replicator.HandleTask",
		},
	}
}

const (
	p47Found = iota
	p47Definitive
	p47Transient
)

type p47Flavour struct {
	name  string
	class int
	err   func() error
}

type p47TextErr struct{ s string }

func (e p47TextErr) Error() string { return e.s }

var p47Flavours = []p47Flavour{
	{"found", p47Found, func() error { return nil }},
	{"not found (status variable)", p47Definitive, func() error { return apistatus.ErrContainerNotFound }},
	{"not found (status value, as the chain client and the cache return it)", p47Definitive, func() error { return apistatus.ContainerNotFound{} }},
	{"not found (status wrapped with %w)", p47Definitive, func() error {
		return fmt.Errorf("get container from the cache: %w", apistatus.ErrContainerNotFound)
	}},
	{"not found (pointer to the status)", p47Definitive, func() error { return new(apistatus.ContainerNotFound) }},
	{"network error", p47Transient, func() error { return errors.New("rpc error: connection refused") }},
	{"context deadline exceeded", p47Transient, func() error { return context.DeadlineExceeded }},
	{"wrapped context deadline exceeded", p47Transient, func() error {
		return fmt.Errorf("invoke contract: %w", context.DeadlineExceeded)
	}},
	{"context canceled", p47Transient, func() error { return context.Canceled }},
	{"error whose text says 'container not found'", p47Transient, func() error { return errors.New("invoke contract: container not found") }},
	{"error whose text equals the not-found status text", p47Transient, func() error { return p47TextErr{apistatus.ErrContainerNotFound.Error()} }},
	{"object-not-found status", p47Transient, func() error { return apistatus.ErrObjectNotFound }},
	{"eACL-not-found status", p47Transient, func() error { return apistatus.ErrEACLNotFound }},
	{"wrapped object-not-found status", p47Transient, func() error {
		return fmt.Errorf("invoke contract: %w", apistatus.ErrObjectNotFound)
	}},
}

func p47FlavoursOf(class int) []int {
	var res []int
	for i, f := range p47Flavours {
		if f.class == class {
			res = append(res, i)
		}
	}
	return res
}

// network-map source faults
const (
	nmOK = iota
	nmEpochErr
	nmMapErr
)

type p47World struct {
	w      *world
	r      *simkit.R
	local  int
	useSvc bool
	cnrs   []cid.ID
	cnrObj []container.Container
	pols   []string

	// script of the current processing
	answers []int // flavour of the 1st, 2nd, ... container-source call
	nmFault int
	direct  int // scripted mode: flavour of the lookup result, or -1 = placement / network-map error
	dirErr  error

	// state of the network-map source
	epoch uint64
	maps  map[uint64]*netmap.NetMap
	tiny  map[uint64]bool
	last  map[int]int // class of the source's most recent answer per container

	// observations of the current processing
	asked     []int // flavours actually given
	askedCnr  []int
	nmCalls   int
	lookups   int
	lookupErr error
	deletes   []p47Delete
}

type p47Delete struct {
	addr oid.Address
	mark engine.GarbageMark
}

// container source
type p47CnrSrc struct{ x *p47World }

var _ containercore.Source = (*p47CnrSrc)(nil)

func (s *p47CnrSrc) Get(id cid.ID) (container.Container, error) {
	x := s.x
	ci := -1
	for i := range x.cnrs {
		if x.cnrs[i] == id {
			ci = i
		}
	}
	fl := 0
	if n := len(x.asked); n < len(x.answers) {
		fl = x.answers[n]
	} else if len(x.answers) > 0 {
		fl = x.answers[len(x.answers)-1]
	}
	x.asked = append(x.asked, fl)
	x.askedCnr = append(x.askedCnr, ci)
	x.last[ci] = p47Flavours[fl].class
	x.r.Logf("    container source asked for c%d -> %s", ci, p47Flavours[fl].name)
	if fl != 0 {
		x.r.Fired("source answer: " + p47Flavours[fl].name)
	}
	if err := p47Flavours[fl].err(); err != nil {
		return container.Container{}, err
	}
	if ci < 0 {
		return container.Container{}, apistatus.ErrContainerNotFound
	}
	return x.cnrObj[ci], nil
}

// network-map source
type p47NetSrc struct{ x *p47World }

func (s *p47NetSrc) Epoch() (uint64, error) {
	x := s.x
	x.nmCalls++
	if x.nmFault == nmEpochErr {
		x.r.Fired("network-map source: epoch read fails")
		return 0, errors.New("simulated FS chain error: epoch not found in the cache")
	}
	return x.epoch, nil
}

func (s *p47NetSrc) GetNetMapByEpoch(e uint64) (*netmap.NetMap, error) {
	x := s.x
	x.nmCalls++
	if x.nmFault == nmMapErr {
		x.r.Fired("network-map source: map read fails")
		return nil, errors.New("simulated FS chain error: network map not found")
	}
	nm := x.maps[e]
	if nm == nil {
		return nil, errors.New("simulated FS chain error: no such epoch")
	}
	if x.tiny[e] {
		x.r.Fired("network map too small for the policy")
	}
	return nm, nil
}

func (s *p47NetSrc) NetMap() (*netmap.NetMap, error) { return s.GetNetMapByEpoch(s.x.epoch) }

// the policer's Network
type p47Net struct {
	x     *p47World
	inner *simNet
	svc   *placementsvc.Service
}

func (n *p47Net) IsLocalNodeInNetmap() bool             { return n.inner.IsLocalNodeInNetmap() }
func (n *p47Net) IsLocalNodePublicKey(k []byte) bool    { return n.inner.IsLocalNodePublicKey(k) }
func (n *p47Net) GetNodesForObject(addr oid.Address) ([][]netmap.NodeInfo, []uint, []iec.Rule, error) {
	x := n.x
	x.lookups++
	var (
		nn  [][]netmap.NodeInfo
		rep []uint
		ec  []iec.Rule
		err error
	)
	switch {
	case x.useSvc:
		nn, rep, ec, err = n.svc.GetNodesForObject(addr)
	case x.direct == 0:
		nn, rep, ec, err = n.inner.GetNodesForObject(addr)
	case x.direct > 0:
		fl := x.direct
		x.asked = append(x.asked, fl)
		x.r.Fired("source answer: " + p47Flavours[fl].name)
		x.r.Logf("    container source (behind the scripted lookup) -> %s", p47Flavours[fl].name)
		// (what the real placement service does with the source's error)
		err = fmt.Errorf("select container nodes for current epoch #%d: %w", x.epoch, fmt.Errorf("read container by ID: %w", p47Flavours[fl].err()))
	default:
		err = x.dirErr
	}
	x.lookupErr = err
	if err != nil {
		s := err.Error()
		if len(s) > 150 {
			s = s[:150]
		}
		x.r.Logf("    policy lookup failed: %s", s)
	} else {
		x.r.Logf("    policy lookup ok: %d node lists", len(nn))
	}
	return nn, rep, ec, err
}

// recording local storage
type p47Local struct {
	*simLocal
	x *p47World
}

func (l *p47Local) Delete(ctx context.Context, addr oid.Address, mark engine.GarbageMark) error {
	l.x.deletes = append(l.x.deletes, p47Delete{addr, mark})
	return l.simLocal.Delete(ctx, addr, mark)
}

func (x *p47World) netmapFor(e uint64) {
	if x.maps[e] != nil {
		return
	}
	w := x.w
	var nodes []netmap.NodeInfo
	tiny := x.r.Bool(12)
	for i := range w.nodes {
		if tiny && i != x.local {
			continue
		}
		nodes = append(nodes, w.nodeInfo(i))
	}
	var nm netmap.NetMap
	nm.SetEpoch(e)
	nm.SetNodes(nodes)
	x.maps[e] = &nm
	x.tiny[e] = tiny
	x.r.Logf("network map of epoch %d: %d nodes", e, len(nodes))
}

func runC47p(r *simkit.R) {
	n := 3 + r.Intn(4)
	w := newWorld(r, n)
	w.headTimeout = []time.Duration{5 * time.Second, time.Second}[r.Intn(2)]
	w.putTimeout = []time.Duration{10 * time.Second, time.Second}[r.Intn(2)]
	local := r.Intn(n)
	fl := r.Intn(3)
	w.faultsOn = fl > 0
	w.flipPct = 0
	w.localErrPct = []int{0, 0, 12}[fl]
	x := &p47World{w: w, r: r, local: local, maps: map[uint64]*netmap.NetMap{}, tiny: map[uint64]bool{}, last: map[int]int{}}
	x.useSvc = r.Bool(50)
	x.epoch = uint64(1 + r.Intn(3))
	nc := 2 + r.Intn(2)
	localOutside := !x.useSvc && r.Bool(20)

	var eligible []int
	for i := 0; i < n; i++ {
		if i != local || !localOutside {
			eligible = append(eligible, i)
		}
	}
	var tpls []*policyTpl
	for ci := 0; ci < nc; ci++ {
		var id cid.ID
		for j := range id {
			id[j] = byte(11*j + 3 + 37*ci)
		}
		x.cnrs = append(x.cnrs, id)
		copies := 1 + r.Intn(2)
		tpl := &policyTpl{copies: []uint{uint(copies)}}
		pol := fmt.Sprintf("REP %d", copies)
		if !x.useSvc && r.Bool(25) {
			d := min(1+r.Intn(2), len(eligible)-1)
			tpl.ecRules = append(tpl.ecRules, iec.Rule{DataPartNum: uint8(d), ParityPartNum: 1})
			pol += fmt.Sprintf(" EC %d/1", d)
		}
		var pp netmap.PlacementPolicy
		if err := pp.DecodeString(fmt.Sprintf("REP %d", copies)); err != nil {
			r.Failf("harness", "policy does not parse", "%v", err)
		}
		var c container.Container
		c.Init()
		c.SetOwner(zzOwner)
		c.SetPlacementPolicy(pp)
		x.cnrObj = append(x.cnrObj, c)
		x.pols = append(x.pols, pol)
		tpls = append(tpls, tpl)
	}

	pn := w.newPolicer(local, true, 1)
	net := &p47Net{x: x, inner: pn.net}
	if x.useSvc {
		svc, err := placementsvc.New(&p47CnrSrc{x}, &p47NetSrc{x})
		if err != nil {
			r.Failf("harness", "placement service", "%v", err)
		}
		net.svc = svc
	}
	pn.p.network = net
	pn.p.localStorage = &p47Local{simLocal: pn.st, x: x}
	me := w.nodes[local]
	mode := "scripted Network"
	if x.useSvc {
		mode = "real placement service"
	}
	r.Logf("cluster of %d nodes, local n%d (outside the containers: %v), policy lookup: %s, containers:%s; fault level %d", n, local, localOutside, mode, " "+strings.Join(x.pols, " | "), fl)

	if w.faultsOn {
		for _, nd := range w.nodes {
			if nd.idx != local {
				w.drawBehaviour(nd)
			}
		}
	}

	// local objects
	type held struct {
		o  *simObj
		ci int
	}
	var mine []held
	nobj := 2 + r.Intn(4)
	for i := 0; i < nobj; i++ {
		ci := i % nc
		if i >= nc {
			ci = r.Intn(nc)
		}
		w.cnr = x.cnrs[ci]
		tpl := tpls[ci]
		var pl *placement
		if !x.useSvc {
			pl = w.drawPlacement(tpl, eligible, 4)
		}
		var o *simObj
		if pl != nil && len(tpl.ecRules) > 0 && r.Bool(50) {
			fam := w.newECFamily(0, pl)
			j := r.Intn(len(fam))
			o = fam[j]
			list := pl.ecLists[0]
			for pi, po := range fam {
				if pi == j {
					continue
				}
				if r.Bool(70) {
					w.storeOn(w.nodes[list[nodeSeq(pi, len(fam), len(list))[0]]], po)
				}
			}
		} else {
			typ := []object.Type{object.TypeRegular, object.TypeTombstone, object.TypeLock, object.TypeLink}[r.Weighted(6, 1, 1, 1)]
			o = w.newPlain(typ, pl)
			holdPct := []int{60, 95, 10}[r.Intn(3)]
			for _, nd := range w.nodes {
				if nd.idx != local && r.Bool(holdPct) {
					w.storeOn(nd, o)
				}
			}
		}
		w.storeOn(me, o)
		me.shards[o.addr] = []string{"s0", "s1"}[:1+r.Weighted(7, 3)]
		mine = append(mine, held{o, ci})
		if pl != nil {
			r.Logf("object %s (%s) in c%d, placement%s", o.name, typeWord(o), ci, pl)
		} else {
			r.Logf("object %s (%s) in c%d", o.name, typeWord(o), ci)
		}
	}

	ctx := context.Background()
	interesting := false
	passes := 3 + r.Intn(10)
	for s := 0; s < passes; s++ {
		h := mine[r.Intn(len(mine))]
		o := h.o
		if me.store[o.addr] == nil {
			continue
		}
		r.Step()
		// script of this processing
		x.answers, x.nmFault, x.direct, x.dirErr = nil, nmOK, 0, nil
		x.asked, x.askedCnr, x.nmCalls, x.lookups, x.lookupErr, x.deletes = nil, nil, 0, 0, nil, nil
		draw := func() int {
			switch r.Weighted(5, 3, 4) {
			case 1:
				fs := p47FlavoursOf(p47Definitive)
				return fs[r.Intn(len(fs))]
			case 2:
				fs := p47FlavoursOf(p47Transient)
				return fs[r.Intn(len(fs))]
			}
			return 0
		}
		if x.useSvc {
			if r.Bool(35) {
				x.epoch++
			}
			x.netmapFor(x.epoch)
			x.answers = []int{draw()}
			if r.Bool(20) {
				x.answers = append(x.answers, draw())
			}
			x.nmFault = r.Weighted(10, 1, 1)
		} else {
			switch r.Weighted(8, 1, 1) {
			case 0:
				x.direct = draw()
			case 1:
				x.direct = -1
				x.dirErr = fmt.Errorf("select container nodes for current epoch #%d: %w", x.epoch, errors.New("not enough nodes to SELECT from: 'X'"))
				r.Fired("lookup: policy cannot be satisfied")
			case 2:
				x.direct = -1
				x.dirErr = fmt.Errorf("read network map by epoch: %w", errors.New("simulated FS chain error: network map not found"))
				r.Fired("lookup: network map read fails")
			}
		}
		if w.faultsOn && s > 0 {
			for _, nd := range w.nodes {
				if nd.idx != local && r.Bool(20) {
					w.drawBehaviour(nd)
				}
			}
		}
		a := w.awa(local, o)
		r.Op("n%d processes %s (%s in c%d, shards %v) at epoch %d; holders %v; behaviours:%s", local, o.name, typeWord(o), h.ci, a.ShardIDs, x.epoch, w.holders(o.addr), w.behaviours())
		t0 := time.Now()
		pn.p.processObject(ctx, a)
		r.AddSimTime(time.Since(t0))
		if r.Violated() {
			r.Stop()
		}

		definitive := false
		var names []string
		seen := map[string]bool{}
		for _, fl := range x.asked {
			f := p47Flavours[fl]
			if f.class == p47Definitive {
				definitive = true
			}
			if !seen[f.name] {
				seen[f.name] = true
				names = append(names, f.name)
			}
		}
		sort.Strings(names)
		if !definitive && x.lookupErr != nil && x.useSvc && len(x.asked) == 0 && x.nmFault == nmOK && !x.tiny[x.epoch] && x.last[h.ci] == p47Definitive {
			// nothing failed and the source was not asked: a layer between the policer and the source
			// answered from memory; the source's latest word about this container was "absent"
			definitive = true
			r.Probe("lookup answered from memory after a definitive not-found")
		}
		if x.lookups == 0 {
			r.Probe("object skipped before the policy lookup")
		}
		if x.useSvc && x.lookupErr == nil && len(x.asked) == 0 && x.lookups > 0 {
			r.Probe("policy served from the placement cache (container source not asked)")
		}
		if x.lookupErr != nil && !definitive {
			interesting = true
		}
		for _, d := range x.deletes {
			if d.addr != o.addr {
				r.Failf("policer-discard", "an object other than the processed one was removed", "processing %s: Delete of %s", o.name, w.name(d.addr, nil))
			}
		}
		removed := len(x.deletes) > 0
		switch {
		case removed && x.lookupErr != nil && !definitive:
			why := "the container source was not asked at all"
			if len(names) > 0 {
				why = "the container source answered only: " + strings.Join(names, "; ")
			}
			shape := "the lookup failed on the network-map / policy side"
			if len(names) > 0 {
				shape = "the lookup failed with the source's error"
			}
			r.Failf("policer-discard", "local object removed although the policy lookup failed and "+why,
				"processing %s (%s, container c%d): %d Delete call(s) (mark %d) although %s and %s; lookup error: %v", o.name, typeWord(o), h.ci, len(x.deletes), x.deletes[0].mark, shape, why, x.lookupErr)
		case removed && x.lookupErr != nil:
			r.Probe("removed because the container is gone (definitive answer)")
		case removed:
			r.Probe("removed after a successful lookup (redundancy logic, not judged here)")
		case x.lookupErr != nil && definitive:
			r.Probe("converse: reported absent but kept (" + strings.Join(names, "; ") + ")")
		case x.lookupErr != nil:
			r.Probe("lookup failed, object kept")
		}
	}
	if interesting {
		r.Nontrivial()
	}
}
