package putsvc

import "verif/simkit"

func propC24() *simkit.Property {
	return &simkit.Property{ID: "C24", Level: "exploration", Bubble: true, Rule: "stub", Run: func(r *simkit.R) {}}
}
