#!/bin/bash
# tools/trymut.sh <property> <patch.diff> [workers] [budget] [tier]
# Runs a check against a scratch worktree of /repo with a seeded bug applied; /repo is never touched.
set -u
P=$1; PATCH=$(readlink -f "$2"); W=${3:-8}; B=${4:-25}; T=${5:-quick}
D=/tmp/mutrun/$P-$$
mkdir -p /tmp/mutrun
git -C /repo worktree add --detach "$D" HEAD -q || exit 2
if ! git -C "$D" apply "$PATCH"; then echo "PATCH DOES NOT APPLY"; git -C /repo worktree remove --force "$D"; exit 2; fi
cd /verif
VERIF_REPO="$D" ./vcheck run "$P" --workers "$W" --budget "$B" --tier "$T" 2>&1 | grep -E "^OK|^VIOLATION|^INFRA|^  class=" | cut -c1-400
rc=${PIPESTATUS[0]}
git -C /repo worktree remove --force "$D"
echo "exit=$rc"
exit $rc
