//go:build verif

package object

// C04, node level: the multi-node merge of SearchV2 in Server.ProcessSearch.
//
// 2-4 container nodes.  Node 0 is the node under test: the REAL Server, entered through the real
// SearchV2Buffered handler with a request signed by the container owner (TTL 2), real ACL stack,
// real placement; its local answer comes from a real one-shard engine.  Every other container node
// is a real Server as well (own key, own one-shard engine) behind an in-memory gRPC server: the
// TTL-1 request node 0 signs and sends is verified, access-checked and answered by that node's real
// handler (local search, own cursor handling).  A REFERENCE one-shard engine holds the union of
// what the answering nodes hold.  The shard-level part of C04 lives in the engine world.

import (
	"bytes"
	"context"
	"crypto/ecdsa"
	"crypto/sha256"
	"encoding/base64"
	"errors"
	"fmt"
	"net"
	"path/filepath"
	"sort"
	"strings"
	"sync"
	"time"

	zz "github.com/nspcc-dev/neofs-node/internal/zzverif"
	clientcore "github.com/nspcc-dev/neofs-node/pkg/core/client"
	objectcore "github.com/nspcc-dev/neofs-node/pkg/core/object"
	"github.com/nspcc-dev/bbolt"
	"github.com/nspcc-dev/neofs-node/pkg/local_object_storage/blobstor/fstree"
	"github.com/nspcc-dev/neofs-node/pkg/local_object_storage/engine"
	meta "github.com/nspcc-dev/neofs-node/pkg/local_object_storage/metabase"
	"github.com/nspcc-dev/neofs-node/pkg/local_object_storage/shard"
	aclchk "github.com/nspcc-dev/neofs-node/pkg/services/object/acl"
	"github.com/nspcc-dev/neofs-sdk-go/checksum"
	"github.com/nspcc-dev/neofs-sdk-go/client"
	apistatus "github.com/nspcc-dev/neofs-sdk-go/client/status"
	"github.com/nspcc-dev/neofs-sdk-go/container/acl"
	cid "github.com/nspcc-dev/neofs-sdk-go/container/id"
	"github.com/nspcc-dev/neofs-sdk-go/eacl"
	"github.com/nspcc-dev/neofs-sdk-go/netmap"
	"github.com/nspcc-dev/neofs-sdk-go/object"
	oid "github.com/nspcc-dev/neofs-sdk-go/object/id"
	protoobject "github.com/nspcc-dev/neofs-sdk-go/proto/object"
	iprotobuf "github.com/nspcc-dev/neofs-sdk-go/proto/protobuf"
	"github.com/nspcc-dev/neofs-sdk-go/proto/refs"
	protosession "github.com/nspcc-dev/neofs-sdk-go/proto/session"
	protostatus "github.com/nspcc-dev/neofs-sdk-go/proto/status"
	sessionv2 "github.com/nspcc-dev/neofs-sdk-go/session/v2"
	"github.com/nspcc-dev/neofs-sdk-go/user"
	"github.com/nspcc-dev/neofs-sdk-go/version"
	"go.uber.org/zap"
	"google.golang.org/grpc"
	grpccodes "google.golang.org/grpc/codes"
	"google.golang.org/grpc/credentials/insecure"
	grpcstatus "google.golang.org/grpc/status"
	"google.golang.org/grpc/test/bufconn"

	"verif/simkit"
)

func propC04n() *simkit.Property {
	return &simkit.Property{
		ID: "C04", Level: "exploration", Bubble: false, TapeLimit: 6000,
		Rule: "each run = 2-4 container nodes, each a real object Server over its own real one-shard engine; 6-15 objects from a dense attribute pool (user attributes with shared prefixes and decimal integers incl. negatives of equal length and +-(2^256-1); owners, payload checksums with ties incl. values with 0x00 bytes, size, type, split ID, parent, first part, associated object, expiration) are put on 1-3 drawn nodes each, tombstones and locks on every node, garbage marks on every holder.  4-10 drawn SearchV2 queries (0-3 filters over all matchers, 0-3 requested attributes, every primary attribute) are sent to node 0's real SearchV2 handler as an owner-signed TTL-2 request and paged to exhaustion with a drawn page size, the cursor of every response fed back verbatim.  Per query the tape chooses: one node failing (transport error, deadline, error status, or a short page that still carries a cursor - all make node 0 drop that node), one node answering last, and per page the order in which the per-node result sets enter the merge.  Oracle: the concatenated pages equal, item by item (IDs, attribute values, order), the same query on a REFERENCE one-shard engine holding the union of what the answering nodes hold; no duplicates, no omissions, no empty page with a cursor, no page larger than requested, every returned cursor accepted, termination; status OK when every node answered, INCOMPLETE (with the body) when one did not.  distinct = trace digest; non-trivial = >=2 nodes answering, >=1 query with >=2 pages, >=1 object with copies on two answering nodes",
		Run:  runC04n,
		Assumptions: []string{
			"the single-engine search is the reference (its own correctness against the documented semantics is C03's subject)",
			"COMMON_PREFIX filters on Base58-encoded attributes are not generated (known finding F06 makes the single-node answer itself unreliable there)",
			"for a query with filters but no requested attributes the API fixes no order beyond 'sorted': the order of a single node (by the first filter's attribute, then ID) and the plain ID order are both accepted",
			"a failing node fails on every page of a query (the union the statement speaks about is then the same for all pages)",
			"the order in which node answers enter MergeSearchResults is chosen by the tape through a call-site seam (rules/objsvc-c04n.json); production order = goroutine completion order",
		},
		Components: map[string]string{
			"Server.SearchV2Buffered / processSearchRequest / ProcessSearch / searchOnRemoteNode / searchOnRemoteAddress of node 0": "real (request signature verification, ACL, placement included)",
			"MergeSearchResults, CalculateCursor, PreprocessSearchQuery":                                                           "real",
			"local search of every node":        "real StorageEngine.Search over a real one-shard engine (metabase on /dev/shm)",
			"remote container nodes":            "real Server handlers (signature check, ACL, TTL-1 local search, cursor) behind an in-memory gRPC server (bufconn); failures and lateness injected in the gRPC service wrapper",
			"reference answer":                  "real one-shard engine holding the union of the answering nodes' objects, queried in one page",
			"network map, container, epoch":     "simulated FS chain of the objsvc world, real placement service",
			"order of node answers in the merge": "simulated: permutation drawn per page (seam at the MergeSearchResults call site)",
		},
	}
}

// ---------------------------------------------------------------------------------------------
// attribute pools (same ideas as the shard-level check)

var c04nUserKeys = []string{"A", "B", "N"}
var c04nStrPool = []string{"a", "ab", "abc", "abd", "b", "ba", "z", "a b", "A"}
var c04nNumPool = []string{"0", "1", "-1", "+1", "007", "-0", "10", "9", "-10", "100", "-7", "-5", "-70", "-50", "-12", "70", "50",
	"115792089237316195423570985008687907853269984665640564039457584007913129639935",
	"-115792089237316195423570985008687907853269984665640564039457584007913129639935",
	"1e3", "0x10", "1.0", "+", "-"}

// payload checksum pool: ties, values containing 0x00 bytes (the metabase's value/ID delimiter)
var c04nSumPool = func() [][32]byte {
	var res [][32]byte
	var a [32]byte // all zero
	res = append(res, a)
	var b [32]byte
	for i := range b {
		b[i] = byte(i % 2) // 00 01 00 01 ...
	}
	res = append(res, b)
	var c [32]byte
	for i := range c {
		c[i] = 0xff
	}
	res = append(res, c)
	d := sha256.Sum256([]byte("c04n"))
	d[0], d[15], d[31] = 0, 0, 0
	res = append(res, d)
	e := d
	e[31] = 1 // shares a 31-byte prefix with d
	res = append(res, e)
	return res
}()

type c04nExtra struct {
	owner int  // index into the owner pool, -1 = the universe's owner
	sum   int  // index into c04nSumPool, -1 = the payload's real checksum
	ghost bool // tombstone / lock of an object that is stored nowhere: placed like a regular object
}

const c04nGhosts = 4 // object IDs never stored: [0,2) tombstone targets, [2,4) lock targets

// c04nLayout fills the specs of objects 0..n-1 (the universe has c04nGhosts more IDs).
func c04nLayout(r *simkit.R, u *zz.Universe, n, epoch int) map[int]c04nExtra {
	next := 0
	alloc := func() int { i := next; next++; return i }
	// 0-2 split chains (two of them give two different parent / first-part / split-ID values)
	chains := 0
	if n >= 8 {
		chains = r.Intn(2)
		if n >= 10 {
			chains = r.Intn(3)
		}
	}
	for c := 0; c < chains; c++ {
		p := alloc()
		u.Specs[p] = &zz.Spec{ID: p, Cnr: 0, Kind: zz.KReg, Parent: -1, First: -1, Split: -1, Exp: -1, Size: 64, Target: -1, ECRule: -1, Virtual: true,
			Attrs: [][2]string{{"A", c04nStrPool[r.Intn(len(c04nStrPool))]}, {"N", c04nNumPool[r.Intn(len(c04nNumPool))]}}}
		if r.Bool(50) {
			fi := alloc()
			u.Specs[fi] = &zz.Spec{ID: fi, Cnr: 0, Kind: zz.KReg, Parent: -1, NoIDPa: true, First: -1, Split: -1, Exp: -1, Size: 3, Target: -1, ECRule: -1}
			la := alloc()
			u.Specs[la] = &zz.Spec{ID: la, Cnr: 0, Kind: zz.KReg, Parent: p, First: fi, Split: -1, Exp: -1, Size: 4, Target: -1, ECRule: -1}
			li := alloc()
			u.Specs[li] = &zz.Spec{ID: li, Cnr: 0, Kind: zz.KLink, Parent: p, First: fi, Split: -1, Exp: -1, Size: 8, Target: -1, ECRule: -1}
		} else {
			a := alloc()
			u.Specs[a] = &zz.Spec{ID: a, Cnr: 0, Kind: zz.KReg, Parent: -1, First: -1, Split: 7 + c, Exp: -1, Size: 3, Target: -1, ECRule: -1}
			la := alloc()
			u.Specs[la] = &zz.Spec{ID: la, Cnr: 0, Kind: zz.KReg, Parent: p, First: -1, Split: 7 + c, Exp: -1, Size: 4, Target: -1, ECRule: -1}
		}
	}
	extra := map[int]c04nExtra{}
	for id := 0; id < next; id++ {
		extra[id] = c04nExtra{owner: -1, sum: -1}
	}
	for next < n {
		id := alloc()
		s := &zz.Spec{ID: id, Cnr: 0, Parent: -1, First: -1, Split: -1, Exp: -1, Target: -1, ECRule: -1}
		ex := c04nExtra{owner: -1, sum: -1}
		switch r.Weighted(10, 1, 1, 3) {
		case 3:
			// associated-object values that differ between nodes: the target exists nowhere, so the
			// tombstone / lock has no effect on other objects and may sit on any subset of nodes
			ex.ghost = true
			s.Exp = epoch + 90
			if r.Bool(50) {
				s.Kind = zz.KTomb
				s.Target = n + r.Intn(2)
			} else {
				s.Kind = zz.KLock
				s.Target = n + 2 + r.Intn(2)
			}
		case 0:
			s.Kind = zz.KReg
			if r.Bool(35) {
				s.Exp = epoch - 1 + r.Intn(5) // one value is already expired
			}
			s.Size = r.Intn(4) * 5
			for _, k := range c04nUserKeys {
				if !r.Bool(65) {
					continue
				}
				var v string
				if k == "N" || r.Bool(25) {
					v = c04nNumPool[r.Intn(len(c04nNumPool))]
				} else {
					v = c04nStrPool[r.Intn(len(c04nStrPool))]
				}
				s.Attrs = append(s.Attrs, [2]string{k, v})
			}
			if r.Bool(50) {
				ex.owner = r.Intn(3)
			}
			if r.Bool(65) {
				ex.sum = r.Intn(len(c04nSumPool))
			}
		case 1:
			s.Kind = zz.KTomb
			s.Exp = epoch + 90
		case 2:
			s.Kind = zz.KLock
			s.Exp = epoch + 90
		}
		u.Specs[id] = s
		extra[id] = ex
	}
	for id := 0; id < n; id++ {
		s := u.Specs[id]
		if s.Kind != zz.KTomb && s.Kind != zz.KLock || extra[id].ghost {
			continue
		}
		var same []int
		for j := 0; j < n; j++ {
			if j != id && u.Specs[j].Kind == zz.KReg && !u.Specs[j].Virtual && u.Specs[j].Parent < 0 {
				same = append(same, j)
			}
		}
		if len(same) == 0 {
			s.Kind = zz.KReg
			continue
		}
		s.Target = same[r.Intn(len(same))]
	}
	return extra
}

type c04nFilter struct {
	key string
	op  object.SearchMatchType
	val string
}

func (f c04nFilter) String() string { return fmt.Sprintf("%s %v %q", f.key, f.op, f.val) }

var c04nB58Keys = map[string]bool{object.FilterOwnerID: true, object.FilterParentID: true, object.FilterFirstSplitObject: true, object.AttributeAssociatedObject: true}

func c04nHeaderAttrs(hdr *object.Object) map[string]string {
	m := map[string]string{}
	for _, a := range hdr.Attributes() {
		m[a.Key()] = a.Value()
	}
	m[object.FilterOwnerID] = hdr.Owner().String()
	m[object.FilterType] = hdr.Type().String()
	m[object.FilterPayloadSize] = fmt.Sprint(hdr.PayloadSize())
	m[object.FilterCreationEpoch] = fmt.Sprint(hdr.CreationEpoch())
	if v := hdr.Version(); v != nil {
		m[object.FilterVersion] = v.String()
	}
	if cs, ok := hdr.PayloadChecksum(); ok {
		m[object.FilterPayloadChecksum] = fmt.Sprintf("%x", cs.Value())
	}
	if id := hdr.GetParentID(); !id.IsZero() {
		m[object.FilterParentID] = id.String()
	}
	if id := hdr.GetFirstID(); !id.IsZero() {
		m[object.FilterFirstSplitObject] = id.String()
	}
	if sid := hdr.SplitID(); sid != nil {
		m[object.FilterSplitID] = sid.String()
	}
	if id := hdr.AssociatedObject(); !id.IsZero() {
		m[object.AttributeAssociatedObject] = id.String()
	}
	return m
}

func c04nDrawQuery(r *simkit.R, present map[string][]string) ([]c04nFilter, []string) {
	sysKeys := []string{object.FilterVersion, object.FilterOwnerID, object.FilterType, object.FilterCreationEpoch, object.FilterPayloadSize,
		object.FilterPayloadChecksum, object.FilterSplitID, object.FilterFirstSplitObject, object.FilterParentID, object.FilterRoot, object.FilterPhysical,
		object.AttributeExpirationEpoch, object.AttributeAssociatedObject}
	nf := r.Intn(4)
	var fs []c04nFilter
	for i := 0; i < nf; i++ {
		var key string
		if i > 0 && r.Bool(25) {
			key = fs[0].key
		} else if i == 0 && r.Bool(30) {
			// primary attributes whose index form differs from their text form
			hard := []string{object.FilterOwnerID, object.FilterPayloadChecksum, object.FilterSplitID, object.FilterFirstSplitObject, object.FilterParentID, object.AttributeAssociatedObject}
			key = hard[r.Intn(len(hard))]
		} else if r.Bool(50) {
			key = c04nUserKeys[r.Intn(len(c04nUserKeys))]
		} else {
			key = sysKeys[r.Intn(len(sysKeys))]
		}
		if key == object.FilterRoot || key == object.FilterPhysical {
			fs = append(fs, c04nFilter{key: key})
			continue
		}
		op := []object.SearchMatchType{object.MatchStringNotEqual, object.MatchStringEqual, object.MatchCommonPrefix, object.MatchNotPresent,
			object.MatchNumGT, object.MatchNumGE, object.MatchNumLT, object.MatchNumLE}[r.Intn(8)]
		if op == object.MatchNotPresent && strings.HasPrefix(key, "$Object:") {
			op = object.MatchStringNotEqual
		}
		if op == object.MatchCommonPrefix && c04nB58Keys[key] {
			op = object.MatchStringNotEqual // (F06 domain: not generated)
		}
		var val string
		switch {
		case op == object.MatchNotPresent:
		case len(present[key]) > 0 && r.Bool(55):
			val = present[key][r.Intn(len(present[key]))]
			if op == object.MatchCommonPrefix && len(val) > 1 && r.Bool(60) {
				val = val[:1+r.Intn(len(val)-1)]
			}
		case objectcore.IsIntegerSearchOp(op) || r.Bool(40):
			val = c04nNumPool[r.Intn(len(c04nNumPool))]
		default:
			val = c04nStrPool[r.Intn(len(c04nStrPool))]
		}
		fs = append(fs, c04nFilter{key: key, op: op, val: val})
	}
	var attrs []string
	if len(fs) > 0 && r.Bool(75) {
		attrs = append(attrs, fs[0].key)
		for i, na := 0, r.Intn(3); i < na; i++ {
			var k string
			if r.Bool(60) {
				k = c04nUserKeys[r.Intn(len(c04nUserKeys))]
			} else {
				k = sysKeys[r.Intn(len(sysKeys))]
			}
			dup := false
			for _, a := range attrs {
				dup = dup || a == k
			}
			if !dup {
				attrs = append(attrs, k)
			}
		}
	}
	return fs, attrs
}

func c04nSig(fs []c04nFilter, attrs []string, what string) string {
	prim, op := "-", "-"
	if len(fs) > 0 {
		prim = fs[0].key
		op = fs[0].op.String()
		if prim != object.FilterRoot && prim != object.FilterPhysical && !strings.HasPrefix(prim, "$Object:") && prim != object.AttributeExpirationEpoch && prim != object.AttributeAssociatedObject {
			prim = "user-attribute"
		}
	}
	return fmt.Sprintf("node merge: %s [primary=%s op=%s attrs=%d]", what, prim, op, len(attrs))
}

// ---------------------------------------------------------------------------------------------
// the nodes

const (
	c04nFaultNone        = iota
	c04nFaultUnavailable // transport error
	c04nFaultDeadline    // the node answers after the caller's deadline (the caller sees DEADLINE_EXCEEDED)
	c04nFaultStatus      // the node answers with an error status
	c04nFaultShortMore   // fewer items than requested, yet a cursor
)

var c04nFaultNames = []string{"none", "node unavailable (transport error)", "node answers after the deadline", "node answers with an error status", "node returns a short page with a cursor"}

type c04nNode struct {
	idx int
	eng *engine.StorageEngine
	srv *Server
	rpc rpcInfo // the node's SearchV2 entry point
}

// c04nRequest is the per-request script the node fakes follow.
type c04nRequest struct {
	faultNode int // -1: none
	faultKind int
	slowNode  int // -1: none; this node answers after all the others
	others    int // how many other nodes the slow one waits for
	mu        sync.Mutex
	done      int
	allDone   chan struct{}
	contacted map[int]int
	badTTL    bool
	slowGaveUp bool
	fired     bool
}

func (q *c04nRequest) enter(node int, ttl uint32) {
	q.mu.Lock()
	q.contacted[node]++
	if node != 0 && ttl != 1 {
		q.badTTL = true
	}
	q.mu.Unlock()
	if node == q.slowNode {
		select {
		case <-q.allDone:
		case <-time.After(3 * time.Second):
			q.mu.Lock()
			q.slowGaveUp = true
			q.mu.Unlock()
		}
	}
}

func (q *c04nRequest) leave(node int) {
	if node == q.slowNode {
		return
	}
	q.mu.Lock()
	q.done++
	if q.done == q.others {
		close(q.allDone)
	}
	q.mu.Unlock()
}

type c04nWorld struct {
	mu    sync.Mutex
	nodes []*c04nNode
	req   *c04nRequest
}

func (w *c04nWorld) current() *c04nRequest {
	w.mu.Lock()
	defer w.mu.Unlock()
	return w.req
}

var (
	c04nOnce  sync.Once
	c04nConns [nodeCount]*grpc.ClientConn // connection to remote node i (process-wide, in-memory)
	c04nCur   struct {
		sync.Mutex
		w *c04nWorld
	}
)

func c04nCurrent() *c04nWorld {
	c04nCur.Lock()
	defer c04nCur.Unlock()
	return c04nCur.w
}

func c04nSetCurrent(w *c04nWorld) {
	c04nCur.Lock()
	c04nCur.w = w
	c04nCur.Unlock()
}

// c04nSvc is the gRPC face of remote node idx.
type c04nSvc struct {
	protoobject.UnimplementedObjectServiceServer
	idx int
}

func (s c04nSvc) SearchV2(ctx context.Context, req *protoobject.SearchV2Request) (*protoobject.SearchV2Response, error) {
	w := c04nCurrent()
	if w == nil || s.idx >= len(w.nodes) {
		return nil, grpcstatus.Error(grpccodes.Unavailable, "no such node in the current world")
	}
	q := w.current()
	if q == nil {
		return nil, grpcstatus.Error(grpccodes.Unavailable, "no request in flight")
	}
	q.enter(s.idx, req.GetMetaHeader().GetTtl())
	defer q.leave(s.idx)
	kind := c04nFaultNone
	if q.faultNode == s.idx {
		kind = q.faultKind
		q.mu.Lock()
		q.fired = true
		q.mu.Unlock()
	}
	switch kind {
	case c04nFaultUnavailable:
		return nil, grpcstatus.Error(grpccodes.Unavailable, "simulated: node is down")
	case c04nFaultDeadline:
		return nil, grpcstatus.Error(grpccodes.DeadlineExceeded, "simulated: answer arrived after the deadline")
	case c04nFaultStatus:
		return &protoobject.SearchV2Response{MetaHeader: statusMeta(errors.New("simulated: local storage failure"))}, nil
	}
	// the node's real handler answers
	out := callRPC(ctx, w.nodes[s.idx].rpc, req)
	if out.rpcErr != nil {
		return nil, out.rpcErr
	}
	resp := out.resp.(*protoobject.SearchV2Response)
	if kind == c04nFaultShortMore {
		if resp.Body == nil {
			resp.Body = new(protoobject.SearchV2Response_Body)
		}
		if n := len(resp.Body.Result); n > 0 {
			if resp.Body.Cursor == "" {
				resp.Body.Cursor = base64.StdEncoding.EncodeToString(resp.Body.Result[n-1].Id.GetValue())
			}
			resp.Body.Result = resp.Body.Result[:n-1]
		} else {
			resp.Body.Cursor = base64.StdEncoding.EncodeToString(make([]byte, 32))
		}
		if uint32(len(resp.Body.Result)) >= req.GetBody().GetCount() {
			panic("c04n harness: short page is not short")
		}
	}
	return resp, nil
}

func c04nConnections() {
	c04nOnce.Do(func() {
		for i := 1; i < nodeCount; i++ {
			lis := bufconn.Listen(256 << 10)
			srv := grpc.NewServer(grpc.ForceServerCodecV2(iprotobuf.BufferedCodec{}))
			protoobject.RegisterObjectServiceServer(srv, c04nSvc{idx: i})
			go func() { _ = srv.Serve(lis) }()
			c, err := grpc.NewClient(fmt.Sprintf("passthrough:///verif-c04n-node%d", i),
				grpc.WithContextDialer(func(ctx context.Context, _ string) (net.Conn, error) { return lis.DialContext(ctx) }),
				grpc.WithTransportCredentials(insecure.NewCredentials()))
			if err != nil {
				panic(err)
			}
			c04nConns[i] = c
		}
	})
}

// c04nClients is node 0's ClientConstructor: a network-map entry is resolved to the in-memory
// connection of the node with that public key.
type c04nClients struct{ chain *simChain }

func (x c04nClients) Get(_ context.Context, ni netmap.NodeInfo) (clientcore.MultiAddressClient, error) {
	i := x.chain.nodeIndex(ni.PublicKey())
	if i <= 0 || c04nConns[i] == nil {
		return nil, fmt.Errorf("c04n harness: no connection to node with key %x", ni.PublicKey())
	}
	return &c04nConn{conn: c04nConns[i]}, nil
}

type c04nConn struct {
	clientcore.Client // nil: typed SDK calls are not used on the search path (a call panics => infra)
	conn              *grpc.ClientConn
}

func (x *c04nConn) ForAnyGRPCConn(ctx context.Context, f func(context.Context, *grpc.ClientConn) error) error {
	return f(ctx, x.conn)
}
func (x *c04nConn) APIVersion() *refs.Version { return version.Current().ProtoMessage() }

// c04nEngine makes a real engine with one shard (FSTree + metabase on /dev/shm).  Same as the
// world's newEngine, but without the recording blob proxy and with a metabase mapping large
// enough never to be re-mapped (re-mapping dominated the run time).
func c04nEngine(dir string, ep interface{ CurrentEpoch() uint64 }) *engine.StorageEngine {
	fst := fstree.New(fstree.WithPath(filepath.Join(dir, "blob")), fstree.WithDepth(1), fstree.WithPerm(0o700),
		fstree.WithCombinedCountLimit(1), fstree.WithNoSync(true))
	e := engine.New()
	_, err := e.AddShard(
		shard.WithBlobstor(fst),
		shard.WithMetaBaseOptions(meta.WithPath(filepath.Join(dir, "meta.db")), meta.WithEpochState(ep),
			meta.WithBoltDBOptions(&bbolt.Options{NoSync: true, NoFreelistSync: true, Timeout: time.Second, InitialMmapSize: 4 << 20}),
			meta.WithMaxBatchSize(1), meta.WithMaxBatchDelay(time.Millisecond)),
		shard.WithContainerPayments(noPayments{}),
	)
	if err != nil {
		panic(fmt.Sprintf("c04n harness: add shard: %v", err))
	}
	if err = e.Init(); err != nil {
		panic(fmt.Sprintf("c04n harness: engine init: %v", err))
	}
	return e
}

// c04nStorage is a node's Storage the way cmd/neofs-node wires it: SearchObjects = engine.Search.
type c04nStorage struct {
	node int
	eng  *engine.StorageEngine
}

func (x *c04nStorage) VerifyAndStoreObjectLocally(context.Context, object.Object) error {
	return errors.New("c04n harness: not a storage for writes")
}

func (x *c04nStorage) SearchObjects(ctx context.Context, cnr cid.ID, fs []objectcore.SearchFilter, attrs []string, cursor *objectcore.SearchCursor, count uint16) ([]client.SearchResultItem, []byte, error) {
	if x.node == 0 {
		// node 0's own search is one of the merged answers: it follows the request script too
		if w := c04nCurrent(); w != nil {
			if q := w.current(); q != nil {
				q.enter(0, 0)
				defer q.leave(0)
				if q.faultNode == 0 {
					q.mu.Lock()
					q.fired = true
					q.mu.Unlock()
					return nil, nil, errors.New("simulated: local storage failure")
				}
			}
		}
	}
	return x.eng.Search(ctx, cnr, fs, attrs, cursor, count)
}

func (x *c04nStorage) GetSessionPrivateKey(user.ID) (ecdsa.PrivateKey, error) {
	return ecdsa.PrivateKey{}, apistatus.ErrSessionTokenNotFound
}

func (x *c04nStorage) GetSessionV2PrivateKey([]sessionv2.Target) (ecdsa.PrivateKey, error) {
	return ecdsa.PrivateKey{}, apistatus.ErrSessionTokenNotFound
}

// ---------------------------------------------------------------------------------------------

func runC04n(r *simkit.R) {
	c04nConnections()
	const epoch = 10
	ow := newObjWorld(r, worldCfg{epoch: epoch, withEngine: false})
	nNodes := 2 + r.Intn(3)
	nobj := 6 + r.Intn(10)
	online := make([]bool, nodeCount)
	members := map[int][]bool{0: make([]bool, nodeCount)}
	for i := 0; i < nodeCount; i++ {
		online[i] = true
		members[0][i] = i < nNodes
	}
	for e := uint64(epoch - 2); e <= epoch+1; e++ {
		ow.chain.setEpochMembership(e, online, members)
	}
	cnr := ow.addContainer(0, acl.Private)
	sc := serverChain{chainContainers{ow.chain}, ow.chain}
	checker := aclchk.NewChecker(new(aclchk.CheckerPrm).
		SetEACLSource(chainContainers{ow.chain}).
		SetValidator(eacl.NewValidator()).
		SetLocalStorage(ow.eng).
		SetHeaderSource(noHeaders{}),
	)
	w := &c04nWorld{}
	for i := 0; i < nNodes; i++ {
		eng := c04nEngine(filepath.Join(r.Dir, fmt.Sprintf("node%d", i)), sc)
		r.OnCleanup(func() { _ = eng.Close() })
		srv := New(ow.handlers, sc, &c04nStorage{node: i, eng: eng}, processMeta(), ow.nodes[i].ecdsa(), nopMetricsV{},
			checker, ow.aclSvc, c04nClients{ow.chain}, zap.NewNop())
		n := &c04nNode{idx: i, eng: eng, srv: srv}
		for _, info := range enumerateRPCs(srv) {
			if info.name == "SearchV2" {
				n.rpc = info
			}
		}
		if !n.rpc.method.IsValid() {
			panic("c04n harness: the Server has no SearchV2 entry point")
		}
		w.nodes = append(w.nodes, n)
	}
	c04nSetCurrent(w)
	r.OnCleanup(func() { c04nSetCurrent(nil) })

	// order of the node answers in the merge: canonical order first (so that the goroutine
	// completion order does not matter), then the permutation drawn for the page
	var mergePerm []int
	var mergeSets int
	hook := func(sets [][]client.SearchResultItem, mores []bool) {
		n := len(sets)
		mergeSets = n
		keys := make([]string, n)
		for i := range sets {
			var b strings.Builder
			for _, it := range sets[i] {
				b.Write(it.ID[:])
				for _, a := range it.Attributes {
					b.WriteString(a)
					b.WriteByte(0)
				}
				b.WriteByte(1)
			}
			fmt.Fprintf(&b, "|%v", mores[i])
			keys[i] = b.String()
		}
		ord := make([]int, n)
		for i := range ord {
			ord[i] = i
		}
		sort.SliceStable(ord, func(a, b int) bool { return keys[ord[a]] < keys[ord[b]] })
		var pos []int
		for _, p := range mergePerm {
			if p < n {
				pos = append(pos, p)
			}
		}
		for len(pos) < n {
			pos = append(pos, len(pos))
		}
		ns := make([][]client.SearchResultItem, n)
		nm := make([]bool, n)
		for i := 0; i < n; i++ {
			ns[i], nm[i] = sets[ord[pos[i]]], mores[ord[pos[i]]]
		}
		copy(sets, ns)
		copy(mores, nm)
	}
	zzverifMergeOrder.Store(&hook)
	r.OnCleanup(func() { zzverifMergeOrder.Store(nil) })

	// corpus
	u := zz.NewUniverse(ow.seed, 1, nobj+c04nGhosts)
	u.Cnrs[0] = cnr
	extra := c04nLayout(r, u, nobj, epoch)
	owners := []user.ID{ow.owner.id, ow.other.id, ow.alien.id}
	build := func(id int) *object.Object {
		obj := u.Build(u.Specs[id])
		ex := extra[id]
		if ex.owner >= 0 {
			obj.SetOwner(owners[ex.owner])
		}
		if ex.sum >= 0 {
			obj.SetPayloadChecksum(checksum.NewSHA256(c04nSumPool[ex.sum]))
		}
		return obj
	}
	r.Logf("nodes=%d objects=%d", nNodes, nobj)
	for id := 0; id < nobj; id++ {
		r.Logf("  spec %s owner=%d sum=%d ghost-target=%v", u.Specs[id], extra[id].owner, extra[id].sum, extra[id].ghost)
	}
	faultNode := -1
	if r.Bool(40) {
		faultNode = r.Intn(nNodes)
	}
	ctx := context.Background()
	holders := map[int][]int{}
	order := r.Perm(nobj)
	for _, id := range order {
		sp := u.Specs[id]
		if sp.Virtual {
			continue
		}
		obj := build(id)
		var on []int
		if (sp.Kind == zz.KTomb || sp.Kind == zz.KLock) && !extra[id].ghost {
			for i := 0; i < nNodes; i++ {
				on = append(on, i)
			}
		} else {
			for i := 0; i < nNodes && len(on) < 3; i++ {
				if r.Bool(40) {
					on = append(on, i)
				}
			}
			if len(on) == 0 {
				on = []int{r.Intn(nNodes)}
			}
		}
		for _, i := range on {
			err := w.nodes[i].eng.Put(ctx, obj, nil)
			r.Logf("  populate o%d on node%d -> %v", id, i, c04nErrS(err))
			if err == nil {
				holders[id] = append(holders[id], i)
			}
		}
	}
	var marked []int
	for k, m := 0, r.Intn(3); k < m; k++ {
		id := r.Intn(nobj)
		if len(holders[id]) == 0 {
			continue
		}
		for _, i := range holders[id] {
			_ = w.nodes[i].eng.Delete(ctx, u.Addr(0, id), engine.GarbageMarkDefault)
		}
		marked = append(marked, id)
		r.Logf("  garbage mark o%d on every holder", id)
	}

	// reference engines, one per answering set that occurs (all nodes / all but the faulty one)
	type refEngine struct {
		eng     *engine.StorageEngine
		overlap bool
		nodes   int
	}
	refs := map[int]*refEngine{}
	reference := func(without int) *refEngine {
		if re, ok := refs[without]; ok {
			return re
		}
		eng := c04nEngine(filepath.Join(r.Dir, fmt.Sprintf("ref-without%d", without)), sc)
		r.OnCleanup(func() { _ = eng.Close() })
		re := &refEngine{eng: eng, nodes: nNodes}
		if without >= 0 {
			re.nodes--
		}
		onRef := map[int]bool{}
		for _, id := range order {
			cnt := 0
			for _, i := range holders[id] {
				if i != without {
					cnt++
				}
			}
			if cnt == 0 {
				continue
			}
			if cnt > 1 && u.Specs[id].Kind != zz.KTomb && u.Specs[id].Kind != zz.KLock {
				re.overlap = true
			}
			if err := eng.Put(ctx, build(id), nil); err != nil {
				r.Failf("infra", "reference put", "reference put o%d: %v", id, err)
			}
			onRef[id] = true
		}
		for _, id := range marked {
			if onRef[id] {
				_ = eng.Delete(ctx, u.Addr(0, id), engine.GarbageMarkDefault)
			}
		}
		refs[without] = re
		return re
	}
	reference(-1)

	present := map[string][]string{}
	for id := 0; id < nobj; id++ {
		if len(holders[id]) == 0 {
			continue
		}
		for k, v := range c04nHeaderAttrs(build(id)) {
			present[k] = append(present[k], v)
		}
	}
	for k := range present {
		sort.Strings(present[k])
	}

	idx := func(items []client.SearchResultItem) []int {
		var out []int
		for _, it := range items {
			out = append(out, u.IDIndex(it.ID))
		}
		return out
	}
	signer := ow.owner.signer(0)
	nontrivial := false
	nq := 4 + r.Intn(7)
	for qn := 0; qn < nq && !r.Violated(); qn++ {
		r.Step()
		fs, attrs := c04nDrawQuery(r, present)
		count := uint32(1 + r.Intn(5))
		if r.Bool(12) {
			count = uint32(nobj + 1)
		}
		fNode, fKind := -1, c04nFaultNone
		if faultNode >= 0 && r.Bool(50) {
			fNode = faultNode
			fKind = 1 + r.Intn(4)
			if fNode == 0 {
				fKind = c04nFaultStatus // node 0's own storage can only fail
			}
		}
		slow := -1
		if r.Bool(20) {
			slow = r.Intn(nNodes)
		}
		var sdk object.SearchFilters
		for _, f := range fs {
			switch f.key {
			case object.FilterRoot:
				sdk.AddRootFilter()
			case object.FilterPhysical:
				sdk.AddPhyFilter()
			default:
				sdk.AddFilter(f.key, f.val, f.op)
			}
		}
		desc := fmt.Sprintf("query filters=%v attrs=%v count=%d fault=%s", fs, attrs, count, c04nFaultNames[fKind])
		if fNode >= 0 {
			desc += fmt.Sprintf("@node%d", fNode)
		}
		if slow >= 0 {
			desc += fmt.Sprintf(" last=node%d", slow)
		}

		effAttrs := attrs
		if len(attrs) == 0 && len(fs) > 0 {
			effAttrs = []string{fs[0].key} // what a single node does with such a query
		}
		_, _, perr := objectcore.PreprocessSearchQuery(sdk, effAttrs, "")
		refRejected := perr != nil && !errors.Is(perr, objectcore.ErrUnreachableQuery)
		// reference: the union of the answering nodes, one big page
		var want []client.SearchResultItem
		var re *refEngine
		refSearch := func(without int) {
			re = reference(without)
			cursor := ""
			for range 50 {
				ofs, cur, err := objectcore.PreprocessSearchQuery(sdk, effAttrs, cursor)
				if err != nil {
					if !errors.Is(err, objectcore.ErrUnreachableQuery) {
						r.Failf("infra", "reference preprocessing failed", "%s: %v", desc, err)
					}
					return
				}
				res, nc, err := re.eng.Search(ctx, cnr, ofs, effAttrs, cur, uint16(nobj+5))
				if err != nil {
					r.Failf("infra", "reference search failed", "%s: reference search: %v", desc, err)
				}
				want = append(want, res...)
				if len(nc) == 0 {
					return
				}
				cursor = base64.StdEncoding.EncodeToString(nc)
			}
		}

		var got []client.SearchResultItem
		pages, failedPages := 0, 0
		cursor := ""
		rejected := false
		var fail [3]string
		for fail[0] == "" {
			q := &c04nRequest{faultNode: fNode, faultKind: fKind, slowNode: slow, others: nNodes - 1, allDone: make(chan struct{}), contacted: map[int]int{}}
			if q.others == 0 {
				close(q.allDone)
			}
			mergePerm = r.Perm(nNodes)
			mergeSets = -1
			w.mu.Lock()
			w.req = q
			w.mu.Unlock()
			req := &protoobject.SearchV2Request{
				Body: &protoobject.SearchV2Request_Body{ContainerId: cnr.ProtoMessage(), Version: 1, Filters: sdk.ProtoMessage(), Cursor: cursor, Count: count, Attributes: attrs},
				MetaHeader: &protosession.RequestMetaHeader{Version: version.Current().ProtoMessage(), Ttl: 2},
			}
			req.VerifyHeader = signRequest(signer, req)
			out := callRPC(ctx, w.nodes[0].rpc, req)
			w.mu.Lock()
			w.req = nil
			w.mu.Unlock()
			q.mu.Lock()
			contacted, badTTL, gaveUp, fired := q.contacted, q.badTTL, q.slowGaveUp, q.fired
			q.mu.Unlock()
			if gaveUp {
				r.Failf("infra", "slow node gave up waiting", "%s: the late node waited 3 s for the other nodes' answers", desc)
			}
			if badTTL {
				r.Probe("node 0 forwarded a search with TTL != 1")
			}
			if out.rpcErr != nil {
				fail = [3]string{"search-error", c04nSig(fs, attrs, "SearchV2 fails with an RPC error"), out.rpcErr.Error()}
				break
			}
			resp := out.resp.(*protoobject.SearchV2Response)
			if out.code != 0 && out.code != protostatus.IncompleteSuccess {
				if pages == 0 && refRejected {
					rejected = true
					break
				}
				if pages == 0 {
					fail = [3]string{"search-error", c04nSig(fs, attrs, "SearchV2 fails on a valid query"), fmt.Sprintf("status %s: %s", codeName(out.code), out.msg)}
				} else {
					fail = [3]string{"cursor", c04nSig(fs, attrs, "cursor returned by the node is rejected on the next request"), fmt.Sprintf("page %d: cursor %q: status %s: %s", pages, cursor, codeName(out.code), out.msg)}
				}
				break
			}
			if refRejected {
				// the node served a query the reference preprocessing rejects: nothing to compare with
				r.Probe("node serves a query the reference rejects")
				rejected = true
				break
			}
			pages++
			// every container node is asked exactly once per page
			for i := 0; i < nNodes; i++ {
				if contacted[i] != 1 && len(fs) > 0 || contacted[i] > 1 {
					r.Logf("  page %d: node%d contacted %d times", pages, i, contacted[i])
				}
			}
			nodeFailed := fNode >= 0 && fired
			if nodeFailed {
				failedPages++
				r.Fired(c04nFaultNames[fKind])
			}
			if slow >= 0 {
				r.Fired("one node answers after all the others")
			}
			if mergeSets >= 2 {
				r.Fired("order of node answers in the merge drawn from the tape")
			}
			switch {
			case nodeFailed && out.code != protostatus.IncompleteSuccess:
				fail = [3]string{"incomplete-status", "node merge: a container node failed but the response is not marked INCOMPLETE", fmt.Sprintf("page %d: status %s", pages, codeName(out.code))}
			case !nodeFailed && out.code != 0:
				fail = [3]string{"incomplete-status", "node merge: every container node answered but the response is marked INCOMPLETE", fmt.Sprintf("page %d: %s", pages, out.msg)}
			}
			if fail[0] != "" {
				break
			}
			body := resp.GetBody()
			if len(body.GetResult()) > int(count) {
				fail = [3]string{"search", "node merge: page larger than requested", fmt.Sprintf("page of %d items, requested %d", len(body.GetResult()), count)}
				break
			}
			for i, it := range body.GetResult() {
				var item client.SearchResultItem
				if it == nil || it.Id == nil || item.ID.FromProtoMessage(it.Id) != nil {
					fail = [3]string{"search", "node merge: malformed result item", fmt.Sprintf("page %d item %d", pages, i)}
					break
				}
				if len(it.Attributes) != len(attrs) {
					fail = [3]string{"search", c04nSig(fs, attrs, "item carries a wrong number of attributes"), fmt.Sprintf("page %d item %d: %d attributes, requested %d", pages, i, len(it.Attributes), len(attrs))}
					break
				}
				item.Attributes = it.Attributes
				got = append(got, item)
			}
			if fail[0] != "" {
				break
			}
			if body.GetCursor() == "" {
				break
			}
			if len(body.GetResult()) == 0 {
				fail = [3]string{"search", c04nSig(fs, attrs, "empty page with a continuation cursor"), "empty page but a cursor was returned"}
				break
			}
			if pages > 4*nobj+10 {
				fail = [3]string{"search", c04nSig(fs, attrs, "paging does not terminate"), fmt.Sprintf("%d pages", pages)}
				break
			}
			cursor = body.GetCursor()
		}
		if rejected {
			r.Op("%s -> rejected", desc)
			continue
		}
		switch {
		case failedPages == pages && pages > 0 && fNode >= 0:
			refSearch(fNode)
		case failedPages == 0:
			refSearch(-1)
		default:
			// the node that was to fail was asked on some pages only: no single union to compare with
			if fail[0] != "" {
				r.Failf(fail[0], fail[1], "%s: %s\n got so far %v", desc, fail[2], idx(got))
			}
			r.Probe("failing node asked on some pages only")
			r.Op("%s -> inconclusive", desc)
			continue
		}
		if fail[0] != "" {
			r.Failf(fail[0], fail[1], "%s: %s\n got so far %v, reference %v", desc, fail[2], idx(got), idx(want))
		}
		r.Op("%s -> %d items in %d pages (reference %d)", desc, len(got), pages, len(want))
		seen := map[oid.ID]bool{}
		for _, it := range got {
			if seen[it.ID] {
				r.Failf("search", c04nSig(fs, attrs, "duplicate across pages"), "%s: o%d returned twice; got %v, reference %v", desc, u.IDIndex(it.ID), idx(got), idx(want))
			}
			seen[it.ID] = true
		}
		same := len(got) == len(want)
		for i := 0; same && i < len(got); i++ {
			same = got[i].ID == want[i].ID
			if same && len(attrs) > 0 {
				same = strings.Join(got[i].Attributes, "\x00") == strings.Join(want[i].Attributes, "\x00")
			}
		}
		if !same && len(attrs) == 0 && len(fs) > 0 && len(got) == len(want) {
			// no attribute requested: plain ID order is a legitimate reading of the API as well
			byID := append([]client.SearchResultItem(nil), want...)
			sort.Slice(byID, func(a, b int) bool { return bytes.Compare(byID[a].ID[:], byID[b].ID[:]) < 0 })
			same = true
			for i := range got {
				same = same && got[i].ID == byID[i].ID
			}
			if same {
				r.Probe("attribute-less filtered query answered in ID order")
			}
		}
		if !same {
			what := "merged result differs from the search over the union"
			if len(got) < len(want) {
				what = "merged result omits items of the search over the union"
			} else if len(got) > len(want) {
				what = "merged result has items the search over the union does not return"
			}
			r.Failf("search", c04nSig(fs, attrs, what), "%s: node 0 (%d nodes answering, %d pages) returns %v, the single engine holding the union returns %v", desc, re.nodes, pages, idx(got), idx(want))
		}
		if pages >= 2 {
			r.Probe("query paged over >= 2 pages")
			if fNode >= 0 {
				r.Probe("paged query with a failing node")
			}
		}
		if len(attrs) == 0 && len(fs) > 0 && pages >= 2 {
			r.Probe("paged attribute-less filtered query (cursor from the forced attribute)")
		}
		if re.nodes >= 2 && pages >= 2 && re.overlap {
			nontrivial = true
		}
	}
	if nontrivial {
		r.Nontrivial()
	}
}

func c04nErrS(err error) string {
	if err == nil {
		return "ok"
	}
	s := err.Error()
	if len(s) > 80 {
		s = s[:80]
	}
	return s
}
