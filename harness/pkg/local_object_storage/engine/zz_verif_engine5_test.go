package engine

import (
	"encoding/base64"
	"errors"
	"fmt"
	"path/filepath"
	"sort"
	"strings"

	"github.com/nspcc-dev/bbolt"
	zz "github.com/nspcc-dev/neofs-node/internal/zzverif"
	"github.com/nspcc-dev/neofs-node/internal/zzverif/simfs"
	objectcore "github.com/nspcc-dev/neofs-node/pkg/core/object"
	"github.com/nspcc-dev/neofs-node/pkg/local_object_storage/blobstor/common"
	"github.com/nspcc-dev/neofs-node/pkg/local_object_storage/blobstor/fstree"
	meta "github.com/nspcc-dev/neofs-node/pkg/local_object_storage/metabase"
	"github.com/nspcc-dev/neofs-node/pkg/local_object_storage/shard"
	"github.com/nspcc-dev/neofs-node/pkg/local_object_storage/shard/mode"
	"github.com/nspcc-dev/neofs-sdk-go/client"
	"github.com/nspcc-dev/neofs-sdk-go/object"
	oid "github.com/nspcc-dev/neofs-sdk-go/object/id"
	"verif/simkit"
	"time"
)

// ---------------------------------------------------------------------------------------
// C04: merged search over several shards equals one search over their union

func propC04() *simkit.Property {
	return &simkit.Property{
		ID: "C04", Level: "exploration", Bubble: true, TapeLimit: 6000,
		Rule: "each run = an engine with 1-4 shards populated shard by shard with 6-15 objects carrying a dense attribute pool (user attributes with shared prefixes and decimal integers around 0, +-1, +-(2^256-1); system attributes: owner, payload checksum with ties, size, type, split ID, parent, first part, associated object, expiration), 1-3 copies of each object on drawn shards, tombstones and locks stored on every shard, garbage marks applied to every holder; in a quarter of the runs one shard is switched to a degraded (no-metabase) mode, which makes its Search fail.  A REFERENCE engine with a single shard holds the union of what the searchable shards hold.  4-12 drawn SearchV2 queries (0-3 filters over all matchers, 0-3 requested attributes, every primary attribute) are paged to exhaustion through StorageEngine.Search with a drawn page size, the shard-table order re-drawn before every page, the cursor returned by the engine fed back through base64 + PreprocessSearchQuery exactly as the object service does.  Oracle: the concatenated pages equal, item by item (IDs, attribute values, order), the result of the same query on the reference engine fetched in one page; no duplicates, no omissions, no empty page with a cursor, every returned cursor accepted, termination.  The query space is plain generation; the simulated part is the shard set, copy placement, shard order per page and the failing shard.  distinct = trace digest; non-trivial = >=2 shards answering, >=1 query with >=2 pages and >=1 object with copies on two shards",
		Run:  runC04,
		Assumptions: []string{"the single-shard search is the reference (its own correctness against the documented semantics is C03's subject)", "COMMON_PREFIX filters on Base58-encoded attributes are not generated (known finding F06 makes the single-shard answer itself unreliable there)", "the multi-node merge in Server.ProcessSearch is not executed here; it calls the same MergeSearchResults and CalculateCursor"},
		Components: map[string]string{
			"StorageEngine.Search, MergeSearchResults, CalculateCursor, PreprocessSearchQuery": "real",
			"Shard.Search / metabase search (bbolt) on every shard":                               "real",
			"reference answer":           "real single-shard engine holding the union of the searchable shards' objects",
			"shard-table iteration order": "simulated: permutation drawn from the tape before every page (production: Go map order)",
			"failing shard":              "simulated by switching one shard to degraded-read-only mode (its Search returns an error)",
		},
		DeadlockClass: "hang",
	}
}

var c04UserKeys = []string{"A", "B", "N"}
var c04StrPool = []string{"a", "ab", "abc", "abd", "b", "ba", "z", "a b", "A"}
var c04NumPool = []string{"0", "1", "-1", "+1", "007", "-0", "10", "9", "-10", "100", "-7", "-5", "-70", "-50", "-12", "70", "50",
	"115792089237316195423570985008687907853269984665640564039457584007913129639935",
	"-115792089237316195423570985008687907853269984665640564039457584007913129639935",
	"1e3", "0x10", "1.0", "+", "-"}

func c04Layout(r *simkit.R, u *zz.Universe) {
	n := len(u.IDs)
	next := 0
	alloc := func() int { i := next; next++; return i }
	if r.Bool(50) && n >= 8 {
		p := alloc()
		u.Specs[p] = &zz.Spec{ID: p, Cnr: 0, Kind: zz.KReg, Parent: -1, First: -1, Split: -1, Exp: -1, Size: 64, Target: -1, ECRule: -1, Virtual: true,
			Attrs: [][2]string{{"A", c04StrPool[r.Intn(len(c04StrPool))]}, {"N", c04NumPool[r.Intn(len(c04NumPool))]}}}
		if r.Bool(50) {
			fi := alloc()
			u.Specs[fi] = &zz.Spec{ID: fi, Cnr: 0, Kind: zz.KReg, Parent: -1, NoIDPa: true, First: -1, Split: -1, Exp: -1, Size: 3, Target: -1, ECRule: -1}
			la := alloc()
			u.Specs[la] = &zz.Spec{ID: la, Cnr: 0, Kind: zz.KReg, Parent: p, First: fi, Split: -1, Exp: -1, Size: 4, Target: -1, ECRule: -1}
			li := alloc()
			u.Specs[li] = &zz.Spec{ID: li, Cnr: 0, Kind: zz.KLink, Parent: p, First: fi, Split: -1, Exp: -1, Size: 8, Target: -1, ECRule: -1}
		} else {
			a := alloc()
			u.Specs[a] = &zz.Spec{ID: a, Cnr: 0, Kind: zz.KReg, Parent: -1, First: -1, Split: 7, Exp: -1, Size: 3, Target: -1, ECRule: -1}
			la := alloc()
			u.Specs[la] = &zz.Spec{ID: la, Cnr: 0, Kind: zz.KReg, Parent: p, First: -1, Split: 7, Exp: -1, Size: 4, Target: -1, ECRule: -1}
		}
	}
	for next < n {
		id := alloc()
		s := &zz.Spec{ID: id, Cnr: 0, Parent: -1, First: -1, Split: -1, Exp: -1, Target: -1, ECRule: -1}
		switch r.Weighted(10, 1, 1) {
		case 0:
			s.Kind = zz.KReg
			if r.Bool(35) {
				s.Exp = 50 + r.Intn(6)
			}
			s.Size = r.Intn(4) * 5 // (equal sizes give equal payload checksums: ties on a primary attribute)
			for _, k := range c04UserKeys {
				if !r.Bool(65) {
					continue
				}
				var v string
				if k == "N" || r.Bool(25) {
					v = c04NumPool[r.Intn(len(c04NumPool))]
				} else {
					v = c04StrPool[r.Intn(len(c04StrPool))]
				}
				s.Attrs = append(s.Attrs, [2]string{k, v})
			}
		case 1:
			s.Kind = zz.KTomb
			s.Exp = 100
		case 2:
			s.Kind = zz.KLock
			s.Exp = 100
		}
		u.Specs[id] = s
	}
	for id := 0; id < n; id++ {
		s := u.Specs[id]
		if s.Kind != zz.KTomb && s.Kind != zz.KLock {
			continue
		}
		var same []int
		for j := 0; j < n; j++ {
			if j != id && u.Specs[j].Kind == zz.KReg && !u.Specs[j].Virtual && u.Specs[j].Parent < 0 {
				same = append(same, j)
			}
		}
		if len(same) == 0 {
			s.Kind = zz.KReg
			continue
		}
		s.Target = same[r.Intn(len(same))]
	}
}

type c04Filter struct {
	key string
	op  object.SearchMatchType
	val string
}

func (f c04Filter) String() string { return fmt.Sprintf("%s %v %q", f.key, f.op, f.val) }

var c04B58Keys = map[string]bool{object.FilterOwnerID: true, object.FilterParentID: true, object.FilterFirstSplitObject: true, object.AttributeAssociatedObject: true}

func c04HeaderAttrs(hdr *object.Object) map[string]string {
	m := map[string]string{}
	for _, a := range hdr.Attributes() {
		m[a.Key()] = a.Value()
	}
	m[object.FilterOwnerID] = hdr.Owner().String()
	m[object.FilterType] = hdr.Type().String()
	m[object.FilterPayloadSize] = fmt.Sprint(hdr.PayloadSize())
	m[object.FilterCreationEpoch] = fmt.Sprint(hdr.CreationEpoch())
	if v := hdr.Version(); v != nil {
		m[object.FilterVersion] = v.String()
	}
	if cs, ok := hdr.PayloadChecksum(); ok {
		m[object.FilterPayloadChecksum] = fmt.Sprintf("%x", cs.Value())
	}
	if id := hdr.GetParentID(); !id.IsZero() {
		m[object.FilterParentID] = id.String()
	}
	if id := hdr.GetFirstID(); !id.IsZero() {
		m[object.FilterFirstSplitObject] = id.String()
	}
	if sid := hdr.SplitID(); sid != nil {
		m[object.FilterSplitID] = sid.String()
	}
	if id := hdr.AssociatedObject(); !id.IsZero() {
		m[object.AttributeAssociatedObject] = id.String()
	}
	return m
}

func c04DrawQuery(r *simkit.R, present map[string][]string) ([]c04Filter, []string) {
	sysKeys := []string{object.FilterVersion, object.FilterOwnerID, object.FilterType, object.FilterCreationEpoch, object.FilterPayloadSize,
		object.FilterPayloadChecksum, object.FilterSplitID, object.FilterFirstSplitObject, object.FilterParentID, object.FilterRoot, object.FilterPhysical,
		object.AttributeExpirationEpoch, object.AttributeAssociatedObject}
	nf := r.Intn(4)
	var fs []c04Filter
	for i := 0; i < nf; i++ {
		var key string
		if i > 0 && r.Bool(25) {
			key = fs[0].key
		} else if r.Bool(50) {
			key = c04UserKeys[r.Intn(len(c04UserKeys))]
		} else {
			key = sysKeys[r.Intn(len(sysKeys))]
		}
		if key == object.FilterRoot || key == object.FilterPhysical {
			fs = append(fs, c04Filter{key: key})
			continue
		}
		op := []object.SearchMatchType{object.MatchStringNotEqual, object.MatchStringEqual, object.MatchCommonPrefix, object.MatchNotPresent,
			object.MatchNumGT, object.MatchNumGE, object.MatchNumLT, object.MatchNumLE}[r.Intn(8)]
		if op == object.MatchNotPresent && strings.HasPrefix(key, "$Object:") {
			op = object.MatchStringNotEqual
		}
		if op == object.MatchCommonPrefix && c04B58Keys[key] {
			op = object.MatchStringNotEqual // (F06 domain: not generated)
		}
		var val string
		switch {
		case op == object.MatchNotPresent:
		case len(present[key]) > 0 && r.Bool(55):
			val = present[key][r.Intn(len(present[key]))]
			if op == object.MatchCommonPrefix && len(val) > 1 && r.Bool(60) {
				val = val[:1+r.Intn(len(val)-1)]
			}
		case objectcore.IsIntegerSearchOp(op) || r.Bool(40):
			val = c04NumPool[r.Intn(len(c04NumPool))]
		default:
			val = c04StrPool[r.Intn(len(c04StrPool))]
		}
		fs = append(fs, c04Filter{key: key, op: op, val: val})
	}
	var attrs []string
	if len(fs) > 0 && r.Bool(75) {
		attrs = append(attrs, fs[0].key)
		for i, na := 0, r.Intn(3); i < na; i++ {
			var k string
			if r.Bool(60) {
				k = c04UserKeys[r.Intn(len(c04UserKeys))]
			} else {
				k = sysKeys[r.Intn(len(sysKeys))]
			}
			dup := false
			for _, a := range attrs {
				dup = dup || a == k
			}
			if !dup {
				attrs = append(attrs, k)
			}
		}
	}
	return fs, attrs
}

func c04Sig(fs []c04Filter, attrs []string, what string) string {
	prim, op := "-", "-"
	if len(fs) > 0 {
		prim = fs[0].key
		op = fs[0].op.String()
		if prim != object.FilterRoot && prim != object.FilterPhysical && !strings.HasPrefix(prim, "$Object:") && prim != object.AttributeExpirationEpoch && prim != object.AttributeAssociatedObject {
			prim = "user-attribute"
		}
	}
	return fmt.Sprintf("%s [primary=%s op=%s attrs=%d]", what, prim, op, len(attrs))
}

func runC04(r *simkit.R) {
	cfg := drawEnCfg(r, 1, 4)
	cfg.threshold = 0
	nobj := 6 + r.Intn(10)
	w := newEnWorld(r, cfg, nobj)
	c04Layout(r, w.u)
	w.start()
	u := w.u
	r.Logf("config %s", cfg)
	for id := 0; id < nobj; id++ {
		r.Logf("  spec %s", u.Specs[id])
	}
	// the reference engine: one shard
	ref := New()
	refDir := filepath.Join(r.Dir, "ref")
	var refSh *shard.Shard
	var ierr error
	w.exclusive("ref-start", func() {
		fst := fstree.New(fstree.WithPath(filepath.Join(refDir, "blob")), fstree.WithDepth(1), fstree.WithPerm(0o700), fstree.WithCombinedCountLimit(1), fstree.WithNoSync(true))
		var rid common.ID
		rid, ierr = ref.AddShard(
			shard.WithBlobstor(fst),
			shard.WithMetaBaseOptions(meta.WithPath(filepath.Join(refDir, "meta.db")), meta.WithEpochState(w.ep), meta.WithContainers(vContainers{}),
				meta.WithBoltDBOptions(&bbolt.Options{NoSync: true, Timeout: time.Second}), meta.WithMaxBatchSize(1), meta.WithMaxBatchDelay(5*time.Millisecond)),
			shard.WithContainerPayments(vPayments{}),
		)
		if ierr == nil {
			ierr = ref.Init()
		}
		if ierr == nil {
			refSh = ref.getShard(rid.String()).Shard
		}
	})
	if ierr != nil {
		r.Failf("infra", "reference engine", "reference engine: %v", ierr)
	}
	r.OnCleanup(func() { w.exclusive("ref-close", func() { _ = ref.Close() }) })

	bad := -1
	if len(w.shards) > 1 && r.Bool(25) {
		bad = r.Intn(len(w.shards))
	}
	overlap := false
	onRef := map[int]bool{}
	holders := map[int][]int{}
	w.exclusive("populate", func() {
		for _, id := range r.Perm(nobj) {
			sp := u.Specs[id]
			if sp.Virtual {
				continue
			}
			obj := u.Build(sp)
			var on []int
			if sp.Kind == zz.KTomb || sp.Kind == zz.KLock {
				for i := range w.shards {
					on = append(on, i)
				}
			} else {
				for i := range w.shards {
					if r.Bool(40) {
						on = append(on, i)
					}
				}
				if len(on) == 0 {
					on = []int{r.Intn(len(w.shards))}
				}
			}
			healthy := 0
			for _, i := range on {
				err := w.shards[i].sh.Put(obj, nil)
				r.Logf("  populate o%d on s%d -> %v", id, i, errS(err))
				if err == nil {
					holders[id] = append(holders[id], i)
					if i != bad {
						healthy++
					}
				}
			}
			if healthy > 1 {
				overlap = true
			}
			if healthy > 0 {
				if err := refSh.Put(obj, nil); err != nil {
					r.Failf("infra", "reference put", "reference put o%d: %v", id, err)
				}
				onRef[id] = true
			}
		}
		for k, m := 0, r.Intn(3); k < m; k++ {
			id := r.Intn(nobj)
			if len(holders[id]) == 0 {
				continue
			}
			a := w.addr(id)
			for _, i := range holders[id] {
				_ = w.shards[i].sh.MarkGarbage(a.Container(), []oid.ID{a.Object()}, meta.GarbageMarkDefault)
			}
			if onRef[id] {
				_ = refSh.MarkGarbage(a.Container(), []oid.ID{a.Object()}, meta.GarbageMarkDefault)
			}
			r.Logf("  mark o%d on every holder", id)
		}
		if bad >= 0 {
			if err := w.e.SetShardMode(w.shards[bad].id, mode.DegradedReadOnly, false); err != nil {
				r.Failf("infra", "set mode", "set mode: %v", err)
			}
			r.Fired("one shard fails its Search (degraded mode)")
			r.Logf("  shard s%d switched to degraded-read-only", bad)
		}
	})

	present := map[string][]string{}
	for id := 0; id < nobj; id++ {
		if !onRef[id] {
			continue
		}
		for k, v := range c04HeaderAttrs(u.Build(u.Specs[id])) {
			present[k] = append(present[k], v)
		}
	}
	for k := range present {
		sort.Strings(present[k])
	}

	// searches run with all gates passing (no concurrency in this check): the schedule dimension
	// is the shard order, re-drawn before every page
	multiPage := false
	nq := 4 + r.Intn(9)
	for q := 0; q < nq && !r.Violated(); q++ {
		fs, attrs := c04DrawQuery(r, present)
		count := uint16(1 + r.Intn(5))
		if r.Bool(12) {
			count = uint16(nobj + 1)
		}
		var sdk object.SearchFilters
		for _, f := range fs {
			switch f.key {
			case object.FilterRoot:
				sdk.AddRootFilter()
			case object.FilterPhysical:
				sdk.AddPhyFilter()
			default:
				sdk.AddFilter(f.key, f.val, f.op)
			}
		}
		desc := fmt.Sprintf("query filters=%v attrs=%v count=%d", fs, attrs, count)
		var got, want []client.SearchResultItem
		var failure [3]string
		pages := 0
		rejected := false
		w.exclusive("search", func() {
			// reference: one big page (and whatever follows, if anything)
			cursor := ""
			for range 50 {
				ofs, cur, err := objectcore.PreprocessSearchQuery(sdk, attrs, cursor)
				if err != nil {
					rejected = true
					return
				}
				res, nc, err := ref.Search(ctxBG, u.Cnrs[0], ofs, attrs, cur, uint16(nobj+5))
				if err != nil {
					failure = [3]string{"infra", "reference search failed", err.Error()}
					return
				}
				want = append(want, res...)
				if len(nc) == 0 {
					break
				}
				cursor = base64.StdEncoding.EncodeToString(nc)
			}
			cursor = ""
			for {
				ofs, cur, err := objectcore.PreprocessSearchQuery(sdk, attrs, cursor)
				if err != nil {
					if pages == 0 && errors.Is(err, objectcore.ErrUnreachableQuery) {
						return
					}
					failure = [3]string{"cursor", c04Sig(fs, attrs, "cursor returned by the engine is rejected on the next page"), fmt.Sprintf("page %d: cursor %q rejected: %v", pages, cursor, err)}
					return
				}
				simfs.OrderSeed.Store(uint64(r.U32()) | 1<<40)
				res, nc, err := w.e.Search(ctxBG, u.Cnrs[0], ofs, attrs, cur, count)
				if err != nil {
					failure = [3]string{"search-error", c04Sig(fs, attrs, "engine Search fails on a valid query"), err.Error()}
					return
				}
				pages++
				if len(res) > int(count) {
					failure = [3]string{"search", "page larger than requested", fmt.Sprintf("page of %d items, requested %d", len(res), count)}
					return
				}
				got = append(got, res...)
				if len(nc) == 0 {
					return
				}
				if len(res) == 0 {
					failure = [3]string{"search", c04Sig(fs, attrs, "empty page with a continuation cursor"), "empty page but a cursor was returned"}
					return
				}
				if pages > 4*nobj+10 {
					failure = [3]string{"search", c04Sig(fs, attrs, "paging does not terminate"), fmt.Sprintf("%d pages", pages)}
					return
				}
				cursor = base64.StdEncoding.EncodeToString(nc)
			}
		})
		idx := func(items []client.SearchResultItem) []int {
			var out []int
			for _, it := range items {
				out = append(out, u.IDIndex(it.ID))
			}
			return out
		}
		if failure[0] != "" {
			r.Failf(failure[0], failure[1], "%s: %s\n got so far %v, reference %v", desc, failure[2], idx(got), idx(want))
		}
		if rejected {
			r.Op("%s -> rejected", desc)
			continue
		}
		r.Op("%s -> %d items in %d pages (reference %d)", desc, len(got), pages, len(want))
		if pages >= 2 {
			multiPage = true
		}
		seen := map[oid.ID]bool{}
		for _, it := range got {
			if seen[it.ID] {
				r.Failf("search", c04Sig(fs, attrs, "duplicate across pages"), "%s: o%d returned twice; got %v, reference %v", desc, u.IDIndex(it.ID), idx(got), idx(want))
			}
			seen[it.ID] = true
		}
		same := len(got) == len(want)
		for i := 0; same && i < len(got); i++ {
			same = got[i].ID == want[i].ID && strings.Join(got[i].Attributes, "\x00") == strings.Join(want[i].Attributes, "\x00")
		}
		if !same {
			what := "merged result differs from the search over the union"
			if len(got) < len(want) {
				what = "merged result omits items of the search over the union"
			} else if len(got) > len(want) {
				what = "merged result has items the search over the union does not return"
			}
			r.Failf("search", c04Sig(fs, attrs, what), "%s: engine (%d shards, %d pages) returns %v, the single shard holding the union returns %v", desc, len(w.shards), pages, idx(got), idx(want))
		}
	}
	healthyShards := len(w.shards)
	if bad >= 0 {
		healthyShards--
	}
	if healthyShards >= 2 && multiPage && overlap {
		r.Nontrivial()
	}
}
