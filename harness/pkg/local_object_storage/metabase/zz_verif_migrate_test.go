package meta

// C42: a current-format database built by a simulated history is down-converted on disk to
// format 10 or 9 (following VERSION.md), then upgraded by Open/Init with the upgrade
// interrupted at every container-source call (context cancellation, transient source error,
// or a byte copy of the file taken at that moment = crash) and resumed.  Oracle: version is
// current and every recorded view and counter is what it was before.

import (
	"context"
	"encoding/binary"
	"errors"
	"fmt"
	"path/filepath"
	"sort"
	"strings"
	"time"

	"github.com/nspcc-dev/bbolt"
	zz "github.com/nspcc-dev/neofs-node/internal/zzverif"
	objectcore "github.com/nspcc-dev/neofs-node/pkg/core/object"
	"github.com/nspcc-dev/neofs-node/pkg/local_object_storage/blobstor/common"
	cid "github.com/nspcc-dev/neofs-sdk-go/container/id"
	"github.com/nspcc-dev/neofs-sdk-go/object"
	oid "github.com/nspcc-dev/neofs-sdk-go/object/id"
	"verif/simkit"
)

func propC42() *simkit.Property {
	return &simkit.Property{
		ID: "C42", Level: "fault_enumeration", Bubble: true, TapeLimit: 3000,
		Rule: "each run = one database built by a random history (C01 universe; some runs add 1100-2400 small tombstones so that migration batches of 1000 keys are crossed), down-converted to format 10 or 9, then for EVERY k in 1..K (K = container-source calls of an uninterrupted upgrade) the upgrade is interrupted at call k by cancellation / source error / crash copy and resumed; all views before == after. distinct = (history digest, k, interruption kind); non-trivial = interrupted run whose first attempt failed and resumed",
		Run:  runMigrate,
		Assumptions: []string{"the down-converter (harness) follows VERSION.md: format 10 = Base58 associate values + homomorphic hash indexes + arbitrary counters; format 9 = additionally no per-container counters, legacy counter keys and container-volume bucket",
			"bbolt transactions are atomic; a byte copy taken between two transactions is a valid crash image (process-crash model)"},
		Components: metaComponents,
	}
}

type intrContainers struct {
	calls  int
	failAt int
	kind   int // 0 cancel, 1 error, 2 cancel (crash copy taken by caller)
	cancel context.CancelCauseFunc
	fired  bool
}

var errSimSource = errors.New("simulated container source failure")

func (c *intrContainers) Exists(cid.ID) (bool, error) {
	c.calls++
	if c.failAt > 0 && c.calls == c.failAt {
		c.fired = true
		if c.kind == 1 {
			return false, errSimSource
		}
		c.cancel(errors.New("simulated shutdown during migration"))
	}
	return true, nil
}

func snapshotViews(r *simkit.R, db *DB, u *zz.Universe, extra []oid.Address) string {
	var sb strings.Builder
	var addrs []oid.Address
	for id := range u.IDs {
		addrs = append(addrs, u.Addr(u.Specs[id].Cnr, id))
	}
	addrs = append(addrs, extra...)
	for _, a := range addrs {
		ex, err := db.Exists(a, false)
		fmt.Fprintf(&sb, "E %s %v %v\n", a.Object().String()[:6], ex, errClass(err))
		h, err := db.Get(a, false)
		if err == nil {
			fmt.Fprintf(&sb, "G %v %d %s\n", h.Type(), h.PayloadSize(), attrStr(h.Attributes()))
		} else {
			fmt.Fprintf(&sb, "G %v\n", errClass(err))
		}
		l, _ := db.IsLocked(a)
		fmt.Fprintf(&sb, "L %v\n", l)
	}
	for cn := range u.Cnrs {
		// unfiltered and associate-indexed searches, paged
		for _, mode := range []int{0, 1, 2} {
			var fs object.SearchFilters
			var attrs []string
			switch mode {
			case 1:
				fs.AddFilter(object.AttributeAssociatedObject, "", object.MatchStringNotEqual)
				attrs = []string{object.AttributeAssociatedObject, object.FilterType}
			case 2:
				fs.AddFilter(object.FilterType, "TOMBSTONE", object.MatchStringEqual)
				attrs = []string{object.FilterType, object.AttributeAssociatedObject}
			}
			cursor := ""
			n := 0
			for page := 0; page < 100; page++ {
				ofs, cur, err := objectcore.PreprocessSearchQuery(fs, attrs, cursor)
				if err != nil {
					fmt.Fprintf(&sb, "S%d c%d cursor-err %v\n", mode, cn, err)
					break
				}
				res, nc, err := db.Search(u.Cnrs[cn], ofs, attrs, cur, 700)
				if err != nil {
					fmt.Fprintf(&sb, "S%d c%d err %v\n", mode, cn, err)
					break
				}
				for _, it := range res {
					n++
					if n < 40 {
						fmt.Fprintf(&sb, "S%d c%d %s %v\n", mode, cn, it.ID.String()[:6], it.Attributes)
					}
				}
				if len(nc) == 0 {
					break
				}
				cursor = encodeCursor(nc)
			}
			fmt.Fprintf(&sb, "S%d c%d total %d\n", mode, cn, n)
		}
		ci, _ := db.GetContainerInfo(u.Cnrs[cn])
		fmt.Fprintf(&sb, "CI c%d %+v\n", cn, ci)
	}
	var cur *Cursor
	n := 0
	for {
		res, nc, err := db.ListWithCursor(500, cur)
		if err != nil {
			break
		}
		for _, a := range res {
			n++
			if n < 60 {
				fmt.Fprintf(&sb, "LS %s %v\n", a.Address.Object().String()[:6], a.Type)
			}
		}
		cur = nc
	}
	fmt.Fprintf(&sb, "LS total %d\n", n)
	oc, _ := db.ObjectCounters()
	fmt.Fprintf(&sb, "OC %+v\n", oc)
	gb, _ := db.GetGarbage(100000)
	for _, b := range gb {
		fmt.Fprintf(&sb, "GB %s %d\n", b.Container.String()[:6], len(b.Objects))
	}
	_ = db.IterateExpired(db.epochState.CurrentEpoch(), func(a oid.Address, t object.Type) error {
		fmt.Fprintf(&sb, "X %s %v\n", a.Object().String()[:6], t)
		return nil
	})
	return sb.String()
}

func errClass(err error) string {
	if err == nil {
		return "ok"
	}
	st, ok := classify(false, err)
	if ok {
		return st.String()
	}
	return "ERR:" + err.Error()
}

// downConvert rewrites the closed database file to an older format.
func downConvert(path string, to uint64, u *zz.Universe, salt uint32) error {
	bdb, err := bbolt.Open(path, 0o600, &bbolt.Options{NoSync: true, Timeout: time.Second})
	if err != nil {
		return err
	}
	defer bdb.Close()
	return bdb.Update(func(tx *bbolt.Tx) error {
		var names [][]byte
		_ = tx.ForEach(func(name []byte, _ *bbolt.Bucket) error {
			if name[0] == metadataPrefix {
				names = append(names, append([]byte(nil), name...))
			}
			return nil
		})
		for _, name := range names {
			b := tx.Bucket(name)
			type kv struct{ del, put []byte }
			var rewrites []kv
			var phy []oid.ID
			c := b.Cursor()
			prefA := append(append([]byte{metaPrefixAttrIDPlain}, object.AttributeAssociatedObject...), 0)
			for k, _ := c.Seek(prefA); k != nil && strings.HasPrefix(string(k), string(prefA)); k, _ = c.Next() {
				rest := k[len(prefA):] // value(32) 0x00 id(32)
				if len(rest) != 32+1+32 {
					continue
				}
				var val, id oid.ID
				copy(val[:], rest[:32])
				copy(id[:], rest[33:])
				s := val.EncodeToString()
				nk := append(append(append(append([]byte(nil), prefA...), s...), 0), id[:]...)
				rewrites = append(rewrites, kv{del: append([]byte(nil), k...), put: nk})
				// reverse index
				old := append(append(append(append([]byte{metaPrefixIDAttr}, id[:]...), object.AttributeAssociatedObject...), 0), val[:]...)
				nw := append(append(append(append([]byte{metaPrefixIDAttr}, id[:]...), object.AttributeAssociatedObject...), 0), s...)
				rewrites = append(rewrites, kv{del: old, put: nw})
			}
			for id := range iterAttrVal(b.Cursor(), object.FilterPhysical, []byte(binPropMarker)) {
				phy = append(phy, id)
			}
			for _, rw := range rewrites {
				if err := b.Delete(rw.del); err != nil {
					return err
				}
				if err := b.Put(rw.put, nil); err != nil {
					return err
				}
			}
			// homomorphic hash indexes (dropped in 11)
			//nolint:staticcheck
			hk := object.FilterPayloadHomomorphicHash
			for i, id := range phy {
				if (uint32(i)+salt)%3 == 0 {
					continue
				}
				hash := make([]byte, 64)
				copy(hash, id[:])
				hash[63] = byte(salt)
				k1 := append(append(append(append(append([]byte{metaPrefixAttrIDPlain}, hk...), 0), hash...), 0), id[:]...)
				k2 := append(append(append(append([]byte{metaPrefixIDAttr}, id[:]...), hk...), 0), hash...)
				if err := b.Put(k1, nil); err != nil {
					return err
				}
				if err := b.Put(k2, nil); err != nil {
					return err
				}
			}
			// counters: arbitrary in 10 (the upgrade recounts), absent in 9
			for p := byte(metaPrefixPhyCounter); p <= metaPrefixPayloadCounter; p++ {
				if to == 9 {
					_ = b.Delete([]byte{p})
					continue
				}
				if b.Get([]byte{metaPrefixContainerRemoved}) != nil {
					continue // removed containers keep their reset counters
				}
				v := make([]byte, 8)
				binary.LittleEndian.PutUint64(v, uint64(salt%7)+uint64(p))
				if err := b.Put([]byte{p}, v); err != nil {
					return err
				}
			}
		}
		info, err := tx.CreateBucketIfNotExists(shardInfoBucket)
		if err != nil {
			return err
		}
		if to == 9 {
			v := make([]byte, 8)
			binary.LittleEndian.PutUint64(v, 42)
			_ = info.Put(objectPhyCounterKey, v)
			_ = info.Put(objectLogicCounterKey, v)
			vb, err := tx.CreateBucketIfNotExists([]byte{unusedContainerVolumePrefix})
			if err != nil {
				return err
			}
			for _, cn := range u.Cnrs {
				sub, err := vb.CreateBucketIfNotExists(cn[:])
				if err == nil {
					_ = sub.Put([]byte{0}, v)
					_ = sub.Put([]byte{1}, v)
				}
			}
		}
		return updateVersion(tx, to)
	})
}

func runMigrate(r *simkit.R) {
	ncnr := 2 + r.Intn(2)
	nobj := 8 + r.Intn(7)
	u := zz.NewUniverse(r.U32()%1000, ncnr, nobj)
	drawLayout(r, u)
	w := &metaWorld{r: r, u: u, m: zz.NewM1(u), ep: &vEpoch{e: uint64(r.Intn(3))}, batch: 1000}
	for id, s := range u.Specs {
		if !s.Virtual {
			w.ids = append(w.ids, id)
		}
	}
	sort.Ints(w.ids)
	base := filepath.Join(r.Dir, "cur.db")
	w.open(base)
	closed := false
	r.OnCleanup(func() {
		if !closed {
			_ = w.db.Close()
		}
	})
	// history: puts in random order, with duplicates, marks, revive, deletes
	for _, i := range r.Perm(len(w.ids)) {
		s := u.Specs[w.ids[i]]
		err := w.db.Put(u.Build(s))
		r.Logf("put %s -> %s", s, errStr(err))
	}
	nops := r.Intn(6)
	for i := 0; i < nops; i++ {
		id := r.Intn(nobj)
		cn := u.Specs[id].Cnr
		switch r.Intn(4) {
		case 0:
			mk := GarbageMarkDefault
			if r.Bool(40) {
				mk = GarbageMarkRedundant
			}
			_, _ = w.db.MarkGarbage(u.Cnrs[cn], []oid.ID{u.IDs[id]}, mk)
			r.Logf("mark o%d %d", id, mk)
		case 1:
			_, _ = w.db.ReviveObject(u.Addr(cn, id))
			r.Logf("revive o%d", id)
		case 2:
			_, _, _ = w.db.Delete(u.Cnrs[cn], []oid.ID{u.IDs[id]})
			r.Logf("delete o%d", id)
		case 3:
			if r.Bool(30) {
				_, _ = w.db.InhumeContainer(u.Cnrs[cn])
				r.Logf("inhume container c%d", cn)
			}
		}
	}
	var extra []oid.Address
	bulkPct := 12
	if r.Thorough() {
		bulkPct = 35
	}
	if r.Bool(bulkPct) {
		nb := 1100 + r.Intn(1300)
		cn := r.Intn(ncnr)
		bu := zz.NewUniverse(u.Salt+7777, 1, 2*nb)
		bu.Cnrs[0] = u.Cnrs[cn]
		var objs []*object.Object
		for i := 0; i < nb; i++ {
			s := &zz.Spec{ID: i, Cnr: 0, Kind: zz.KTomb, Parent: -1, First: -1, Split: -1, Exp: 5, Target: nb + i, ECRule: -1}
			objs = append(objs, bu.Build(s))
		}
		for i := 0; i < len(objs); i += 500 {
			if err := w.db.PutBatch(objs[i:min(i+500, len(objs))]); err != nil {
				r.Failf("infra", "bulk", "bulk put: %v", err)
			}
		}
		for _, i := range []int{0, nb / 2, nb - 1} {
			extra = append(extra, oid.NewAddress(u.Cnrs[cn], bu.IDs[i]), oid.NewAddress(u.Cnrs[cn], bu.IDs[nb+i]))
		}
		r.Logf("bulk: %d tombstones in c%d", nb, cn)
		r.Probe("bulk>1000 keys (batch boundary inside a container)")
	}
	if r.Bool(40) {
		w.ep.e += uint64(1 + r.Intn(3))
		r.Logf("epoch -> %d", w.ep.e)
	}
	if err := w.db.SyncCounters(); err != nil {
		r.Failf("infra", "sync", "SyncCounters: %v", err)
	}
	want := snapshotViews(r, w.db, u, extra)
	_ = w.db.Close()
	closed = true

	to := uint64(10)
	if r.Bool(40) {
		to = 9
	}
	old := filepath.Join(r.Dir, "old.db")
	if err := copyFile(old, base); err != nil {
		r.Failf("infra", "copy", "%v", err)
	}
	if err := downConvert(old, to, u, u.Salt); err != nil {
		r.Failf("infra", "downconvert", "down-convert: %v", err)
	}
	r.Logf("down-converted to format %d", to)

	openWith := func(path string, cs Containers, ctx context.Context) (*DB, error) {
		db := New(WithPath(path), WithEpochState(w.ep), WithContainers(cs), WithInitContext(ctx),
			WithBoltDBOptions(&bbolt.Options{NoSync: true, Timeout: time.Second}), WithMaxBatchSize(1000), WithMaxBatchDelay(5*time.Millisecond))
		if err := db.Open(false); err != nil {
			return nil, fmt.Errorf("open: %w", err)
		}
		if err := db.Init(common.ID{}); err != nil {
			return db, err
		}
		return db, nil
	}
	verify := func(db *DB, what string) {
		var ver uint64
		_ = db.boltDB.View(func(tx *bbolt.Tx) error { ver, _ = getVersion(tx); return nil })
		if ver != currentMetaVersion {
			r.Failf("version", "version not current after upgrade", "%s: version %d after upgrade from %d, want %d", what, ver, to, currentMetaVersion)
		}
		got := snapshotViews(r, db, u, extra)
		if got != want {
			r.Failf("views", "views differ after upgrade from "+fmt.Sprint(to)+diffKind(want, got), "%s: views differ after upgrade from format %d:\n%s", what, to, firstDiff(want, got))
		}
	}

	// uninterrupted upgrade: counts the container-source calls
	p0 := filepath.Join(r.Dir, "up0.db")
	_ = copyFile(p0, old)
	cs0 := &intrContainers{}
	db, err := openWith(p0, cs0, context.Background())
	if err != nil {
		if db != nil {
			_ = db.Close()
		}
		r.Failf("upgrade", "uninterrupted upgrade failed", "upgrade from format %d failed: %v", to, err)
	}
	verify(db, "uninterrupted upgrade")
	_ = db.Close()
	K := cs0.calls
	r.Logf("uninterrupted upgrade ok, %d container-source calls", K)

	for k := 1; k <= K; k++ {
		kind := r.Intn(3)
		pk := filepath.Join(r.Dir, fmt.Sprintf("up%d.db", k))
		_ = copyFile(pk, old)
		ctx, cancel := context.WithCancelCause(context.Background())
		cs := &intrContainers{failAt: k, kind: kind, cancel: cancel}
		db, err := openWith(pk, cs, ctx)
		r.Op("interrupt at call %d/%d kind=%d -> %s", k, K, kind, errStr(err))
		r.Fired([]string{"upgrade cancelled", "container source error", "crash copy during upgrade"}[kind])
		resumePath := pk
		if err == nil {
			// the interruption landed after the last unit of work; nothing to resume
			verify(db, fmt.Sprintf("upgrade with late interruption at %d", k))
			_ = db.Close()
			cancel(nil)
			continue
		}
		if kind == 2 && db != nil {
			// crash: the process dies now; what the file holds at this instant survives
			resumePath = pk + ".crash"
			if err := copyFile(resumePath, pk); err != nil {
				r.Failf("infra", "copy", "%v", err)
			}
		}
		if db != nil {
			_ = db.Close()
		}
		cancel(nil)
		db2, err := openWith(resumePath, &intrContainers{}, context.Background())
		if err != nil {
			if db2 != nil {
				_ = db2.Close()
			}
			r.Failf("upgrade", "resumed upgrade failed", "resume after interruption at call %d (kind %d) failed: %v", k, kind, err)
		}
		verify(db2, fmt.Sprintf("upgrade interrupted at call %d (kind %d) and resumed", k, kind))
		_ = db2.Close()
		r.Nontrivial()
	}
}

func diffKind(a, b string) string {
	la, lb := strings.Split(a, "\n"), strings.Split(b, "\n")
	for i := 0; i < len(la) && i < len(lb); i++ {
		if la[i] != lb[i] {
			f := strings.Fields(la[i])
			if len(f) > 0 {
				return " [first differing view: " + f[0] + "]"
			}
		}
	}
	return " [length]"
}

func firstDiff(a, b string) string {
	la, lb := strings.Split(a, "\n"), strings.Split(b, "\n")
	for i := 0; i < len(la) && i < len(lb); i++ {
		if la[i] != lb[i] {
			return fmt.Sprintf("line %d:\n  before: %s\n  after:  %s", i, la[i], lb[i])
		}
	}
	return fmt.Sprintf("lengths %d vs %d", len(la), len(lb))
}
