package fstree

// Simulation harness of the FS world (see /verif/DESIGN.md §4): the real FSTree (linux and
// generic writers, readers, iteration) on real files under /dev/shm, with every raw syscall
// of the writers redirected to the simulated disk (simfs) where the scheduler decides who
// proceeds and which call fails, and with mutex waits turned into fake-clock polling.

import (
	"bytes"
	"crypto/sha256"
	"errors"
	"fmt"
	"io"
	"io/fs"
	"os"
	"path/filepath"
	"sort"
	"strconv"
	"strings"
	"testing"
	"time"

	zz "github.com/nspcc-dev/neofs-node/internal/zzverif"
	"github.com/nspcc-dev/neofs-node/internal/zzverif/simfs"
	"github.com/nspcc-dev/neofs-node/pkg/local_object_storage/blobstor/common"
	apistatus "github.com/nspcc-dev/neofs-sdk-go/client/status"
	oid "github.com/nspcc-dev/neofs-sdk-go/object/id"
	"verif/simkit"
)

var fsComponents = map[string]string{
	"FSTree (Put/PutBatch/Delete/Get*/Head/ReadHeader/GetStream/range readers/Iterate/CleanUpTmp)": "real",
	"linux batching writer (O_TMPFILE+linkat, sync batches, timer) and generic writer (tmp+rename)": "real code; their syscalls (open/write/writev/linkat/fdatasync/close/openfile/rename/remove/mkdir) go through simfs",
	"file system":                    "real tmpfs (/dev/shm) under simfs: per-call gate, error/short-write injection, crash = byte copy of the tree at a call boundary",
	"mutexes of the linux writer":    "real sync.Mutex acquired by TryLock polling on the simulated clock (lockgate rewrite)",
	"timers (combined write interval)": "simulated clock (synctest)",
	"goroutine scheduling":           "simulated: writers park at every syscall, the seeded scheduler picks who proceeds",
}

func TestVerif(t *testing.T) {
	simkit.Main(t, propC10())
	simkit.Main(t, propC11())
	simkit.Main(t, propC12())
	simkit.Main(t, propC13())
}

// ---------------------------------------------------------------------------------------

type fsCfg struct {
	depth      uint64
	countLimit int
	sizeLimit  int
	threshold  int
	generic    bool
	noSync     bool
}

func (c fsCfg) String() string {
	return fmt.Sprintf("depth=%d combinedCount=%d combinedSize=%d threshold=%d generic=%v noSync=%v", c.depth, c.countLimit, c.sizeLimit, c.threshold, c.generic, c.noSync)
}

func drawFsCfg(r *simkit.R, small bool) fsCfg {
	c := fsCfg{
		depth:      uint64(r.Intn(5)),
		countLimit: []int{128, 1, 2, 3, 4, 8}[r.Intn(6)],
		generic:    r.Bool(20),
		noSync:     r.Bool(30),
	}
	if small {
		c.threshold = []int{2048, 300, 600, 4096}[r.Intn(4)]
		c.sizeLimit = []int{8 << 20, 700, 1500, 5000}[r.Intn(4)]
	} else {
		c.threshold = []int{128 << 10, 1024, 8 << 10, 64 << 10}[r.Intn(4)]
		c.sizeLimit = []int{8 << 20, 3000, 40 << 10, 300 << 10}[r.Intn(4)]
	}
	return c
}

type fsWorld struct {
	r    *simkit.R
	ch   *simkit.Chooser // scheduling choices
	k    *simkit.Kernel
	sfs  *simfs.FS
	cfg  fsCfg
	root string
	t    *FSTree
	u    *zz.Universe
	vers map[[32]byte][2]int // sha256(data) -> (id, version)
	bins map[int][]byte      // version -> object binary
	idOf map[int]int         // version -> id
}

func (w *fsWorld) newTree(root string) *FSTree {
	return New(WithPath(root), WithDepth(w.cfg.depth), WithCombinedCountLimit(w.cfg.countLimit), WithCombinedSizeLimit(w.cfg.sizeLimit),
		WithCombinedSizeThreshold(w.cfg.threshold), WithCombinedWriteInterval(10*time.Millisecond), WithNoSync(w.cfg.noSync), WithPerm(0o700))
}

// openTree opens a tree on root with gates passing through (setup is not under test).
func (w *fsWorld) openTree(root string) *FSTree {
	was := w.k.Passing()
	w.k.SetPass(true)
	defer w.k.SetPass(was)
	w.sfs.Root = root
	t := w.newTree(root)
	if err := t.Open(false); err != nil {
		w.r.Failf("infra", "open", "fstree open: %v", err)
	}
	if err := t.Init(common.ID{}); err != nil {
		w.r.Failf("infra", "init", "fstree init: %v", err)
	}
	return t
}

func newFsWorld(r *simkit.R, cfg fsCfg, nids int) *fsWorld {
	w := &fsWorld{r: r, cfg: cfg, u: zz.NewUniverse(r.U32()%1000, 1, nids), vers: map[[32]byte][2]int{}, bins: map[int][]byte{}, idOf: map[int]int{}}
	w.k = simkit.NewKernel(r)
	w.sfs = &simfs.FS{K: w.k, NoTmpfile: cfg.generic}
	simfs.Install(w.sfs)
	r.OnCleanup(func() {
		w.k.Shutdown()
		// grace period on the simulated clock: timer callbacks that wait for a mutex by polling
		// need the clock to move once more after the last unlock; a lock that is never
		// released keeps them polling and is reported as a hang when the bubble ends
		time.Sleep(200 * time.Millisecond)
		simfs.Install(nil)
	})
	w.ch = simkit.NewChooser(uint64(r.U32())<<8|1, 1<<20)
	return w
}

func (w *fsWorld) addr(id int) oid.Address { return w.u.Addr(0, id) }

// objBytes builds the binary of a unique object version.
func (w *fsWorld) objBytes(id, payload, ver int) []byte {
	s := &zz.Spec{ID: id, Cnr: 0, Kind: zz.KReg, Parent: -1, First: -1, Split: -1, Exp: -1, Size: payload, Target: -1, ECRule: -1, Salt: uint32(ver),
		Attrs: [][2]string{{"ver", strconv.Itoa(ver)}}}
	b := w.u.Build(s).Marshal()
	w.vers[sha256.Sum256(b)] = [2]int{id, ver}
	w.bins[ver] = b
	w.idOf[ver] = id
	return b
}

func (w *fsWorld) verOf(b []byte) int {
	if v, ok := w.vers[sha256.Sum256(b)]; ok {
		return v[1]
	}
	return -1
}

type schedHooks struct {
	maxConc  int
	next     func() (string, func(*simkit.Task)) // nil func = no more ops
	verdict  func(t *simkit.Ticket, idx int) int
	boundary func(idx int)
	done     func(t *simkit.Task)
	maxSteps int
}

// sched runs the seeded scheduler until all operations finished.  Returns "hang" if live
// tasks make no progress for 120 s of simulated time, "steps" if the step cap is hit.
func (w *fsWorld) sched(h schedHooks) string {
	w.k.SetPass(false)
	defer w.k.SetPass(true)
	more := true
	var pendName string
	var pend func(*simkit.Task)
	idx := 0
	if h.maxSteps == 0 {
		h.maxSteps = 20000
	}
	for step := 0; ; step++ {
		w.r.Step()
		w.k.Quiesce()
		for _, t := range w.k.Collect() {
			if h.done != nil {
				h.done(t)
			}
		}
		if w.r.Violated() {
			return "violated"
		}
		if more && pend == nil {
			pendName, pend = h.next()
			if pend == nil {
				more = false
			}
		}
		var parked []*simkit.Ticket
		for _, t := range w.k.Parked() {
			// a goroutine waiting for a mutex is offered only after some unlock happened since
			// its last failed attempt
			if strings.HasPrefix(t.Key, "lock:") {
				if i := strings.LastIndexByte(t.Key, '@'); i >= 0 {
					if ep, err := strconv.Atoi(t.Key[i+1:]); err == nil && ep >= w.sfs.UnlockEpoch() {
						continue
					}
				}
			}
			parked = append(parked, t)
		}
		canStart := pend != nil && w.k.Live() < h.maxConc
		if len(parked) == 0 && !canStart {
			if w.k.Live() == 0 {
				if pend == nil {
					return ""
				}
				canStart = true
			} else {
				if !w.k.Pump(120 * time.Second) {
					return "hang"
				}
				continue
			}
		}
		if step > h.maxSteps {
			return "steps"
		}
		nopt := len(parked)
		startIdx, timeIdx := -1, -1
		if canStart {
			startIdx = nopt
			nopt++
		}
		if w.k.Live() > 0 && len(parked) > 0 {
			timeIdx = nopt
			nopt++
		}
		c := w.ch.Intn(nopt)
		switch {
		case c == startIdx:
			w.k.Go(pendName, pend)
			pend = nil
		case c == timeIdx:
			d := []time.Duration{time.Millisecond, 10 * time.Millisecond, 25 * time.Millisecond}[w.ch.Intn(3)]
			w.k.Sleep(d)
		default:
			if strings.HasPrefix(parked[c].Key, "lock:") {
				w.r.Logf("  retry %s", parked[c].Key)
				w.k.Grant(parked[c], 0)
				continue
			}
			idx++
			w.r.Logf("  grant#%d %s (of %d parked, %d live)", idx, parked[c].Key, len(parked), w.k.Live())
			if h.boundary != nil {
				h.boundary(idx)
			}
			v := 0
			if h.verdict != nil {
				v = h.verdict(parked[c], idx)
			}
			w.k.Grant(parked[c], v)
		}
	}
}

func isNotFound(err error) bool { return errors.Is(err, apistatus.ErrObjectNotFound) }

// ---------------------------------------------------------------------------------------
// range oracle (written from the statement of C11, HTTP-like semantics)

// wantRange returns (off, ln, outOfRange, either) for payload length n; either=true when
// the statement does not decide (zero-length payload corner cases).
func wantRange(rng common.PayloadRange, n uint64) (uint64, uint64, bool, bool) {
	switch rng.Mode {
	case common.PayloadRangeModeNone:
		return 0, n, false, false
	case common.PayloadRangeModeOffsetLength:
		off, ln := rng.First, rng.Second
		if ln == 0 {
			if off == 0 {
				return 0, n, false, false
			}
			return 0, 0, true, false
		}
		if off >= n || ln > n-off {
			return 0, 0, true, false
		}
		return off, ln, false, false
	case common.PayloadRangeModeBounds:
		if rng.First > rng.Second || rng.First >= n {
			return 0, 0, true, false
		}
		last := rng.Second
		if last > n-1 {
			last = n - 1
		}
		return rng.First, last - rng.First + 1, false, false
	case common.PayloadRangeModeFrom:
		if rng.First >= n {
			return 0, 0, true, n == 0 && rng.First == 0
		}
		return rng.First, n - rng.First, false, false
	case common.PayloadRangeModeSuffix:
		if rng.First == 0 {
			return 0, 0, true, false
		}
		ln := rng.First
		if ln > n {
			ln = n
		}
		return n - ln, ln, false, n == 0
	}
	return 0, 0, true, false
}

func drawRange(c *simkit.Chooser, n uint64) common.PayloadRange {
	pick := func() uint64 {
		cands := []uint64{0, 1, 2, n / 2, n - 1, n, n + 1, n + 2, 40959, 40960, 40961, 20480, 1<<63 - 1, 1 << 63, 1<<63 + 1, ^uint64(0), ^uint64(0) - 1}
		if c.Bool(50) {
			return cands[c.Intn(len(cands))]
		}
		if n == 0 {
			return uint64(c.Intn(3))
		}
		return uint64(c.Intn(int(n) + 2))
	}
	switch c.Intn(5) {
	case 0:
		return common.PayloadRange{}
	case 1:
		return common.NewPayloadRange(pick(), pick())
	case 2:
		return common.NewPayloadRangeBounds(pick(), pick())
	case 3:
		return common.NewPayloadRangeFrom(pick())
	default:
		return common.NewPayloadRangeSuffix(pick())
	}
}

func rngStr(r common.PayloadRange) string {
	return fmt.Sprintf("%s(%d,%d)", [...]string{"none", "offlen", "bounds", "from", "suffix"}[r.Mode], r.First, r.Second)
}

// checkRanges compares the three range readers of an FSTree with the oracle.
func checkRanges(r *simkit.R, t *FSTree, a oid.Address, objBin, payload []byte, rng common.PayloadRange, what string) {
	n := uint64(len(payload))
	off, ln, oor, either := wantRange(rng, n)
	judge := func(api string, data []byte, err error) {
		if err != nil {
			if errors.Is(err, apistatus.ErrObjectOutOfRange) {
				if !oor && !either {
					r.Failf("range", api+" out-of-range for a satisfiable range ["+rngClass(rng, n)+"]", "%s: %s %s on payload of %d bytes reports out of range, want bytes [%d,%d)", what, api, rngStr(rng), n, off, off+ln)
				}
				return
			}
			r.Failf("range", api+" unexpected error ["+rngClass(rng, n)+"]", "%s: %s %s on payload of %d bytes: %v", what, api, rngStr(rng), n, err)
		}
		if oor && !either {
			r.Failf("range", api+" returns data for an unsatisfiable range ["+rngClass(rng, n)+"]", "%s: %s %s on payload of %d bytes returned %d bytes, want out of range", what, api, rngStr(rng), n, len(data))
		}
		if oor {
			return
		}
		if !bytes.Equal(data, payload[off:off+ln]) {
			r.Failf("range", api+" returns wrong bytes ["+rngClass(rng, n)+"]", "%s: %s %s on payload of %d bytes returned %d bytes that differ from payload[%d:%d]", what, api, rngStr(rng), n, len(data), off, off+ln)
		}
	}
	readAll := func(rc io.ReadCloser) ([]byte, error) {
		defer rc.Close()
		return io.ReadAll(rc)
	}
	for _, rh := range []bool{false, true} {
		hdr, pl, rc, err := t.GetRangeStream(a, rng, rh)
		var data []byte
		if err == nil {
			data, err = readAll(rc)
			if err == nil && pl != n {
				r.Failf("range", "GetRangeStream reports wrong payload length", "%s: GetRangeStream reports payload length %d, want %d", what, pl, n)
			}
			if err == nil && rh && (hdr == nil || hdr.GetID() != a.Object()) {
				r.Failf("range", "GetRangeStream returns wrong header", "%s: GetRangeStream(readHeader) returned header %v", what, hdr)
			}
		}
		judge(fmt.Sprintf("GetRangeStream(readHeader=%v)", rh), data, err)
	}
	if rng.Mode == common.PayloadRangeModeOffsetLength || rng.Mode == common.PayloadRangeModeNone {
		intercepted := 0
		rc, err := t.ReadPayloadRange(a, rng.First, rng.Second, make([]byte, 40960), func([]byte) error { intercepted++; return nil })
		var data []byte
		if err == nil {
			data, err = readAll(rc)
			if intercepted != 1 {
				r.Failf("range", "header interceptor not called exactly once", "%s: ReadPayloadRange called the header interceptor %d times", what, intercepted)
			}
		}
		r2 := rng
		if rng.Mode == common.PayloadRangeModeNone {
			r2 = common.NewPayloadRange(0, 0)
		}
		off, ln, oor, either = wantRange(r2, n)
		judge("ReadPayloadRange", data, err)
		off, ln, oor, either = wantRange(rng, n)
	}
	buf := make([]byte, 40960)
	nb, rc, err := t.ReadObjectParts(buf, a, rng, nil)
	partial := rng.IsSet() && !rng.IsFull()
	var data []byte
	if err == nil {
		data, err = readAll(rc)
	}
	if !partial {
		if err != nil {
			r.Failf("range", "ReadObjectParts(full) failed", "%s: ReadObjectParts %s: %v", what, rngStr(rng), err)
		}
		if !bytes.Equal(append(append([]byte(nil), buf[:nb]...), data...), objBin) {
			r.Failf("range", "ReadObjectParts(full) returns wrong object bytes", "%s: ReadObjectParts %s: header buffer + stream differ from the stored object (%d+%d vs %d bytes)", what, rngStr(rng), nb, len(data), len(objBin))
		}
	} else {
		judge("ReadObjectParts", data, err)
	}
}

func rngClass(rng common.PayloadRange, n uint64) string {
	big := func(x uint64) string {
		switch {
		case x == 0:
			return "0"
		case x < n:
			return "<len"
		case x == n:
			return "=len"
		case x < 1<<62:
			return ">len"
		default:
			return "huge"
		}
	}
	sz := "small"
	if n > 40960 {
		sz = "beyond-header-buffer"
	}
	return fmt.Sprintf("%s first%s second%s payload=%s", [...]string{"none", "offlen", "bounds", "from", "suffix"}[rng.Mode], big(rng.First), big(rng.Second), sz)
}

// ---------------------------------------------------------------------------------------
// C10: map semantics under concurrency

type c10op struct {
	kind string // put putbatch delete get getbytes head readheader getstream exists
	ids  []int
	data [][]byte
	vers []int
	// results
	err  error
	seen []int // observed version per id (0 = absent), -1 garbage
	call uint64
	ret  uint64
}

func propC10() *simkit.Property {
	return &simkit.Property{
		ID: "C10", Level: "exploration", Bubble: true, TapeLimit: 4000,
		Rule: "each run = one FSTree configuration (depth 0-4, combined count 1..128, size limit, threshold, linux or generic writer) and 10-45 operations over <=8 addresses (Put, PutBatch, Delete, Get, GetBytes, Head, ReadHeader, GetStream, Exists, legacy zstd-compressed file) issued by 1-4 concurrent tasks whose interleaving at every writer syscall is chosen by the seeded scheduler; every written value is unique; the recorded history (event-sequence stamps) is checked per address with porcupine against a register model, and at quiescence iteration must list every stored address once with its bytes. distinct = trace digest; non-trivial = >=2 operations overlapped and >=1 combined file or batch was written",
		Run:  runC10,
		Assumptions: []string{"tmpfs semantics of linkat/O_TMPFILE/rename are those of the target file systems", "porcupine (linearizability checker); Unknown (timeout) results are not reported", "fault-free configuration only (faults are C12/C13)"},
		Components:  fsComponents,
		DeadlockClass: "hang",
	}
}

func runC10(r *simkit.R) {
	cfg := drawFsCfg(r, false)
	nids := 3 + r.Intn(6)
	w := newFsWorld(r, cfg, nids)
	w.root = filepath.Join(r.Dir, "t")
	w.t = w.openTree(w.root)
	r.OnCleanup(func() { _ = w.t.Close() })
	r.Logf("config %s, %d addresses", cfg, nids)
	nops := 10 + r.Intn(36)
	maxConc := 1 + r.Intn(4)
	var ops []*c10op
	content := map[int][]byte{}
	sizes := func() int {
		switch r.Intn(6) {
		case 0:
			return 0
		case 1:
			return 1 + r.Intn(200)
		case 2:
			return max(0, cfg.threshold-200+r.Intn(400))
		case 3:
			return 30000 + r.Intn(30000)
		case 4:
			return 100000 + r.Intn(160000)
		default:
			return r.Intn(3000)
		}
	}
	for i := 0; i < nops; i++ {
		op := &c10op{}
		switch r.Weighted(30, 10, 12, 8, 8, 6, 6, 6, 6, 4) {
		case 0:
			op.kind = "put"
			op.ids = []int{r.Intn(nids)}
		case 1:
			op.kind = "putbatch"
			n := 1 + r.Intn(4)
			for _, id := range r.Perm(nids)[:min(n, nids)] {
				op.ids = append(op.ids, id)
			}
		case 2:
			op.kind = "delete"
			op.ids = []int{r.Intn(nids)}
		case 3:
			op.kind = "get"
			op.ids = []int{r.Intn(nids)}
		case 4:
			op.kind = "getbytes"
			op.ids = []int{r.Intn(nids)}
		case 5:
			op.kind = "head"
			op.ids = []int{r.Intn(nids)}
		case 6:
			op.kind = "readheader"
			op.ids = []int{r.Intn(nids)}
		case 7:
			op.kind = "getstream"
			op.ids = []int{r.Intn(nids)}
		case 8:
			op.kind = "exists"
			op.ids = []int{r.Intn(nids)}
		case 9:
			op.kind = "legacy-zstd"
			op.ids = []int{r.Intn(nids)}
		}
		if op.kind == "put" || op.kind == "putbatch" || op.kind == "legacy-zstd" {
			// objects are immutable and content-addressed: one address, one content
			for _, id := range op.ids {
				if content[id] == nil {
					content[id] = w.objBytes(id, sizes(), id+1)
				}
				op.vers = append(op.vers, id+1)
				op.data = append(op.data, content[id])
			}
		}
		ops = append(ops, op)
	}
	next := 0
	overlapped, combined := false, false
	var fin []*c10op
	byTask := map[*simkit.Task]*c10op{}
	// legacy compressed files pre-exist: they are laid down before the concurrent part
	// (replacing the file of a live object behind the writer's back is not a legal history)
	{
		var rest []*c10op
		had := map[int]bool{}
		for _, op := range ops {
			if op.kind != "legacy-zstd" {
				rest = append(rest, op)
				continue
			}
			if had[op.ids[0]] {
				continue
			}
			had[op.ids[0]] = true
			op.call = w.k.Seq()
			w.execC10(op)
			op.ret = w.k.Seq()
			fin = append(fin, op)
		}
		ops = rest
	}
	res := w.sched(schedHooks{
		maxConc: maxConc,
		next: func() (string, func(*simkit.Task)) {
			if next >= len(ops) {
				return "", nil
			}
			op := ops[next]
			next++
			return op.kind, func(t *simkit.Task) { byTaskSet(byTask, t, op); w.execC10(op) }
		},
		done: func(t *simkit.Task) {
			op := byTask[t]
			op.call, op.ret = t.Call, t.Ret
			fin = append(fin, op)
		},
	})
	if res == "hang" || res == "steps" {
		r.Failf("hang", "operation did not return ("+res+")", "fault-free run: operations did not finish (%s)", res)
	}
	if res != "" {
		return
	}
	sort.Slice(fin, func(i, j int) bool { return fin[i].call < fin[j].call })
	var hist []simkit.LinOp
	for i, op := range fin {
		for j := i + 1; j < len(fin); j++ {
			if fin[j].call < op.ret {
				overlapped = true
			}
		}
		desc := fmt.Sprintf("[%d,%d] %s %v vers=%v -> err=%v seen=%v", op.call, op.ret, op.kind, op.ids, op.vers, op.err, op.seen)
		r.Op("%s", desc)
		switch op.kind {
		case "put", "putbatch", "legacy-zstd":
			if op.err != nil {
				sig := op.kind + " failed without faults"
				if errors.Is(op.err, fs.ErrNotExist) && op.kind != "legacy-zstd" {
					for _, d := range fin {
						if d.kind == "delete" && d.err == nil && d.call < op.ret {
							sig = "put fails with ENOENT after a delete unlinked an object of the still open combined file"
						}
					}
				}
				r.Failf("map", sig, "%s\n  last writer syscalls:%s", desc, w.callsTail())
			}
			if op.kind == "putbatch" || len(op.data[0]) <= cfg.threshold && cfg.countLimit >= 2 {
				combined = true
			}
			for j, id := range op.ids {
				hist = append(hist, simkit.LinOp{Key: fmt.Sprint(id), In: [2]int{1, op.vers[j]}, Out: 0, Call: op.call, Ret: op.ret})
			}
		case "delete":
			out := 0
			if isNotFound(op.err) {
				out = 1
			} else if op.err != nil {
				r.Failf("map", "delete failed without faults", "%s", desc)
			}
			hist = append(hist, simkit.LinOp{Key: fmt.Sprint(op.ids[0]), In: [2]int{2, 0}, Out: out, Call: op.call, Ret: op.ret})
		default:
			if op.err != nil && !isNotFound(op.err) {
				r.Failf("map", op.kind+" failed without faults", "%s", desc)
			}
			if op.seen[0] < 0 {
				r.Failf("map", op.kind+" returned bytes that were never stored", "%s", desc)
			}
			hist = append(hist, simkit.LinOp{Key: fmt.Sprint(op.ids[0]), In: [2]int{3, 0}, Out: op.seen[0], Call: op.call, Ret: op.ret})
		}
	}
	bad, _ := simkit.CheckLinearizable(hist, func(string) any { return 0 }, func(st, in, out any) (bool, any) {
		s, i, o := st.(int), in.([2]int), out.(int)
		switch i[0] {
		case 1:
			return true, i[1]
		case 2:
			if o == 1 {
				return s == 0, 0
			}
			return s != 0, 0
		default:
			return o == s, s
		}
	}, 20*time.Second)
	if bad != "" {
		var lines []string
		for _, op := range fin {
			for _, id := range op.ids {
				if fmt.Sprint(id) == bad {
					lines = append(lines, fmt.Sprintf("[%d,%d] %s vers=%v err=%v seen=%v", op.call, op.ret, op.kind, op.vers, op.err, op.seen))
				}
			}
		}
		r.Failf("map", "history of one address is not linearizable as a register", "address o%s: no sequential order of these operations explains the results:\n  %s", bad, joinLines(lines))
	}
	// quiescent iteration: every stored address exactly once with its bytes
	final := map[int]int{}
	for id := 0; id < nids; id++ {
		b, err := w.t.GetBytes(w.addr(id))
		if err == nil {
			final[id] = w.verOf(b)
		} else if !isNotFound(err) {
			r.Failf("map", "GetBytes failed at quiescence", "o%d: %v", id, err)
		}
	}
	seen := map[int]int{}
	err := w.t.Iterate(func(a oid.Address, data []byte) error {
		id := w.u.IDIndex(a.Object())
		seen[id]++
		if v := w.verOf(data); v != final[id] || v <= 0 {
			r.Report("map", "iteration yields bytes that differ from a direct read", "iterate: o%d version %d, direct read version %d", id, v, final[id])
		}
		return nil
	}, nil)
	if err != nil {
		r.Failf("map", "iteration failed", "iterate: %v", err)
	}
	for id, v := range final {
		if v > 0 && seen[id] != 1 {
			r.Failf("map", "iteration does not list a stored address exactly once", "iterate lists o%d %d times", id, seen[id])
		}
	}
	for id, n := range seen {
		if final[id] <= 0 || n != 1 {
			r.Failf("map", "iteration lists an address that is not stored", "iterate lists o%d x%d, direct read finds version %d", id, n, final[id])
		}
	}
	if overlapped && combined {
		r.Nontrivial()
	}
}

func byTaskSet(m map[*simkit.Task]*c10op, t *simkit.Task, op *c10op) { m[t] = op }

func joinLines(l []string) string {
	out := ""
	for i, s := range l {
		if i > 0 {
			out += "\n  "
		}
		out += s
	}
	return out
}

func (w *fsWorld) execC10(op *c10op) {
	a := w.addr(op.ids[0])
	see := func(b []byte, err error) {
		op.err = err
		if err != nil {
			op.seen = []int{0}
			return
		}
		op.seen = []int{w.verOf(b)}
	}
	switch op.kind {
	case "put":
		op.err = w.t.Put(a, op.data[0])
	case "putbatch":
		m := map[oid.Address][]byte{}
		for i, id := range op.ids {
			m[w.addr(id)] = op.data[i]
		}
		op.err = w.t.PutBatch(m)
	case "legacy-zstd":
		// a compressed file as older versions left it, written atomically behind the API's back
		
		comp := simfs.ZstdEncode(op.data[0])
		p := w.t.treePath(a)
		_ = os.MkdirAll(filepath.Dir(p), 0o700)
		tmp := filepath.Join(w.root, fmt.Sprintf(".legacy-%d", op.vers[0]))
		if err := os.WriteFile(tmp, comp, 0o600); err != nil {
			op.err = err
			return
		}
		op.err = os.Rename(tmp, p)
	case "delete":
		op.err = w.t.Delete(a)
	case "get":
		o, err := w.t.Get(a)
		if err != nil {
			see(nil, err)
		} else {
			see(o.Marshal(), nil)
		}
	case "getbytes":
		see(w.t.GetBytes(a))
	case "exists":
		ok, err := w.t.Exists(a)
		op.err = err
		if ok {
			// presence only: attribute it to whatever a direct read would see is not possible;
			// encode as "some version" by reading: Exists has no value, so it is checked as a
			// separate weaker observation below
			b, err2 := w.t.GetBytes(a)
			if err2 == nil {
				op.seen = []int{w.verOf(b)}
			} else {
				op.seen = []int{0}
				op.kind = "exists-then-missing"
			}
		} else {
			op.seen = []int{0}
		}
	case "head", "readheader", "getstream":
		// header-only reads identify the version through the "ver" attribute / binary prefix
		switch op.kind {
		case "head":
			o, err := w.t.Head(a)
			if err != nil {
				see(nil, err)
				return
			}
			op.seen = []int{-1}
			for _, at := range o.Attributes() {
				if at.Key() == "ver" {
					if v, e := strconv.Atoi(at.Value()); e == nil && w.idOf[v] == op.ids[0] && o.GetID() == a.Object() {
						op.seen = []int{v}
					}
				}
			}
		case "readheader":
			buf := make([]byte, 40960)
			n, err := w.t.ReadHeader(a, buf)
			if err != nil {
				see(nil, err)
				return
			}
			op.seen = []int{w.matchPrefix(op.ids[0], buf[:n])}
		case "getstream":
			o, rc, err := w.t.GetStream(a)
			if err != nil {
				see(nil, err)
				return
			}
			pl, err := io.ReadAll(rc)
			rc.Close()
			if err != nil {
				see(nil, err)
				return
			}
			o.SetPayload(pl)
			see(o.Marshal(), nil)
		}
	}
}

// matchPrefix finds the version of id whose object binary starts with the observed bytes.
func (w *fsWorld) matchPrefix(id int, ev []byte) int {
	for ver, bin := range w.bins {
		if w.idOf[ver] == id && len(ev) > 0 && bytes.HasPrefix(bin, ev) {
			return ver
		}
	}
	return -1
}
