package engine

import (
	"errors"
	"fmt"
	"sort"
	"strings"

	zz "github.com/nspcc-dev/neofs-node/internal/zzverif"
	objectcore "github.com/nspcc-dev/neofs-node/pkg/core/object"
	meta "github.com/nspcc-dev/neofs-node/pkg/local_object_storage/metabase"
	"github.com/nspcc-dev/neofs-node/pkg/local_object_storage/shard"
	oid "github.com/nspcc-dev/neofs-sdk-go/object/id"
	"verif/simkit"
)

// ---------------------------------------------------------------------------------------
// C06: cursor listing yields each available physical object exactly once

func propC06() *simkit.Property {
	return &simkit.Property{
		ID: "C06", Level: "exploration", Bubble: true, TapeLimit: 4000,
		Rule: "each run = an engine with 1-4 shards and 1-3 containers populated shard by shard with 4-12 objects (regular objects with 1-3 copies on drawn shards, tombstones and locks on drawn shard subsets), random garbage marks and sometimes a removed container; then a listing task pages through the engine (or through one drawn shard) with a drawn page size 1..N from the beginning or from an arbitrary drawn cursor position until the end of listing is reported, WHILE 0-2 other tasks store new objects and remove listed ones; every engine->shard call (including each per-shard page fetch) is a scheduling point and the shard-table order is re-drawn at every step.  Oracle: a reference model per shard (M1, the model of C01/C02) gives the set of physical objects not marked for removal in live containers; every such object that no concurrent operation touches and that lies after the start cursor must be listed exactly once, with exactly its holder shards recorded (engine level); nothing is listed twice; addresses ascend strictly across pages; an object that was marked for removal, tombstoned or belongs to a removed container before the listing began is never listed; the listing ends with the end-of-listing error.  distinct = trace digest; non-trivial = >=2 pages and (>=2 shards with an overlapping copy, or a concurrent mutation)",
		Run:  runC06,
		Assumptions: []string{"write-cache disabled", "no expiration (epoch fixed)"},
		Components:  engineComponents,
		DeadlockClass: "hang",
	}
}

func runC06(r *simkit.R) {
	cfg := drawEnCfg(r, 1, 4)
	cfg.threshold = 0
	nreg := 3 + r.Intn(8)
	ntomb, nlock := r.Intn(3), r.Intn(2)
	nextra := 2 // objects stored only by the concurrent tasks
	n := nreg + ntomb + nlock
	w := newEnWorld(r, cfg, n+nextra)
	w.layout(nreg, ntomb, nlock, false)
	// spread the objects over the containers (layout draws the container per regular object)
	w.start()
	r.Logf("config %s containers=%d", cfg, len(w.u.Cnrs))
	for id := 0; id < n+nextra; id++ {
		r.Logf("  spec %s", w.u.Specs[id])
	}
	models := make([]*zz.M1, len(w.shards))
	for i := range models {
		models[i] = zz.NewM1(w.u)
	}
	overlap := false
	w.exclusive("populate", func() {
		for id := 0; id < n; id++ {
			sp := w.u.Specs[id]
			obj := w.u.Build(sp)
			var on []int
			for i := range w.shards {
				p := 45
				if sp.Kind != zz.KReg {
					p = 70
				}
				if r.Bool(p) {
					on = append(on, i)
				}
			}
			if len(on) == 0 && r.Bool(85) {
				on = []int{r.Intn(len(w.shards))}
			}
			if len(on) > 1 {
				overlap = true
			}
			for _, i := range on {
				err := w.shards[i].sh.Put(obj, nil)
				if err == nil {
					models[i].ApplyPut(sp)
				}
				r.Logf("  populate o%d on s%d -> %v", id, i, errS(err))
			}
		}
		// removal marks
		for k, m := 0, r.Intn(4); k < m; k++ {
			id := r.Intn(nreg)
			i := r.Intn(len(w.shards))
			a := w.addr(id)
			err := w.shards[i].sh.MarkGarbage(a.Container(), []oid.ID{a.Object()}, meta.GarbageMarkDefault)
			if err == nil {
				models[i].ApplyMark(w.u.Specs[id].Cnr, []int{id}, zz.MarkDefault)
			}
			r.Logf("  mark o%d on s%d -> %v", id, i, errS(err))
		}
		if len(w.u.Cnrs) > 1 && r.Bool(25) {
			cn := r.Intn(len(w.u.Cnrs))
			for i := range w.shards {
				if err := w.shards[i].sh.InhumeContainer(w.u.Cnrs[cn]); err == nil {
					models[i].ApplyInhumeContainer(cn)
				}
			}
			r.Logf("  container c%d removed", cn)
			r.Fired("container removed before the listing")
		}
	})

	// expected listing from the models
	type key = [2]int
	holders := map[key][]string{}
	for i, m := range models {
		for k := range m.Listed() {
			holders[k] = append(holders[k], w.shards[i].id.String())
		}
	}
	everStored := map[int]bool{}
	for _, m := range models {
		for _, c := range m.C {
			for id := range c.Stored {
				everStored[id] = true
			}
		}
	}

	// the listing task
	level := -1 // engine
	if r.Bool(30) {
		level = r.Intn(len(w.shards))
	}
	page := 1 + r.Intn(n+1)
	var startAt *oid.Address
	if r.Bool(30) {
		a := w.addr(r.Intn(n))
		if r.Bool(30) {
			// an address that is not stored at all
			a = w.u.Addr(r.Intn(len(w.u.Cnrs)), n+nextra-1)
		}
		startAt = &a
	}
	where := "engine"
	if level >= 0 {
		where = fmt.Sprintf("shard s%d", level)
	}
	r.Logf("listing at %s, page size %d, start %v", where, page, startAt)

	type pageRes struct {
		items []objectcore.AddressWithAttributes
		err   error
	}
	var pages []pageRes
	listTask := func(*simkit.Task) {
		var ec *Cursor
		var sc *shard.Cursor
		if startAt != nil {
			ec = NewCursor(startAt.Container(), startAt.Object())
			sc = shard.NewCursor(startAt.Container(), startAt.Object())
		}
		for range 200 {
			var p pageRes
			if level < 0 {
				p.items, ec, p.err = w.e.ListWithCursor(ctxBG, uint32(page), ec)
			} else {
				p.items, sc, p.err = w.shards[level].sh.ListWithCursor(page, sc)
			}
			// (the result slices may be reused by the next call: keep copies)
			cp := make([]objectcore.AddressWithAttributes, len(p.items))
			for i := range p.items {
				cp[i] = p.items[i]
				cp[i].ShardIDs = append([]string(nil), p.items[i].ShardIDs...)
			}
			p.items = cp
			pages = append(pages, p)
			if p.err != nil {
				return
			}
		}
	}

	// concurrent mutations
	touched := map[int]bool{}
	var ops []*enOp
	for i, k := 0, r.Intn(5); i < k; i++ {
		switch r.Intn(4) {
		case 0:
			ops = append(ops, &enOp{kind: "put", id: n + r.Intn(nextra)})
		case 1:
			ops = append(ops, &enOp{kind: "put", id: r.Intn(nreg)})
		case 2:
			ops = append(ops, &enOp{kind: "mark", id: r.Intn(nreg)})
		case 3:
			if ntomb > 0 {
				ops = append(ops, &enOp{kind: "tomb", id: nreg + r.Intn(ntomb)})
			}
		}
	}
	for _, op := range ops {
		touched[op.id] = true
		if op.kind == "tomb" {
			touched[w.u.Specs[op.id].Target] = true
		}
	}
	started := false
	next := 0
	byTask := map[*simkit.Task]*enOp{}
	res := w.sched(enHooks{
		maxConc: 3,
		next: func() (string, func(*simkit.Task)) {
			if !started && (next >= len(ops) || r.Bool(60)) {
				started = true
				return "list", listTask
			}
			if next >= len(ops) {
				return "", nil
			}
			op := ops[next]
			next++
			return op.kind, func(t *simkit.Task) { byTask[t] = op; w.exec(op) }
		},
		done: func(t *simkit.Task) {
			if op := byTask[t]; op != nil {
				r.Op("%s -> %v", op, errS(op.err))
			}
		},
	})
	if res == "hang" || res == "steps" {
		w.failHang(res)
	}
	if res != "" {
		return
	}

	// judge
	fail := func(sig, f string, a ...any) { r.Failf("list", sig, f, a...) }
	if len(pages) == 0 {
		fail("listing returned nothing at all", "no page")
		return
	}
	last := pages[len(pages)-1]
	if !errors.Is(last.err, ErrEndOfListing) && !errors.Is(last.err, meta.ErrEndOfListing) {
		fail("listing does not end with the end-of-listing error", "last page error: %v (pages %d)", last.err, len(pages))
		return
	}
	seen := map[oid.Address][]string{}
	var prev *oid.Address
	nitems := 0
	for pi, p := range pages {
		if p.err == nil && len(p.items) == 0 {
			fail("empty page without the end-of-listing error", "page %d is empty but no error", pi)
		}
		if len(p.items) > page {
			fail("page longer than requested", "page %d has %d items, requested %d", pi, len(p.items), page)
		}
		for _, it := range p.items {
			nitems++
			if _, dup := seen[it.Address]; dup {
				fail("object listed twice", "o%d listed twice (page %d)", w.u.IDIndex(it.Address.Object()), pi)
			}
			seen[it.Address] = it.ShardIDs
			if prev != nil && prev.Compare(it.Address) >= 0 {
				fail("listing is not in ascending address order", "page %d: %s after %s", pi, it.Address, *prev)
			}
			if startAt != nil && startAt.Compare(it.Address) >= 0 {
				fail("listing returns an address at or before the start cursor", "page %d: %s, start %s", pi, it.Address, *startAt)
			}
			a := it.Address
			prev = &a
		}
	}
	if len(pages) > 2 && (overlap && len(w.shards) > 1 || len(ops) > 0) {
		r.Nontrivial()
	}
	// every stable listed-by-model object appears once with its holders; nothing removed appears
	levelID := ""
	if level >= 0 {
		levelID = w.shards[level].id.String()
	}
	for id := 0; id < n+nextra; id++ {
		if touched[id] || w.u.Specs[id].Virtual {
			continue
		}
		a := w.addr(id)
		k := key{w.u.Specs[id].Cnr, id}
		want := append([]string(nil), holders[k]...)
		if level >= 0 {
			var only []string
			for _, h := range want {
				if h == levelID {
					only = append(only, h)
				}
			}
			want = only
		}
		inRange := startAt == nil || startAt.Compare(a) < 0
		got, listed := seen[a]
		switch {
		case len(want) > 0 && inRange && !listed:
			fail("available physical object is missing from the listing", "o%d (%s) is held by %d shard(s) and not marked for removal, but the %s listing (page size %d, %d pages) omits it", id, w.u.Specs[id], len(want), where, page, len(pages))
		case len(want) == 0 && listed:
			why := "is not stored"
			if everStored[id] {
				why = "is marked for removal / tombstoned / in a removed container"
			}
			fail("listing returns an object that must not be listed", "o%d (%s) %s but the %s listing returns it", id, w.u.Specs[id], why, where)
		case listed && level < 0:
			g := append([]string(nil), got...)
			sort.Strings(g)
			sort.Strings(want)
			if strings.Join(g, ",") != strings.Join(want, ",") {
				fail("holder shards recorded for a listed object are wrong", "o%d: listed with shards %v, held (and listable) on %v", id, g, want)
			}
		}
	}
	_ = nitems
}
