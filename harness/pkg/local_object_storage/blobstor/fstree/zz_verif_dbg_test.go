package fstree

import "fmt"

func (w *fsWorld) callsTail() string {
	out := ""
	c := w.sfs.Calls
	if len(c) > 25 {
		c = c[len(c)-25:]
	}
	for _, x := range c {
		out += fmt.Sprintf("\n    call %d %s %s", x.Seq, x.Kind, x.Arg)
	}
	return out
}
