#!/usr/bin/env python3
"""confirm_batch.py <prop> ... : for every /tmp/mut/<prop>/out/bug*/ parse HOWTO.txt / meta.json for the demo command and run tools/confirm_seeded.sh"""
import json, os, re, subprocess, sys, glob
for prop in sys.argv[1:]:
    for d in sorted(glob.glob("/tmp/mut/%s/out/bug*" % prop)):
        txt = ""
        for f in ("HOWTO.txt", "meta.json"):
            p = os.path.join(d, f)
            if os.path.exists(p):
                txt += open(p).read() + "\n"
        m = re.search(r"go test[^\n]*?-run\s+'?\"?([A-Za-z0-9_|^$]+)'?\"?[^\n]*?\s(\./[A-Za-z0-9_/.-]+)", txt)
        if not m:
            print("CONFIRM %s %s: cannot parse demo command" % (prop, os.path.basename(d))); continue
        run, pkg = m.group(1), m.group(2).strip("./").rstrip("/")
        pkg = pkg.rstrip(".")
        demo = "demo_test.go"
        r = subprocess.run(["/verif/tools/confirm_seeded.sh", d, pkg, run, demo], stdout=subprocess.PIPE, stderr=subprocess.STDOUT)
        out = r.stdout.decode(errors="replace").strip().splitlines()
        print("CONFIRM %s %s [%s %s] rc=%d: %s" % (prop, os.path.basename(d), pkg, run, r.returncode, out[-1] if out else ""), flush=True)
