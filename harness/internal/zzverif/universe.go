// Package zzverif is injected into the repository at build time (go build -overlay) and is
// shared by the simulation harnesses: a small dense universe of object addresses, a
// deterministic object builder, and the reference model M1 of object statuses.
//
// The model is written from the property statements (/verif/properties.jsonl) and the docs,
// not from the implementation: where the statements leave an answer open the model is
// set-valued.
package zzverif

import (
	"crypto/sha256"
	"fmt"
	"strconv"

	"github.com/nspcc-dev/neofs-sdk-go/checksum"
	cid "github.com/nspcc-dev/neofs-sdk-go/container/id"
	"github.com/nspcc-dev/neofs-sdk-go/object"
	oid "github.com/nspcc-dev/neofs-sdk-go/object/id"
	"github.com/nspcc-dev/neofs-sdk-go/user"
	"github.com/nspcc-dev/neofs-sdk-go/version"
)

// Kind of a logical object.
type Kind int

const (
	KReg Kind = iota
	KTomb
	KLock
	KLink
)

func (k Kind) String() string { return [...]string{"REG", "TS", "LOCK", "LINK"}[k] }

// Spec fully determines one object of the universe (header and payload).
type Spec struct {
	ID     int // index into the universe's object IDs
	Cnr    int // container index
	Kind   Kind
	Parent int  // index of the parent whose header this object carries, -1 if none
	NoIDPa bool // carries a parent header without ID (first part of a v2 split chain)
	First  int  // first-split-object ID index (v2 split), -1 if none
	Split  int  // v1 split ID number, -1 if none
	Exp    int  // expiration epoch, -1 if none
	Size   int  // payload size
	Target int  // associated object (tombstone / lock target), -1 if none
	ECRule int  // EC rule index, -1 if not an EC part
	ECPart int
	Attrs  [][2]string
	Salt   uint32 // payload salt
	// Virtual marks a header-only parent (never stored physically by the workload).
	Virtual bool
}

func (s *Spec) String() string {
	x := fmt.Sprintf("o%d/c%d %s", s.ID, s.Cnr, s.Kind)
	if s.Parent >= 0 {
		x += fmt.Sprintf(" par=o%d", s.Parent)
	}
	if s.NoIDPa {
		x += " par=(noid)"
	}
	if s.First >= 0 {
		x += fmt.Sprintf(" first=o%d", s.First)
	}
	if s.Split >= 0 {
		x += fmt.Sprintf(" split=%d", s.Split)
	}
	if s.Exp >= 0 {
		x += fmt.Sprintf(" exp=%d", s.Exp)
	}
	if s.Target >= 0 {
		x += fmt.Sprintf(" target=o%d", s.Target)
	}
	if s.ECRule >= 0 {
		x += fmt.Sprintf(" ec=%d/%d", s.ECRule, s.ECPart)
	}
	x += fmt.Sprintf(" size=%d", s.Size)
	for _, a := range s.Attrs {
		x += fmt.Sprintf(" %s=%q", a[0], a[1])
	}
	return x
}

// Universe is the small dense world of one run.
type Universe struct {
	Salt  uint32
	Cnrs  []cid.ID
	IDs   []oid.ID
	Owner user.ID
	Specs map[int]*Spec // by ID index, filled lazily by the workload
}

// NewUniverse creates ncnr containers and nobj object IDs derived from salt.
func NewUniverse(salt uint32, ncnr, nobj int) *Universe {
	u := &Universe{Salt: salt, Specs: map[int]*Spec{}}
	for i := 0; i < ncnr; i++ {
		u.Cnrs = append(u.Cnrs, cid.ID(sha256.Sum256([]byte(fmt.Sprintf("cnr-%d-%d", salt, i)))))
	}
	for i := 0; i < nobj; i++ {
		u.IDs = append(u.IDs, oid.ID(sha256.Sum256([]byte(fmt.Sprintf("obj-%d-%d", salt, i)))))
	}
	var sh [20]byte
	copy(sh[:], sha256.New().Sum([]byte("owner"))[:20])
	u.Owner = user.NewFromScriptHash(sh)
	return u
}

// Addr returns the address of object index i in the container of its spec (or cnr).
func (u *Universe) Addr(cnr, id int) oid.Address { return oid.NewAddress(u.Cnrs[cnr], u.IDs[id]) }

// IDIndex maps an object ID back to its index (-1 if foreign).
func (u *Universe) IDIndex(id oid.ID) int {
	for i := range u.IDs {
		if u.IDs[i] == id {
			return i
		}
	}
	return -1
}

// CnrIndex maps a container ID back to its index (-1 if foreign).
func (u *Universe) CnrIndex(c cid.ID) int {
	for i := range u.Cnrs {
		if u.Cnrs[i] == c {
			return i
		}
	}
	return -1
}

// Payload returns the deterministic payload of a spec.
func (u *Universe) Payload(s *Spec) []byte {
	if s.Kind == KTomb || s.Kind == KLock {
		return nil
	}
	b := make([]byte, s.Size)
	seed := sha256.Sum256([]byte(fmt.Sprintf("pl-%d-%d-%d", u.Salt, s.ID, s.Salt)))
	for i := range b {
		if i%32 == 0 && i > 0 {
			seed = sha256.Sum256(seed[:])
		}
		b[i] = seed[i%32]
	}
	return b
}

func (u *Universe) header(s *Spec, withPayload bool) *object.Object {
	obj := object.New(u.Cnrs[s.Cnr], u.Owner)
	ver := version.Current()
	obj.SetVersion(&ver)
	obj.SetID(u.IDs[s.ID])
	obj.SetCreationEpoch(1)
	var attrs []object.Attribute
	for _, a := range s.Attrs {
		attrs = append(attrs, object.NewAttribute(a[0], a[1]))
	}
	if s.Exp >= 0 {
		attrs = append(attrs, object.NewAttribute(object.AttributeExpirationEpoch, strconv.Itoa(s.Exp)))
	}
	if s.ECRule >= 0 {
		attrs = append(attrs, object.NewAttribute("__NEOFS__EC_RULE_IDX", strconv.Itoa(s.ECRule)),
			object.NewAttribute("__NEOFS__EC_PART_IDX", strconv.Itoa(s.ECPart)))
	}
	obj.SetAttributes(attrs...)
	switch s.Kind {
	case KTomb:
		obj.AssociateDeleted(u.IDs[s.Target])
	case KLock:
		obj.AssociateLocked(u.IDs[s.Target])
	case KLink:
		obj.SetType(object.TypeLink)
	}
	pl := u.Payload(s)
	obj.SetPayloadSize(uint64(len(pl)))
	obj.SetPayloadChecksum(checksum.NewSHA256(sha256.Sum256(pl)))
	if withPayload {
		obj.SetPayload(pl)
	}
	if s.First >= 0 {
		obj.SetFirstID(u.IDs[s.First])
	}
	if s.Split >= 0 {
		var raw [16]byte
		copy(raw[:], sha256.New().Sum([]byte(fmt.Sprintf("split-%d-%d", u.Salt, s.Split))))
		raw[6] = (raw[6] & 0x0f) | 0x40 // uuid v4
		raw[8] = (raw[8] & 0x3f) | 0x80
		obj.SetSplitID(object.NewSplitIDFromV2(raw[:]))
	}
	return obj
}

// Build returns the full object for a spec (header, parent header, payload).
func (u *Universe) Build(s *Spec) *object.Object {
	obj := u.header(s, true)
	if s.Parent >= 0 {
		ps := u.Specs[s.Parent]
		if ps == nil {
			panic(fmt.Sprintf("zzverif: parent spec o%d missing", s.Parent))
		}
		par := u.header(ps, false)
		if ps.Parent >= 0 {
			// two-level nesting: EC part -> size-split part -> root
			gs := u.Specs[ps.Parent]
			if gs == nil {
				panic(fmt.Sprintf("zzverif: grandparent spec o%d missing", ps.Parent))
			}
			par.SetParent(u.header(gs, false))
			par.SetParentID(u.IDs[ps.Parent])
		}
		obj.SetParent(par)
		obj.SetParentID(u.IDs[s.Parent])
	} else if s.NoIDPa {
		par := object.New(u.Cnrs[s.Cnr], u.Owner)
		par.SetAttributes(object.NewAttribute("FileName", "split"))
		obj.SetParent(par)
	}
	return obj
}
