package governance

// C36: alphabet rotation keeps size, uniqueness and the one-third replacement bound.
//
// The real Processor.processAlphabetSync (with the real newAlphabetList and updateInnerRing)
// runs against a small chain model: the main-net NeoFSAlphabet list, the FS-chain committee
// and the FS-chain inner ring list evolve over a seeded history; every sync's recorded actions
// (vote, inner ring update, notary update, main-net contract update) are judged by an oracle
// written from the statement and then applied back to the model.  The five calls to the
// concrete chain clients go through the seam of rules/gov.json (zzvGovChain).

import (
	"errors"
	"fmt"
	"sort"
	"strings"
	"sync"
	"testing"

	"github.com/nspcc-dev/neo-go/pkg/crypto/keys"
	"github.com/nspcc-dev/neo-go/pkg/util"
	"go.uber.org/zap"
	"verif/simkit"
)

const gU = 10 // size of the key universe

type gKeys struct {
	pub  [gU]*keys.PublicKey
	idx  map[string]int
	rank []int // key indices in the order the keys sort (bytes)
}

var (
	gKeyMu    sync.Mutex
	gKeyCache = map[int]*gKeys{}
)

// gUniverse builds the deterministic key universe number salt (cached per process: the keys
// are immutable values, only fresh copies are handed to the code under test).
func gUniverse(salt int) *gKeys {
	gKeyMu.Lock()
	defer gKeyMu.Unlock()
	if k := gKeyCache[salt]; k != nil {
		return k
	}
	k := &gKeys{idx: map[string]int{}}
	var all keys.PublicKeys
	for i := 0; i < gU; i++ {
		var b [32]byte
		b[0] = byte(salt + 1)
		b[15] = byte(7*i + 3*salt + 1)
		b[31] = byte(i + 1)
		priv, err := keys.NewPrivateKeyFromBytes(b[:])
		if err != nil {
			panic(err)
		}
		k.pub[i] = priv.PublicKey()
		k.idx[string(k.pub[i].Bytes())] = i
		all = append(all, k.pub[i])
	}
	sort.Sort(all)
	for _, p := range all {
		k.rank = append(k.rank, k.idx[string(p.Bytes())])
	}
	gKeyCache[salt] = k
	return k
}

func (k *gKeys) list(ix []int) keys.PublicKeys {
	res := make(keys.PublicKeys, 0, len(ix))
	for _, i := range ix {
		cp := *k.pub[i] // a fresh object per fetch, as a chain client would return
		res = append(res, &cp)
	}
	return res
}

func (k *gKeys) indices(l keys.PublicKeys) []int {
	res := make([]int, 0, len(l))
	for _, p := range l {
		if p == nil {
			res = append(res, -1)
			continue
		}
		i, ok := k.idx[string(p.Bytes())]
		if !ok {
			i = -1
		}
		res = append(res, i)
	}
	return res
}

func gName(i int) string {
	if i < 0 {
		return "?"
	}
	return string(rune('A' + i))
}

func gStr(ix []int) string {
	var sb strings.Builder
	for _, i := range ix {
		sb.WriteString(gName(i))
	}
	if sb.Len() == 0 {
		return "-"
	}
	return sb.String()
}

func gSorted(ix []int) []int {
	c := append([]int(nil), ix...)
	sort.Ints(c)
	return c
}

func gSetStr(ix []int) string { return gStr(gSorted(ix)) }

func gHas(ix []int, x int) bool {
	for _, i := range ix {
		if i == x {
			return true
		}
	}
	return false
}

func gHasDup(ix []int) bool {
	s := gSorted(ix)
	for i := 1; i < len(s); i++ {
		if s[i] == s[i-1] {
			return true
		}
	}
	return false
}

func gUniq(ix []int) []int {
	var res []int
	for _, i := range gSorted(ix) {
		if len(res) == 0 || res[len(res)-1] != i {
			res = append(res, i)
		}
	}
	return res
}

func gSameSet(a, b []int) bool {
	x, y := gUniq(a), gUniq(b)
	if len(x) != len(y) {
		return false
	}
	for i := range x {
		if x[i] != y[i] {
			return false
		}
	}
	return true
}

func gMinus(a, b []int) []int {
	var res []int
	for _, i := range gUniq(a) {
		if !gHas(b, i) {
			res = append(res, i)
		}
	}
	return res
}

func gSubset(a, b []int) bool { return len(gMinus(a, b)) == 0 }

var errGovSim = errors.New("simulated chain error")

// gWorld is the chain model and, at the same time, every dependency of the processor.
type gWorld struct {
	r  *simkit.R
	ks *gKeys
	gp *Processor

	main      []int // main-net NeoFSAlphabet role, as stored (duplicates only in runs that enable them)
	committee []int // FS-chain committee = current alphabet
	ir        []int // FS-chain NeoFSAlphabet role = inner ring list
	pending   []int // voted committee not yet in effect
	epoch     uint64

	// views and fault plan of the sync in progress
	vMain, vCommittee, vIR                                                    []int
	fMain, fCommittee, fIR, fVote, fUpdIR, fNotary, fMainUpd                  bool
	votes, irUpd, notary, mainUpd                                             [][]int
	gotMain, gotCommittee, gotIR                                              bool
	deferredClass, deferredSig, deferredMsg                                   string
	proposals, irChecked, nFaults, dupFindings, promoted, syncsWithNewMainKey int
}

func (w *gWorld) IsAlphabet() bool     { return true }
func (w *gWorld) EpochCounter() uint64 { return w.epoch }

func (w *gWorld) MainnetAlphabet() (keys.PublicKeys, error) {
	if w.fMain {
		w.r.Fired("mainnet-list-fetch-fails")
		return nil, errGovSim
	}
	w.gotMain = true
	return w.ks.list(w.vMain), nil
}

func (w *gWorld) Committee() (keys.PublicKeys, error) {
	if w.fCommittee {
		w.r.Fired("committee-fetch-fails")
		return nil, errGovSim
	}
	w.gotCommittee = true
	return w.ks.list(w.vCommittee), nil
}

func (w *gWorld) InnerRingKeys() (keys.PublicKeys, error) {
	if w.fIR {
		w.r.Fired("inner-ring-fetch-fails")
		return nil, errGovSim
	}
	w.gotIR = true
	return w.ks.list(w.vIR), nil
}

func (w *gWorld) VoteForFSChainValidator(l keys.PublicKeys, _ *util.Uint256) error {
	w.votes = append(w.votes, w.ks.indices(l))
	if w.fVote {
		w.r.Fired("vote-fails")
		return errGovSim
	}
	return nil
}

func (w *gWorld) UpdateInnerRing(l keys.PublicKeys, _ util.Uint256) error {
	w.irUpd = append(w.irUpd, w.ks.indices(l))
	if w.fUpdIR {
		w.r.Fired("inner-ring-update-fails")
		return errGovSim
	}
	return nil
}

func (w *gWorld) UpdateNotary(l keys.PublicKeys, _ util.Uint256) error {
	w.notary = append(w.notary, w.ks.indices(l))
	if w.fNotary {
		w.r.Fired("notary-update-fails")
		return errGovSim
	}
	return nil
}

func (w *gWorld) AlphabetUpdate(_ []byte, l keys.PublicKeys) error {
	w.mainUpd = append(w.mainUpd, w.ks.indices(l))
	if w.fMainUpd {
		w.r.Fired("mainnet-contract-update-fails")
		return errGovSim
	}
	return nil
}

// violate reports a violation.  The two shapes that are listed as open findings are deferred to
// the end of the run (and the history continues from a repaired state) so that they cannot hide
// a different violation.
func (w *gWorld) violate(deferIt bool, class, sig, format string, args ...any) {
	if !deferIt {
		w.r.Failf(class, sig, format, args...)
	}
	if w.deferredClass == "" {
		w.deferredClass, w.deferredSig, w.deferredMsg = class, sig, fmt.Sprintf(format, args...)
	}
	w.dupFindings++
}

func (w *gWorld) permuted(ix []int) []int {
	p := w.r.Perm(len(ix))
	res := make([]int, len(ix))
	for i, j := range p {
		res[i] = ix[j]
	}
	return res
}

// syncOnce runs one real processAlphabetSync against the current model state, judges the
// recorded actions and returns (new alphabet or nil, new inner ring list or nil).
func (w *gWorld) syncOnce(ctx string) (prop []int, newIR []int) {
	cur := gSorted(w.committee)
	mainList := append([]int(nil), w.main...)
	irOld := append([]int(nil), w.ir...)
	w.votes, w.irUpd, w.notary, w.mainUpd = nil, nil, nil, nil
	w.gotMain, w.gotCommittee, w.gotIR = false, false, false

	var h util.Uint256
	h[0] = byte(w.epoch)
	w.gp.processAlphabetSync(h)

	n := len(cur)
	limit := 0
	if n > 0 {
		limit = (n - 1) / 3 // floor((n-1)/3) of the statement
	}
	mainDup := gHasDup(mainList)
	state := fmt.Sprintf("%s: alphabet=%s (n=%d, at most %d new) main-net=%s inner ring=%s", ctx, gStr(cur), n, limit, gStr(mainList), gSetStr(irOld))

	type named struct {
		where string
		l     []int
	}
	var alphas []named
	for _, l := range w.votes {
		alphas = append(alphas, named{"vote", l})
	}
	for _, l := range w.notary {
		alphas = append(alphas, named{"notary-list", l})
	}
	for _, l := range w.mainUpd {
		alphas = append(alphas, named{"mainnet-contract", l})
	}
	if len(w.votes) > 1 {
		w.violate(false, "gov-alphabet", "vote:several-proposals-in-one-sync", "%s: %d votes in one sync", state, len(w.votes))
	}
	dupDeferred := false
	for _, a := range alphas {
		p := a.l
		desc := fmt.Sprintf("%s; %s got %s", state, a.where, gStr(gSorted(p)))
		if gHas(p, -1) {
			w.violate(false, "gov-alphabet", a.where+":unknown-key", "%s: a key that is in no list", desc)
		}
		if !w.gotMain || !w.gotCommittee {
			w.violate(false, "gov-alphabet", a.where+":proposed-without-both-lists", "%s: the main-net list or the committee could not be read in this sync", desc)
		}
		if len(p) != n {
			w.violate(false, "gov-alphabet", a.where+":size-changed", "%s: size %d, current alphabet has %d", desc, len(p), n)
		}
		if gHasDup(p) {
			if mainDup {
				w.violate(true, "gov-alphabet", a.where+":duplicate-key:mainnet-list-has-duplicates", "%s: the new alphabet contains a key twice (the main-net list contains a key twice)", desc)
				dupDeferred = true
				continue
			}
			w.violate(false, "gov-alphabet", a.where+":duplicate-key", "%s: the new alphabet contains a key twice", desc)
		}
		if !gSubset(p, append(append([]int(nil), cur...), mainList...)) {
			w.violate(false, "gov-alphabet", a.where+":foreign-key", "%s: contains %s, neither current members nor main-net keys", desc, gStr(gMinus(p, append(append([]int(nil), cur...), mainList...))))
		}
		if nw := gMinus(p, cur); len(nw) > limit {
			w.violate(false, "gov-alphabet", a.where+":too-many-new-keys", "%s: %d new keys (%s), bound is %d", desc, len(nw), gStr(nw), limit)
		}
		if gSameSet(p, cur) {
			w.violate(false, "gov-alphabet", a.where+":proposed-although-unchanged", "%s: equals the current alphabet", desc)
		}
	}
	for i := 1; i < len(alphas); i++ {
		if !gSameSet(alphas[i].l, alphas[0].l) || len(alphas[i].l) != len(alphas[0].l) {
			w.violate(dupDeferred, "gov-alphabet", alphas[i].where+":differs-from-"+alphas[0].where, "%s: %s got %s but %s got %s", state, alphas[0].where, gSetStr(alphas[0].l), alphas[i].where, gSetStr(alphas[i].l))
		}
	}
	if len(alphas) > 0 && len(w.votes) == 0 {
		w.violate(false, "gov-alphabet", alphas[0].where+":new-alphabet-not-voted", "%s: %s got %s but no vote was cast", state, alphas[0].where, gSetStr(alphas[0].l))
	}
	if len(alphas) > 0 {
		prop = alphas[0].l
		w.proposals++
		w.r.Logf("  -> proposes %s (new: %s, leaving: %s)", gSetStr(prop), gStr(gMinus(prop, cur)), gStr(gMinus(cur, prop)))
		w.r.Probe("sync:proposal")
		if len(gMinus(prop, cur)) == limit {
			w.r.Probe("sync:proposal-uses-the-whole-bound")
		}
		if len(gMinus(mainList, cur)) > limit {
			w.r.Probe("sync:more-new-main-net-keys-than-the-bound")
		}
	} else {
		w.r.Logf("  -> no proposal")
		switch {
		case !w.gotMain || !w.gotCommittee:
			w.r.Probe("sync:no-proposal:list-unreadable")
		case len(mainList) < n:
			w.r.Probe("sync:no-proposal:main-net-list-shorter-than-alphabet")
		case gSubset(mainList, cur):
			w.r.Probe("sync:no-proposal:no-new-main-net-key")
		case limit == 0:
			w.r.Probe("sync:no-proposal:bound-is-zero")
		default:
			w.r.Probe("sync:no-proposal:new-keys-sort-after-the-first-n")
		}
	}

	// progress: see Assumptions (a sync must move towards a main-net list of the same size)
	if len(alphas) == 0 && w.gotMain && w.gotCommittee && !mainDup && len(mainList) == n && limit >= 1 && !gSameSet(mainList, cur) {
		w.violate(false, "gov-progress", "no-proposal-although-mainnet-differs", "%s: nothing proposed although the main-net list has the alphabet's size, differs from it and %d key(s) may be replaced", state, limit)
	}

	// inner ring list
	if len(w.irUpd) > 1 {
		w.violate(false, "gov-inner-ring", "several-updates-in-one-sync", "%s: %d inner ring updates", state, len(w.irUpd))
	}
	if len(w.irUpd) > 0 && prop == nil {
		w.violate(false, "gov-inner-ring", "update-without-new-alphabet", "%s: inner ring list set to %s although no alphabet was proposed", state, gSetStr(w.irUpd[0]))
	}
	if prop != nil && !dupDeferred {
		added, removed := gMinus(prop, cur), gMinus(cur, prop)
		pre := gSubset(cur, irOld) && !gHasDup(irOld)
		switch {
		case len(w.irUpd) == 0:
			if w.gotIR && pre {
				w.violate(false, "gov-inner-ring", "no-list-derived", "%s: new alphabet %s but no inner ring list was derived although the current list was read", state, gSetStr(prop))
			}
		case !pre:
			w.r.Probe("inner-ring-check-skipped:list-lacks-alphabet-keys")
			newIR = w.irUpd[0]
			if gHasDup(newIR) || !gSubset(prop, newIR) {
				// outside the quantifier (see Assumptions); counted as an observation only
				w.r.Probe("observation:skewed-inner-ring-list-gets-duplicates-or-loses-alphabet-keys")
				w.r.Logf("  (inner ring list lacked alphabet keys; derived list %s)", gStr(gSorted(newIR)))
			}
		default:
			newIR = w.irUpd[0]
			w.irChecked++
			want := gUniq(append(gMinus(irOld, removed), added...))
			desc := fmt.Sprintf("%s; new alphabet %s (+%s -%s); derived inner ring %s", state, gSetStr(prop), gStr(added), gStr(removed), gStr(gSorted(newIR)))
			if gHas(newIR, -1) {
				w.violate(false, "gov-inner-ring", "unknown-key", "%s", desc)
			}
			overlap := len(added) != len(gMinus(added, irOld))
			if overlap {
				w.r.Probe("new-alphabet-key-was-already-an-inner-ring-node")
			}
			if len(irOld) > n {
				w.r.Probe("inner-ring-has-non-alphabet-nodes")
			}
			if gHasDup(newIR) {
				if overlap {
					w.violate(true, "gov-inner-ring", "duplicate-key:new-alphabet-key-already-in-inner-ring", "%s: a key twice (a new alphabet key was already an inner ring node)", desc)
					newIR = gUniq(newIR)
				} else {
					w.violate(false, "gov-inner-ring", "duplicate-key", "%s: a key twice", desc)
				}
			}
			if !gSameSet(newIR, want) {
				w.violate(false, "gov-inner-ring", "not-exactly-the-replaced-keys", "%s: expected %s (old list minus leaving keys plus new keys)", desc, gStr(want))
			}
			if !overlap && len(newIR) != len(irOld) {
				w.violate(false, "gov-inner-ring", "length-changed", "%s: length %d, old list has %d", desc, len(newIR), len(irOld))
			}
		}
	}
	if dupDeferred {
		return nil, nil
	}
	return prop, newIR
}

// planSync draws the list views and the fault of the next sync.  Faults that leave the FS chain
// in a skewed state (alphabet changed without the inner ring list or vice versa) only happen in
// runs that enable skew: after them the inner ring list no longer contains the alphabet, which is
// outside the lists the property quantifies over.
func (w *gWorld) planSync(faults, skew bool) {
	r := w.r
	w.vMain = w.permuted(w.main)
	w.vCommittee = w.permuted(w.committee)
	w.vIR = w.permuted(w.ir)
	w.fMain, w.fCommittee, w.fIR, w.fVote, w.fUpdIR, w.fNotary, w.fMainUpd = false, false, false, false, false, false, false
	if faults && r.Bool(30) {
		k := 4
		if skew {
			k = 7
		}
		switch r.Intn(k) {
		case 0:
			w.fNotary = true
		case 1:
			w.fMainUpd = true
		case 2:
			w.fMain = true
		case 3:
			w.fCommittee = true
		case 4:
			w.fVote = true
		case 5:
			w.fUpdIR = true
		case 6:
			w.fIR = true
		}
		w.nFaults++
	}
}

func (w *gWorld) outside(of []int) []int {
	var res []int
	for i := 0; i < gU; i++ {
		if !gHas(of, i) {
			res = append(res, i)
		}
	}
	return res
}

func (w *gWorld) applyPending() {
	if w.pending != nil {
		w.committee = w.pending
		w.pending = nil
		w.r.Logf("chain: voted committee takes effect: alphabet=%s", gSetStr(w.committee))
	}
}

func runC36(r *simkit.R) {
	salt := r.Intn(8)
	w := &gWorld{r: r, ks: gUniverse(salt)}
	w.gp = &Processor{log: zap.NewNop(), alphabetState: w, epochState: w, voter: w, irFetcher: w}
	zzvGovChain = w
	r.OnCleanup(func() { zzvGovChain = nil })

	n := []int{4, 7, 5, 6, 1, 2, 3, 8, 9}[r.Weighted(20, 25, 12, 12, 3, 3, 5, 10, 10)]
	p := r.Perm(gU)
	w.committee = append([]int(nil), p[:n]...)
	rest := p[n:]
	switch r.Weighted(50, 25, 25) {
	case 0:
		w.main = append([]int(nil), w.committee...)
	case 1: // a full rotation target
		if len(rest) >= n {
			w.main = append([]int(nil), rest[:n]...)
		} else {
			w.main = append(append([]int(nil), rest...), w.committee[:n-len(rest)]...)
		}
	case 2: // superset
		w.main = append(append([]int(nil), w.committee...), rest[:r.Intn(len(rest)+1)]...)
	}
	w.ir = append([]int(nil), w.committee...)
	for i, k := 0, r.Intn(3); i < k && i < len(rest); i++ {
		w.ir = append(w.ir, rest[len(rest)-1-i])
	}
	dupRun := r.Bool(20)
	faultRun := r.Bool(50)
	skewRun := faultRun && r.Bool(40)
	steps := 8 + r.Intn(25)
	r.Logf("config: universe#%d of %d keys, alphabet=%s main-net=%s inner ring=%s, steps=%d, main-net duplicates %v, chain faults %v, skewing faults %v", salt, gU, gSetStr(w.committee), gStr(w.main), gSetStr(w.ir), steps, dupRun, faultRun, skewRun)

	for s := 0; s < steps; s++ {
		r.Step()
		switch r.Weighted(40, 35, 15, 10) {
		case 0:
			w.planSync(faultRun, skewRun)
			w.epoch++
			r.Op("sync #%d: alphabet=%s main-net=%s inner ring=%s%s", w.epoch, gSetStr(w.committee), gStr(w.main), gSetStr(w.ir), w.faultStr())
			if len(gMinus(w.main, w.committee)) > 0 {
				w.syncsWithNewMainKey++
			}
			prop, newIR := w.syncOnce(fmt.Sprintf("sync #%d", w.epoch))
			if prop != nil && !w.fVote {
				w.promoted += len(gMinus(prop, w.committee))
				if skewRun && r.Bool(30) {
					w.pending = gSorted(prop)
					r.Fired("vote-takes-effect-late")
					r.Logf("chain: vote accepted, committee changes later")
				} else {
					w.pending = nil
					w.committee = gSorted(prop)
				}
			}
			if newIR != nil && !w.fUpdIR {
				w.ir = gSorted(newIR)
			}
		case 1:
			w.mutateMain(dupRun)
		case 2:
			w.mutateIR()
		case 3:
			switch r.Intn(3) {
			case 0:
				w.applyPending()
				r.Op("chain: a block passes")
			case 1:
				// the committee designates the inner ring list anew: alphabet plus the other nodes
				w.applyPending()
				extras := gMinus(w.ir, w.committee)
				if len(extras) > 2 {
					extras = extras[:2]
				}
				w.ir = gUniq(append(append([]int(nil), w.committee...), extras...))
				r.Op("chain: inner ring list designated anew: %s", gSetStr(w.ir))
			case 2:
				w.epoch++
				r.Op("chain: epoch %d", w.epoch)
			}
		}
	}
	if r.Thorough() {
		w.enumerateCell()
	}
	if w.proposals > 0 && w.irChecked > 0 && (w.nFaults > 0 || w.dupFindings > 0 || w.promoted >= 2) {
		r.Nontrivial()
	}
	if w.deferredClass != "" {
		r.Failf(w.deferredClass, w.deferredSig, "%s", w.deferredMsg)
	}
}

func (w *gWorld) faultStr() string {
	var fs []string
	for _, f := range []struct {
		on bool
		s  string
	}{{w.fMain, "main-net list unreadable"}, {w.fCommittee, "committee unreadable"}, {w.fIR, "inner ring list unreadable"}, {w.fVote, "vote fails"}, {w.fUpdIR, "inner ring update fails"}, {w.fNotary, "notary update fails"}, {w.fMainUpd, "main-net contract update fails"}} {
		if f.on {
			fs = append(fs, f.s)
		}
	}
	if len(fs) == 0 {
		return ""
	}
	return " [" + strings.Join(fs, ", ") + "]"
}

func (w *gWorld) mutateMain(dupRun bool) {
	r := w.r
	out := w.outside(w.main)
	wDup := 0
	if dupRun {
		wDup = 25
	}
	switch r.Weighted(30, 18, 8, 10, 20, 8, wDup) {
	case 0: // replace one key by an outside key
		if len(out) > 0 && len(w.main) > 0 {
			i := r.Intn(len(w.main))
			k := out[r.Intn(len(out))]
			r.Op("main-net: %s replaced by %s", gName(w.main[i]), gName(k))
			w.main[i] = k
			r.Fired("mainnet-key-replaced")
			return
		}
	case 1: // add a key
		if len(out) > 0 {
			k := out[r.Intn(len(out))]
			w.main = append(w.main, k)
			r.Op("main-net: %s added", gName(k))
			r.Fired("mainnet-key-added")
			return
		}
	case 2: // remove a key
		if len(w.main) > 0 {
			i := r.Intn(len(w.main))
			r.Op("main-net: %s removed", gName(w.main[i]))
			w.main = append(w.main[:i], w.main[i+1:]...)
			if len(gUniq(w.main)) < len(w.committee) {
				r.Fired("mainnet-list-shorter-than-alphabet")
			}
			return
		}
	case 3: // reorder
		w.main = w.permuted(w.main)
		r.Op("main-net: reordered to %s", gStr(w.main))
		r.Fired("mainnet-reordered")
		return
	case 4: // a whole new list of the alphabet's size (or larger)
		p := r.Perm(gU)
		k := len(w.committee) + r.Intn(3)
		if k > gU {
			k = gU
		}
		w.main = append([]int(nil), p[:k]...)
		r.Op("main-net: new list %s", gStr(w.main))
		r.Fired("mainnet-new-list")
		return
	case 5: // main-net follows the FS chain (lists in sync again)
		w.main = append([]int(nil), w.committee...)
		r.Op("main-net: set to the current alphabet %s", gStr(w.main))
		return
	case 6:
		if len(w.main) > 0 {
			k := w.main[r.Intn(len(w.main))]
			w.main = append(w.main, k)
			r.Op("main-net: %s listed twice", gName(k))
			r.Fired("mainnet-duplicate-key")
			return
		}
	}
	r.Op("main-net: unchanged")
}

func (w *gWorld) mutateIR() {
	r := w.r
	extras := gMinus(w.ir, w.committee)
	out := w.outside(w.ir)
	if len(extras) < 2 && len(out) > 0 && (len(extras) == 0 || r.Bool(60)) {
		// prefer a main-net candidate: a node that joins the inner ring before it enters the alphabet
		cand := gMinus(w.main, w.ir)
		var k int
		if len(cand) > 0 && !r.Bool(30) {
			k = cand[r.Intn(len(cand))]
			r.Fired("inner-ring-extra-is-mainnet-candidate")
		} else {
			k = out[r.Intn(len(out))]
		}
		w.ir = gSorted(append(w.ir, k))
		r.Op("inner ring: node %s joins (not alphabet)", gName(k))
		return
	}
	if len(extras) > 0 {
		k := extras[r.Intn(len(extras))]
		var res []int
		for _, i := range w.ir {
			if i != k {
				res = append(res, i)
			}
		}
		w.ir = res
		r.Op("inner ring: node %s leaves", gName(k))
		return
	}
	r.Op("inner ring: unchanged")
}

var (
	gEnumSeen  [256 * 256]bool
	gEnumCount int
)

func gPop(m int) int {
	c := 0
	for ; m != 0; m &= m - 1 {
		c++
	}
	return c
}

// enumerateCell (thorough tier): ENUMERATION, not sampling inside the cell.  Over the 8
// smallest-sorting keys of the universe (masks are in sort-rank space, so the cell space does not
// depend on the universe number) the tape picks one cell = (current alphabet subset of size 1-7,
// main-net subset of any size) out of 254*256; within the cell every inner ring list = alphabet
// plus 0, 1 or 2 further keys is run through a fresh sync.  Cells covered per worker are counted.
func (w *gWorld) enumerateCell() {
	r := w.r
	curMask := 1 + r.Intn(254)
	mainMask := r.Intn(256)
	cell := curMask*256 + mainMask
	if !gEnumSeen[cell] {
		gEnumSeen[cell] = true
		gEnumCount++
		if gEnumCount == 254*256 {
			r.Probe("enumeration:every-cell-covered-by-one-worker")
		}
	}
	r.Probe("enumeration:cell")
	var rk []int // rank -> key index, restricted to the 8 first-sorting keys
	for _, i := range w.ks.rank {
		if len(rk) < 8 {
			rk = append(rk, i)
		}
	}
	set := func(m int) []int {
		var res []int
		for b := 0; b < 8; b++ {
			if m&(1<<b) != 0 {
				res = append(res, rk[b])
			}
		}
		return res
	}
	cur, mn := set(curMask), set(mainMask)
	var others []int
	for b := 0; b < 8; b++ {
		if curMask&(1<<b) == 0 {
			others = append(others, rk[b])
		}
	}
	r.Logf("enumeration cell: alphabet=%s main-net=%s, all inner ring lists with <= 2 further keys", gSetStr(cur), gSetStr(mn))
	w.pending = nil
	runOne := func(extras []int) {
		w.committee = append([]int(nil), cur...)
		w.main = append([]int(nil), mn...)
		w.ir = append(append([]int(nil), cur...), extras...)
		w.vMain, w.vCommittee, w.vIR = w.main, w.committee, w.ir
		w.fMain, w.fCommittee, w.fIR, w.fVote, w.fUpdIR, w.fNotary, w.fMainUpd = false, false, false, false, false, false, false
		w.syncOnce("enumeration, extra inner ring nodes " + gStr(extras))
		r.Probe("enumeration:case")
	}
	runOne(nil)
	for i := 0; i < len(others); i++ {
		runOne([]int{others[i]})
		for j := i + 1; j < len(others); j++ {
			runOne([]int{others[i], others[j]})
		}
	}
}

func TestVerif(t *testing.T) {
	simkit.Main(t, &simkit.Property{
		ID: "C36", Level: "exploration", Bubble: false, TapeLimit: 3000,
		Rule: "each run = a history of 8-32 events over a universe of 10 deterministic keys (8 universes with different sort orders): alphabet (FS-chain committee) of size 1-9, main-net alphabet list (equal, disjoint of equal size, or superset at start) and an inner ring list = alphabet + 0-2 other nodes; events: main-net list changes (key replaced / added / removed / list reordered / whole new list / set back to the alphabet / a key listed twice in 20% of runs), inner ring nodes join (preferably main-net candidates) or leave, blocks and epochs pass, and sync events that run the real processAlphabetSync with permuted list views and, in half of the runs, one failing chain call per faulty sync (either alphabet list unreadable, notary update or main-net contract update failing; in 20% of the runs also the skewing faults: vote fails, inner ring update fails, inner ring list unreadable, vote takes effect only later); accepted votes and inner ring updates are applied to the chain model so the next sync starts from the new state. Oracle per sync from the statement: every recorded new alphabet (vote, notary list, main-net contract) has the current size, no duplicates, only current members and main-net keys, at most floor((n-1)/3) new keys, differs from the current alphabet, is only produced when both lists were read, and all three agree; the derived inner ring list (when the old one contains the alphabet) has no duplicates and equals the old list minus leaving keys plus new keys (same length unless a new key already was an inner ring node). Thorough tier additionally: ENUMERATION cell per run - the tape picks (alphabet subset of size 1-7, main-net subset) over 8 keys and all inner ring lists with 0-2 further keys are run exhaustively within the cell. distinct = trace digest; non-trivial = >= 1 proposal whose inner ring list was checked and (>= 1 injected chain fault, or a listed duplicate-key shape, or >= 2 keys promoted over the history)",
		Run:  runC36,
		Assumptions: []string{
			"progress (from the function's doc comment and unit tests, not from the statement): when both lists were read, the main-net list is duplicate-free, has exactly the alphabet's size, differs from it and floor((n-1)/3) >= 1, a sync must propose a change",
			"the vote, the notary list and the main-net contract update of one sync are all 'the new alphabet' and must agree",
			"the inner ring oracle applies only when the fetched inner ring list contains the whole current alphabet and no duplicates (the quantifier's lists); otherwise only the absence of a crash is checked",
			"key order inside lists is not part of the property (processAlphabetSync sorts what it submits); lists are compared as sets plus duplicate/length checks",
			"HandleAlphabetSync's worker pool and the IsAlphabet guard are not exercised (processAlphabetSync is called directly, always in alphabet mode)",
		},
		Components: map[string]string{
			"governance.Processor.processAlphabetSync, newAlphabetList, updateInnerRing": "real",
			"main-net client NeoFSAlphabetList, FS-chain client Committee / UpdateNeoFSAlphabetList / UpdateNotaryList, NeoFS contract client AlphabetUpdate": "simulated chain model behind the call-site seam of rules/gov.json (concrete client types)",
			"Voter, IRFetcher, EpochState, AlphabetState":                                     "simulated (interfaces): recorded and applied to the chain model",
			"public keys": "real neo-go keys derived from fixed scalars",
		},
	})
}
