package simfs

import (
	"fmt"
	"iter"
	"sort"
	"sync/atomic"
)

// OrderSeed selects the order in which MapValues yields the values of a map whose Go
// iteration order is random (the engine's shard table).  The scheduler stores a value drawn
// from the run's tape before every step; all calls made during that step use the same
// permutation, so the order never depends on which goroutine asks first.  0 = sorted by key.
var OrderSeed atomic.Uint64

// MapValues replaces maps.Values for maps whose iteration order is observable.
func MapValues[K comparable, V any](m map[K]V) iter.Seq[V] {
	type kv struct {
		s string
		k K
	}
	ks := make([]kv, 0, len(m))
	for k := range m {
		ks = append(ks, kv{fmt.Sprint(k), k})
	}
	sort.Slice(ks, func(i, j int) bool { return ks[i].s < ks[j].s })
	if seed := OrderSeed.Load(); seed != 0 && len(ks) > 1 {
		// Fisher-Yates driven by a splitmix sequence of the seed
		x := seed
		next := func() uint64 {
			x += 0x9e3779b97f4a7c15
			z := x
			z = (z ^ (z >> 30)) * 0xbf58476d1ce4e5b9
			z = (z ^ (z >> 27)) * 0x94d049bb133111eb
			return z ^ (z >> 31)
		}
		for i := len(ks) - 1; i > 0; i-- {
			j := int(next() % uint64(i+1))
			ks[i], ks[j] = ks[j], ks[i]
		}
	}
	return func(yield func(V) bool) {
		for _, e := range ks {
			if !yield(m[e.k]) {
				return
			}
		}
	}
}
