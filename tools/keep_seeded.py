#!/usr/bin/env python3
"""keep_seeded.py <agent out dir (bugN)> <seeded id> <check id> <detected: yes|no|after-strengthening> <note>
Copies a confirmed seeded change into /verif/seeded/<id>/ (patch.diff, demonstration, meta.json)."""
import json, os, shutil, sys
src, sid, check, detected, note = sys.argv[1:6]
dst = os.path.join(os.path.dirname(os.path.dirname(os.path.abspath(__file__))), "seeded", sid)
os.makedirs(dst, exist_ok=True)
for f in os.listdir(src):
    if f == "meta.json":
        continue
    if os.path.isdir(os.path.join(src, f)):
        shutil.copytree(os.path.join(src, f), os.path.join(dst, f), dirs_exist_ok=True)
    else:
        shutil.copy2(os.path.join(src, f), os.path.join(dst, f))
m = {}
mp = os.path.join(src, "meta.json")
if os.path.exists(mp):
    m = json.load(open(mp))
m.update({"seeded_id": sid, "checked_with": "./vcheck run %s" % check, "detected": detected, "note": note,
          "confirmed": "patch applies to /repo HEAD, project builds, demonstration fails with the patch and passes without it (confirmed in a scratch worktree); check run against a scratch worktree with the patch applied (tools/trymut.sh; VERIF_REPO), /repo untouched"})
json.dump(m, open(os.path.join(dst, "meta.json"), "w"), indent=1)
print("kept", dst)
