#!/bin/bash
# tools/confirm_seeded.sh <bug dir> <package dir rel. to repo> <test -run regex> [demo file name in bug dir]
# Confirms in a scratch worktree: demo passes on the clean tree, patch applies, project builds,
# demo fails with the patch, and the package's existing tests give the same verdicts as without it.
set -u
BUG=$(readlink -f "$1"); PKG=$2; RUN=$3; DEMO=${4:-demo_test.go}
export GOFLAGS=-mod=mod GOPROXY=off
D=/tmp/mutrun/confirm-$$
mkdir -p /tmp/mutrun
git -C /repo worktree add --detach "$D" HEAD -q || exit 2
trap 'git -C /repo worktree remove --force "$D"' EXIT
cd "$D"
cp "$BUG/$DEMO" "$PKG/zz_seeded_demo_test.go"
go test -count=1 -run "$RUN" "./$PKG/" > /tmp/mutrun/c-$$.clean 2>&1; rc_clean=$?
git apply "$BUG/patch.diff" || { echo "CONFIRM: patch does not apply"; exit 1; }
go build ./... > /tmp/mutrun/c-$$.build 2>&1 || { echo "CONFIRM: build fails"; tail -5 /tmp/mutrun/c-$$.build; exit 1; }
go test -count=1 -run "$RUN" "./$PKG/" > /tmp/mutrun/c-$$.mut 2>&1; rc_mut=$?
rm -f "$PKG/zz_seeded_demo_test.go"
# existing tests of the touched packages, with the patch
PKGS=$(git diff --name-only | xargs -n1 dirname | sort -u | sed 's|^|./|')
go test -count=1 $PKGS 2>&1 | grep -E "^(--- FAIL|FAIL|ok)" | sed -E 's/\(?[0-9.]+s\)?$//' | sort > /tmp/mutrun/c-$$.ex_mut
git checkout -q -- .
go test -count=1 $PKGS 2>&1 | grep -E "^(--- FAIL|FAIL|ok)" | sed -E 's/\(?[0-9.]+s\)?$//' | sort > /tmp/mutrun/c-$$.ex_clean
same=no; cmp -s /tmp/mutrun/c-$$.ex_mut /tmp/mutrun/c-$$.ex_clean && same=yes
echo "CONFIRM: demo clean rc=$rc_clean (want 0), demo with patch rc=$rc_mut (want !=0), existing tests same verdicts: $same (packages: $PKGS)"
[ "$same" = no ] && diff /tmp/mutrun/c-$$.ex_mut /tmp/mutrun/c-$$.ex_clean | head
rm -f /tmp/mutrun/c-$$.*
[ $rc_clean -eq 0 ] && [ $rc_mut -ne 0 ] && [ "$same" = yes ]
